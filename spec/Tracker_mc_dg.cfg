SPECIFICATION Spec
CONSTANTS
  CIDS = {"c1"}
  K = 1
  Q = 1
  MaxInstr = 4
  MaxFail = 1
  GatedFinish = FALSE
  Eager = FALSE
  RecoverUsesStatePin = TRUE
  StatusAllListsDirect = TRUE
  DirOverRecStuck = TRUE
  AllowDowngrade <- AllowDowngradeOn
INVARIANTS TypeOK OneOpPerCid QueueBound ConvergeInv NoDrop RecoverInv AgreeInv TruthfulInv
