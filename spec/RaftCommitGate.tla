--------------------------- MODULE RaftCommitGate ---------------------------
(***************************************************************************)
(* C01 (AckDurable), step model of consensus/raft Consensus.commit() on    *)
(* the leader against a concurrent Consensus.Shutdown():                   *)
(*   committer  check  : redirectToLeader - "we are the leader" (fails     *)
(*                       once raft is gone)                                *)
(*              gate   : between the leader check and shutdownLock.RLock() *)
(*              lock   : shutdownLock.RLock()                              *)
(*              commit : consensus.CommitOp (error once raft is shut down) *)
(*              unlock : RUnlock, return finalErr                          *)
(*   shutdowner lock   : shutdownLock.Lock()                               *)
(*              stop   : raft.Shutdown (snapshot, stop, close)             *)
(*              flag   : cc.shutdown = true                                *)
(*              unlock : Unlock                                            *)
(* Guard = "none" is the code as written; Guard = "break-nil" is the       *)
(* design "leave the retry loop when shut down" with finalErr still nil,   *)
(* which TLC refutes (acknowledged, never committed).                      *)
(***************************************************************************)
EXTENDS Integers, TLC

CONSTANT Guard      \* "none" | "break-nil"

VARIABLES pcC, pcS, readers, writer, raftUp, flag, result, committed, last
vars == <<pcC, pcS, readers, writer, raftUp, flag, result, committed, last>>

Init == /\ pcC = "check" /\ pcS = "lock" /\ readers = 0 /\ writer = FALSE
        /\ raftUp = TRUE /\ flag = FALSE /\ result = "none" /\ committed = FALSE
        /\ last = "init"

CCheck  == /\ pcC = "check"
           /\ IF raftUp THEN pcC' = "gate" /\ UNCHANGED result
                        ELSE pcC' = "done" /\ result' = "err"
           /\ last' = "c.check"
           /\ UNCHANGED <<pcS, readers, writer, raftUp, flag, committed>>
CGate   == /\ pcC = "gate" /\ pcC' = "lock" /\ last' = "c.gate"
           /\ UNCHANGED <<pcS, readers, writer, raftUp, flag, result, committed>>
CLock   == /\ pcC = "lock" /\ ~writer /\ readers' = 1 /\ pcC' = "commit" /\ last' = "c.lock"
           /\ UNCHANGED <<pcS, writer, raftUp, flag, result, committed>>
CCommit == /\ pcC = "commit" /\ pcC' = "unlock" /\ last' = "c.commit"
           /\ IF Guard = "break-nil" /\ flag
              THEN result' = "ack" /\ UNCHANGED committed            \* finalErr is still nil
              ELSE IF raftUp THEN result' = "ack" /\ committed' = TRUE
                             ELSE result' = "err" /\ UNCHANGED committed   \* CommitOp fails, so do the retries
           /\ UNCHANGED <<pcS, readers, writer, raftUp, flag>>
CUnlock == /\ pcC = "unlock" /\ readers' = 0 /\ pcC' = "done" /\ last' = "c.unlock"
           /\ UNCHANGED <<pcS, writer, raftUp, flag, result, committed>>

SLock   == /\ pcS = "lock" /\ readers = 0 /\ ~writer /\ writer' = TRUE /\ pcS' = "stop" /\ last' = "s.lock"
           /\ UNCHANGED <<pcC, readers, raftUp, flag, result, committed>>
SStop   == /\ pcS = "stop" /\ raftUp' = FALSE /\ pcS' = "flag" /\ last' = "s.stop"
           /\ UNCHANGED <<pcC, readers, writer, flag, result, committed>>
SFlag   == /\ pcS = "flag" /\ flag' = TRUE /\ pcS' = "unlock" /\ last' = "s.flag"
           /\ UNCHANGED <<pcC, readers, writer, raftUp, result, committed>>
SUnlock == /\ pcS = "unlock" /\ writer' = FALSE /\ pcS' = "done" /\ last' = "s.unlock"
           /\ UNCHANGED <<pcC, readers, raftUp, flag, result, committed>>

Next == CCheck \/ CGate \/ CLock \/ CCommit \/ CUnlock \/ SLock \/ SStop \/ SFlag \/ SUnlock
Spec == Init /\ [][Next]_vars

\* an operation acknowledged as committed is part of the committed sequence
AckDurable == result = "ack" => committed
\* the lock discipline: raft is never stopped while a commit holds the lock
NoStopUnderCommit == ~(readers = 1 /\ writer)
Finished == pcC = "done" /\ pcS = "done"
=============================================================================
