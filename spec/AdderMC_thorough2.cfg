SPECIFICATION Spec
CONSTANTS
  DepthRule = "fixed"
  MaxBlocks = 3
  Sizes = {1, 2}
  Limits = {3, 4}
  MaxLinksC = 2
  FaultAt = {1, 2, 3}
  NFaults = 2
  PinFailAt = {0, 2}
INVARIANT SafeAlways
INVARIANT GoodAtEnd
INVARIANT RunAgrees
