SPECIFICATION Spec
CONSTANT Reps = {"a", "b", "c"}
CONSTANT MaxPub = 3
CONSTANT MaxActs = 1
INVARIANT IgnoresUntrusted
INVARIANT LonerKeepsOwn
