SPECIFICATION Spec
CONSTANT Reps = {"a", "b", "c"}
CONSTANT MaxPub = 3
CONSTANT MaxActs = 2
INVARIANT IgnoresUntrusted
INVARIANT LonerKeepsOwn
