-------------------------- MODULE CrdtPinsetTrace --------------------------
(***************************************************************************)
(* C02 - validation of executions recorded from ONE real crdt.Consensus    *)
(* (driver call/return lines, batchWorker hook lines `batched` / `commit`, *)
(* Track/Untrack lines from the harness PinTracker service, `storefail`    *)
(* lines from the harness datastore, `obs` = State().List()).              *)
(*                                                                         *)
(* Two independent judgements per recorded run:                            *)
(*  1. the property predicates Lost/Refuse/Commit/Hook/Pending, written    *)
(*     from the statement over the recorded lines only;                    *)
(*  2. conformance: the run is a behaviour of CrdtPinsetBatch (as coded,   *)
(*     or with the age timer re-armed after a failed age commit), with the *)
(*     steps the log cannot show (channel send, channel receive, timer     *)
(*     expiry) inferred by TLC.  hwm[r] is the line up to which run r      *)
(*     could be explained.                                                 *)
(* Runs are independent: every `reset` line starts one (one initial state  *)
(* per run).  Results go to the NDJSON file named by env VERDICT_FILE.     *)
(***************************************************************************)
EXTENDS CrdtPinsetBatch, Json, IOUtils, SequencesExt, FiniteSetsExt

Lines == ndJsonDeserialize(IOEnv.TRACE_FILE)
N     == Len(Lines)
Starts == SetToSortSeq({j \in 1..N : Lines[j].ev = "reset"}, LAMBDA a, b : a < b)
NRuns == Len(Starts)
EndOf(r) == IF r < NRuns THEN Starts[r + 1] - 1 ELSE N
Hdr(r) == Lines[Starts[r]]
Idx(r) == (Starts[r] + 1)..EndOf(r)

WorkerEvs == {"batched", "batcherr", "commit", "track", "untrack", "storefail", "readfail"}

-----------------------------------------------------------------------------
(* 1. property predicates over the recorded lines *)

SortedSeq(S) == SetToSortSeq(S, LAMBDA a, b : a < b)
OpOf(l) == [k |-> l.op, c |-> l.c, v |-> l.v]
AccIdx(r, j) == {k \in Idx(r) : k < j /\ Lines[k].ev = "ret" /\ Lines[k].res = "ok"}
AcceptedSeq(r, j) == LET s == SortedSeq(AccIdx(r, j)) IN [n \in 1..Len(s) |-> OpOf(Lines[s[n]])]
\* what the statement promises to be visible once everything accepted before line j took effect
Expected(r, j) == ApplyAll(EmptyPinset, AcceptedSeq(r, j))

WellFormedPins(ps) == \A n \in DOMAIN ps : ps[n].c \in CIDS /\ ps[n].v \in VALS
ObsPins(ps) == [c \in CIDS |-> IF \E n \in DOMAIN ps : ps[n].c = c
                                 THEN ps[CHOOSE n \in DOMAIN ps : ps[n].c = c].v ELSE Absent]

HookIdx(r, j) == {k \in Idx(r) : k < j /\ Lines[k].ev \in {"track", "untrack"}}
TrackedAt(r, j) == LET s == SortedSeq(HookIdx(r, j))
                   IN ApplyHooks(EmptyPinset, [n \in 1..Len(s) |-> Lines[s[n]]])

IsCheckedObs(j) == Lines[j].ev = "obs" /\ (Lines[j].final \/ Lines[j].q)

\* accepted operations took effect in submission order; refused / failed ones had no effect
LostBad(r) == {j \in Idx(r) : IsCheckedObs(j) /\
                  ~(WellFormedPins(Lines[j].pins) /\ ObsPins(Lines[j].pins) = Expected(r, j))}

\* every change was handed to the tracker
HookBad(r) == {j \in Idx(r) : IsCheckedObs(j) /\ WellFormedPins(Lines[j].pins) /\
                  TrackedAt(r, j) # ObsPins(Lines[j].pins)}

\* a refusal is justified only by a full queue: at least maxq accepted operations
\* had not been taken by the worker when the call started
CallOf(r, j) == Max({k \in Idx(r) : k < j /\ Lines[k].ev = "call"})
NDeq(r, j) == Cardinality({k \in Idx(r) : k < j /\ Lines[k].ev \in {"batched", "batcherr"}})
RefuseBad(r) == {j \in Idx(r) : Lines[j].ev = "ret" /\ Lines[j].res = "full" /\
                    ~(Hdr(r).batching /\
                      Cardinality(AccIdx(r, CallOf(r, j))) - NDeq(r, CallOf(r, j)) >= Hdr(r).maxq)}
\* any other error must come from an injected datastore failure on a direct write
ErrBad(r) == {j \in Idx(r) : Lines[j].ev = "ret" /\ Lines[j].res = "err" /\
                 ~(~Hdr(r).batching /\ \E k \in CallOf(r, j)..j : Lines[k].ev \in {"storefail", "readfail"})}

\* commit when the batch reaches its size limit or its age limit
WorkerIdx(r) == {k \in Idx(r) : Lines[k].ev \in {"batched", "batcherr", "commit"}}
NextWorker(r, j) == {k \in WorkerIdx(r) : k > j /\ \A m \in WorkerIdx(r) : m > j => k <= m}
LastOkCommit(r, j) == Max({Starts[r]} \cup {k \in Idx(r) : k < j /\ Lines[k].ev = "commit" /\ Lines[k].ok})
FirstBatched(r, j) == {k \in Idx(r) : /\ k < j /\ k > LastOkCommit(r, j) /\ Lines[k].ev = "batched"
                                      /\ \A m \in Idx(r) : (m > LastOkCommit(r, j) /\ m < k) => Lines[m].ev # "batched"}
CommitBad(r) ==
    {j \in Idx(r) : Lines[j].ev = "commit" /\ Lines[j].reason = "size" /\ Lines[j].cur < Hdr(r).maxsize} \cup
    {j \in Idx(r) : Lines[j].ev = "batched" /\ Lines[j].cur >= Hdr(r).maxsize /\
                    ~(\E k \in NextWorker(r, j) : Lines[k].ev = "commit" /\ Lines[k].reason = "size")} \cup
    {j \in Idx(r) : Lines[j].ev = "commit" /\ Lines[j].reason = "age" /\
                    \E k \in FirstBatched(r, j) : 3 * (Lines[j].t - Lines[k].t) < 1000 * Hdr(r).maxage_ms} \cup
    \* the age limit counts from the FIRST operation of the batch: a submission that starts more than
    \* 6 x MaxBatchAge after it must not find that batch still uncommitted (at most 2 failures are injected)
    {j \in Idx(r) : Lines[j].ev \in {"call", "shutdown"} /\ Hdr(r).batching /\
                    \E k \in FirstBatched(r, j) : Lines[j].t - Lines[k].t > 6 * 1000 * Hdr(r).maxage_ms} \cup
    \* the batch never grows beyond its size limit (unless the commit at the limit failed)
    {j \in Idx(r) : Lines[j].ev = "batched" /\ Lines[j].cur > Hdr(r).maxsize /\
                    ~\E k \in Idx(r) : k > LastOkCommit(r, j) /\ k < j /\ Lines[k].ev = "commit" /\ ~Lines[k].ok} \cup
    \* without batching there is no batch worker
    {j \in Idx(r) : ~Hdr(r).batching /\ Lines[j].ev \in {"batched", "batcherr", "commit"}}

\* transcription-level consistency of the worker's counter (batchCurSize): it counts the items added
\* since the last successful commit.  Used for traces of the repository's own tests, which have no
\* driver lines for the full conformance check below.
NSince(r, j) == Cardinality({k \in Idx(r) : k > LastOkCommit(r, j) /\ k < j /\ Lines[k].ev = "batched"})
CurDrift(r) == {j \in Idx(r) : \/ Lines[j].ev = "batched" /\ Lines[j].cur # NSince(r, j) + 1
                               \/ Lines[j].ev = "commit" /\ Lines[j].cur # NSince(r, j)}

\* at the end nothing accepted is still waiting (queue, worker or uncommitted batch)
PendingBad(r) ==
    {j \in Idx(r) : Lines[j].ev = "obs" /\ Lines[j].final /\ Hdr(r).batching /\
        ~(/\ NDeq(r, j) = Cardinality(AccIdx(r, j))
          /\ \A k \in Idx(r) : (k > LastOkCommit(r, j) /\ k < j) => Lines[k].ev # "batched")}

\* An item error is attributed to its CAUSE: the harness datastore logs `readfail` from inside the failing
\* call, i.e. in the worker goroutine right before the worker's `batcherr` line.
PrevWorkerLine(r, j) == {k \in Idx(r) : k < j /\ Lines[k].ev \in WorkerEvs /\
                                        \A m \in Idx(r) : (m < j /\ Lines[m].ev \in WorkerEvs) => m <= k}
InjectedErr(r, j) == \E k \in PrevWorkerLine(r, j) : Lines[k].ev = "readfail"
BatchErrIdx(r) == {j \in Idx(r) : Lines[j].ev = "batcherr"}

FaultClass(r) ==
    IF BatchErrIdx(r) # {} THEN (IF \A j \in BatchErrIdx(r) : InjectedErr(r, j)
                                  THEN "item-error:injected-store-read-fault"
                                  ELSE "item-error:no-fault-injected")
    ELSE IF \E j \in Idx(r) : Lines[j].ev = "commit" /\ Lines[j].reason = "age" /\ ~Lines[j].ok THEN "age-commit-failed"
    ELSE IF \E j \in Idx(r) : Lines[j].ev = "commit" /\ ~Lines[j].ok THEN "size-commit-failed"
    ELSE IF \E j \in Idx(r) : Lines[j].ev = "storefail" THEN "write-failed"
    ELSE IF \E j \in Idx(r) : Lines[j].ev = "readfail" THEN "read-failed"
    ELSE "nofault"

\* The worker takes the accepted operations in FIFO order: the n-th `batched`/`batcherr` line belongs to the
\* n-th accepted operation. A lost-operation observation is explained by the injected faults iff it shows
\* exactly the accepted operations minus those whose add failed with an injected read fault.
DeqSeq(r, j) == SortedSeq({k \in Idx(r) : k < j /\ Lines[k].ev \in {"batched", "batcherr"}})
KeptOps(r, j) == LET acc == AcceptedSeq(r, j) dq == DeqSeq(r, j)
                     keep == {n \in 1..Len(acc) : ~(n <= Len(dq) /\ Lines[dq[n]].ev = "batcherr" /\ InjectedErr(r, dq[n]))}
                     ks == SortedSeq(keep)
                 IN [n \in 1..Len(ks) |-> acc[ks[n]]]
LostByInjectedDrop(r) == {j \in LostBad(r) : /\ WellFormedPins(Lines[j].pins)
                                              /\ Len(DeqSeq(r, j)) = Len(AcceptedSeq(r, j))
                                              /\ ObsPins(Lines[j].pins) = ApplyAll(EmptyPinset, KeptOps(r, j))}

Verdict(r) == [run |-> Hdr(r).run, fclass |-> FaultClass(r),
               lost |-> LostBad(r), lostdrop |-> LostByInjectedDrop(r), hook |-> HookBad(r), refuse |-> RefuseBad(r), err |-> ErrBad(r),
               commit |-> CommitBad(r), pending |-> PendingBad(r), curdrift |-> CurDrift(r),
               first |-> Starts[r], last |-> EndOf(r)]

-----------------------------------------------------------------------------
(* 2. conformance to CrdtPinsetBatch *)

VARIABLES run, i, pend, parm, rparm, expect
tvars == <<vars, run, i, pend, parm, rparm, expect>>
basevars == vars

ASSUME \A r \in 1..(2 * NRuns) : TLCSet(r, 0)

CfgOf(h, ar, es) == [batching |-> h.batching, maxsize |-> h.maxsize, maxq |-> h.maxq, agereset |-> ar, emptyskip |-> es]

TraceInit ==
    /\ run \in 1..NRuns
    /\ i = Starts[run] + 1
    /\ \E ar, es \in BOOLEAN : InitWith(CfgOf(Hdr(run), ar, es))
    /\ pend = <<>> /\ parm = 0 /\ rparm = 0 /\ expect = <<>>

More == i <= EndOf(run)
L == Lines[i]
Match(e, l) == \A f \in DOMAIN e : f \in DOMAIN l /\ l[f] = e[f]

TCall == /\ More /\ L.ev = "call" /\ pend = <<>>
         /\ pend' = <<OpOf(L)>> /\ res' = "none" /\ i' = i + 1
         /\ UNCHANGED <<cfg, pinset, queue, inhand, delta, cur, timer, wpc, fails, rfails, accepted, taken, ndropped,
                        ncomm, nbatch, tracked, out, run, parm, rparm, expect>>
TSubmit == /\ pend # <<>> /\ res = "none" /\ pend[1] \in Ops
           /\ Submit(pend[1])
           /\ expect' = expect \o out'
           /\ UNCHANGED <<run, i, pend, parm, rparm>>
TRet == /\ More /\ L.ev = "ret" /\ pend # <<>> /\ res # "none" /\ L.res = res
        /\ (~cfg.batching => expect = <<>>)
        /\ pend' = <<>> /\ i' = i + 1
        /\ UNCHANGED <<basevars, run, parm, rparm, expect>>
TArmCall == /\ More /\ L.ev = "armcall" /\ parm = 0 /\ parm' = L.n /\ i' = i + 1
            /\ UNCHANGED <<basevars, run, pend, rparm, expect>>
TDoArm == /\ parm > 0 /\ Arm(parm) /\ parm' = -1 /\ UNCHANGED <<run, i, pend, rparm, expect>>
TArmRet == /\ More /\ L.ev = "armret" /\ parm = -1 /\ parm' = 0 /\ i' = i + 1
           /\ UNCHANGED <<basevars, run, pend, rparm, expect>>
\* read faults armed by the driver (harness datastore: the next set.Rmv query fails)
TRArmCall == /\ More /\ L.ev = "rarmcall" /\ rparm = 0 /\ rparm' = L.n /\ i' = i + 1
             /\ UNCHANGED <<basevars, run, pend, parm, expect>>
TDoRArm == /\ rparm > 0 /\ RArm(rparm) /\ rparm' = -1 /\ UNCHANGED <<run, i, pend, parm, expect>>
TRArmRet == /\ More /\ L.ev = "rarmret" /\ rparm = -1 /\ rparm' = 0 /\ i' = i + 1
            /\ UNCHANGED <<basevars, run, pend, parm, expect>>
\* the driver removes unused read faults before it reads the state itself
TRDisarm == /\ More /\ L.ev = "rdisarm" /\ rfails' = 0 /\ i' = i + 1 /\ out' = <<>>
            /\ UNCHANGED <<cfg, pinset, queue, inhand, delta, cur, timer, wpc, fails, accepted, taken, ndropped,
                           ncomm, nbatch, tracked, res, run, pend, parm, rparm, expect>>
TWorkerOut == /\ More /\ L.ev \in WorkerEvs /\ expect # <<>> /\ Match(Head(expect), L)
              /\ expect' = Tail(expect) /\ i' = i + 1
              /\ UNCHANGED <<basevars, run, pend, parm, rparm>>
TWorkerStep == /\ expect = <<>> /\ Worker /\ expect' = out'
               /\ UNCHANGED <<run, i, pend, parm, rparm>>
TObs == /\ More /\ L.ev = "obs"
        /\ WellFormedPins(L.pins) /\ ObsPins(L.pins) = pinset
        /\ i' = i + 1 /\ UNCHANGED <<basevars, run, pend, parm, rparm, expect>>

TraceNext == TCall \/ TSubmit \/ TRet \/ TArmCall \/ TDoArm \/ TArmRet \/ TRArmCall \/ TDoRArm \/ TRArmRet \/ TRDisarm \/ TWorkerOut \/ TWorkerStep \/ TObs
TraceSpec == TraceInit /\ [][TraceNext]_tvars

\* the design-level invariants are also evaluated on every state a recorded run reaches
TraceInv == EffectIsPrefix /\ HooksCover

\* high-water mark per run (evaluated on every state; always TRUE)
Mark == /\ TLCSet(run, IF TLCGet(run) > i THEN TLCGet(run) ELSE i)
        \* the specification's invariants are evaluated on every state that explains a recorded run;
        \* the first line at which one fails is remembered (register NRuns + run), never aborting the other runs
        /\ (~(TraceInv) /\ TLCGet(NRuns + run) = 0) => TLCSet(NRuns + run, i)


Finish == ndJsonSerialize(IOEnv.VERDICT_FILE,
            <<[n |-> NRuns, hwm |-> [r \in 1..NRuns |-> TLCGet(r)], invbad |-> [r \in 1..NRuns |-> TLCGet(NRuns + r)], runs |-> [r \in 1..NRuns |-> Verdict(r)]]>>)
=============================================================================
