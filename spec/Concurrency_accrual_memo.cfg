SPECIFICATION Spec
CONSTANTS
  MaxAlerts = 2
  NWrites = 0
  NReads = 0
  SizedOutsideLock = FALSE
  ShutdownInline = FALSE
  PeersErrInline = FALSE
  ClientGuarded = TRUE
  NInformers = 0
  LoopVarShared = FALSE
  NCheckers = 2
  NChecks = 2
  MaxVer = 2
  DistShared = TRUE
  NEntries = 0
  NestedRead = FALSE
  Part = "accrual"
INVARIANTS ScratchIsPrivate VerdictFromWindow
