SPECIFICATION Spec
CONSTANT N = 3
CONSTANT AuthStateShared = FALSE
CONSTANT CredPool = {"right", "right2", "wrongpass", "unknownempty", "missing"}
INVARIANT Isolation
