SPECIFICATION Spec
INVARIANTS StatusOK StatusAllOK
