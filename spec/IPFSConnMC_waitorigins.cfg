SPECIFICATION Spec
CONSTANTS
  CheckTrailer = TRUE
  UpdateWatchdog = TRUE
  WaitOrigins = TRUE
  CallerCtx = TRUE
  Bound = 1
  NOrigs = {0, 1}
  Intfs = {"keep"}
  Gen = FALSE
INVARIANTS InvOriginsBestEffort
