SPECIFICATION Spec
CONSTANT Remote = {"b", "c"}
