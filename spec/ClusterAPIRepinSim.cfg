SPECIFICATION Spec
CONSTANT NPEERS = 5
CONSTANT EqualsMode = "fixed"
CONSTANT UpdateGuard = TRUE
CONSTANT RepinRedirect = FALSE
