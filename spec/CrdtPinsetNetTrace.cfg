SPECIFICATION TraceSpec
CONSTANTS
  REPS = {"r0", "r1", "r2"}
  CIDS = {"c1", "c2"}
  VALS = {"A", "B", "C"}
  VOrder <- NetVOrder
CONSTRAINT Mark
VIEW TView
POSTCONDITION Finish
