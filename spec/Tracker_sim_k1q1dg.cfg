SPECIFICATION Spec
CONSTANTS
  CIDS = {"c1","c2"}
  K = 1
  Q = 1
  MaxInstr = 9
  MaxFail = 2
  GatedFinish = FALSE
  Eager = TRUE
  RecoverUsesStatePin = TRUE
  StatusAllListsDirect = TRUE
  DirOverRecStuck = TRUE
  AllowDowngrade <- AllowDowngradeOn
