-------------------------- MODULE GlobalStatusObs --------------------------
(* Judges peer maps recorded from real Cluster.Status / Cluster.StatusAll. *)
EXTENDS GlobalStatus, Json, IOUtils
Recs == ndJsonDeserialize(IOEnv.TRACE_FILE)
N == Len(Recs)
\* call = "status" | "statusall"
Bad   == {i \in 1..N : ~ViewGood(Recs[i].sit, Recs[i].view)}
\* known deviation class: StatusAll with an unreachable, not allocated member
KnownDev == {i \in Bad : Recs[i].call = "statusall" /\ Recs[i].sit.inpinset /\
                         (Rng(Recs[i].sit.down) \ Allocated(Recs[i].sit)) # {} /\
                         Recs[i].view = StatusAllView(Recs[i].sit)}
\* second known deviation class: StatusAll with a pin allocated to a peer that is no longer a member
KnownDev2 == {i \in Bad \ KnownDev : Recs[i].call = "statusall" /\ Recs[i].sit.inpinset /\
                         (Allocated(Recs[i].sit) \ Rng(Recs[i].sit.members)) # {} /\
                         Recs[i].view = StatusAllView(Recs[i].sit)}
Drift == {i \in 1..N : Recs[i].view # (IF Recs[i].call = "status" THEN StatusView(Recs[i].sit) ELSE StatusAllView(Recs[i].sit))}
ASSUME ndJsonSerialize(IOEnv.VERDICT_FILE, <<[n |-> N, bad |-> (Bad \ KnownDev) \ KnownDev2, knowndev |-> KnownDev, knowndev2 |-> KnownDev2, drift |-> Drift]>>)
VARIABLE x
Init == x = 0
Next == UNCHANGED x
Spec == Init /\ [][Next]_x
=============================================================================
