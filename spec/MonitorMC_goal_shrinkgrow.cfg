SPECIFICATION Spec
CONSTANTS
  NAMES = {"n1"}
  PEERS = {"p1", "p2"}
  Thr = 1
  CheckMode = "once"
  ForgetMode = "name"
  RenewMode = "restart"
  W = 2
  AccN = 6
  MaxArr = 1
  MaxT = 1
  REPS = {1}
  Garbage = FALSE
  Staged = FALSE
  PsFree = TRUE
  InitSets = {{"p1", "p2"}}
INVARIANTS NeverShrinkThenGrow
