SPECIFICATION Spec
CONSTANTS
  CIDS = {"c1"}
  VALS = {"A"}
  MaxOps = 4
  MaxArm = 1
  AgeReset = FALSE
INVARIANT NoHang
