----------------------------- MODULE MonitorMC -----------------------------
(* Exhaustive design check and script generator for C09.                    *)
(* Every behaviour: arrivals (any name/peer/validity/expiry class, bursts   *)
(* larger than the window), peer removals, peerset changes, ticks, and the  *)
(* two checks, in any order.  The invariants are the property predicates of *)
(* Monitor.tla evaluated on the transcription's own outputs.                *)
EXTENDS Monitor

CONSTANTS W, AccN, MaxArr, MaxT, REPS, PsFree, InitSets,
          Garbage,    \* TRUE: undecodable messages arrive on the metrics topic between the other steps
          Staged      \* TRUE (script generation by simulation only): the kind of the next action is drawn
                      \* first, so that random behaviours are not dominated by the many arrival variants
VARIABLES s, o, obs, act, ph, pact     \* pact: the action before act (history, for reachability goals)
vars == <<s, o, obs, act, ph, pact>>
View == <<s, o, obs>>

Act(a, nm, p, v, e, r, k, S) ==
    [a |-> a, name |-> nm, peer |-> p, valid |-> v, exp |-> e, reps |-> r, kind |-> k, set |-> S]
NoAct == Act("init", "", "", FALSE, "", 0, "", {})

\* arrival kinds: validity x expiry class (an invalid short-lived metric behaves as invalid/past after the tick)
KINDS == {<<TRUE, "past">>, <<TRUE, "short">>, <<TRUE, "far">>, <<FALSE, "past">>, <<FALSE, "far">>}
Acts ==
    {Act("arrive", nm, p, k[1], k[2], r, "", {}) :
        nm \in NAMES, p \in PEERS, k \in KINDS, r \in {x \in REPS : Total(s.cnt) + x <= MaxArr}}
    \cup {Act("remove", "", p, FALSE, "", 0, "", {}) : p \in PEERS}
    \cup (IF s.ps.kind = "nil" \/ ~PsFree THEN {}
          ELSE {Act("peerset", "", "", FALSE, "", 0, "err", {})}
               \cup {Act("peerset", "", "", FALSE, "", 0, "set", S) : S \in SUBSET PEERS})
    \cup (IF s.now < MaxT THEN {Act("tick", "", "", FALSE, "", 0, "", {})} ELSE {})
    \cup {Act("checkpeers", "", "", FALSE, "", 0, "", S) : S \in (SUBSET PEERS) \ {{}}}
    \cup {Act("checkall", "", "", FALSE, "", 0, "", {})}
    \cup (IF s.ps.kind = "nil" THEN {} ELSE {Act("watch", "", "", FALSE, "", 0, "", {})})
    \cup (IF Garbage THEN {Act("garbage", "", "", FALSE, "", 0, g, {}) : g \in {"random", "truncated", "empty", "wrongtype"}}
          ELSE {})

Init ==
    /\ \E ps \in {[kind |-> "nil", set |-> {}]} \cup {[kind |-> "set", set |-> S] : S \in InitSets} :
          /\ s = InitState(W, AccN, ps)
          /\ o = ObsInit(AccN, ps)
    /\ obs = ObsOf(s, <<>>)
    /\ act = NoAct
    /\ pact = NoAct
    /\ ph = ""

Step(a, b) ==
    LET r == Apply(s, a, [pr \in Pairs |-> b])
    IN /\ s' = r.s
       /\ obs' = ObsOf(r.s, r.alerts)
       /\ o' = ObsStep(o, a, obs.n, r.alerts)
       /\ act' = a
       /\ pact' = act
       /\ ph' = ""

Do(a) == IF a.a \in {"checkpeers", "checkall", "watch"} THEN \E b \in BOOLEAN : Step(a, b) ELSE Step(a, TRUE)
Next == IF ~Staged THEN \E a \in Acts : Do(a)
        ELSE IF ph = "" THEN /\ ph' \in {a.a : a \in Acts}
                             /\ UNCHANGED <<s, o, obs, act, pact>>
        ELSE \E a \in {x \in Acts : x.a = ph} : Do(a)
Spec == Init /\ [][Next]_vars

InvAtMostOne            == AtMostOne(obs)
InvIsLatest             == IsLatest(o, obs)
InvValidUnexpiredMember == ValidUnexpiredMember(o, obs)
InvNoFalseAlarm         == NoFalseAlarm(o, obs)
InvAlertOnce            == AlertOnce(o)
InvReported             == Reported(o)
InvForgotten            == Forgotten(o, obs)
InvUsed                 == Used(o, obs)
\* the observer's view of "latest" agrees with the store wherever the store still holds something
InvObserverSane ==
    \A nm \in NAMES, p \in PEERS : obs.stored[nm][p] # 0 => obs.stored[nm][p] = o.last[nm][p].id

\* reachability goals (negated, to obtain witness scripts)
NeverTwoAlerts   == \A p \in PEERS, nm \in NAMES : o.since[p][nm] < 2
NeverMissed      == Reported(o)
\* one peer, two metric names, both expired, both alerted once and both forgotten by a later check of the given kind
TwoNamesCycle(kind) ==
    /\ act.a = kind
    /\ \E p \in PEERS : \E n1, n2 \in NAMES :
          /\ n1 # n2
          /\ \A nm \in {n1, n2} : o.since[p][nm] = 1 /\ o.last[nm][p] # NONE /\ obs.stored[nm][p] = 0
NeverTwoNamesCycleCP    == ~TwoNamesCycle("checkpeers")
NeverTwoNamesCycleAll   == ~TwoNamesCycle("checkall")
NeverTwoNamesCycleWatch == ~TwoNamesCycle("watch")
\* a far-expiring metric followed by an earlier-expiring one from the same peer, which then expires and is alerted
FarThenNear(cls) ==
    \E nm \in NAMES, p \in PEERS :
        LET q == s.win[nm][p]
        IN /\ Len(q) >= 2
           /\ q[Len(q) - 1].exp = FAR /\ q[Len(q) - 1].valid
           /\ Last(q).valid /\ Last(q).exp # FAR
           /\ (cls = "past" => Last(q).exp = -1) /\ (cls = "short" => Last(q).exp >= 0)
           /\ o.since[p][nm] = 1
NeverFarThenPastAlert  == ~FarThenNear("past")
NeverFarThenShortAlert == ~FarThenNear("short")
\* a valid far-expiring metric arrives right after an undecodable message, for a peer that already had a live metric
FreshAfterGarbage ==
    /\ act.a = "arrive" /\ act.valid /\ act.exp = "far" /\ pact.a = "garbage"
    /\ LET q == s.win[act.name][act.peer]
       IN Len(q) >= 2 /\ q[Len(q) - 1].valid /\ q[Len(q) - 1].exp = 0
NeverFreshAfterGarbage(k) == ~(FreshAfterGarbage /\ pact.kind = k)
NeverFreshAfterRandom    == NeverFreshAfterGarbage("random")
NeverFreshAfterTruncated == NeverFreshAfterGarbage("truncated")
NeverFreshAfterEmpty     == NeverFreshAfterGarbage("empty")
NeverFreshAfterWrongType == NeverFreshAfterGarbage("wrongtype")
\* a member with a live metric is dropped from the peerset and re-admitted by the next peerset change
\* (two membership changes back to back; LatestMetrics is read after each of them)
ShrinkThenGrow ==
    /\ act.a = "peerset" /\ act.kind = "set" /\ pact.a = "peerset" /\ pact.kind = "set"
    /\ \E nm \in NAMES, p \in PEERS :
          /\ p \in act.set /\ p \notin pact.set
          /\ s.win[nm][p] # <<>> /\ Last(s.win[nm][p]).valid /\ Last(s.win[nm][p]).exp = FAR
NeverShrinkThenGrow == ~ShrinkThenGrow
NeverWrapExpired == ~(\E nm \in NAMES, p \in PEERS : obs.n[nm][p] = W /\ s.cnt[nm][p] > W /\ Len(obs.alerts) > 0)
=============================================================================
