----------------------------- MODULE ConfigGen -----------------------------
(* GEN: the value classes the driver has to try for every setting of a     *)
(* JSON kind (the settings themselves come from the real code).            *)
EXTENDS Config, Json, IOUtils, SequencesExt
ASSUME ndJsonSerialize(IOEnv.CLASSES_FILE, SetToSeq({[vkind |-> k, classes |-> Classes[k]] : k \in VKinds}))
VARIABLE x
Init == x = 0
Next == UNCHANGED x
Spec == Init /\ [][Next]_x
=============================================================================
