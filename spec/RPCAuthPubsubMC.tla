-------------------------- MODULE RPCAuthPubsubMC --------------------------
EXTENDS RPCAuthPubsub

Init == \E t \in [Reps -> [all : BOOLEAN, set : SUBSET Reps]] :
            /\ \A r \in Reps : t[r] \in TrustCfgs(r)
            /\ InitWith(t)
Next ==
    \/ \E r \in Reps : npub < MaxPub /\ Publish(r, [s |-> r, n |-> npub + 1])
    \/ \E r \in Reps : Rebroadcast(r)
    \/ \E m \in msgs, r \in Reps : Deliver(m, r)
    \/ \E r \in Reps : \E p \in Reps \ {r} : nact < MaxActs /\ (Trust(r, p) \/ Distrust(r, p))
Spec == Init /\ [][Next]_pvars

\* the direct reading, as a cross-check of Legit: a replica that trusts nobody
\* (and never did) holds only its own updates
LonerKeepsOwn == \A r \in Reps : ever[r] = {} => \A u \in dag[r] : u.s = r
=============================================================================
