-------------------------- MODULE RPCAuthPubsubMC --------------------------
(* Exhaustive check of RPCAuthPubsub: every trust configuration, replicas of  *)
(* Starters possibly still to be started (every interleaving of the start-up  *)
(* steps with publishes, deliveries, forgeries, handshakes, Trust/Distrust).  *)
(* The configurations *_neg_* set one constant to a deviation (validator      *)
(* registered last / lax signature policy / handshake stores into the trusted *)
(* set) and must VIOLATE IgnoresUntrusted: they show that the invariant sees  *)
(* those deviations.                                                          *)
EXTENDS RPCAuthPubsub

CONSTANT Starters

Init == \E t \in [Reps -> [all : BOOLEAN, set : SUBSET Reps]] :
            /\ \A r \in Reps : t[r] \in TrustCfgs(r)
            /\ \E down \in {{}, Starters} : InitWith(t, down)
Next ==
    \/ \E r \in Reps : npub < MaxPub /\ Publish(r, [s |-> r, n |-> npub + 1])
    \/ \E r \in Reps : Rebroadcast(r)
    \/ \E m \in msgs, r \in Reps : Deliver(m, r) \/ Receive(m, r)
    \/ \E r \in Reps : \E m \in buf[r] : Apply(m, r)
    \/ \E r \in Starters, k \in {"val", "sub", "run"} : StartStep(r, k)
    \/ \E r \in Reps : \E p \in Reps \ {r} :
          nact < MaxActs /\ (Trust(r, p) \/ Distrust(r, p) \/ JoinHandshake(r, p))
    \/ \E as \in Reps, of \in Reps, sig \in {"none", "bad"} : nact < MaxActs /\ Forge(as, of, sig)
Spec == Init /\ [][Next]_pvars

\* the direct reading, as a cross-check of Legit: a replica that trusts nobody
\* (and never did) holds only its own updates
LonerKeepsOwn == \A r \in Reps : ever[r] = {} => \A u \in dag[r] : u.s = r
=============================================================================
