--------------------------- MODULE Concurrency ---------------------------
(***************************************************************************)
(* C18 - lock scopes of the shared structures behind the public API, at    *)
(* the granularity of the code's steps (which statement runs under which   *)
(* mutex), so that TLC enumerates the interleavings and the replay driver  *)
(* forces each of them on the real code through gates.                     *)
(*                                                                         *)
(* Part A: Cluster.Alerts() against alertsHandler() (cluster.go).          *)
(*   reader : [size the result] ; lock ; copy reversed ; unlock            *)
(*   writer : lock ; (reset if more than MaxAlerts) ; append ; unlock      *)
(*   SizedOutsideLock = TRUE is the pinned commit: the result slice is     *)
(*   allocated by len(c.alerts) BEFORE taking alertsMux.                   *)
(*                                                                         *)
(* Part B: Informer.GetMetric() against Informer.Shutdown() (disk, numpin) *)
(*   get  : test rpcClient # nil ; use rpcClient                           *)
(*   shut : rpcClient := nil                                               *)
(*   ClientGuarded = FALSE is the pinned commit: no synchronisation, the   *)
(*   field is read twice.                                                  *)
(*                                                                         *)
(* Part C: start-up that never becomes ready (cluster.go NewCluster/ready/ *)
(*   Shutdown).  The goroutine that runs ready() is registered in the      *)
(*   Cluster's wait group; when ReadyTimeout fires it shuts the peer down. *)
(*   ShutdownInline = TRUE is the pinned commit: ready() calls Shutdown()  *)
(*   on its own goroutine, and Shutdown() ends with wg.Wait().             *)
(*                                                                         *)
(*   Second way into the same shutdown: consensus became ready but the     *)
(*   consensus.Peers() call that follows fails.  PeersErrInline = TRUE is  *)
(*   the design in which that branch calls Shutdown() on its own goroutine *)
(*   as well.  A later Shutdown() by the user (it waits for shutdownLock)  *)
(*   is part of the model.                                                 *)
(*                                                                         *)
(* Part D: Cluster.run() starts one pushInformerMetrics goroutine per      *)
(*   informer from a range loop.  LoopVarShared = TRUE is the design in    *)
(*   which the goroutines read the loop variable (one variable for all     *)
(*   iterations: go.mod says go 1.16) instead of receiving their informer  *)
(*   as an argument.                                                       *)
(*                                                                         *)
(* Part E: failure checks (Checker.failed -> Store.Distribution -> phi ->  *)
(*   meanVariance) run under the store's READ lock, so several may run at  *)
(*   once; meanVariance works IN PLACE on the slice it is given.           *)
(*   DistShared = TRUE is the design in which Window.Distribution()        *)
(*   memoises its result until the next Add() and hands the same slice to  *)
(*   every caller; FALSE (the pinned commit) builds a fresh slice per call.*)
(*                                                                         *)
(* Part F: the metrics store's RWMutex (sync.RWMutex: a pending Lock()     *)
(*   blocks new RLock() calls).  Store.AllMetrics holds the read lock      *)
(*   while it visits every window; writers (Add, RemovePeer,               *)
(*   RemovePeerMetrics) ask for the write lock at any time.  NestedRead =  *)
(*   TRUE is the design in which AllMetrics calls PeerLatest (which takes  *)
(*   the read lock again) for every entry; FALSE (the pinned commit) reads *)
(*   the windows directly.                                                 *)
(*                                                                         *)
(* The tracker's operation table is modelled in Tracker.tla.               *)
(***************************************************************************)
EXTENDS Integers, Sequences, FiniteSets, TLC

CONSTANTS MaxAlerts,          \* reset threshold (code: 1000)
          NWrites,            \* alerts delivered during the scenario
          NReads,             \* Alerts() calls
          SizedOutsideLock,
          ClientGuarded,
          ShutdownInline,
          PeersErrInline,
          NInformers,         \* part D: informers handed to NewCluster
          LoopVarShared,
          NCheckers,          \* part E: goroutines evaluating failure checks
          NChecks,            \*         checks per goroutine
          MaxVer,             \*         metrics added to the window during the scenario
          DistShared,
          NEntries,           \* part F: (name, peer) entries AllMetrics visits
          NestedRead,
          Part                \* "alerts" | "informer" | "lifecycle" | "fanout" | "accrual" | "rwlock"

VARIABLES alerts, lock, rd, wr, nread, nwritten, results, panicked,   \* part A
          client, gm, sh, gres,                                       \* part B
          wg, rg, sd, doneCh, isReady, bg, cancelled, slock, usr,     \* part C
          li, lv, gr, pushed, lvrace,                                 \* part D
          ver, cache, slices, ck, checks,                             \* part E
          rw, fr, fw,                                                 \* part F
          act

varsA == <<alerts, lock, rd, wr, nread, nwritten, results, panicked>>
varsB == <<client, gm, sh, gres>>
varsC == <<wg, rg, sd, doneCh, isReady, bg, cancelled, slock, usr>>
varsD == <<li, lv, gr, pushed, lvrace>>
varsE == <<ver, cache, slices, ck, checks>>
varsF == <<rw, fr, fw>>
vars  == <<alerts, lock, rd, wr, nread, nwritten, results, panicked, client, gm, sh, gres,
           wg, rg, sd, doneCh, isReady, bg, cancelled, slock, usr,
           li, lv, gr, pushed, lvrace, ver, cache, slices, ck, checks, rw, fr, fw, act>>

Reverse(s) == [i \in 1..Len(s) |-> s[Len(s) + 1 - i]]
Zeros(n)   == [i \in 1..n |-> 0]

Init ==
    /\ alerts = <<>> /\ lock = "free"
    /\ rd = [pc |-> "idle", n |-> 0]
    /\ wr = [pc |-> "idle"]
    /\ nread = 0 /\ nwritten = 0 /\ results = <<>> /\ panicked = FALSE
    /\ client = "set" /\ gm = "idle" /\ sh = "idle" /\ gres = "none"
    /\ wg = 1 /\ rg = "waiting" /\ sd = "idle" /\ doneCh = FALSE
    /\ isReady = FALSE /\ bg = "none" /\ cancelled = FALSE /\ slock = "free" /\ usr = "idle"
    /\ li = 1 /\ lv = 0 /\ gr = [k \in 1..NInformers |-> [pc |-> "none", arg |-> 0, inf |-> 0]]
    /\ pushed = {} /\ lvrace = FALSE
    /\ ver = 1 /\ cache = 0 /\ slices = <<>>
    /\ ck = [t \in 1..NCheckers |-> [pc |-> "idle", n |-> 0, v0 |-> 0, s |-> 0, from |-> <<>>]]
    /\ checks = {}
    /\ rw = [readers |-> 0, wpend |-> FALSE, wheld |-> FALSE]
    /\ fr = [pc |-> "idle", i |-> 0] /\ fw = "idle"
    /\ act = [name |-> "Init"]

(***************************************************************************)
(* Part A                                                                  *)
(***************************************************************************)
\* the copy loop: for i, a := range c.alerts { out[total-1-i] = a }
\* returns <<ok, out>>; ok = FALSE when an index is out of range (panic)
CopyReversed(n, src) ==
    IF Len(src) > n THEN <<FALSE, <<>>>>
    ELSE <<TRUE, [k \in 1..n |-> IF n - k + 1 <= Len(src) THEN src[n - k + 1] ELSE 0]>>

RSize ==      \* as coded: make([]api.Alert, len(c.alerts)) before the lock
    /\ SizedOutsideLock /\ rd.pc = "idle" /\ nread < NReads
    /\ rd' = [pc |-> "sized", n |-> Len(alerts)]
    /\ act' = [name |-> "RSize", t |-> "reader"]
    /\ UNCHANGED <<alerts, lock, wr, nread, nwritten, results, panicked>>

RLock ==
    /\ lock = "free"
    /\ \/ (SizedOutsideLock /\ rd.pc = "sized" /\ rd' = [rd EXCEPT !.pc = "locked"])
       \/ (~SizedOutsideLock /\ rd.pc = "idle" /\ nread < NReads /\ rd' = [pc |-> "locked", n |-> Len(alerts)])
    /\ lock' = "rd"
    /\ act' = [name |-> "RLock", t |-> "reader"]
    /\ UNCHANGED <<alerts, wr, nread, nwritten, results, panicked>>

RCopyUnlock ==
    /\ rd.pc = "locked"
    /\ LET r == CopyReversed(rd.n, alerts) IN
        /\ panicked' = (panicked \/ ~r[1])
        /\ results' = IF r[1] THEN Append(results, [out |-> r[2], at |-> alerts]) ELSE results
    /\ lock' = "free" /\ rd' = [pc |-> "idle", n |-> 0] /\ nread' = nread + 1
    /\ act' = [name |-> "RCopyUnlock", t |-> "reader"]
    /\ UNCHANGED <<alerts, wr, nwritten>>

WLock ==
    /\ wr.pc = "idle" /\ nwritten < NWrites /\ lock = "free"
    /\ lock' = "wr" /\ wr' = [pc |-> "locked"]
    /\ act' = [name |-> "WLock", t |-> "writer"]
    /\ UNCHANGED <<alerts, rd, nread, nwritten, results, panicked>>

WAppendUnlock ==
    /\ wr.pc = "locked"
    /\ alerts' = Append(IF Len(alerts) > MaxAlerts THEN <<>> ELSE alerts, nwritten + 1)
    /\ nwritten' = nwritten + 1
    /\ lock' = "free" /\ wr' = [pc |-> "idle"]
    /\ act' = [name |-> "WAppendUnlock", t |-> "writer"]
    /\ UNCHANGED <<rd, nread, results, panicked>>

NextA == (RSize \/ RLock \/ RCopyUnlock \/ WLock \/ WAppendUnlock) /\ UNCHANGED <<varsB, varsC, varsD, varsE, varsF>>

\* --- properties (C18: no panic, no torn result) ---
NoIndexPanic == ~panicked

\* a returned list has no empty (0) and no duplicated entries, and is the
\* reverse of the alert list as it was at some point (here: at copy time)
WellFormed(out) ==
    /\ \A i \in DOMAIN out : out[i] # 0
    /\ \A i, j \in DOMAIN out : i # j => out[i] # out[j]
NoTear == \A k \in DOMAIN results : WellFormed(results[k].out) /\ results[k].out = Reverse(results[k].at)

(***************************************************************************)
(* Part B                                                                  *)
(***************************************************************************)
GCheck ==
    /\ gm = "idle" /\ gres = "none"
    /\ IF client = "nil" THEN gm' = "idle" /\ gres' = "invalid"      \* returns an invalid metric
                         ELSE gm' = "checked" /\ gres' = gres
    /\ act' = [name |-> "GCheck", t |-> "get"]
    /\ UNCHANGED <<client, sh>>

\* as coded the field is read again when used; guarded: the value read at the check is used
GUse ==
    /\ gm = "checked"
    /\ gres' = IF ~ClientGuarded /\ client = "nil" THEN "nilpanic" ELSE "metric"
    /\ gm' = "idle"
    /\ act' = [name |-> "GUse", t |-> "get"]
    /\ UNCHANGED <<client, sh>>

SNil ==
    /\ sh = "idle"
    /\ client' = "nil" /\ sh' = "done"
    /\ act' = [name |-> "SNil", t |-> "shut"]
    /\ UNCHANGED <<gm, gres>>

NextB == (GCheck \/ GUse \/ SNil) /\ UNCHANGED <<varsA, varsC, varsD, varsE, varsF>>

(***************************************************************************)
(* Part C                                                                  *)
(* rg  : the goroutine of NewCluster that runs ready() then run(); it is   *)
(*       counted in wg (wg.Add(1) ... defer wg.Done()).                    *)
(* sd  : the Shutdown() that ready() triggers when start-up fails (on rg   *)
(*       itself when inline, else on a goroutine of its own).              *)
(* usr : a Shutdown() call by the user, at any time.                       *)
(* Shutdown(): take shutdownLock; return if already shut down; stop the    *)
(*       components; cancel the context; wg.Wait(); close doneCh; unlock.  *)
(* bg  : the long-lived goroutines started by run() (counted in wg, they   *)
(*       end when the context is cancelled).                               *)
(***************************************************************************)
\* ready() decided to shut the peer down; inline = on the goroutine that runs ready()
TriggerShutdown(inline) ==
    /\ sd' = "lockwait"
    /\ rg' = IF inline THEN "inshutdown" ELSE "returning"

\* ReadyTimeout fires
CTimeout ==
    /\ rg = "waiting"
    /\ TriggerShutdown(ShutdownInline)
    /\ act' = [name |-> "CTimeout", t |-> "ready"]
    /\ UNCHANGED <<wg, doneCh, isReady, bg, cancelled, slock, usr>>

\* consensus.Ready() fires: RecoverAllLocal, then consensus.Peers()
CConsReady ==
    /\ rg = "waiting"
    /\ rg' = "peers"
    /\ act' = [name |-> "CConsReady", t |-> "ready"]
    /\ UNCHANGED <<wg, sd, doneCh, isReady, bg, cancelled, slock, usr>>

\* the context was cancelled (a user Shutdown) while waiting for consensus
CCtxDone ==
    /\ rg = "waiting" /\ cancelled
    /\ rg' = "returning"
    /\ act' = [name |-> "CCtxDone", t |-> "ready"]
    /\ UNCHANGED <<wg, sd, doneCh, isReady, bg, cancelled, slock, usr>>

\* consensus.Peers() fails right after consensus became ready
CPeersErr ==
    /\ rg = "peers"
    /\ TriggerShutdown(PeersErrInline)
    /\ act' = [name |-> "CPeersErr", t |-> "ready"]
    /\ UNCHANGED <<wg, doneCh, isReady, bg, cancelled, slock, usr>>

\* consensus.Peers() answers: readyCh is closed, run() starts the long-lived goroutines
CPeersOk ==
    /\ rg = "peers"
    /\ isReady' = TRUE /\ rg' = "returning"
    /\ bg' = "running" /\ wg' = wg + 1
    /\ act' = [name |-> "CPeersOk", t |-> "ready"]
    /\ UNCHANGED <<sd, doneCh, cancelled, slock, usr>>

\* the long-lived goroutines end once the context is cancelled
CBgExit ==
    /\ bg = "running" /\ cancelled
    /\ bg' = "gone" /\ wg' = wg - 1
    /\ act' = [name |-> "CBgExit", t |-> "bg"]
    /\ UNCHANGED <<rg, sd, doneCh, isReady, cancelled, slock, usr>>

\* the ready goroutine returns: deferred wg.Done()
CReturn ==
    /\ rg = "returning"
    /\ rg' = "gone" /\ wg' = wg - 1
    /\ act' = [name |-> "CReturn", t |-> "ready"]
    /\ UNCHANGED <<sd, doneCh, isReady, bg, cancelled, slock, usr>>

\* a user calls Shutdown()
CUserCall ==
    /\ usr = "idle"
    /\ usr' = "lockwait"
    /\ act' = [name |-> "CUserCall", t |-> "user"]
    /\ UNCHANGED <<wg, rg, sd, doneCh, isReady, bg, cancelled, slock>>

\* Shutdown() steps of caller c ("sd" = triggered by ready(), "usr" = the user); pc/pc2 are its program counter
\* shutdownLock.Lock(); if shutdownB { return }
SLock(c, pc, pc2) ==
    /\ pc = "lockwait" /\ slock = "free"
    /\ IF doneCh THEN pc2 = "returned" /\ slock' = slock
                 ELSE pc2 = "stopping" /\ slock' = c
\* components stopped, c.cancel(), now wg.Wait()
SStopped(c, pc, pc2) ==
    /\ pc = "stopping"
    /\ pc2 = "wgwait" /\ cancelled' = TRUE
\* wg.Wait() returns only when every registered goroutine has finished; close(doneCh); unlock
SWaitDone(c, pc, pc2) ==
    /\ pc = "wgwait" /\ wg = 0
    /\ pc2 = "returned" /\ doneCh' = TRUE /\ slock' = "free"

CAutoLock ==
    /\ SLock("sd", sd, sd')
    \* an inline Shutdown() that found the peer already stopped gives the goroutine back to ready()
    /\ rg' = IF sd' = "returned" /\ rg = "inshutdown" THEN "returning" ELSE rg
    /\ act' = [name |-> "CAutoLock", t |-> "shutdown"]
    /\ UNCHANGED <<wg, doneCh, isReady, bg, cancelled, usr>>
CStopped ==
    /\ SStopped("sd", sd, sd')
    /\ act' = [name |-> "CStopped", t |-> "shutdown"]
    /\ UNCHANGED <<wg, rg, doneCh, isReady, bg, slock, usr>>
CWaitDone ==
    /\ SWaitDone("sd", sd, sd')
    /\ rg' = IF rg = "inshutdown" THEN "returning" ELSE rg
    /\ act' = [name |-> "CWaitDone", t |-> "shutdown"]
    /\ UNCHANGED <<wg, isReady, bg, cancelled, usr>>
CUserLock ==
    /\ SLock("usr", usr, usr')
    /\ act' = [name |-> "CUserLock", t |-> "user"]
    /\ UNCHANGED <<wg, rg, sd, doneCh, isReady, bg, cancelled>>
CUserStopped ==
    /\ SStopped("usr", usr, usr')
    /\ act' = [name |-> "CUserStopped", t |-> "user"]
    /\ UNCHANGED <<wg, rg, sd, doneCh, isReady, bg, slock>>
CUserWaitDone ==
    /\ SWaitDone("usr", usr, usr')
    /\ act' = [name |-> "CUserWaitDone", t |-> "user"]
    /\ UNCHANGED <<wg, rg, sd, isReady, bg, cancelled>>

NextC == (CTimeout \/ CConsReady \/ CCtxDone \/ CPeersErr \/ CPeersOk \/ CBgExit \/ CReturn \/ CUserCall
          \/ CAutoLock \/ CStopped \/ CWaitDone \/ CUserLock \/ CUserStopped \/ CUserWaitDone)
         /\ UNCHANGED <<varsA, varsB, varsD, varsE, varsF>>

\* --- properties (C18: no deadlock) ---
\* no goroutine waits for itself: Shutdown's wg.Wait() must not run on a goroutine counted in wg
NoSelfWait == ~(sd = "wgwait" /\ rg = "inshutdown")
\* the peer really stops, and a Shutdown() call by the user returns
LifeSpec == Init /\ [][NextC]_vars /\ WF_vars(NextC)
EventuallyStopped == <>doneCh
UserShutdownReturns == <>(usr = "returned")

(***************************************************************************)
(* Part D                                                                  *)
(*   for _, informer := range c.informers { go func(...){ push(informer) } *)
(* li : the iteration about to run; lv : the loop variable (ONE variable   *)
(* for the whole loop); gr[k] : the goroutine started by iteration k, with *)
(* the argument copy it was given (arg) and the informer it ends up        *)
(* pushing (inf).  pushInformerMetrics publishes at once (timer 0) and     *)
(* then for ever the same informer.                                        *)
(***************************************************************************)
Informers == 1..NInformers

\* iteration li: assign the loop variable, start the goroutine (the copy is made here)
DIter ==
    /\ li <= NInformers
    /\ lv' = li /\ li' = li + 1
    /\ gr' = [gr EXCEPT ![li] = [pc |-> "spawned", arg |-> li, inf |-> 0]]
    /\ act' = [name |-> "DIter", t |-> "run"]
    /\ UNCHANGED <<pushed, lvrace>>

\* goroutine k evaluates the informer it will push: its argument, or the loop variable as it is now
DStart(k) ==
    /\ gr[k].pc = "spawned"
    /\ gr' = [gr EXCEPT ![k] = [@ EXCEPT !.pc = "pushing", !.inf = IF LoopVarShared THEN lv ELSE gr[k].arg]]
    \* the read of the shared variable is not ordered with the writes of the later iterations
    /\ lvrace' = (lvrace \/ (LoopVarShared /\ k < NInformers))
    /\ act' = [name |-> "DStart", t |-> "push", k |-> k]
    /\ UNCHANGED <<li, lv, pushed>>

DPush(k) ==
    /\ gr[k].pc = "pushing"
    /\ pushed' = pushed \cup {gr[k].inf}
    /\ gr' = [gr EXCEPT ![k] = [@ EXCEPT !.pc = "pushed"]]
    /\ act' = [name |-> "DPush", t |-> "push", k |-> k]
    /\ UNCHANGED <<li, lv, lvrace>>

NextD == (DIter \/ \E k \in Informers : DStart(k) \/ DPush(k)) /\ UNCHANGED <<varsA, varsB, varsC, varsE, varsF>>

\* --- properties (C18: no race, no torn result) ---
NoLoopVarRace == ~lvrace
\* once every goroutine has published, every configured informer's metric has been published
EveryInformerPushed == (\A k \in Informers : gr[k].pc = "pushed") => pushed = Informers

(***************************************************************************)
(* Part E                                                                  *)
(* ver    : the window's version (number of Add() so far)                  *)
(* slices : the []float64 values handed out by Distribution(); a slice     *)
(*          holds <<"delta", v>> (the inter-arrival times of version v) or *)
(*          <<"scratch">> (overwritten by meanVariance)                    *)
(* cache  : the memoised slice (0 = none)                                  *)
(* ck[t]  : checker goroutine t: idle -> dist -> mean -> inplace -> idle   *)
(* checks : finished checks [v0, v1, from]: window versions at start and   *)
(*          end, and what the verdict was computed from                    *)
(* All checker steps run under the store's read lock, i.e. concurrently.   *)
(***************************************************************************)
Checkers == 1..NCheckers

\* Window.Add: a new metric; the memo is dropped
EAdd ==
    /\ ver < MaxVer
    /\ ver' = ver + 1 /\ cache' = 0
    /\ act' = [name |-> "EAdd", t |-> "logmetric"]
    /\ UNCHANGED <<slices, ck, checks>>

\* failed(): latest metric expired, enough metrics: dv := Distribution()
EDist(t) ==
    /\ ck[t].pc = "idle" /\ ck[t].n < NChecks
    /\ IF DistShared /\ cache # 0
         THEN /\ ck' = [ck EXCEPT ![t] = [@ EXCEPT !.pc = "dist", !.v0 = ver, !.s = cache]]
              /\ UNCHANGED <<slices, cache>>
         ELSE /\ slices' = Append(slices, <<"delta", ver>>)
              /\ ck' = [ck EXCEPT ![t] = [@ EXCEPT !.pc = "dist", !.v0 = ver, !.s = Len(slices) + 1]]
              /\ cache' = IF DistShared THEN Len(slices) + 1 ELSE cache
    /\ act' = [name |-> "EDist", t |-> "check", k |-> t]
    /\ UNCHANGED <<ver, checks>>

\* meanVariance: m = Sum(values)/n  -- reads the slice
EMean(t) ==
    /\ ck[t].pc = "dist"
    /\ ck' = [ck EXCEPT ![t] = [@ EXCEPT !.pc = "mean", !.from = slices[ck[t].s]]]
    /\ act' = [name |-> "EMean", t |-> "check", k |-> t]
    /\ UNCHANGED <<ver, cache, slices, checks>>

\* meanVariance: AddConst(-m, values); Mul(values, values)  -- overwrites the slice; then the verdict
EInPlace(t) ==
    /\ ck[t].pc = "mean"
    /\ slices' = [slices EXCEPT ![ck[t].s] = <<"scratch">>]
    /\ checks' = checks \cup {[v0 |-> ck[t].v0, v1 |-> ver, from |-> ck[t].from]}
    /\ ck' = [ck EXCEPT ![t] = [pc |-> "idle", n |-> @.n + 1, v0 |-> 0, s |-> 0, from |-> <<>>]]
    /\ act' = [name |-> "EInPlace", t |-> "check", k |-> t]
    /\ UNCHANGED <<ver, cache>>

NextE == (EAdd \/ \E t \in Checkers : EDist(t) \/ EMean(t) \/ EInPlace(t)) /\ UNCHANGED <<varsA, varsB, varsC, varsD, varsF>>

\* --- properties (C18: no race, no torn result) ---
\* a slice that is overwritten in place belongs to one checker: nobody else holds it, and it is not the memo
Holds(t) == ck[t].pc \in {"dist", "mean"}
ScratchIsPrivate ==
    /\ \A t1, t2 \in Checkers : (t1 # t2 /\ Holds(t1) /\ Holds(t2)) => ck[t1].s # ck[t2].s
    /\ \A t \in Checkers : Holds(t) => ck[t].s # cache
\* the verdict of a failure check depends on the window contents only: it was computed from the inter-arrival
\* times of a version the window had during the check (hence all checks of an unchanged window agree)
VerdictFromWindow ==
    \A c \in checks : \E v \in c.v0..c.v1 : c.from = <<"delta", v>>

(***************************************************************************)
(* Part F                                                                  *)
(* rw : sync.RWMutex: number of read holders, a writer waiting in Lock(),  *)
(*      a writer holding the lock.  RLock() goes through only when no      *)
(*      writer holds the lock or waits for it (writer preference).         *)
(* fr : the AllMetrics caller: idle -> outer (read lock held) -> for each  *)
(*      entry: [nested: want -> inner -> outer] -> done                    *)
(* fw : a writer (Store.Add / RemovePeer / RemovePeerMetrics)              *)
(***************************************************************************)
CanRLock == ~rw.wheld /\ ~rw.wpend

FROuter ==
    /\ fr.pc = "idle" /\ CanRLock
    /\ rw' = [rw EXCEPT !.readers = @ + 1] /\ fr' = [pc |-> "outer", i |-> 0]
    /\ act' = [name |-> "FROuter", t |-> "allmetrics"]
    /\ UNCHANGED fw
\* visit one entry: directly (window.Latest) or through PeerLatest, which asks for the read lock again
FRVisit ==
    /\ fr.pc = "outer" /\ fr.i < NEntries
    /\ fr' = IF NestedRead THEN [fr EXCEPT !.pc = "want"] ELSE [fr EXCEPT !.i = @ + 1]
    /\ act' = [name |-> "FRVisit", t |-> "allmetrics"]
    /\ UNCHANGED <<rw, fw>>
FRInner ==
    /\ fr.pc = "want" /\ CanRLock
    /\ rw' = [rw EXCEPT !.readers = @ + 1] /\ fr' = [fr EXCEPT !.pc = "inner"]
    /\ act' = [name |-> "FRInner", t |-> "allmetrics"]
    /\ UNCHANGED fw
FRInnerUnlock ==
    /\ fr.pc = "inner"
    /\ rw' = [rw EXCEPT !.readers = @ - 1] /\ fr' = [pc |-> "outer", i |-> fr.i + 1]
    /\ act' = [name |-> "FRInnerUnlock", t |-> "allmetrics"]
    /\ UNCHANGED fw
FRUnlock ==
    /\ fr.pc = "outer" /\ fr.i = NEntries
    /\ rw' = [rw EXCEPT !.readers = @ - 1] /\ fr' = [fr EXCEPT !.pc = "done"]
    /\ act' = [name |-> "FRUnlock", t |-> "allmetrics"]
    /\ UNCHANGED fw
\* Lock(): announce, then wait until the read holders are gone
FWRequest ==
    /\ fw = "idle" /\ ~rw.wpend /\ ~rw.wheld
    /\ rw' = [rw EXCEPT !.wpend = TRUE] /\ fw' = "pending"
    /\ act' = [name |-> "FWRequest", t |-> "writer"]
    /\ UNCHANGED fr
FWAcquire ==
    /\ fw = "pending" /\ rw.readers = 0
    /\ rw' = [rw EXCEPT !.wpend = FALSE, !.wheld = TRUE] /\ fw' = "held"
    /\ act' = [name |-> "FWAcquire", t |-> "writer"]
    /\ UNCHANGED fr
FWUnlock ==
    /\ fw = "held"
    /\ rw' = [rw EXCEPT !.wheld = FALSE] /\ fw' = "done"
    /\ act' = [name |-> "FWUnlock", t |-> "writer"]
    /\ UNCHANGED fr

NextF == (FROuter \/ FRVisit \/ FRInner \/ FRInnerUnlock \/ FRUnlock \/ FWRequest \/ FWAcquire \/ FWUnlock)
         /\ UNCHANGED <<varsA, varsB, varsC, varsD, varsE>>

\* --- properties (C18: no deadlock) ---
\* lock discipline: nobody asks for the read lock while holding it
NoReentrantRLock == fr.pc # "want"
\* somebody can always move until both calls have returned
StoreNeverStuck == (fr.pc = "done" /\ fw = "done") \/ ENABLED NextF

NoNilUse == gres # "nilpanic"

Next == CASE Part = "alerts" -> NextA [] Part = "informer" -> NextB [] Part = "fanout" -> NextD
          [] Part = "accrual" -> NextE [] Part = "rwlock" -> NextF [] OTHER -> NextC
Spec == Init /\ [][Next]_vars

\* negated reachability goals (witness generation)
NeverPanics  == ~panicked
NeverTears   == NoTear
NeverNilUse  == NoNilUse
=============================================================================
