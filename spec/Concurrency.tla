--------------------------- MODULE Concurrency ---------------------------
(***************************************************************************)
(* C18 - lock scopes of the shared structures behind the public API, at    *)
(* the granularity of the code's steps (which statement runs under which   *)
(* mutex), so that TLC enumerates the interleavings and the replay driver  *)
(* forces each of them on the real code through gates.                     *)
(*                                                                         *)
(* Part A: Cluster.Alerts() against alertsHandler() (cluster.go).          *)
(*   reader : [size the result] ; lock ; copy reversed ; unlock            *)
(*   writer : lock ; (reset if more than MaxAlerts) ; append ; unlock      *)
(*   SizedOutsideLock = TRUE is the pinned commit: the result slice is     *)
(*   allocated by len(c.alerts) BEFORE taking alertsMux.                   *)
(*                                                                         *)
(* Part B: Informer.GetMetric() against Informer.Shutdown() (disk, numpin) *)
(*   get  : test rpcClient # nil ; use rpcClient                           *)
(*   shut : rpcClient := nil                                               *)
(*   ClientGuarded = FALSE is the pinned commit: no synchronisation, the   *)
(*   field is read twice.                                                  *)
(*                                                                         *)
(* Part C: start-up that never becomes ready (cluster.go NewCluster/ready/ *)
(*   Shutdown).  The goroutine that runs ready() is registered in the      *)
(*   Cluster's wait group; when ReadyTimeout fires it shuts the peer down. *)
(*   ShutdownInline = TRUE is the pinned commit: ready() calls Shutdown()  *)
(*   on its own goroutine, and Shutdown() ends with wg.Wait().             *)
(*                                                                         *)
(* The tracker's operation table is modelled in Tracker.tla.               *)
(***************************************************************************)
EXTENDS Integers, Sequences, FiniteSets, TLC

CONSTANTS MaxAlerts,          \* reset threshold (code: 1000)
          NWrites,            \* alerts delivered during the scenario
          NReads,             \* Alerts() calls
          SizedOutsideLock,
          ClientGuarded,
          ShutdownInline,
          Part                \* "alerts" | "informer" | "lifecycle"

VARIABLES alerts, lock, rd, wr, nread, nwritten, results, panicked,   \* part A
          client, gm, sh, gres,                                       \* part B
          wg, rg, sd, doneCh,                                         \* part C
          act

varsA == <<alerts, lock, rd, wr, nread, nwritten, results, panicked>>
varsB == <<client, gm, sh, gres>>
varsC == <<wg, rg, sd, doneCh>>
vars  == <<alerts, lock, rd, wr, nread, nwritten, results, panicked, client, gm, sh, gres, wg, rg, sd, doneCh, act>>

Reverse(s) == [i \in 1..Len(s) |-> s[Len(s) + 1 - i]]
Zeros(n)   == [i \in 1..n |-> 0]

Init ==
    /\ alerts = <<>> /\ lock = "free"
    /\ rd = [pc |-> "idle", n |-> 0]
    /\ wr = [pc |-> "idle"]
    /\ nread = 0 /\ nwritten = 0 /\ results = <<>> /\ panicked = FALSE
    /\ client = "set" /\ gm = "idle" /\ sh = "idle" /\ gres = "none"
    /\ wg = 1 /\ rg = "waiting" /\ sd = "idle" /\ doneCh = FALSE
    /\ act = [name |-> "Init"]

(***************************************************************************)
(* Part A                                                                  *)
(***************************************************************************)
\* the copy loop: for i, a := range c.alerts { out[total-1-i] = a }
\* returns <<ok, out>>; ok = FALSE when an index is out of range (panic)
CopyReversed(n, src) ==
    IF Len(src) > n THEN <<FALSE, <<>>>>
    ELSE <<TRUE, [k \in 1..n |-> IF n - k + 1 <= Len(src) THEN src[n - k + 1] ELSE 0]>>

RSize ==      \* as coded: make([]api.Alert, len(c.alerts)) before the lock
    /\ SizedOutsideLock /\ rd.pc = "idle" /\ nread < NReads
    /\ rd' = [pc |-> "sized", n |-> Len(alerts)]
    /\ act' = [name |-> "RSize", t |-> "reader"]
    /\ UNCHANGED <<alerts, lock, wr, nread, nwritten, results, panicked>>

RLock ==
    /\ lock = "free"
    /\ \/ (SizedOutsideLock /\ rd.pc = "sized" /\ rd' = [rd EXCEPT !.pc = "locked"])
       \/ (~SizedOutsideLock /\ rd.pc = "idle" /\ nread < NReads /\ rd' = [pc |-> "locked", n |-> Len(alerts)])
    /\ lock' = "rd"
    /\ act' = [name |-> "RLock", t |-> "reader"]
    /\ UNCHANGED <<alerts, wr, nread, nwritten, results, panicked>>

RCopyUnlock ==
    /\ rd.pc = "locked"
    /\ LET r == CopyReversed(rd.n, alerts) IN
        /\ panicked' = (panicked \/ ~r[1])
        /\ results' = IF r[1] THEN Append(results, [out |-> r[2], at |-> alerts]) ELSE results
    /\ lock' = "free" /\ rd' = [pc |-> "idle", n |-> 0] /\ nread' = nread + 1
    /\ act' = [name |-> "RCopyUnlock", t |-> "reader"]
    /\ UNCHANGED <<alerts, wr, nwritten>>

WLock ==
    /\ wr.pc = "idle" /\ nwritten < NWrites /\ lock = "free"
    /\ lock' = "wr" /\ wr' = [pc |-> "locked"]
    /\ act' = [name |-> "WLock", t |-> "writer"]
    /\ UNCHANGED <<alerts, rd, nread, nwritten, results, panicked>>

WAppendUnlock ==
    /\ wr.pc = "locked"
    /\ alerts' = Append(IF Len(alerts) > MaxAlerts THEN <<>> ELSE alerts, nwritten + 1)
    /\ nwritten' = nwritten + 1
    /\ lock' = "free" /\ wr' = [pc |-> "idle"]
    /\ act' = [name |-> "WAppendUnlock", t |-> "writer"]
    /\ UNCHANGED <<rd, nread, results, panicked>>

NextA == (RSize \/ RLock \/ RCopyUnlock \/ WLock \/ WAppendUnlock) /\ UNCHANGED varsB /\ UNCHANGED varsC

\* --- properties (C18: no panic, no torn result) ---
NoIndexPanic == ~panicked

\* a returned list has no empty (0) and no duplicated entries, and is the
\* reverse of the alert list as it was at some point (here: at copy time)
WellFormed(out) ==
    /\ \A i \in DOMAIN out : out[i] # 0
    /\ \A i, j \in DOMAIN out : i # j => out[i] # out[j]
NoTear == \A k \in DOMAIN results : WellFormed(results[k].out) /\ results[k].out = Reverse(results[k].at)

(***************************************************************************)
(* Part B                                                                  *)
(***************************************************************************)
GCheck ==
    /\ gm = "idle" /\ gres = "none"
    /\ IF client = "nil" THEN gm' = "idle" /\ gres' = "invalid"      \* returns an invalid metric
                         ELSE gm' = "checked" /\ gres' = gres
    /\ act' = [name |-> "GCheck", t |-> "get"]
    /\ UNCHANGED <<client, sh>>

\* as coded the field is read again when used; guarded: the value read at the check is used
GUse ==
    /\ gm = "checked"
    /\ gres' = IF ~ClientGuarded /\ client = "nil" THEN "nilpanic" ELSE "metric"
    /\ gm' = "idle"
    /\ act' = [name |-> "GUse", t |-> "get"]
    /\ UNCHANGED <<client, sh>>

SNil ==
    /\ sh = "idle"
    /\ client' = "nil" /\ sh' = "done"
    /\ act' = [name |-> "SNil", t |-> "shut"]
    /\ UNCHANGED <<gm, gres>>

NextB == (GCheck \/ GUse \/ SNil) /\ UNCHANGED varsA /\ UNCHANGED varsC

(***************************************************************************)
(* Part C                                                                  *)
(* rg : the goroutine of NewCluster that runs ready() then run(); it is    *)
(*      counted in wg (wg.Add(1) ... defer wg.Done()).                     *)
(* sd : the thread executing Shutdown(): stops components, cancels, then   *)
(*      wg.Wait(), then closes doneCh.                                     *)
(***************************************************************************)
\* ReadyTimeout fires
CTimeout ==
    /\ rg = "waiting"
    /\ IF ShutdownInline
         THEN rg' = "inshutdown" /\ sd' = "stopping"         \* Shutdown() runs on rg itself
         ELSE rg' = "returning" /\ sd' = "stopping"          \* go Shutdown(); ready() returns
    /\ act' = [name |-> "CTimeout", t |-> "ready"]
    /\ UNCHANGED <<wg, doneCh>>

\* the ready goroutine returns: deferred wg.Done()
CReturn ==
    /\ rg = "returning"
    /\ rg' = "gone" /\ wg' = wg - 1
    /\ act' = [name |-> "CReturn", t |-> "ready"]
    /\ UNCHANGED <<sd, doneCh>>

\* Shutdown: components stopped, context cancelled, now waiting for the goroutines
CStopped ==
    /\ sd = "stopping"
    /\ sd' = "wgwait"
    /\ act' = [name |-> "CStopped", t |-> "shutdown"]
    /\ UNCHANGED <<wg, rg, doneCh>>

\* wg.Wait() returns only when every registered goroutine has finished
CWaitDone ==
    /\ sd = "wgwait" /\ wg = 0
    /\ sd' = "done" /\ doneCh' = TRUE
    /\ rg' = IF rg = "inshutdown" THEN "returning" ELSE rg
    /\ act' = [name |-> "CWaitDone", t |-> "shutdown"]
    /\ UNCHANGED wg

NextC == (CTimeout \/ CReturn \/ CStopped \/ CWaitDone) /\ UNCHANGED varsA /\ UNCHANGED varsB

\* no goroutine waits for itself: Shutdown's wg.Wait() must not run on a goroutine counted in wg
NoSelfWait == ~(sd = "wgwait" /\ rg = "inshutdown")
\* the peer really stops
LifeSpec == Init /\ [][NextC]_vars /\ WF_vars(NextC)
EventuallyStopped == <>doneCh

NoNilUse == gres # "nilpanic"

Next == CASE Part = "alerts" -> NextA [] Part = "informer" -> NextB [] OTHER -> NextC
Spec == Init /\ [][Next]_vars

\* negated reachability goals (witness generation)
NeverPanics  == ~panicked
NeverTears   == NoTear
NeverNilUse  == NoNilUse
=============================================================================
