------------------------- MODULE CrdtPinsetNetTrace -------------------------
(***************************************************************************)
(* C02 - validation of executions recorded from 2-3 real crdt.Consensus    *)
(* replicas (real libp2p / pubsub / bitswap / go-ds-crdt): `op` lines      *)
(* (LogPin / LogUnpin and their result), `connect` lines, Track / Untrack  *)
(* lines from each replica's harness PinTracker, and `sync` lines holding  *)
(* every replica's State().List(), heads and block count once the          *)
(* replicas of each connected component have exchanged all updates.        *)
(*                                                                         *)
(*  1. property predicates over the recorded lines: MemberDiv, ValueDiv    *)
(*     (replicas that exchanged all updates hold the same pinset),         *)
(*     HookBad (every change between two observations of a replica was     *)
(*     handed to its tracker), OwnBad (own operation visible on the        *)
(*     issuing replica);                                                   *)
(*  2. conformance to CrdtPinset (the transcription of go-ds-crdt v0.1.21) *)
(*     with the delivery steps inferred by TLC; hwm as in CrdtPinsetTrace. *)
(***************************************************************************)
EXTENDS CrdtPinset, Json, IOUtils, SequencesExt, FiniteSetsExt

NetVOrder == [c \in CIDS |-> <<"B", "A", "C">>]
Lines == ndJsonDeserialize(IOEnv.TRACE_FILE)
N     == Len(Lines)
Starts == SetToSortSeq({j \in 1..N : Lines[j].ev = "reset"}, LAMBDA a, b : a < b)
NRuns == Len(Starts)
EndOf(r) == IF r < NRuns THEN Starts[r + 1] - 1 ELSE N
Hdr(r) == Lines[Starts[r]]
Idx(r) == (Starts[r] + 1)..EndOf(r)

WellFormedPins(ps) == \A n \in DOMAIN ps : ps[n].c \in CIDS /\ ps[n].v \in VALS
ObsPins(ps) == [c \in CIDS |-> IF \E n \in DOMAIN ps : ps[n].c = c
                                 THEN ps[CHOOSE n \in DOMAIN ps : ps[n].c = c].v ELSE Absent]
Members(ps) == {ps[n].c : n \in DOMAIN ps}

SyncIdx(r) == {j \in Idx(r) : Lines[j].ev = "sync"}
ObsOf(j, rep) == LET o == Lines[j].obs IN o[CHOOSE n \in DOMAIN o : o[n].r = rep]
RepsAt(j) == {Lines[j].obs[n].r : n \in DOMAIN Lines[j].obs}
SamePair(j) == {p \in RepsAt(j) \X RepsAt(j) :
                   p[1] # p[2] /\ \E n \in DOMAIN Lines[j].comps : p[1] \in Range(Lines[j].comps[n]) /\ p[2] \in Range(Lines[j].comps[n])}
\* premise of the convergence clause, from recorded data: same heads, same blocks
Exchanged(j, a, b) == /\ Range(ObsOf(j, a).heads) = Range(ObsOf(j, b).heads)
                      /\ ObsOf(j, a).nb = ObsOf(j, b).nb

MemberDivAt(j) == {p \in SamePair(j) : Exchanged(j, p[1], p[2]) /\
                      Members(ObsOf(j, p[1]).pins) # Members(ObsOf(j, p[2]).pins)}
ValueDivCids(j) == {c \in CIDS : \E p \in SamePair(j) :
                      /\ Exchanged(j, p[1], p[2])
                      /\ c \in Members(ObsOf(j, p[1]).pins) /\ c \in Members(ObsOf(j, p[2]).pins)
                      /\ ObsPins(ObsOf(j, p[1]).pins)[c] # ObsPins(ObsOf(j, p[2]).pins)[c]}
NotSynced(r) == {j \in SyncIdx(r) : \E p \in SamePair(j) : ~Exchanged(j, p[1], p[2])}
BadObs(r) == {j \in SyncIdx(r) : \E n \in DOMAIN Lines[j].obs : ~WellFormedPins(Lines[j].obs[n].pins)}

\* history shape of a cid before line j (used only to name the violation)
OpsOfLine(l) == IF l.ev = "op" THEN (IF l.res = "ok" THEN {[k |-> l.op, c |-> l.c]} ELSE {})
                ELSE IF l.ev = "batch" THEN {[k |-> l.ops[n].k, c |-> l.ops[n].c] : n \in DOMAIN l.ops}
                ELSE {}
Shape(r, j, c) ==
    LET before == {k \in Idx(r) : k < j}
        preps == {Lines[k].r : k \in {k \in before : Lines[k].ev \in {"op", "batch"} /\ [k |-> "pin", c |-> c] \in OpsOfLine(Lines[k])}}
        rms   == {k \in before : [k |-> "unpin", c |-> c] \in OpsOfLine(Lines[k])}
        multi == {k \in before : Lines[k].ev = "batch" /\
                    Cardinality({n \in DOMAIN Lines[k].ops : Lines[k].ops[n].k = "pin" /\ Lines[k].ops[n].c = c}) >= 2}
    IN IF Cardinality(preps) >= 2 /\ rms # {} THEN "concurrent-add-with-remove"
       ELSE IF Cardinality(preps) >= 2 /\ multi # {} THEN "concurrent-add-with-multi-pin-batch"
       ELSE IF Cardinality(preps) >= 2 THEN "concurrent-add"
       ELSE "single-writer"
Shapes == {"concurrent-add-with-remove", "concurrent-add-with-multi-pin-batch", "concurrent-add", "single-writer"}

MemberDiv(r) == {j \in SyncIdx(r) : MemberDivAt(j) # {}}
\* every change between two consecutive observations of a replica was handed to its tracker
PrevSync(r, j) == {k \in SyncIdx(r) : k < j /\ \A m \in SyncIdx(r) : m < j => m <= k}
PrevPins(r, j, rep) == IF PrevSync(r, j) = {} THEN [c \in CIDS |-> Absent]
                       ELSE ObsPins(ObsOf(CHOOSE k \in PrevSync(r, j) : TRUE, rep).pins)
PrevLine(r, j) == IF PrevSync(r, j) = {} THEN Starts[r] ELSE CHOOSE k \in PrevSync(r, j) : TRUE
HookSeen(r, j, rep, c, new) ==
    \E k \in Idx(r) : /\ k > PrevLine(r, j) /\ k < j /\ Lines[k].ev \in {"track", "untrack"}
                      /\ Lines[k].r = rep /\ Lines[k].c = c
                      /\ IF new = Absent THEN Lines[k].ev = "untrack" ELSE Lines[k].ev = "track" /\ Lines[k].v = new
\* the known go-ds-crdt defect re-exposes a record this replica itself held (and handed to its tracker)
\* before it was removed: a CID that was absent re-enters with a value already tracked here earlier
StaleResurfaced(r, j, rep, c, old, new) ==
    /\ old = Absent /\ new # Absent
    /\ \E k \in Idx(r) : k < PrevLine(r, j) /\ Lines[k].ev = "track" /\ Lines[k].r = rep /\ Lines[k].c = c /\ Lines[k].v = new
HookBad(r) ==
              {x \in [line : SyncIdx(r), rep : REPS, c : CIDS, shape : Shapes, stale : BOOLEAN] :
                  /\ x.rep \in RepsAt(x.line) /\ x.shape = Shape(r, x.line, x.c)
                  /\ WellFormedPins(ObsOf(x.line, x.rep).pins)
                  /\ LET new == ObsPins(ObsOf(x.line, x.rep).pins)[x.c] old == PrevPins(r, x.line, x.rep)[x.c]
                     IN /\ new # old /\ ~HookSeen(r, x.line, x.rep, x.c, new)
                        /\ x.stale = StaleResurfaced(r, x.line, x.rep, x.c, old, new)}

\* a replica that has never been connected shows exactly its own accepted operations, in order
RECURSIVE OwnSeq(_, _)
OwnSeq(s, acc) ==
    IF s = <<>> THEN acc
    ELSE LET l == Lines[Head(s)] IN
         OwnSeq(Tail(s), IF l.ev = "op" THEN Append(acc, [k |-> l.op, c |-> l.c, v |-> l.v])
                         ELSE acc \o [n \in DOMAIN l.ops |-> [k |-> l.ops[n].k, c |-> l.ops[n].c, v |-> l.ops[n].v]])
RECURSIVE ApplyOps(_, _)
ApplyOps(ps, ops) == IF ops = <<>> THEN ps
                     ELSE ApplyOps([ps EXCEPT ![Head(ops).c] = IF Head(ops).k = "pin" THEN Head(ops).v ELSE Absent], Tail(ops))
OwnLines(r, j, rep) == {k \in Idx(r) : k < j /\ Lines[k].ev \in {"op", "batch"} /\ Lines[k].r = rep /\
                                        (Lines[k].ev = "op" => Lines[k].res = "ok")}
Alone(j, rep) == \E n \in DOMAIN Lines[j].comps : Lines[j].comps[n] = <<rep>>
OwnBad(r) == {x \in [line : SyncIdx(r), rep : REPS] :
                /\ x.rep \in RepsAt(x.line) /\ Alone(x.line, x.rep)
                /\ WellFormedPins(ObsOf(x.line, x.rep).pins)
                /\ ObsPins(ObsOf(x.line, x.rep).pins) #
                     ApplyOps([c \in CIDS |-> Absent],
                              OwnSeq(SetToSortSeq(OwnLines(r, x.line, x.rep), LAMBDA a, b : a < b), <<>>))}

Verdict(r) == [run |-> Hdr(r).run, memberdiv |-> MemberDiv(r), own |-> OwnBad(r),
               valuediv |-> {x \in [line : SyncIdx(r), c : CIDS, shape : Shapes] :
                                x.c \in ValueDivCids(x.line) /\ x.shape = Shape(r, x.line, x.c)},
               hook |-> HookBad(r), notsynced |-> NotSynced(r), badobs |-> BadObs(r),
               first |-> Starts[r], last |-> EndOf(r)]

-----------------------------------------------------------------------------
(* conformance *)
VARIABLES run, i
VRankRep(rep) == CHOOSE n \in 0..9 : rep = "r" \o ToString(n)
tvars == <<vars, run, i>>

ASSUME \A r \in 1..(2 * NRuns) : TLCSet(r, 0)

TraceInit == /\ run \in 1..NRuns /\ i = Starts[run] + 1 /\ Init

More == i <= EndOf(run)
L == Lines[i]

TOp == /\ More /\ L.ev = "op" /\ L.res = "ok"
       /\ IF L.op = "pin" THEN LocalPin(L.r, L.c, L.v) ELSE LocalUnpin(L.r, L.c)
       /\ i' = i + 1 /\ UNCHANGED run
TBatch == /\ More /\ L.ev = "batch"
          /\ LocalBatch(L.r, [n \in DOMAIN L.ops |-> [k |-> L.ops[n].k, c |-> L.ops[n].c, v |-> L.ops[n].v]])
          /\ i' = i + 1 /\ UNCHANGED run
TConnect == /\ More /\ L.ev = "connect" /\ Connect(L.r, L.s) /\ i' = i + 1 /\ UNCHANGED run
\* Merging at one replica neither enables nor changes merging at another one (Avail is the union over
\* the component), so only the first replica that is behind takes delivery steps: all orders per replica
\* are still explored, the interleavings across replicas are not multiplied.
Behind == {rep \in REPS : ~Idle(rep)}
FirstBehind == CHOOSE rep \in Behind : \A o \in Behind : VRankRep(rep) <= VRankRep(o)
TProc == /\ Behind # {}
         /\ \E id \in 1..Len(deltas) : Process(FirstBehind, id)
         /\ UNCHANGED <<run, i>>
TSync == /\ More /\ L.ev = "sync"
         /\ \A n \in DOMAIN L.obs :
               /\ Idle(L.obs[n].r)
               /\ WellFormedPins(L.obs[n].pins)
               /\ ObsPins(L.obs[n].pins) = Pinset(L.obs[n].r)
         /\ i' = i + 1 /\ UNCHANGED <<vars, run>>
TSkip == /\ More /\ L.ev \in {"track", "untrack"} /\ i' = i + 1 /\ UNCHANGED <<vars, run>>

TraceNext == TOp \/ TBatch \/ TConnect \/ TProc \/ TSync \/ TSkip
TraceSpec == TraceInit /\ [][TraceNext]_tvars

Mark == /\ TLCSet(run, IF TLCGet(run) > i THEN TLCGet(run) ELSE i)
        \* the specification's invariants are evaluated on every state that explains a recorded run;
        \* the first line at which one fails is remembered (register NRuns + run), never aborting the other runs
        /\ (~(MembershipConvergence) /\ TLCGet(NRuns + run) = 0) => TLCSet(NRuns + run, i)
\* the view leaves out bookkeeping that does not influence what can follow
TView == <<deltas, seen, elemsR, tombsR, reg, conn, run, i>>

Finish == ndJsonSerialize(IOEnv.VERDICT_FILE,
            <<[n |-> NRuns, hwm |-> [r \in 1..NRuns |-> TLCGet(r)], invbad |-> [r \in 1..NRuns |-> TLCGet(NRuns + r)], runs |-> [r \in 1..NRuns |-> Verdict(r)]]>>)
=============================================================================
