----------------------------- MODULE Tracker -----------------------------
(***************************************************************************)
(* C05 / C06 / C18 - the stateless pin tracker of one peer.                *)
(*                                                                         *)
(* Shaped after pintracker/stateless/stateless.go and                      *)
(* pintracker/optracker/{operationtracker,operation}.go: one action per    *)
(* critical section.                                                       *)
(*                                                                         *)
(*   st     the shared pinset as this peer sees it (what getState returns) *)
(*   ipfs   the pins held by the local IPFS daemon                         *)
(*   ops    every live Operation object (id -> record); an operation that  *)
(*          was replaced in the table stays alive while a queue or a       *)
(*          worker still references it - this is where the races are       *)
(*   table  OperationTracker.operations: at most one operation per CID     *)
(*   pinQ, unpinQ   the two bounded channels                               *)
(*   wk     K pin workers, one unpin worker, and the thread of a           *)
(*          synchronous Track(remote pin) call, each with a program        *)
(*          counter over the steps of opWorker/applyPinF                   *)
(*                                                                         *)
(* The daemon: a call takes effect atomically at Apply, somewhere between  *)
(* its start and its return; a call whose context was cancelled returns an *)
(* error at once (having applied or not).  Pin/unpin semantics at the      *)
(* IPFSConnector boundary (connector + go-ipfs-pinner v0.1.1):             *)
(*   Pin recursive : none/direct -> recursive                              *)
(*   Pin direct    : none -> direct; recursive -> error "already pinned    *)
(*                   recursively"                                          *)
(*   Unpin         : anything -> none (unpinning a non-pinned CID is ok)    *)
(*   PinLsCid(pin) : the pin's mode if held in exactly that mode, else     *)
(*                   unpinned;  PinLs(type): pins of that type             *)
(*                                                                         *)
(* CONSTANT switches name the places where the code (at the pinned commit) *)
(* deviates from what the property needs:                                  *)
(*   RecoverUsesStatePin  FALSE = recoverWithPinInfo re-issues             *)
(*                        api.PinCid(cid) (recursive, no options)          *)
(*   StatusAllListsDirect FALSE = ipfsStatusAll lists type=recursive only  *)
(***************************************************************************)
EXTENDS Integers, Sequences, FiniteSets, TLC

CONSTANTS CIDS,        \* e.g. {"c1","c2"}
          K,           \* concurrent pin workers
          Q,           \* queue capacity (MaxPinQueueSize)
          MaxInstr,    \* bound on environment instructions
          MaxFail,     \* bound on daemon failures
          Eager,       \* TRUE: internal steps have priority (replayable behaviours)
          GatedFinish, \* TRUE (with Eager): the workers' steps after a call returned (HandleErr, Finish)
                       \* and the Clean step are scheduled by the environment too: the replay driver
                       \* holds the real workers at the verifGate hooks "returned" and "clean"
          RecoverUsesStatePin,
          StatusAllListsDirect,
          DirOverRecStuck   \* TRUE = a direct pin of a CID the daemon still holds recursively
                            \* fails forever ("already pinned recursively"): tolerated class

\* The cluster API never turns a recursive pin into a direct one (C04 refuses it), so by default the environment
\* does not issue Track(c, direct) over a recorded recursive pin.  C05 quantifies over ALL instruction sequences
\* at the tracker: configurations with `CONSTANT AllowDowngrade <- AllowDowngradeOn` lift the restriction
\* (the result is the tolerated direct-over-recursive class unless the daemon lost the CID meanwhile).
AllowDowngrade == FALSE
AllowDowngradeOn == TRUE

VARIABLES st, ipfs, ops, table, pinQ, unpinQ, wk, ninstr, nfail, lastRes, healthy, act,
          proj   \* derived: what a client can observe (a function of the other variables)

vars == <<st, ipfs, ops, table, pinQ, unpinQ, wk, ninstr, nfail, lastRes, healthy, act, proj>>

PinW    == 1..K
UnpinW  == K + 1
RemoteT == K + 2
Workers == 1..(K + 2)

MaxOps == 2 * Cardinality(CIDS) + 2 * Q + K + 3
NoOp   == [cid |-> "-", type |-> "-", mode |-> "-", phase |-> "-", cancelled |-> FALSE, err |-> "-"]
Idle   == [op |-> 0, pc |-> "idle"]

Live(o) == o.type # "-"

(***************************************************************************)
(* Garbage collection of Operation objects: an id nobody references is     *)
(* free.  This only canonicalises states.                                  *)
(***************************************************************************)
Referenced(tb, pq, uq, w) ==
    {tb[c] : c \in CIDS} \cup {pq[i] : i \in DOMAIN pq} \cup {uq[i] : i \in DOMAIN uq}
        \cup {w[x].op : x \in Workers}

Collect(o, tb, pq, uq, w) ==
    [i \in 1..MaxOps |-> IF i \in Referenced(tb, pq, uq, w) THEN o[i] ELSE NoOp]

FreeId == CHOOSE i \in 1..MaxOps : ~Live(ops[i]) /\ \A j \in 1..MaxOps : ~Live(ops[j]) => i <= j

HasFree == \E i \in 1..MaxOps : ~Live(ops[i])

(***************************************************************************)
(* Status, as Status() and StatusAll() compute it                          *)
(***************************************************************************)
\* st values: "none", "rec", "dir" (allocated here or everywhere, recorded mode),
\* "rrec", "rdir" (allocated elsewhere, recorded mode), "meta"
IsRemote(v) == v \in {"rrec", "rdir"}
ModeOf(v)   == CASE v \in {"rec", "rrec"} -> "rec" [] v \in {"dir", "rdir"} -> "dir" [] OTHER -> "none"

OpStatus(o) ==
    CASE o.type = "pin" ->
            (CASE o.phase = "error" -> "pin_error" [] o.phase = "queued" -> "pin_queued"
               [] o.phase = "inprogress" -> "pinning" [] OTHER -> "pinned")
      [] o.type = "unpin" ->
            (CASE o.phase = "error" -> "unpin_error" [] o.phase = "queued" -> "unpin_queued"
               [] o.phase = "inprogress" -> "unpinning" [] OTHER -> "unpinned")
      [] OTHER -> "remote"

\* IPFSConnector.PinLsCid for the pin recorded in the state
LsCid(s, ip, c) == IF ip[c] = s[c] THEN "pinned" ELSE "pin_error"

StatusIn(s, ip, o, tb, c) ==
    IF tb[c] # 0 THEN OpStatus(o[tb[c]])
    ELSE CASE s[c] = "none"   -> "unpinned"
           [] s[c] = "meta"   -> "sharded"
           [] IsRemote(s[c])  -> "remote"
           [] OTHER           -> LsCid(s, ip, c)

StatusOf(c) == StatusIn(st, ipfs, ops, table, c)

\* is the CID in the listing ipfsStatusAll obtains?
Listed(ip, c) == IF StatusAllListsDirect THEN ip[c] # "none" ELSE ip[c] = "rec"

\* StatusAll(filter = all): CID -> status or "absent"
StatusAllIn(s, ip, o, tb, c) ==
    IF tb[c] # 0 THEN OpStatus(o[tb[c]])
    ELSE CASE s[c] = "none"   -> "absent"
           [] s[c] = "meta"   -> "sharded"
           [] IsRemote(s[c])  -> "remote"
           [] OTHER           -> IF Listed(ip, c)
                                   THEN (IF StatusAllListsDirect
                                            THEN (IF ip[c] = s[c] THEN "pinned" ELSE "unexpectedly_unpinned")
                                            ELSE "pinned")
                                   ELSE "unexpectedly_unpinned"

StatusAllOf(c) == StatusAllIn(st, ipfs, ops, table, c)

IsErr(s) == s \in {"pin_error", "unpin_error", "cluster_error"}


(***************************************************************************)
(* The observable projection (used by the replay driver; derived)          *)
(***************************************************************************)
InternalEnabledIn(o, pq, uq, w) ==
    \E x \in Workers :
        \/ (x \in PinW /\ w[x].pc = "idle" /\ pq # <<>>)
        \/ (x = UnpinW /\ w[x].pc = "idle" /\ uq # <<>>)
        \/ w[x].pc = "got"
        \/ (w[x].pc \in {"ret_err", "ret_ok", "done"} /\ (~GatedFinish \/ x = RemoteT))
        \/ (w[x].pc \in {"call", "applied"} /\ o[w[x].op].cancelled)

CallKind(o) == IF o.type = "pin" THEN "pin" ELSE "unpin"

Proj(s, ip, o, tb, pq, uq, w) ==
    [ status    |-> [c \in CIDS |-> StatusIn(s, ip, o, tb, c)],
      statusall |-> [c \in CIDS |-> StatusAllIn(s, ip, o, tb, c)],
      pending   |-> {[cid |-> o[w[x].op].cid, kind |-> CallKind(o[w[x].op]), mode |-> o[w[x].op].mode] :
                        x \in {y \in Workers : w[y].pc = "call"}},
      applied   |-> {[cid |-> o[w[x].op].cid, kind |-> CallKind(o[w[x].op]), mode |-> o[w[x].op].mode] :
                        x \in {y \in Workers : w[y].pc = "applied"}},
      stable    |-> ~InternalEnabledIn(o, pq, uq, w),
      quiescent |-> (pq = <<>> /\ uq = <<>> /\ \A x \in Workers : w[x].pc = "idle") ]

Init ==
    /\ st = [c \in CIDS |-> "none"]
    /\ ipfs = [c \in CIDS |-> "none"]
    /\ ops = [i \in 1..MaxOps |-> NoOp]
    /\ table = [c \in CIDS |-> 0]
    /\ pinQ = <<>> /\ unpinQ = <<>>
    /\ wk = [w \in Workers |-> Idle]
    /\ ninstr = 0 /\ nfail = 0
    /\ lastRes = "none"
    /\ healthy = FALSE
    /\ act = [name |-> "Init"]
    /\ proj = Proj(st, ipfs, ops, table, pinQ, unpinQ, wk)

(***************************************************************************)
(* Operation table                                                         *)
(***************************************************************************)
\* TrackNewOperation: does an ongoing operation of the same type exist?
Dedup(c, typ) ==
    /\ table[c] # 0
    /\ ops[table[c]].type = typ
    /\ ops[table[c]].phase \notin {"error", "done"}

\* ops/table after TrackNewOperation created operation `id` (cancel-and-replace)
OpsAfterNew(c, id, typ, mode, ph) ==
    LET o1 == IF table[c] # 0 THEN [ops EXCEPT ![table[c]].cancelled = TRUE] ELSE ops
    IN [o1 EXCEPT ![id] = [cid |-> c, type |-> typ, mode |-> mode, phase |-> ph, cancelled |-> FALSE, err |-> "-"]]

\* enqueue(): returns <<ops', table', pinQ', unpinQ', result>>
Enqueue(o, tb, pq, uq, c, typ, mode) ==
    IF tb[c] # 0 /\ o[tb[c]].type = typ /\ o[tb[c]].phase \notin {"error", "done"}
    THEN <<o, tb, pq, uq, "ok", <<"dedup", o[tb[c]].type, o[tb[c]].phase>>>>   \* ongoing operation: nil
    ELSE
        LET id == CHOOSE i \in 1..MaxOps :
                     ~Live(o[i]) /\ \A j \in 1..MaxOps : ~Live(o[j]) => i <= j
            o1 == IF tb[c] # 0 THEN [o EXCEPT ![tb[c]].cancelled = TRUE] ELSE o
            q  == IF typ = "pin" THEN pq ELSE uq
            prev == IF tb[c] = 0 THEN <<"new", "-", "-">> ELSE <<"replace", o[tb[c]].type, o[tb[c]].phase>>
        IN IF Len(q) >= Q
           THEN <<[o1 EXCEPT ![id] = [cid |-> c, type |-> typ, mode |-> mode, phase |-> "error",
                                      cancelled |-> TRUE, err |-> "fullq"]],
                  [tb EXCEPT ![c] = id], pq, uq, "fullq", prev>>
           ELSE <<[o1 EXCEPT ![id] = [cid |-> c, type |-> typ, mode |-> mode, phase |-> "queued",
                                      cancelled |-> FALSE, err |-> "-"]],
                  [tb EXCEPT ![c] = id],
                  IF typ = "pin" THEN Append(pq, id) ELSE pq,
                  IF typ = "unpin" THEN Append(uq, id) ELSE uq, "ok", prev>>

CanCreate(o) == \E i \in 1..MaxOps : ~Live(o[i])

Quiescent ==
    /\ pinQ = <<>> /\ unpinQ = <<>>
    /\ \A w \in Workers : wk[w].pc = "idle"

(***************************************************************************)
(* Environment: instructions                                               *)
(***************************************************************************)
Budget == ninstr < MaxInstr

\* Track of a pin allocated here (or everywhere), in mode m
TrackLocal(c, m) ==
    /\ Budget /\ m \in {"rec", "dir"}
    /\ (AllowDowngrade \/ ~(ModeOf(st[c]) = "rec" /\ m = "dir"))  \* C04 refuses recursive -> direct
    /\ st[c] # "meta"                          \* C04 refuses type changes
    /\ CanCreate(ops)
    /\ LET r == Enqueue(ops, table, pinQ, unpinQ, c, "pin", m) IN
        /\ ops' = Collect(r[1], r[2], r[3], r[4], wk)
        /\ table' = r[2] /\ pinQ' = r[3] /\ unpinQ' = r[4] /\ lastRes' = r[5]
    /\ st' = [st EXCEPT ![c] = m]
    /\ ninstr' = ninstr + 1 /\ healthy' = FALSE
    /\ act' = [name |-> "Track", cid |-> c, kind |-> m,
               br |-> <<Enqueue(ops, table, pinQ, unpinQ, c, "pin", m)[6], lastRes', ipfs[c], st[c]>>]
    /\ UNCHANGED <<ipfs, wk, nfail>>

TrackMeta(c) ==
    /\ Budget /\ st[c] \in {"none", "meta"}
    /\ st' = [st EXCEPT ![c] = "meta"]
    /\ ninstr' = ninstr + 1 /\ lastRes' = "ok" /\ healthy' = FALSE
    /\ act' = [name |-> "Track", cid |-> c, kind |-> "meta"]
    /\ UNCHANGED <<ipfs, ops, table, pinQ, unpinQ, wk, nfail>>

\* Track of a pin allocated elsewhere: synchronous unpin on the caller's thread
TrackRemote(c, m) ==
    /\ Budget /\ st[c] # "meta" /\ m \in {"rec", "dir"}
    /\ (AllowDowngrade \/ ~(ModeOf(st[c]) = "rec" /\ m = "dir"))
    /\ wk[RemoteT].pc = "idle"
    /\ CanCreate(ops)
    /\ st' = [st EXCEPT ![c] = "r" \o m]
    /\ ninstr' = ninstr + 1 /\ lastRes' = "ok" /\ healthy' = FALSE
    /\ act' = [name |-> "Track", cid |-> c, kind |-> "r" \o m,
               br |-> <<IF Dedup(c, "remote") THEN "dedup" ELSE IF table[c] = 0 THEN "new" ELSE ops[table[c]].type \o "-" \o ops[table[c]].phase,
                        ipfs[c], st[c]>>]
    /\ IF Dedup(c, "remote")
         THEN UNCHANGED <<ops, table, wk>>
         ELSE LET id == FreeId IN
              /\ wk' = [wk EXCEPT ![RemoteT] = [op |-> id, pc |-> "call"]]
              /\ table' = [table EXCEPT ![c] = id]
              /\ ops' = Collect(OpsAfterNew(c, id, "remote", "-", "inprogress"), table', pinQ, unpinQ, wk')
    /\ UNCHANGED <<ipfs, pinQ, unpinQ, nfail>>

Untrack(c) ==
    /\ Budget /\ st[c] # "none"
    /\ CanCreate(ops)
    /\ LET r == Enqueue(ops, table, pinQ, unpinQ, c, "unpin", "-") IN
        /\ ops' = Collect(r[1], r[2], r[3], r[4], wk)
        /\ table' = r[2] /\ pinQ' = r[3] /\ unpinQ' = r[4] /\ lastRes' = r[5]
    /\ st' = [st EXCEPT ![c] = "none"]
    /\ ninstr' = ninstr + 1 /\ healthy' = FALSE
    /\ act' = [name |-> "Untrack", cid |-> c,
               br |-> <<Enqueue(ops, table, pinQ, unpinQ, c, "unpin", "-")[6], lastRes', ipfs[c], st[c]>>]
    /\ UNCHANGED <<ipfs, wk, nfail>>

\* recoverWithPinInfo for one CID given the status it was handed
RecoverStep(o, tb, pq, uq, c, status) ==
    LET m == IF RecoverUsesStatePin /\ st[c] \in {"rec", "dir"} THEN st[c] ELSE "rec" IN
    CASE status \in {"pin_error", "unexpectedly_unpinned"} -> Enqueue(o, tb, pq, uq, c, "pin", m)
      [] status = "unpin_error"                            -> Enqueue(o, tb, pq, uq, c, "unpin", "-")
      [] OTHER                                              -> <<o, tb, pq, uq, "ok", <<"nothing", status, "-">>>>

Recover(c) ==
    /\ Budget
    /\ CanCreate(ops)
    /\ LET r == RecoverStep(ops, table, pinQ, unpinQ, c, StatusOf(c)) IN
        /\ ops' = Collect(r[1], r[2], r[3], r[4], wk)
        /\ table' = r[2] /\ pinQ' = r[3] /\ unpinQ' = r[4] /\ lastRes' = r[5]
    /\ ninstr' = ninstr + 1 /\ healthy' = FALSE
    /\ act' = [name |-> "Recover", cid |-> c,
               br |-> <<RecoverStep(ops, table, pinQ, unpinQ, c, StatusOf(c))[6], lastRes', ipfs[c], st[c]>>]
    /\ UNCHANGED <<st, ipfs, wk, nfail>>

\* RecoverAll: StatusAll(all) first, then recoverWithPinInfo per listed item
\* (map iteration order: any order; the model folds over a fixed order of a
\*  chosen permutation).  It stops at the first error, as coded.
RECURSIVE RecAll(_, _, _, _, _, _)
RecAll(seq, o, tb, pq, uq, sa) ==
    IF seq = <<>> THEN <<o, tb, pq, uq, "ok", <<>>>>
    ELSE LET c == Head(seq)
             r == IF sa[c] = "absent" \/ ~(\E i \in 1..MaxOps : ~Live(o[i]))
                     THEN <<o, tb, pq, uq, "ok", <<>>>>
                     ELSE RecoverStep(o, tb, pq, uq, c, sa[c])
         IN IF r[5] # "ok" THEN r ELSE RecAll(Tail(seq), r[1], r[2], r[3], r[4], sa)

Orders == {s \in [1..Cardinality(CIDS) -> CIDS] : \A i, j \in DOMAIN s : i # j => s[i] # s[j]}

RecoverAll ==
    /\ Budget
    /\ \E ord \in Orders :
        LET sa == [c \in CIDS |-> StatusAllOf(c)]
            r  == RecAll(ord, ops, table, pinQ, unpinQ, sa) IN
        /\ ops' = Collect(r[1], r[2], r[3], r[4], wk)
        /\ table' = r[2] /\ pinQ' = r[3] /\ unpinQ' = r[4] /\ lastRes' = r[5]
        \* a "recover round with IPFS healthy": started with nothing in flight,
        \* and no daemon failure or new instruction afterwards
        /\ healthy' = (r[5] = "ok" /\ Quiescent)
    /\ ninstr' = ninstr + 1
    /\ act' = [name |-> "RecoverAll"]
    /\ UNCHANGED <<st, ipfs, wk, nfail>>

(***************************************************************************)
(* Workers (opWorker / applyPinF) and the remote-track thread              *)
(***************************************************************************)
QueueOf(w) == IF w = UnpinW THEN unpinQ ELSE pinQ

Dequeue(w) ==
    /\ w \in PinW \cup {UnpinW}
    /\ wk[w].pc = "idle" /\ QueueOf(w) # <<>>
    /\ wk' = [wk EXCEPT ![w] = [op |-> Head(QueueOf(w)), pc |-> "got"]]
    /\ IF w = UnpinW THEN unpinQ' = Tail(unpinQ) /\ pinQ' = pinQ
                     ELSE pinQ' = Tail(pinQ) /\ unpinQ' = unpinQ
    /\ act' = [name |-> "Dequeue", w |-> w]
    /\ UNCHANGED <<st, ipfs, ops, table, ninstr, nfail, lastRes, healthy>>

\* op.Cancelled() -> move on; else SetPhase(InProgress) and issue the call
Start(w) ==
    /\ wk[w].pc = "got"
    /\ LET id == wk[w].op IN
        IF ops[id].cancelled
        THEN /\ wk' = [wk EXCEPT ![w] = Idle]
             /\ ops' = Collect(ops, table, pinQ, unpinQ, wk')
        ELSE /\ wk' = [wk EXCEPT ![w].pc = "call"]
             /\ ops' = [ops EXCEPT ![id].phase = "inprogress"]
    /\ act' = [name |-> "Start", w |-> w, br |-> <<ops[wk[w].op].cancelled, ops[wk[w].op].type>>]
    /\ UNCHANGED <<st, ipfs, table, pinQ, unpinQ, ninstr, nfail, lastRes, healthy>>

\* the daemon executes the call (its linearization point)
\* Daemon-model assumption (DESIGN C05): a call never takes effect after its
\* context was cancelled; a cancelled call returns an error whether or not it
\* had taken effect before.
Apply(w) ==
    /\ wk[w].pc = "call" /\ ~ops[wk[w].op].cancelled
    /\ LET o == ops[wk[w].op]  c == o.cid IN
        IF o.type = "pin" /\ o.mode = "dir" /\ ipfs[c] = "rec"
        THEN /\ wk' = [wk EXCEPT ![w].pc = "ret_err"]            \* already pinned recursively
             /\ ipfs' = ipfs
        ELSE /\ wk' = [wk EXCEPT ![w].pc = "applied"]
             /\ ipfs' = [ipfs EXCEPT ![c] = IF o.type = "pin" THEN o.mode ELSE "none"]
    /\ healthy' = healthy
    /\ act' = [name |-> "Apply", cid |-> ops[wk[w].op].cid, op |-> ops[wk[w].op].type,
               br |-> <<ops[wk[w].op].mode, ipfs[ops[wk[w].op].cid], st[ops[wk[w].op].cid]>>]
    /\ UNCHANGED <<st, ops, table, pinQ, unpinQ, ninstr, nfail, lastRes>>

\* the daemon (or the transport) fails the call
Fail(w) ==
    /\ wk[w].pc = "call" /\ nfail < MaxFail
    /\ wk' = [wk EXCEPT ![w].pc = "ret_err"]
    /\ nfail' = nfail + 1 /\ healthy' = FALSE
    /\ act' = [name |-> "Fail", cid |-> ops[wk[w].op].cid, op |-> ops[wk[w].op].type]
    /\ UNCHANGED <<st, ipfs, ops, table, pinQ, unpinQ, ninstr, lastRes>>

ReturnOk(w) ==
    /\ wk[w].pc = "applied"
    /\ wk' = [wk EXCEPT ![w].pc = "ret_ok"]
    /\ act' = [name |-> "Return", cid |-> ops[wk[w].op].cid, op |-> ops[wk[w].op].type]
    /\ UNCHANGED <<st, ipfs, ops, table, pinQ, unpinQ, ninstr, nfail, lastRes, healthy>>

\* the operation's context was cancelled while the call was in flight
Abort(w) ==
    /\ wk[w].pc \in {"call", "applied"} /\ ops[wk[w].op].cancelled
    /\ wk' = [wk EXCEPT ![w].pc = "ret_err"]
    /\ act' = [name |-> "Abort", w |-> w, br |-> <<wk[w].pc, ops[wk[w].op].type>>]
    /\ UNCHANGED <<st, ipfs, ops, table, pinQ, unpinQ, ninstr, nfail, lastRes, healthy>>

\* error path of applyPinF (workers) / Track (remote thread)
HandleErr(w) ==
    /\ wk[w].pc = "ret_err"
    /\ LET id == wk[w].op IN
        /\ wk' = [wk EXCEPT ![w] = Idle]
        /\ IF w = RemoteT
             THEN ops' = Collect([ops EXCEPT ![id].cancelled = TRUE, ![id].phase = "error", ![id].err = "ipfs"],
                                 table, pinQ, unpinQ, wk')
             ELSE IF ops[id].cancelled
                    THEN ops' = Collect(ops, table, pinQ, unpinQ, wk')
                    ELSE ops' = Collect([ops EXCEPT ![id].phase = "error", ![id].err = "ipfs", ![id].cancelled = TRUE],
                                        table, pinQ, unpinQ, wk')
    /\ act' = [name |-> "HandleErr", w |-> w, cid |-> ops[wk[w].op].cid, op |-> ops[wk[w].op].type,
               br |-> <<ops[wk[w].op].cancelled, ops[wk[w].op].type, w = RemoteT>>]
    /\ UNCHANGED <<st, ipfs, table, pinQ, unpinQ, ninstr, nfail, lastRes, healthy>>

\* success: SetPhase(Done); Cancel()
Finish(w) ==
    /\ wk[w].pc = "ret_ok"
    /\ ops' = [ops EXCEPT ![wk[w].op].phase = "done", ![wk[w].op].cancelled = TRUE]
    /\ wk' = [wk EXCEPT ![w].pc = "done"]
    /\ act' = [name |-> "Finish", w |-> w, cid |-> ops[wk[w].op].cid, op |-> ops[wk[w].op].type]
    /\ UNCHANGED <<st, ipfs, table, pinQ, unpinQ, ninstr, nfail, lastRes, healthy>>

\* optracker.Clean: delete only if the table still holds this very operation
Clean(w) ==
    /\ wk[w].pc = "done"
    /\ LET id == wk[w].op  c == ops[id].cid IN
        /\ table' = IF table[c] = id THEN [table EXCEPT ![c] = 0] ELSE table
        /\ wk' = [wk EXCEPT ![w] = Idle]
        /\ ops' = Collect(ops, table', pinQ, unpinQ, wk')
    /\ act' = [name |-> "Clean", w |-> w, cid |-> ops[wk[w].op].cid, op |-> ops[wk[w].op].type,
               br |-> <<table[ops[wk[w].op].cid] = wk[w].op, ops[wk[w].op].type, st[ops[wk[w].op].cid], ipfs[ops[wk[w].op].cid]>>]
    /\ UNCHANGED <<st, ipfs, pinQ, unpinQ, ninstr, nfail, lastRes, healthy>>

Gated(w) == GatedFinish /\ w # RemoteT
Internal == \E w \in Workers :
    \/ Dequeue(w) \/ Start(w) \/ Abort(w)
    \/ (~Gated(w) /\ (HandleErr(w) \/ Finish(w) \/ Clean(w)))

InternalEnabled == InternalEnabledIn(ops, pinQ, unpinQ, wk)

Env ==
    \/ \E c \in CIDS : TrackLocal(c, "rec") \/ TrackLocal(c, "dir") \/ TrackMeta(c) \/ TrackRemote(c, "rec") \/ TrackRemote(c, "dir")
                        \/ Untrack(c) \/ Recover(c)
    \/ RecoverAll
    \/ \E w \in Workers : Apply(w) \/ Fail(w) \/ ReturnOk(w)
    \/ \E w \in Workers : Gated(w) /\ (HandleErr(w) \/ Finish(w) \/ Clean(w))

Step == IF Eager THEN (Internal \/ (~InternalEnabled /\ Env)) ELSE (Internal \/ Env)
Next == Step /\ proj' = Proj(st', ipfs', ops', table', pinQ', unpinQ', wk')

Spec == Init /\ [][Next]_vars

PP == proj' = Proj(st', ipfs', ops', table', pinQ', unpinQ', wk')
Fairness == \A w \in Workers :
    /\ WF_vars(Dequeue(w) /\ PP) /\ WF_vars(Start(w) /\ PP) /\ WF_vars(Abort(w) /\ PP) /\ WF_vars(HandleErr(w) /\ PP)
    /\ WF_vars(Finish(w) /\ PP) /\ WF_vars(Clean(w) /\ PP) /\ WF_vars(Apply(w) /\ PP) /\ WF_vars(ReturnOk(w) /\ PP)

(***************************************************************************)
(* Properties                                                              *)
(***************************************************************************)

\* the daemon matches the last instruction (s: pinset view, ip: daemon pins)
MatchesIn(s, ip, c) ==
    CASE s[c] \in {"rec", "dir"} -> ip[c] = s[c]
      [] s[c] = "none"           -> ip[c] = "none"
      [] OTHER                   -> TRUE          \* remote: best effort; meta: never pinned by the tracker

Matches(c) == MatchesIn(st, ipfs, c)

StuckDirOverRec(s, ip, c) == s[c] = "dir" /\ ip[c] = "rec"

\* --- the property predicates over what is observable: pinset view, daemon
\* --- pins and the reported statuses (used on spec states AND on recorded
\* --- observations of the real tracker, see TrackerObs.tla)
ConvergeOn(s, ip, stf) == \A c \in DOMAIN s : MatchesIn(s, ip, c) \/ IsErr(stf[c])
RecoverOn(s, ip) == \A c \in DOMAIN s : MatchesIn(s, ip, c) \/ (DirOverRecStuck /\ StuckDirOverRec(s, ip, c))

\* C05: quiescent => matches or error status
ConvergeInv == Quiescent => ConvergeOn(st, ipfs, [c \in CIDS |-> StatusOf(c)])

\* C05: after a recover round with IPFS healthy, everything matches
RecoverInv == (Quiescent /\ healthy) => RecoverOn(st, ipfs)

\* structural
OneOpPerCid == \A c \in CIDS : table[c] # 0 => (Live(ops[table[c]]) /\ ops[table[c]].cid = c)
QueueBound  == Len(pinQ) <= Q /\ Len(unpinQ) <= Q
TypeOK ==
    /\ \A c \in CIDS : st[c] \in {"none", "rec", "dir", "rrec", "rdir", "meta"} /\ ipfs[c] \in {"none", "rec", "dir"}
    /\ \A w \in Workers : wk[w].pc \in {"idle", "got", "call", "applied", "ret_ok", "ret_err", "done"}

\* an instruction that found its queue full reported it and left an error status
NoDrop == (lastRes = "fullq" /\ act.name \in {"Track", "Untrack", "Recover"}) => IsErr(StatusOf(act.cid))

(***************************************************************************)
(* C06 predicates over a situation (state, daemon, table)                  *)
(***************************************************************************)
AgreeOn(stf, saf) ==
    \A c \in DOMAIN stf :
        \/ stf[c] = saf[c]
        \/ (saf[c] = "absent" /\ stf[c] = "unpinned")
        \/ (stf[c] = "pin_error" /\ saf[c] = "unexpectedly_unpinned")   \* same fact, the listing's name for it

\* truthfulness of the per-CID status on a quiescent peer
TruthfulOn(s, ip, stf) ==
    \A c \in DOMAIN s :
        LET a == stf[c] IN
        /\ (a = "pinned")   => (s[c] \in {"rec", "dir"} /\ ip[c] = s[c])
        /\ (a = "remote")   => IsRemote(s[c])
        /\ (a = "sharded")  => (s[c] = "meta")
        /\ (a = "unpinned") => (s[c] = "none")
        /\ (s[c] \in {"rec", "dir"} /\ ip[c] # s[c]) => IsErr(a)
        /\ a \notin {"pin_queued", "pinning", "unpin_queued", "unpinning"}

\* a filtered listing is the unfiltered listing restricted to the filter (f: set of status names)
FilterOn(saf, f, res) ==
    \A c \in DOMAIN saf : res[c] = IF saf[c] # "absent" /\ saf[c] \in f THEN saf[c] ELSE "absent"

AgreeInv    == Quiescent => AgreeOn([c \in CIDS |-> StatusOf(c)], [c \in CIDS |-> StatusAllOf(c)])
TruthfulInv == Quiescent => TruthfulOn(st, ipfs, [c \in CIDS |-> StatusOf(c)])

\* --- negated reachability goals: TLC's counterexamples are witnesses that the
\* --- replay driver always includes (rare corners are not left to chance)
NeverStuck == ~(Quiescent /\ healthy /\ \E c \in CIDS : StuckDirOverRec(st, ipfs, c))
NeverFullQ == ~(lastRes = "fullq" /\ Quiescent)
NeverRecoveredUnpin == ~(Quiescent /\ healthy /\ nfail > 0 /\ \E c \in CIDS : st[c] = "none" /\ act.name = "Clean")

NeverUntrackFullPinned == ~(act.name = "Untrack" /\ lastRes = "fullq" /\ ipfs[act.cid] # "none")
NeverTrackFullUnpinned  == ~(act.name = "Track" /\ lastRes = "fullq" /\ ipfs[act.cid] = "none" /\ Quiescent)

\* branch coverage: violated the first time a (action, branch tag) pair is seen
\* (run with -workers 1 -continue: one shortest witness per pair, tools/mkwitness.py)
CoverNew ==
    IF "br" \notin DOMAIN act THEN TRUE
    ELSE LET t == <<act.name, act.br>> IN
         IF t \in TLCGet(7) THEN TRUE ELSE TLCSet(7, TLCGet(7) \cup {t}) /\ FALSE
CoverInit == TLCSet(7, {}) /\ TLCSet(8, {})

\* quiescent-class coverage: violated the first time a quiescent state shows a CID in a class
\* <<recorded state, daemon state, status of the table entry or "-", daemon healthy>> not seen before
\* (the driver observes Status / StatusAll / the daemon at quiescent states: every class is then observed)
QClass(c) == <<st[c], ipfs[c], IF table[c] # 0 THEN OpStatus(ops[table[c]]) ELSE "-", healthy>>
QCoverNew ==
    IF ~Quiescent THEN TRUE
    ELSE LET new == {QClass(c) : c \in CIDS} \ TLCGet(8) IN
         IF new = {} THEN TRUE ELSE TLCSet(8, TLCGet(8) \cup new) /\ FALSE

\* liveness: under fair scheduling of the workers and a daemon that answers every call,
\* the tracker always comes to rest again: whenever the environment has used up its
\* instructions, eventually nothing is queued, no worker is busy and no call is in flight.
LiveSpec == Spec /\ Fairness
Settles == []<>(Quiescent \/ ninstr < MaxInstr)
EventuallyQuiet == (ninstr = MaxInstr) ~> Quiescent
=============================================================================
