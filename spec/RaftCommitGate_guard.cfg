SPECIFICATION Spec
CONSTANT Guard = "break-nil"
INVARIANT AckDurable
