-------------------------- MODULE ClusterAPIGen --------------------------
(* The small universe over which C04 is checked exhaustively (ClusterAPIMC) *)
(* and from which call histories are generated (ClusterAPISim).             *)
(* CIDs: c1 (the CID whose entry is varied), c2 (a pinned data CID, update  *)
(* source), c3 (never pinned), and one sharded content m1 (meta) -> d1      *)
(* (cluster-DAG) -> s1, s2 (shards).                                        *)
EXTENDS ClusterAPI

CONSTANT Tier        \* "quick" | "thorough": size of the option lattice
T(q, t) == IF Tier = "quick" THEN q ELSE t

MA == <<"a", "x">>
MAy == <<"a", "y">>
MB == <<"b", "x">>

\* ---- request options (Cluster.Pin / PinPath) ----
ONames   == T({"n1", "n2"}, {"", "n1", "n2"})
OModes   == {"rec", "dir"}
OFactors == T({<<0, 0>>, <<0 - 1, 0 - 1>>, <<1, 2>>, <<2, 1>>},
              {<<0, 0>>, <<0 - 1, 0 - 1>>, <<1, 2>>, <<2, 1>>, <<0, 2>>, <<0 - 1, 2>>, <<3, 3>>})
OExps    == T({"none", "past", "f1"}, {"none", "past", "f1", "f2"})
OMetas   == T({<<>>, <<MA>>, <<MA, MB>>}, {<<>>, <<MA>>, <<MAy>>, <<MA, MB>>})
EMetas   == {<<>>, <<MA>>, <<MA, MB>>}
OOrigs   == T({<<>>, <<"o1">>}, {<<>>, <<"o1">>, <<"o1", "o2">>})
OUas     == {<<>>, <<"p3">>}
OUpds    == T({NoCid, "c2"}, {NoCid, "c2", "c3"})

Opt(n, m, f, e, md, og, ua, up) ==
    [name |-> n, mode |-> m, rmin |-> f[1], rmax |-> f[2], exp |-> e, meta |-> md, orig |-> og, ua |-> ua, upd |-> up]
AllOpts == {Opt(n, m, f, e, md, og, ua, up) :
              n \in ONames, m \in OModes, f \in OFactors, e \in OExps, md \in OMetas, og \in OOrigs, ua \in OUas,
              up \in OUpds}
PlainOpt == Opt("", "rec", <<0, 0>>, "none", <<>>, <<>>, <<>>, NoCid)
FewOpts  == {PlainOpt, [PlainOpt EXCEPT !.name = "n2"], [PlainOpt EXCEPT !.exp = "f2"], [PlainOpt EXCEPT !.exp = "past"],
             [PlainOpt EXCEPT !.mode = "dir"], [PlainOpt EXCEPT !.rmin = 2, !.rmax = 1]}

\* ---- existing entries ----
DataEnt(c, n, m, f, al, e, md, og, up) ==
    [cid |-> c, type |-> "data", mode |-> m, depth |-> DepthOfMode(m), rmin |-> f[1], rmax |-> f[2], allocs |-> al,
     name |-> n, exp |-> e, meta |-> md, orig |-> og, ua |-> <<>>, upd |-> up, ref |-> NoCid]
EFactors == {<<0 - 1, 0 - 1>>, <<1, 2>>, <<2, 3>>}
EAllocs(f) == IF f[1] < 0 THEN {<<>>}
              ELSE {a \in T({<<"p1">>, <<"p2", "p3">>}, {<<"p1">>, <<"p3", "p1">>, <<"p2", "p3">>, <<"p1", "p2", "p3">>}) :
                        f[1] <= Len(a) /\ Len(a) <= f[2]}
C1Entries == {x \in {DataEnt("c1", n, m, f, al, e, md, og, up) :
                        n \in {"n1"}, m \in OModes, f \in EFactors,
                        al \in {<<>>, <<"p1">>, <<"p3", "p1">>, <<"p2", "p3">>, <<"p1", "p2", "p3">>},
                        e \in {"none", "f1"}, md \in EMetas, og \in T({<<>>, <<"o1">>}, OOrigs),
                        up \in {NoCid, "c2"}} : x.allocs \in EAllocs(<<x.rmin, x.rmax>>)}

C2Entry == DataEnt("c2", "n1", "dir", <<1, 2>>, <<"p2", "p1">>, "f1", <<MA, MB>>, <<"o1">>, NoCid)
TypedEnt(c, ty, d, f, al, rf) ==
    [cid |-> c, type |-> ty, mode |-> ModeOfDepth(d), depth |-> d, rmin |-> f[1], rmax |-> f[2], allocs |-> al,
     name |-> "sh", exp |-> "none", meta |-> <<>>, orig |-> <<>>, ua |-> <<>>, upd |-> NoCid, ref |-> rf]
MetaEnt  == TypedEnt("m1", "meta", 0, <<1, 2>>, <<>>, "d1")
CdagEnt  == TypedEnt("d1", "cdag", 0, <<0 - 1, 0 - 1>>, <<>>, "m1")
Shard1   == TypedEnt("s1", "shard", 1, <<1, 2>>, <<"p1">>, NoCid)
Shard2   == TypedEnt("s2", "shard", 1, <<1, 2>>, <<"p2", "p3">>, "s1")
Sharded  == {MetaEnt, CdagEnt, Shard1, Shard2}
Context  == {C2Entry} \cup Sharded

\* ---- environments ----
AllPaths  == << <<"/ipfs/ok1/x", "c1">>, <<"/ipfs/ok3", "c3">>, <<"/ipns/okm", "m1">> >>
AllBlocks == << <<"d1", <<"s1", "s2">> >> >>
MsGood    == [p \in Peers |-> CASE p = "p1" -> "v1" [] p = "p2" -> "v0" [] p = "p3" -> "v2" [] OTHER -> "v1"]
MsP2Bad   == [MsGood EXCEPT !["p2"] = "bad"]
MsOnlyP1  == [p \in Peers |-> IF p = "p1" THEN "v1" ELSE "bad"]
MsSet     == {MsGood, MsP2Bad, MsOnlyP1}
Defaults  == {<<0 - 1, 0 - 1>>, <<1, 2>>, <<2, 3>>}
EnvOf(fo, d, st, m, fl) == [follower |-> fo, dmin |-> d[1], dmax |-> d[2], strat |-> st, ms |-> m, paths |-> AllPaths,
                            blocks |-> AllBlocks, fail |-> fl, logfail |-> <<>>, deferred |-> FALSE, getfail |-> <<>>]
WithLF(e, lf) == [e EXCEPT !.logfail = lf]
\* consensus faults: LogUnpin failing for a shard in either position, the cluster-DAG, the meta pin, a data pin;
\* LogPin failing for a CID
LogFailSet == {<<>>, << <<"unpin", "s1">> >>, << <<"unpin", "s2">> >>, << <<"unpin", "d1">> >>, << <<"unpin", "m1">> >>,
               << <<"unpin", "c2">> >>, << <<"pin", "c1">> >>, << <<"pin", "c3">>, <<"unpin", "s1">> >>}
FailSet == {<<>>, <<"d1">>, <<"s1">>, <<"s2", "d1">>}
MainEnvs == {EnvOf(FALSE, d, "asc", MsGood, <<>>) : d \in Defaults}
            \cup T({}, {EnvOf(FALSE, <<2, 3>>, "asc", MsP2Bad, <<>>)})

SideEnvs == {EnvOf(TRUE, <<1, 2>>, "asc", MsGood, <<>>), EnvOf(FALSE, <<1, 2>>, "desc", MsGood, <<"d1">>),
             EnvOf(FALSE, <<1, 2>>, "asc", MsP2Bad, <<>>),
             EnvOf(FALSE, <<2, 3>>, "asc", MsOnlyP1, <<>>), EnvOf(FALSE, <<1, 2>>, "asc", MsGood, <<"s1">>),
             EnvOf(FALSE, <<2, 3>>, "asc", MsGood, <<"s2", "d1">>)}
FaultEnvs == {WithLF(EnvOf(FALSE, <<1, 2>>, "asc", MsGood, <<>>), lf) : lf \in LogFailSet \ {<<>>}}
Envs == MainEnvs \cup SideEnvs \cup FaultEnvs

\* ---- calls ----
PinCall(c, o)   == [op |-> "pin", cid |-> c, o |-> o]
UnpinCall(c)    == [op |-> "unpin", cid |-> c]
UpdCall(f, t, o) == [op |-> "update", from |-> f, to |-> t, o |-> o]
PathCall(p, o)  == [op |-> "pinpath", path |-> p, o |-> o]
UnpathCall(p)   == [op |-> "unpinpath", path |-> p]
RpcCall(p)      == [op |-> "rpcpin", p |-> p]

AllCids == {"c1", "c2", "c3", "m1", "d1", "s1", "s2"}
PathNames == {"/ipfs/ok1/x", "/ipfs/ok3", "/ipns/okm", "/ipfs/unresolvable"}
\* typed pins as the sharding adder sends them through the Cluster.Pin RPC, plus ill-typed overlays
TypedReqs ==
    LET base(c, ty, d, f, al, rf) == [TypedEnt(c, ty, d, f, al, rf) EXCEPT !.ua = <<>>] IN
    {base("m1", "meta", 0, <<1, 2>>, <<>>, "d1"), base("m1", "meta", 0, <<0, 0>>, <<>>, "d1"),
     base("d1", "cdag", 0, <<0 - 1, 0 - 1>>, <<>>, "m1"),
     base("s1", "shard", 1, <<1, 2>>, <<"p1">>, NoCid), base("s1", "shard", 1, <<1, 2>>, <<>>, NoCid),
     base("s2", "shard", 1, <<2, 1>>, <<"p2">>, "s1"),
     base("c1", "meta", 0, <<1, 2>>, <<>>, "d1"), base("c1", "shard", 1, <<1, 2>>, <<"p1">>, NoCid),
     base("c3", "cdag", 0, <<0 - 1, 0 - 1>>, <<>>, "c2"), base("m1", "shard", 1, <<1, 2>>, <<"p3">>, NoCid),
     base("c2", "data", 0 - 1, <<1, 2>>, <<"p3">>, NoCid), base("c3", "data", 0 - 1, <<2, 3>>, <<"p3", "p2">>, NoCid),
     \* caller-preset allocations (the add path; an RPC Cluster.Pin carrying pin.Allocations) x request factors unset /
     \* explicit: with the effective factor -1 (explicit, or unset under a cluster default of -1) the list must end up empty
     base("c3", "data", 0 - 1, <<0, 0>>, <<"p3", "p2">>, NoCid), base("c1", "data", 0 - 1, <<0, 0>>, <<"p2">>, NoCid),
     base("c3", "data", 0 - 1, <<0 - 1, 0 - 1>>, <<"p3">>, NoCid), base("c1", "data", 0 - 1, <<0 - 1, 0 - 1>>, <<"p1", "p3">>, NoCid),
     base("s1", "shard", 1, <<0, 0>>, <<"p2", "p3">>, NoCid), base("c3", "data", 0, <<0, 2>>, <<"p1">>, NoCid)}

C1Calls    == {PinCall("c1", o) : o \in AllOpts}
OtherCalls == {PinCall(c, o) : c \in AllCids \ {"c1"}, o \in FewOpts \cup {[PlainOpt EXCEPT !.upd = "c2"], [PlainOpt EXCEPT !.upd = "c1"]}}
              \cup {UnpinCall(c) : c \in AllCids}
              \cup {UpdCall(f, t, o) : f \in {"c1", "c2", "c3", "m1", "s1"}, t \in {"c1", "c2", "c3", "m1"}, o \in FewOpts}
              \cup {PathCall(p, o) : p \in PathNames, o \in FewOpts \cup {[PlainOpt EXCEPT !.upd = "c2"]}}
              \cup {UnpathCall(p) : p \in PathNames}
              \cup {RpcCall(p) : p \in TypedReqs}
\* entry point: every call by the Go method; the RPC endpoint for all the small-lattice calls and a slice of the c1 lattice
Via(c, v) == [via |-> v] @@ c
HasEndpoint(c) == c.op \in {"pin", "unpin", "pinpath", "unpinpath"}
RpcC1Opts == FewOpts \cup {o \in AllOpts : o.name = "n2" /\ o.exp = "f1" /\ o.orig = <<>>}
Calls == {Via(c, "go") : c \in (C1Calls \cup OtherCalls) \ {x \in OtherCalls : x.op = "rpcpin"}}
         \cup {c \in OtherCalls : c.op = "rpcpin"}
         \cup {Via(c, "rpc") : c \in {x \in OtherCalls : HasEndpoint(x)} \cup {PinCall("c1", o) : o \in RpcC1Opts}}
=============================================================================
