SPECIFICATION Spec
CONSTANT Reps = {"a", "b", "c"}
CONSTANT Starters = {"a"}
CONSTANT MaxPub = 1
CONSTANT MaxActs = 1
CONSTANT StartOrder <- OrderAsCoded
CONSTANT SignPolicy = "strict"
CONSTANT JoinTrusts = FALSE
INVARIANT IgnoresUntrusted
INVARIANT LonerKeepsOwn
