--------------------------- MODULE RaftMembership ---------------------------
(***************************************************************************)
(* C17 - Raft membership changes are agreed by all members and never lose  *)
(* the pinset.                                                             *)
(*                                                                         *)
(* Granularity: one step = one cluster operation issued at a live member   *)
(* and run to quiescence (the driver waits for it).  raft's own agreement  *)
(* on configuration entries is assumed; what is transcribed is what        *)
(* ipfs-cluster builds on it:                                              *)
(*   PeerAdd(at,p)    Cluster.PeerAdd -> Consensus.AddPeer (redirect to    *)
(*                    leader) -> raftWrapper.AddPeer: present => no entry  *)
(*   Join(p,via)      start p as staging peer, Cluster.Join(via):          *)
(*                    via.PeerAdd(p) then WaitForSync (leader, voter,      *)
(*                    applied = last) and only then Ready                  *)
(*   PeerRemove(at,p) Consensus.RmPeer -> raftWrapper.RemovePeer: absent   *)
(*                    => no entry; sole member => error; the removed peer  *)
(*                    notices (watchPeers), shuts down and cleans its raft *)
(*                    data (Consensus.Clean: backup or delete)             *)
(*   Shutdown/Restart a member stops gracefully / comes back from disk     *)
(*   Pin/Unpin        interleaved writes                                   *)
(* The pinset is abstracted to the set of pinned CIDs (values are C01's    *)
(* business; the driver still compares whole pins).                        *)
(***************************************************************************)
EXTENDS Integers, Sequences, FiniteSets, TLC

CONSTANTS NPEERS, NCIDS, MaxOps, MaxChanges, MaxDowns,
          BackupsRotate   \* raft backups_rotate: how many old data folders (<folder>.old.N) are kept

PeerOf(i) == "p" \o ToString(i)
CidOf(i)  == "c" \o ToString(i)
Peers == {PeerOf(i) : i \in 1..NPEERS}
Cids  == {CidOf(i) : i \in 1..NCIDS}
NONE == "none"

VARIABLES members,  \* committed raft configuration (set of peers)
          status,   \* [Peers -> {"absent","up","down","gone"}]
          data,     \* [Peers -> {"none","live","cleaned"}] raft data folder
          pins,     \* committed pinset: set of pinned CIDs
          fsm,      \* [Peers -> SUBSET Cids] pinset served by a live peer
          view,     \* [Peers -> SUBSET Peers] Consensus.Peers() of a live peer
          held,     \* [Peers -> SUBSET Cids] pinset a stopped peer held when it went down
          lastIsCfg,\* the last committed entry is a membership change (no pin/unpin since): hashicorp/raft then
                    \* refuses the snapshot-on-shutdown of raftWrapper.Shutdown ("configuration entry at N
                    \* has not been applied"); raft shutdown and the close of raft.db must happen all the same
          cnt,      \* [ops, changes, downs, ldr, bk]; bk[p] = backup folders next to p's data folder;; ldr = p1 (the bootstrap leader) was never stopped or removed
          last      \* [a, at, p, c, out] out \in {"ok","noop","error"}

vars == <<members, status, data, pins, fsm, view, held, lastIsCfg, cnt, last>>

Up == {p \in Peers : status[p] = "up"}
Quorum(m) == 2 * Cardinality(m \cap Up) > Cardinality(m)
Act(a, at, p, c, out) == [a |-> a, at |-> at, p |-> p, c |-> c, out |-> out]

Init ==
    /\ members = {"p1"}
    /\ status = [p \in Peers |-> IF p = "p1" THEN "up" ELSE "absent"]
    /\ data = [p \in Peers |-> IF p = "p1" THEN "live" ELSE "none"]
    /\ pins = {}
    /\ fsm = [p \in Peers |-> {}]
    /\ view = [p \in Peers |-> IF p = "p1" THEN {"p1"} ELSE {}]
    /\ held = [p \in Peers |-> {}]
    /\ lastIsCfg = TRUE
    /\ cnt = [ops |-> 0, changes |-> 0, downs |-> 0, ldr |-> TRUE, bk |-> [p \in Peers |-> 0]]
    /\ last = Act("init", NONE, NONE, NONE, "ok")

\* every live member has applied everything and knows the configuration m
Settle(m, ps, st) ==
    /\ fsm' = [p \in Peers |-> IF st[p] = "up" /\ p \in m THEN ps ELSE {}]
    /\ view' = [p \in Peers |-> IF st[p] = "up" /\ p \in m THEN m ELSE {}]

Write(at, c, isPin) ==
    /\ at \in members \cap Up /\ Quorum(members)
    /\ cnt.ops < MaxOps
    /\ IF isPin THEN c \notin pins ELSE c \in pins
    /\ pins' = IF isPin THEN pins \cup {c} ELSE pins \ {c}
    /\ Settle(members, pins', status)
    /\ cnt' = [cnt EXCEPT !.ops = @ + 1]
    /\ last' = Act(IF isPin THEN "pin" ELSE "unpin", at, NONE, c, "ok")
    /\ lastIsCfg' = FALSE
    /\ UNCHANGED <<members, status, data, held>>

\* p is started as a staging peer and joins through `via`
Join(p, via) ==
    /\ status[p] \in {"absent", "gone"} /\ p \notin members   \* a removed peer may join again (same identity, same folder)
    /\ via \in members \cap Up /\ Quorum(members)
    /\ cnt.changes < MaxChanges
    /\ members' = members \cup {p}
    /\ status' = [status EXCEPT ![p] = "up"]
    /\ data' = [data EXCEPT ![p] = "live"]
    /\ Settle(members', pins, status')
    /\ cnt' = [cnt EXCEPT !.changes = @ + 1]
    /\ last' = Act("join", via, p, NONE, "ok")
    /\ lastIsCfg' = TRUE
    /\ UNCHANGED <<pins, held>>

\* adding a peer that already is a member: harmless no-op
PeerAddPresent(at, p) ==
    /\ at \in members \cap Up /\ Quorum(members)
    /\ p \in members \cap Up
    /\ cnt.changes < MaxChanges
    /\ cnt' = [cnt EXCEPT !.changes = @ + 1]
    /\ last' = Act("add", at, p, NONE, "noop")
    /\ UNCHANGED <<members, status, data, pins, fsm, view, held, lastIsCfg>>

PeerRemove(at, p) ==
    /\ at \in members \cap Up /\ Quorum(members)
    /\ cnt.changes < MaxChanges
    \* Consensus.Clean of the removed (live) peer: CleanupRaft rotates its data folder into
    \* <folder>.old.0 (older backups move up, at most BackupsRotate are kept, the oldest is dropped)
    /\ cnt' = [cnt EXCEPT !.changes = @ + 1, !.ldr = @ /\ ~(p = "p1" /\ p \in members /\ members # {p}),
                          !.bk = IF p \in members /\ members # {p} /\ status[p] = "up"
                                 THEN [@ EXCEPT ![p] = IF @ < BackupsRotate THEN @ + 1 ELSE @] ELSE @]
    /\ UNCHANGED held
    /\ IF p \notin members
       THEN /\ last' = Act("rm", at, p, NONE, "noop")
            /\ UNCHANGED <<members, status, data, pins, fsm, view, lastIsCfg>>
       ELSE IF members = {p}
       THEN /\ last' = Act("rm", at, p, NONE, "error")        \* the last peer stays
            /\ UNCHANGED <<members, status, data, pins, fsm, view, lastIsCfg>>
       ELSE /\ members' = members \ {p}
            /\ Quorum(members')        \* the remaining members can go on
            /\ status' = [status EXCEPT ![p] = IF @ = "up" THEN "gone" ELSE @]
            /\ data' = [data EXCEPT ![p] = IF status[p] = "up" THEN "cleaned" ELSE @]
            /\ Settle(members', pins, status')
            /\ last' = Act("rm", at, p, NONE, "ok")
            /\ lastIsCfg' = TRUE      \* (the removed peer stops with that entry as the newest one)
            /\ UNCHANGED pins

Shutdown(p) ==
    /\ p \in members \cap Up
    /\ cnt.downs < MaxDowns
    /\ status' = [status EXCEPT ![p] = "down"]
    /\ Settle(members, pins, status')
    /\ cnt' = [cnt EXCEPT !.downs = @ + 1, !.ldr = @ /\ p # "p1"]
    /\ last' = Act("shutdown", NONE, p, NONE, IF lastIsCfg THEN "nosnap" ELSE "ok")   \* stopped either way
    /\ held' = [held EXCEPT ![p] = pins]
    /\ UNCHANGED <<members, data, pins, lastIsCfg>>

Restart(p) ==
    /\ status[p] = "down" /\ p \in members
    /\ 2 * Cardinality((members \cap Up) \cup {p}) > Cardinality(members)
    /\ status' = [status EXCEPT ![p] = "up"]
    /\ Settle(members, pins, status')
    /\ last' = Act("restart", NONE, p, NONE, "ok")
    /\ UNCHANGED <<members, data, pins, held, lastIsCfg, cnt>>

(* Submissions at a follower that cannot be acknowledged (consensus.commit ->  *)
(* redirectToLeader: CommitRetries+1 redirect attempts).  p1 is the leader as *)
(* long as it was never stopped or removed (cnt.ldr; the driver checks it).   *)
\* the leader is reachable but its Consensus RPC endpoint refuses every attempt:
\* LogPin/LogUnpin must return an error, nothing is committed
FaultyWrite(at, c, isPin) ==
    /\ cnt.ldr /\ "p1" \in members \cap Up
    /\ at \in (members \cap Up) \ {"p1"} /\ Quorum(members)
    /\ cnt.ops < MaxOps
    /\ IF isPin THEN c \notin pins ELSE c \in pins
    /\ cnt' = [cnt EXCEPT !.ops = @ + 1]
    /\ last' = Act(IF isPin THEN "fpin" ELSE "funpin", at, "p1", c, "noack")
    /\ UNCHANGED <<members, status, data, pins, fsm, view, held, lastIsCfg>>

\* the consensus component of q (the leader, or the submitting peer itself) has just been shut
\* down - its Cluster object and RPC endpoints still serve - when `at` submits: without a quorum
\* left nothing can be committed and the call must fail; with a quorum the rest of the cluster
\* may or may not commit it (out = "maybe": the real outcome decides, the script ends there)
CrashWrite(at, q, c, isPin) ==
    /\ cnt.ldr /\ "p1" \in members \cap Up
    /\ at \in members \cap Up /\ q \in {"p1", at} /\ Quorum(members)
    /\ cnt.ops < MaxOps /\ cnt.downs < MaxDowns
    /\ IF isPin THEN c \notin pins ELSE c \in pins
    /\ status' = [status EXCEPT ![q] = "down"]
    /\ held' = [held EXCEPT ![q] = pins]
    /\ cnt' = [cnt EXCEPT !.ops = @ + 1, !.downs = @ + 1, !.ldr = @ /\ q # "p1"]
    /\ LET left == 2 * Cardinality((members \cap Up) \ {q}) > Cardinality(members) IN
       /\ last' = Act(IF isPin THEN "cpin" ELSE "cunpin", at, q, c, IF left THEN "maybe" ELSE "noack")
       /\ pins' \in IF left THEN {pins, IF isPin THEN pins \cup {c} ELSE pins \ {c}} ELSE {pins}
    /\ Settle(members, pins', status')
    /\ lastIsCfg' = (lastIsCfg /\ pins' = pins)
    /\ UNCHANGED <<members, data>>

Next ==
    \/ \E at \in Peers, c \in Cids : FaultyWrite(at, c, TRUE) \/ FaultyWrite(at, c, FALSE)
    \/ \E at, q \in Peers, c \in Cids : CrashWrite(at, q, c, TRUE) \/ CrashWrite(at, q, c, FALSE)
    \/ \E at \in Peers, c \in Cids : Write(at, c, TRUE) \/ Write(at, c, FALSE)
    \/ \E p, via \in Peers : Join(p, via)
    \/ \E at, p \in Peers : PeerAddPresent(at, p) \/ PeerRemove(at, p)
    \/ \E p \in Peers : Shutdown(p) \/ Restart(p)

Spec == Init /\ [][Next]_vars

-----------------------------------------------------------------------------
(* Property predicates (the statement of C17).                             *)
TypeOK ==
    /\ members \subseteq Peers /\ pins \subseteq Cids
    /\ status \in [Peers -> {"absent", "up", "down", "gone"}]
    /\ data \in [Peers -> {"none", "live", "cleaned"}]

\* every remaining live member reports the same peerset: the committed one
Agreement == \A p \in members \cap Up : view[p] = members
\* the last peer cannot be removed
LastPeerStays == members # {}
\* a live member (in particular one that has just become ready) holds the pinset
ReadyImpliesSynced == \A p \in members \cap Up : fsm[p] = pins
\* a removed peer has stopped and discarded its consensus data
RemovedStops == \A p \in Peers : status[p] = "gone" => p \notin members /\ data[p] # "live"
\* ... whatever the history of that folder: after the removal completed the live data folder is gone
\* (rotated into a backup or deleted) and at most BackupsRotate backups exist
RemovedDataGone == \A p \in Peers : /\ status[p] = "gone" => data[p] = "cleaned"
                                     /\ cnt.bk[p] <= BackupsRotate
\* no-ops and refused removals change nothing; membership changes keep the pinset
NoOpHarmless == [][last'.out \in {"noop", "error"} =>
                     UNCHANGED <<members, status, data, pins, fsm, view>>]_vars
\* a member stops (and can come back) whether or not its shutdown snapshot could be taken; in the
\* binding: once Shutdown has returned the consensus store (raft.db) is closed, else a restart on the
\* data folder blocks for ever and the replica's pinset is lost
StoppedCanRestart ==
    \A p \in Peers : (status[p] = "down" /\ p \in members
                       /\ 2 * Cardinality((members \cap Up) \cup {p}) > Cardinality(members)) => ENABLED Restart(p)
PinsetKept == [][last'.a \in {"join", "add", "rm", "shutdown", "restart"} => pins' = pins]_vars

\* an operation that is not acknowledged because every redirect failed is not committed
\* (and, in the binding: an acknowledged one always is - AckDurable of C01)
UnackedFaultyNotCommitted == [][last'.a \in {"fpin", "funpin"} => pins' = pins /\ last'.out = "noack"]_vars

(* Reachability goals (negated): witnesses replayed on the real code.       *)
\* a member comes back after CIDs it held were unpinned (and possibly re-pinned) meanwhile
\* a removal whose clean-up has to drop the oldest backup (BackupsRotate backups exist already)
NoRotationDropsOldest == [][~(\E at, p \in Peers : PeerRemove(at, p) /\ p \in members /\ members # {p}
                                  /\ status[p] = "up" /\ cnt.bk[p] = BackupsRotate /\ pins # {})]_vars
NoRestartAfterUnpin == [][~(\E p \in Peers : Restart(p) /\ cnt.ldr /\ \E c \in held[p] : c \notin pins)]_vars
NoRestartAfterChurn == [][~(\E p \in Peers : Restart(p) /\ cnt.ldr /\ (\E c \in held[p] : c \notin pins)
                                                      /\ (\E c \in pins : c \notin held[p]))]_vars
=============================================================================
