\* liveness under fairness of workers, callers inside a critical section and the daemon (thorough)
CONSTANTS CIDS = {"c1"} MaxOps = 3 K0 = 1 Q0 = 1 Level0 = "tracker" Strict = TRUE Lag = FALSE
SPECIFICATION LiveSpec
PROPERTIES EnqueuedIsServed WorkersSettle
