SPECIFICATION Spec
CONSTANTS
    Machine = "pstore"
    CIDS = {"c1","c2","c3"}
    VALS = {"vA","vB"}
    MAXIDX = 4
    INITS <- AllInits
    ROTOPS = {"save","clean","mklogs"}
    KEEPS = {1,2,3}
    MAXOPS = 5
    MAXCLEAN = 3
    PEERS = {"p1","p2","p3"}
    ADDRSETS <- AddrSetsFull
    PRIOS <- PriosFull
    JUNK = {"garbage","empty","badma","nop2p"}
    MAXJUNK = 1
    MAXIMPORTS = 1
    FAULTS = {0}
    MarshalStopsOnError = TRUE
    TruncInLock = TRUE
    MAXLOADS = 2
    REKEEP = FALSE
    MAXSAVES = 2
    ImportCleans = TRUE
    UnmarshalMode = "replace"
    LoadSkipsBad = TRUE
INVARIANT SaveLaw
INVARIANT LoadLaw
INVARIANT RoundTrip
INVARIANT NotFatal
