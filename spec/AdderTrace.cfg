SPECIFICATION Spec
CONSTANT DepthRule = "fixed"
