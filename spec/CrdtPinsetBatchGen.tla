------------------------ MODULE CrdtPinsetBatchGen ------------------------
(* Script generation for the batching layer: TLC simulates CrdtPinsetBatch  *)
(* (all configurations of CrdtPinsetBatchMC) and records the ENVIRONMENT's  *)
(* part of every behaviour - submissions, armed failures, and a pause       *)
(* wherever the behaviour lets the age timer expire - as a replay script.   *)
EXTENDS CrdtPinsetBatchMC, Json

VARIABLE script
genvars == <<mcvars, script>>

GenInit == Init /\ script = <<>>
GenNext ==
    \/ /\ nsub < MaxOps
       /\ \E op \in Ops : Submit(op) /\ script' = Append(script, [k |-> op.k, c |-> op.c, v |-> op.v])
       /\ nsub' = nsub + 1 /\ UNCHANGED <<narm, nrarm>>
    \/ /\ narm < MaxArm /\ Arm(1) /\ narm' = narm + 1 /\ UNCHANGED <<nsub, nrarm>>
       /\ script' = Append(script, [k |-> "arm", n |-> 1])
    \/ /\ (AgeCommitOk \/ AgeCommitFail) /\ UNCHANGED <<nsub, narm, nrarm>>
       /\ script' = Append(script, [k |-> "pause"])
    \/ /\ (Take \/ AddOk \/ SizeCommitOk \/ SizeCommitFail \/ AgeEmpty) /\ UNCHANGED <<nsub, narm, nrarm, script>>
GenSpec == GenInit /\ [][GenNext]_genvars

\* printed once the environment is done and nothing is left in the queue, the worker or the batch
Emit == (nsub = MaxOps /\ Quiescent) =>
          PrintT(ToJson([batching |-> cfg.batching, maxsize |-> cfg.maxsize, maxq |-> cfg.maxq, steps |-> script]))
=============================================================================
