---------------------------- MODULE RaftPinsetMC ----------------------------
(* Model-checking / script-generation wrapper of RaftPinset: adds the      *)
(* history variable `ideal` (what the statement demands of every replica,  *)
(* computed by TLC with ApplyPrefix) so that generated behaviours carry    *)
(* both the as-coded prediction (fsm) and the property-level expectation.  *)
EXTENDS RaftPinset

VARIABLE ideal   \* [live |-> per-peer ApplyPrefix(applied), snap |-> per-peer ApplyPrefix(snap.idx)]

IdealOf(l, ap, sn) == [live |-> [p \in Peers |-> ApplyPrefixOf(l, ap[p])],
                       snap |-> [p \in Peers |-> ApplyPrefixOf(l, sn[p].idx)]]

MCInit == Init /\ ideal = [live |-> [p \in Peers |-> EmptyPs], snap |-> [p \in Peers |-> EmptyPs]]
MCNext == Next /\ ideal' = IdealOf(log', applied', snap')
MCSpec == MCInit /\ [][MCNext]_<<vars, ideal>>

\* the part of the state the future depends on (acked / last / ideal are history)
View == <<log, up, applied, fsm, inited, snap, broken, cnt>>

\* no Ack steps when generating replay scripts for the FSM seam
GenNext ==
    /\ \/ \E op \in Ops : Commit(op)
       \/ \E p \in Peers : ApplyNext(p) \/ ApplyFails(p) \/ TakeSnapshot(p) \/ Shutdown(p) \/ Kill(p) \/ Restart(p)
       \/ \E p, q \in Peers : InstallSnapshot(p, q)
    /\ ideal' = IdealOf(log', applied', snap')
GenSpec == MCInit /\ [][GenNext]_<<vars, ideal>>

(* Reachability goals, stated negated as action properties: TLC's          *)
(* counterexample is a witness behaviour that is replayed on the real code. *)
allvars == <<vars, ideal>>
NoApplyAfterFault ==        \* a replica goes on applying after one of its applies failed (the store has a hole)
    [][~(\E p \in Peers : ApplyNext(p) /\ broken[p])]_allvars
NoVisibleHole ==            \* ... after having served a state, and the store then equals no prefix result at all
    [][~(\E p \in Peers : ApplyNext(p) /\ broken[p] /\ inited[p]
            /\ \A n \in 0..Len(log) : fsm'[p] # ApplyPrefixOf(log, n))]_allvars
NoInstallOverDeleted ==     \* a snapshot installed on a replica holding a since-unpinned CID
    [][~(\E p, q \in Peers : InstallSnapshot(p, q)
            /\ \E c \in Cids : fsm[p][c] # NONE /\ snap[q].data[c] = NONE)]_allvars
NoInstallOverChanged ==     \* ... holding an older value of a re-pinned CID
    [][~(\E p, q \in Peers : InstallSnapshot(p, q)
            /\ \E c \in Cids : fsm[p][c] # NONE /\ snap[q].data[c] \notin {NONE, fsm[p][c]})]_allvars
NoRestartAfterKillBehind == \* a killed peer restarts from an old snapshot and has to replay an unpin
    [][~(\E p \in Peers : Restart(p) /\ snap[p].idx > 0 /\ snap[p].idx + 1 < Len(log)
            /\ \E c \in Cids : snap[p].data[c] # NONE /\ ApplyPrefix(Len(log))[c] = NONE)]_allvars
=============================================================================
