CONSTANTS CIDS = {"c1", "c2", "c3"} MaxOps = 100000 KeepFsm = FALSE LoseLog = FALSE
INIT TraceInit
NEXT TraceNext
INVARIANTS TypeOK AckDurable PrefixInv AtMostOnce
POSTCONDITION TraceAccepted
