SPECIFICATION GenSpec
CONSTANT NPEERS = 3
CONSTANT NCIDS = 2
CONSTANT Variants = {"a","b"}
CONSTANT RestoreMode = "replace"
CONSTANT MaxLog = 6
CONSTANT MaxSnaps = 3
CONSTANT MaxDowns = 3
CONSTANT MaxFaults = 1
CONSTANT MaxInstalls = 3

