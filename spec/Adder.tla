------------------------------- MODULE Adder -------------------------------
(***************************************************************************)
(* C13 - added content is fully delivered, readable from its blocks and    *)
(* pinned as asked.                                                        *)
(*                                                                         *)
(* Two things are specified and kept apart on purpose:                     *)
(*                                                                         *)
(*  * the TRANSCRIPTION of the stateful part of the adder: a stream of     *)
(*    blocks is handed, one Add call per block, to the single DAG service  *)
(*    (adder/single/dag_service.go) or to the sharding DAG service         *)
(*    (adder/sharding/dag_service.go, shard.go, dag.go), which talk to     *)
(*    Cluster.BlockAllocate, IPFSConnector.BlockPut (through               *)
(*    adder.BlockAdder, adder/util.go) and Cluster.Pin.  The operators     *)
(*    Add(in, s, b) and Finalize(in, s) are one DAGService call each; the  *)
(*    state s carries the event log of every RPC made.  Run(in) is the     *)
(*    whole execution.  All scripted environment behaviour (allocation     *)
(*    results, per-destination put outcomes, pin outcomes) is part of the  *)
(*    input, so the code path is a function of the input.                  *)
(*                                                                         *)
(*  * the PROPERTY predicates (Delivered, Closed, Partition, UnderLimit,   *)
(*    DepthCovers, PinsOnSuccess, StoredByAllocation, FailureNoRootPin,    *)
(*    ContentOK), written                                                  *)
(*    from the statement over what was OBSERVED (event log + the links     *)
(*    decoded from the delivered bytes), never over Run(in).               *)
(*                                                                         *)
(* AdderMC checks  Good(in, Observed(Run(in)))  for every small input;     *)
(* AdderTrace evaluates Good and Conforms on runs recorded from the real   *)
(* DAG services / the real adder.Adder.                                    *)
(*                                                                         *)
(* Identifiers are strings: data blocks "b1","b2",...; a metadata node     *)
(* (shard node, shard leaf, cluster-DAG node) is named by its content      *)
(* "(l1,l2,...)" - content addressing, so both sides agree without a       *)
(* naming protocol.  Destinations are "p1" (the local peer), "p2", "p3".   *)
(***************************************************************************)
EXTENDS Integers, Sequences, FiniteSets, TLC, SequencesExt

CONSTANT DepthRule      \* "coded": shard.Flush as in the pinned commit; "fixed": after the fix commit

Local     == "p1"
DestOrder == <<"p1", "p2", "p3">>

NoDup(s)  == Cardinality(Range(s)) = Len(s)
\* Same set; taking the cardinality makes TLC sort its representation once, so that later
\* membership tests are binary searches (matters on runs with tens of thousands of blocks).
Norm(S)   == LET T == S IN IF Cardinality(T) < 0 THEN {} ELSE T
Min2(a, b) == IF a < b THEN a ELSE b

RECURSIVE JoinR(_, _, _)
JoinR(ss, lo, hi) ==
    IF lo > hi THEN ""
    ELSE IF lo = hi THEN ss[lo]
    ELSE LET m == (lo + hi) \div 2 IN JoinR(ss, lo, m) \o "," \o JoinR(ss, m + 1, hi)
NodeId(links) == "(" \o JoinR(links, 1, Len(links)) \o ")"

(***************************************************************************)
(* Input record (JSON):                                                    *)
(*   blk      sequence of [id, size, links]   the distinct blocks          *)
(*   stream   sequence of indexes into blk    the Add calls, in order      *)
(*   root     id handed to Finalize (the data root)                        *)
(*   shard, shardSize, maxLinks, rmin, rmax, local, name                   *)
(*   alloc    sequence of [ok, peers]: result of the k-th BlockAllocate    *)
(*            (the last one repeats)                                       *)
(*   out      [p1|->seq, p2|->seq, p3|->seq] of "ok"|"app"|"rpc": outcome  *)
(*            of the k-th BlockPut arriving at that destination ("app" =   *)
(*            the daemon refused, "rpc" = RPC-level failure); beyond: "ok" *)
(*   pinres   sequence of BOOLEAN: outcome of the k-th Cluster.Pin         *)
(***************************************************************************)

Outcome(in, d, k) == IF k <= Len(in.out[d]) THEN in.out[d][k] ELSE "ok"

NoShard == [live |-> FALSE, links |-> <<>>, size |-> 0, allocs |-> <<>>, ba |-> <<>>]

Start(in) ==
    [done |-> FALSE, ok |-> TRUE, root |-> "",
     allocated |-> FALSE, dests |-> <<>>, ba |-> <<>>,                 \* single.DAGService
     visited |-> {}, cur |-> NoShard, prev |-> "", shards |-> <<>>,    \* sharding.DAGService
     nalloc |-> 0, npin |-> 0, cnt |-> [p1 |-> 0, p2 |-> 0, p3 |-> 0],
     evs |-> <<>>,
     meta |-> {}]       \* metadata nodes built so far (bookkeeping for AdderMC only, not observable)

Fail(s) == [s EXCEPT !.done = TRUE, !.ok = FALSE]

-----------------------------------------------------------------------------
(* adder/util.go *)

\* BlockAdder.Add: one block to every current destination.
Put(in, s, id, ba) ==
    LET r(d)  == Outcome(in, d, s.cnt[d] + 1)
        order == SelectSeq(DestOrder, LAMBDA d : d \in Range(ba))
        ev    == [t |-> "put", blk |-> id,
                  res |-> [j \in 1..Len(order) |-> [d |-> order[j], r |-> r(order[j])]]]
        succ  == SelectSeq(ba, LAMBDA d : r(d) # "rpc")          \* successfulDests
        nerr  == Cardinality({j \in 1..Len(ba) : r(ba[j]) # "ok"})
        fail  == nerr = Len(ba) \/ succ = <<>>
        s1    == [s EXCEPT !.cnt = [d \in DOMAIN s.cnt |-> IF d \in Range(ba) THEN s.cnt[d] + 1 ELSE s.cnt[d]],
                           !.evs = Append(@, ev)]
    IN [s |-> s1, ok |-> ~fail, ba |-> IF fail THEN ba ELSE succ]

\* BlockAdder.AddMany
PutMany(in, s, ids, ba) ==
    FoldLeft(LAMBDA acc, id : IF acc.ok THEN Put(in, acc.s, id, acc.ba) ELSE acc,
             [s |-> s, ok |-> TRUE, ba |-> ba], ids)

\* adder.BlockAllocate
Allocate(in, s) ==
    LET k == s.nalloc + 1
        a == IF k <= Len(in.alloc) THEN in.alloc[k] ELSE in.alloc[Len(in.alloc)]
    IN [s |-> [s EXCEPT !.nalloc = k,
                        !.evs = Append(@, [t |-> "alloc", ok |-> a.ok, peers |-> a.peers,
                                           rmin |-> in.rmin, rmax |-> in.rmax])],
        ok |-> a.ok, peers |-> a.peers]

\* adder.Pin
DoPin(in, s, p) ==
    LET k   == s.npin + 1
        res == IF k <= Len(in.pinres) THEN in.pinres[k] ELSE TRUE
        q   == IF p.rmin < 0 THEN [p EXCEPT !.allocs = <<>>] ELSE p
    IN [s |-> [s EXCEPT !.npin = k, !.evs = Append(@, [t |-> "pin", ok |-> res, pin |-> q])], ok |-> res]

PinRec(cid, type, depth, ref, allocs, name, rmin, rmax, ssize) ==
    [cid |-> cid, type |-> type, depth |-> depth, ref |-> ref, allocs |-> allocs, name |-> name,
     rmin |-> rmin, rmax |-> rmax, ssize |-> ssize]

-----------------------------------------------------------------------------
(* adder/single/dag_service.go *)

SingleAdd(in, s, b) ==
    LET a == IF s.allocated THEN [s |-> s, ok |-> TRUE, peers |-> s.dests] ELSE Allocate(in, s)
    IN IF ~a.ok THEN Fail(a.s)
       ELSE LET s1 == IF s.allocated THEN s
                      ELSE [a.s EXCEPT !.allocated = TRUE, !.dests = a.peers,
                                       !.ba = IF in.local THEN <<Local>> ELSE a.peers]
                p  == Put(in, s1, in.blk[b].id, s1.ba)
            IN IF p.ok THEN [p.s EXCEPT !.ba = p.ba] ELSE Fail(p.s)

SingleFinalize(in, s) ==
    LET pin == PinRec(in.root, "data", -1, "nil", s.dests, in.name, in.rmin, in.rmax, in.shardSize)
        r   == DoPin(in, s, pin)
    IN [r.s EXCEPT !.done = TRUE, !.ok = r.ok, !.root = IF r.ok THEN in.root ELSE ""]

-----------------------------------------------------------------------------
(* adder/sharding/dag.go: makeDAG.  Result: the nodes in the order they are *)
(* put (root first), root id first.                                        *)
MakeDAG(links, ml) ==
    IF Len(links) <= ml THEN <<[id |-> NodeId(links), links |-> links]>>
    ELSE LET nf      == Len(links) \div ml
             leaves  == [i \in 1..(nf + 1) |-> SubSeq(links, (i - 1) * ml + 1, Min2(i * ml, Len(links)))]
             leafIds == [i \in 1..(nf + 1) |-> NodeId(leaves[i])]
         IN <<[id |-> NodeId(leafIds), links |-> leafIds]>>
            \o [i \in 1..(nf + 1) |-> [id |-> leafIds[i], links |-> leaves[i]]]

(* adder/sharding/shard.go: Flush  +  dag_service.go: flushCurrentShard *)
ShardDepth(nnodes, nlinks) ==
    IF DepthRule = "coded" THEN (IF nnodes > nlinks + 1 THEN 2 ELSE 1)
    ELSE (IF nnodes > 1 THEN 2 ELSE 1)

Flush(in, s) ==
    IF ~s.cur.live THEN [s |-> s, ok |-> FALSE]
    ELSE
    LET nodes == MakeDAG(s.cur.links, in.maxLinks)
        p     == PutMany(in, [s EXCEPT !.meta = @ \cup Range(nodes)], [i \in DOMAIN nodes |-> nodes[i].id], s.cur.ba)
    IN IF ~p.ok THEN [s |-> p.s, ok |-> FALSE]
       ELSE
       LET n   == Len(s.shards)
           pin == PinRec(nodes[1].id, "shard", ShardDepth(Len(nodes), Len(s.cur.links)),
                         IF s.prev = "" THEN "undef" ELSE s.prev, s.cur.allocs,
                         in.name \o "-shard-" \o ToString(n), in.rmin, in.rmax, s.cur.size)
           r   == DoPin(in, p.s, pin)
       IN IF ~r.ok THEN [s |-> r.s, ok |-> FALSE]
          ELSE [s |-> [r.s EXCEPT !.shards = Append(@, nodes[1].id), !.prev = nodes[1].id, !.cur = NoShard],
                ok |-> TRUE]

(* dag_service.go: ingestBlock (the retry after a flush is one more level) *)
RECURSIVE Ingest(_, _, _)
Ingest(in, s, b) ==
    LET a == IF s.cur.live THEN [s |-> s, ok |-> TRUE, peers |-> <<>>] ELSE Allocate(in, s)
    IN IF ~a.ok THEN Fail(a.s)
       ELSE
       LET s1 == IF s.cur.live THEN s
                 ELSE [a.s EXCEPT !.cur = [live |-> TRUE, links |-> <<>>, size |-> 0,
                                           allocs |-> a.peers, ba |-> a.peers]]
           size == in.blk[b].size
       IN IF s1.cur.size + size < in.shardSize THEN
              LET s2 == [s1 EXCEPT !.cur.links = Append(@, in.blk[b].id), !.cur.size = @ + size]
                  p  == Put(in, s2, in.blk[b].id, s2.cur.ba)
              IN IF p.ok THEN [p.s EXCEPT !.cur.ba = p.ba] ELSE Fail(p.s)
          ELSE IF s1.cur.size = 0 THEN Fail(s1)        \* "block doesn't fit in empty shard"
          ELSE LET f == Flush(in, s1) IN IF f.ok THEN Ingest(in, f.s, b) ELSE Fail(f.s)

ShardAdd(in, s, b) ==
    IF in.blk[b].id \in s.visited THEN s
    ELSE Ingest(in, [s EXCEPT !.visited = @ \cup {in.blk[b].id}], b)

ShardFinalize(in, s) ==
    LET f == Flush(in, s)
    IN IF ~f.ok THEN Fail(f.s)
       ELSE
       LET nodes == MakeDAG(f.s.shards, in.maxLinks)
           p     == PutMany(in, [f.s EXCEPT !.meta = @ \cup Range(nodes)], [i \in DOMAIN nodes |-> nodes[i].id], <<Local>>)
       IN IF ~p.ok THEN Fail(p.s)
          ELSE
          LET cdag == PinRec(nodes[1].id, "cdag", 0, in.root, <<>>, in.name \o "-clusterDAG", -1, -1, in.shardSize)
              r1   == DoPin(in, p.s, cdag)
          IN IF ~r1.ok THEN Fail(r1.s)
             ELSE
             LET meta == PinRec(in.root, "meta", 0, nodes[1].id, <<>>, in.name, in.rmin, in.rmax, in.shardSize)
                 r2   == DoPin(in, r1.s, meta)
             IN IF ~r2.ok THEN Fail(r2.s)
                ELSE [r2.s EXCEPT !.done = TRUE, !.ok = TRUE, !.root = in.root]

-----------------------------------------------------------------------------
(* One DAGService call each *)
Add(in, s, b)   == IF in.shard THEN ShardAdd(in, s, b) ELSE SingleAdd(in, s, b)
Finalize(in, s) == IF in.shard THEN ShardFinalize(in, s) ELSE SingleFinalize(in, s)

\* adder.Adder.FromFiles: Add until the first error, then Finalize.
Run(in) ==
    LET s == FoldLeft(LAMBDA acc, b : IF acc.done THEN acc ELSE Add(in, acc, b), Start(in), in.stream)
    IN IF s.done THEN s ELSE Finalize(in, s)

\* What an observer sees of a run (the same shape the drivers record; the
\* drivers add "graph": links and sizes decoded from the delivered bytes).
Events(s) == [ok |-> s.ok, root |-> s.root, evs |-> s.evs]

\* A recorded put whose block could not be identified (every destination failed at the RPC
\* level before the arguments were read) is logged with blk = "?".
EvMatch(a, b) == a = b \/ (a.t = "put" /\ b.t = "put" /\ b.blk = "?" /\ a.res = b.res)

Conforms(in, out) ==
    LET s == Run(in)
    IN /\ out.ok = s.ok /\ out.root = s.root
       /\ Len(out.evs) = Len(s.evs)
       /\ \A i \in DOMAIN s.evs : EvMatch(s.evs[i], out.evs[i])

-----------------------------------------------------------------------------
(***************************************************************************)
(* PROPERTY predicates, from the statement.  `out` is what was observed:   *)
(*   ok, root      result of the add                                       *)
(*   evs           every RPC the code made, in order, with its outcome     *)
(*   graph         id -> [links, size], decoded from the bytes DELIVERED   *)
(*   content       (full adder runs only) SHA-256 of every input file and  *)
(*                 of the bytes read back from the delivered blocks, the   *)
(*                 concrete root CID, the root computed by the standard    *)
(*                 importer and the root of the same add with sharding     *)
(*                 flipped ("" = not computed)                             *)
(***************************************************************************)
Puts(out)    == SelectSeq(out.evs, LAMBDA e : e.t = "put")
PinEvs(out)  == SelectSeq(out.evs, LAMBDA e : e.t = "pin" /\ e.ok)
Pins(out)    == [i \in DOMAIN PinEvs(out) |-> PinEvs(out)[i].pin]        \* what the cluster accepted
OfType(ps, t) == SelectSeq(ps, LAMBDA p : p.type = t)

\* (index sets rather than sets of event records: cheap for TLC on long runs)
PutIdx(out) == {i \in DOMAIN out.evs : out.evs[i].t = "put"}
DeliveredSet(out) ==
    Norm({out.evs[i].blk : i \in {j \in PutIdx(out) : \E k \in DOMAIN out.evs[j].res : out.evs[j].res[k].r = "ok"}})
SentTo(out, ids) ==
    LET I == Norm(ids)
        at(d) == \E j \in PutIdx(out) : out.evs[j].blk \in I /\ \E k \in DOMAIN out.evs[j].res : out.evs[j].res[k].d = d
    IN {d \in Range(DestOrder) : at(d)}
DataIds(in)       == Norm({in.blk[in.stream[i]].id : i \in DOMAIN in.stream})

Lk(G, x) == IF x \in DOMAIN G THEN G[x].links ELSE <<>>
Sz(G, x) == IF x \in DOMAIN G THEN G[x].size ELSE 0

RECURSIVE ReachR(_, _, _)
ReachR(G, seen, frontier) ==
    IF frontier = {} THEN seen
    ELSE LET now == Norm(seen \cup frontier)
             \* (blocks without links - the vast majority - contribute nothing)
             src == {x \in frontier : Lk(G, x) # <<>>}
             ss  == SetToSeq(src)
             \* (TLC's UNION is quadratic in the number of elements; concatenation is not)
             nxt == Range(FlattenSeq([i \in DOMAIN ss |-> Lk(G, ss[i])]))
         IN ReachR(G, now, nxt \ now)
Reach(G, roots) == ReachR(G, {}, roots)

\* the data blocks a shard node links to (through indirection nodes), in order
RECURSIVE DataLinks(_, _, _)
DataLinks(G, D, x) ==
    LET l == Lk(G, x)
    IN IF \A i \in DOMAIN l : l[i] \in D THEN l
       ELSE FlattenSeq([i \in DOMAIN l |-> IF l[i] \in D THEN <<l[i]>> ELSE DataLinks(G, D, l[i])])

\* the shard's own nodes (root and indirection leaves)
RECURSIVE MetaUnder(_, _, _)
MetaUnder(G, D, x) ==
    LET l == Lk(G, x) IN {x} \cup UNION {MetaUnder(G, D, l[i]) : i \in {j \in DOMAIN l : l[j] \notin D}}
MaxOf(S) == Max(S)
\* how many link hops separate a shard node from the farthest data block it covers
RECURSIVE Height(_, _, _)
Height(G, D, x) ==
    LET l == Lk(G, x)
        m == {i \in DOMAIN l : l[i] \notin D}
    IN IF m = {} THEN 1 ELSE 1 + MaxOf({Height(G, D, l[i]) : i \in m})

SumSizes(G, ids) == FoldLeft(LAMBDA a, x : a + Sz(G, x), 0, ids)

\* every block handed to the adder reached at least one destination daemon
Delivered(in, out) == out.ok => DataIds(in) \subseteq DeliveredSet(out)

\* the delivered blocks are closed under links from the returned root (and, for sharded
\* adds, from the cluster-DAG root)
Closed(in, out) ==
    out.ok => LET roots == {out.root} \cup {p.cid : p \in Range(OfType(Pins(out), "cdag"))}
              IN Reach(out.graph, roots) \subseteq DeliveredSet(out)

\* the shard entries' links partition the blocks
Partition(in, out) ==
    (out.ok /\ in.shard) =>
        LET sh  == OfType(Pins(out), "shard")
            all == FlattenSeq([i \in DOMAIN sh |-> DataLinks(out.graph, DataIds(in), sh[i].cid)])
        IN NoDup(all) /\ Range(all) = DataIds(in)

\* each shard under the size limit (whether or not the add finished)
UnderLimit(in, out) ==
    \A p \in Range(OfType(Pins(out), "shard")) :
        SumSizes(out.graph, DataLinks(out.graph, DataIds(in), p.cid)) <= in.shardSize

\* each shard pinned deep enough to cover its links
DepthCovers(in, out) ==
    \A p \in Range(OfType(Pins(out), "shard")) :
        p.depth < 0 \/ p.depth >= Height(out.graph, DataIds(in), p.cid)

AllocsAsSent(in, out, p, ids) ==
    IF in.rmin < 0 THEN p.allocs = <<>>                  \* "everywhere" is the empty list
    ELSE NoDup(p.allocs) /\ Range(p.allocs) = SentTo(out, ids)

PinsOnSuccess(in, out) ==
    out.ok =>
      LET ps == Pins(out) IN
      IF ~in.shard THEN
          /\ Len(ps) = 1
          /\ LET p == ps[1] IN
             /\ p.cid = out.root /\ p.cid = in.root /\ p.type = "data" /\ p.ref = "nil"
             /\ p.depth = -1 /\ p.name = in.name /\ p.rmin = in.rmin /\ p.rmax = in.rmax
             \* local adds deliberately put the blocks on the local daemon only
             /\ in.local \/ AllocsAsSent(in, out, p, DataIds(in))
      ELSE
          LET metas == OfType(ps, "meta")
              cdags == OfType(ps, "cdag")
              sh    == OfType(ps, "shard")
          IN /\ Len(metas) = 1 /\ Len(cdags) = 1 /\ Len(sh) >= 1
             /\ Len(ps) = 2 + Len(sh)
             /\ out.root = in.root
             /\ metas[1].cid = out.root /\ metas[1].ref = cdags[1].cid /\ metas[1].name = in.name
             /\ cdags[1].ref = out.root
             /\ NoDup([i \in DOMAIN sh |-> sh[i].cid])
             /\ {sh[i].cid : i \in DOMAIN sh} \subseteq MetaUnder(out.graph, DataIds(in), cdags[1].cid)
             /\ \A i \in DOMAIN sh :
                   /\ sh[i].rmin = in.rmin /\ sh[i].rmax = in.rmax
                   /\ AllocsAsSent(in, out, sh[i], Range(DataLinks(out.graph, DataIds(in), sh[i].cid)))

\* Judged from what each destination daemon REALLY stored (a put it accepted): on success every
\* block is held by at least one daemon of the allocation recorded in the pin that covers it
\* (the root pin; for sharded adds the pin of the shard linking the block, including the shard's
\* own nodes).  "Everywhere" pins (empty list) are covered by any daemon; local adds are exempt
\* from the allocation clause (blocks go to the local daemon by design) but not from storage.
StoredAt(out, d) ==
    Norm({out.evs[i].blk : i \in {j \in PutIdx(out) :
        \E k \in DOMAIN out.evs[j].res : out.evs[j].res[k].d = d /\ out.evs[j].res[k].r = "ok"}})
HeldBy(in, st, p, ids) ==
    LET where == IF in.rmin < 0 \/ (in.local /\ ~in.shard) THEN Range(DestOrder) ELSE Range(p.allocs)
    IN \A x \in ids : \E d \in where \cap DOMAIN st : x \in st[d]
StoredByAllocation(in, out) ==
    out.ok =>
      LET ps == Pins(out)
          D  == DataIds(in)
          st == [p1 |-> StoredAt(out, "p1"), p2 |-> StoredAt(out, "p2"), p3 |-> StoredAt(out, "p3")]
      IN IF ~in.shard THEN \A i \in DOMAIN ps : ps[i].type = "data" => HeldBy(in, st, ps[i], D)
         ELSE \A p \in Range(OfType(ps, "shard")) :
                 HeldBy(in, st, p, Range(DataLinks(out.graph, D, p.cid)) \cup MetaUnder(out.graph, D, p.cid))

\* on failure the root is not pinned; at no time is it pinned before the add succeeded
FailureNoRootPin(in, out) ==
    ~out.ok => \A p \in Range(Pins(out)) : p.type \notin {"data", "meta"} /\ p.cid # in.root

\* bytes read back identical; root equal to the standard importer's and independent of sharding
ContentOK(out) ==
    out.ok => LET c == out.content IN
              /\ \A f \in Range(c.files) : f.shain = f.shaout
              /\ c.refroot = "" \/ c.refroot = c.rootcid
              /\ c.other = "" \/ c.other = c.rootcid

\* the graph arrives as a JSON object (a record): as a function its domain is computed once
\* and (through @@, which yields an explicit function value) applications are indexed look-ups
NormGraph(out) == [out EXCEPT !.graph = [y \in DOMAIN out.graph |-> out.graph[y]] @@ <<>>]

Preds == <<"StoredByAllocation", "Delivered", "Closed", "Partition", "UnderLimit", "DepthCovers", "PinsOnSuccess", "FailureNoRootPin">>
Holds(name, in, out) ==
    CASE name = "Delivered"        -> Delivered(in, out)
      [] name = "StoredByAllocation" -> StoredByAllocation(in, out)
      [] name = "Closed"           -> Closed(in, out)
      [] name = "Partition"        -> Partition(in, out)
      [] name = "UnderLimit"       -> UnderLimit(in, out)
      [] name = "DepthCovers"      -> DepthCovers(in, out)
      [] name = "PinsOnSuccess"    -> PinsOnSuccess(in, out)
      [] name = "FailureNoRootPin" -> FailureNoRootPin(in, out)
Failed(in, out) == {n \in Range(Preds) : ~Holds(n, in, out)}
Good(in, out)   == Failed(in, out) = {}

=============================================================================
