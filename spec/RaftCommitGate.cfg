SPECIFICATION Spec
CONSTANT Guard = "none"
INVARIANT AckDurable
INVARIANT NoStopUnderCommit
