-------------------------- MODULE ConcurrencyObs --------------------------
(* Judges results recorded from concurrent executions of the real code     *)
(* (gated interleavings and free-running stress) with the C18 predicates   *)
(* of Concurrency.tla.  Reads env TRACE_FILE, writes env VERDICT_FILE.     *)
EXTENDS Concurrency, Json, IOUtils

Recs == ndJsonDeserialize(IOEnv.TRACE_FILE)
N == Len(Recs)

\* alerts are numbered 1, 2, ... in delivery order; the list held by the
\* cluster is always a run k+1..m (k = last reset point), so a correct
\* result is that run reversed: well-formed, consecutive, nothing from the future
Consecutive(out) == \A i \in 1..(Len(out) - 1) : out[i] = out[i + 1] + 1
AlertsOk(r) ==
    /\ r.panic = ""
    /\ WellFormed(r.out)
    /\ Consecutive(r.out)
    /\ (Len(r.out) > 0 => r.out[1] <= r.sent /\ r.out[1] >= r.sent0)

Panicked == {i \in 1..N : Recs[i].panic # ""}
Torn     == {i \in 1..N : Recs[i].kind = "alerts" /\ Recs[i].panic = "" /\ ~AlertsOk(Recs[i])}
Noted    == {i \in 1..N : Recs[i].notes # <<>> /\ Recs[i].kind # "alerts"}

ASSUME ndJsonSerialize(IOEnv.VERDICT_FILE, <<[n |-> N, panicked |-> Panicked, torn |-> Torn, noted |-> Noted]>>)
=============================================================================
