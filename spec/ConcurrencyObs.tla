-------------------------- MODULE ConcurrencyObs --------------------------
(* Judges results recorded from concurrent executions of the real code     *)
(* (gated interleavings and free-running stress) with the C18 predicates   *)
(* of Concurrency.tla.  Reads env TRACE_FILE, writes env VERDICT_FILE.     *)
EXTENDS Concurrency, Json, IOUtils

Recs == ndJsonDeserialize(IOEnv.TRACE_FILE)
N == Len(Recs)

\* alerts are numbered 1, 2, ... in delivery order; the list held by the
\* cluster is always a run k+1..m (k = last reset point), so a correct
\* result is that run reversed: well-formed, consecutive, nothing from the future
Consecutive(out) == \A i \in 1..(Len(out) - 1) : out[i] = out[i + 1] + 1
AlertsOk(r) ==
    /\ r.panic = ""
    /\ WellFormed(r.out)
    /\ Consecutive(r.out)
    /\ (Len(r.out) > 0 => r.out[1] <= r.sent /\ r.out[1] >= r.sent0)

Panicked == {i \in 1..N : Recs[i].panic # ""}
Torn     == {i \in 1..N : Recs[i].kind = "alerts" /\ Recs[i].panic = "" /\ ~AlertsOk(Recs[i])}
Noted    == {i \in 1..N : Recs[i].notes # <<>> /\ Recs[i].kind # "alerts"}

\* --- lifecycle (part C): the observation is (doneCh closed within the deadline, a later Shutdown() returned);
\* EventuallyStopped and UserShutdownReturns on the recorded run
StopsOk(r) == r.done = 1 /\ r.later = 1
Stuck == {i \in 1..N : Recs[i].kind = "lifecycle" /\ ~StopsOk(Recs[i])}

\* --- fan-out (part D): EveryInformerPushed on the recorded start-up: every configured informer's metric name
\* is among the names published within the deadline
Range(f) == {f[x] : x \in DOMAIN f}
PublishOk(r) == Range(r.want) \subseteq Range(r.seen)
Unpushed == {i \in 1..N : Recs[i].kind = "publish" /\ ~PublishOk(Recs[i])}

\* --- failure checks (part E): VerdictFromWindow on recorded checks.  A record is one FailedMetric() call:
\* the run and the window version it was made on (the driver adds no metric while checks are running), its
\* position in the run's global order (t0 = ticket taken before the call, t1 = after it) and its answer.
\* The verdict is a function of the window contents and of the time elapsed since the latest metric, and for
\* fixed contents it only moves from "not failed" to "failed" as time passes (expiry, then phi grows with the
\* silence).  So among the checks of one version, none that starts after a check that answered "failed" has
\* ended may answer "not failed".
Checks == {i \in 1..N : Recs[i].kind = "check"}
SameWindow(a, b) == a.run = b.run /\ a.ver = b.ver
Unstable == {j \in Checks : Recs[j].failed = 0 /\
                \E i \in Checks : SameWindow(Recs[i], Recs[j]) /\ Recs[i].t1 < Recs[j].t0 /\ Recs[i].failed = 1}

ASSUME ndJsonSerialize(IOEnv.VERDICT_FILE, <<[n |-> N, panicked |-> Panicked, torn |-> Torn, noted |-> Noted,
                                              stuck |-> Stuck, unpushed |-> Unpushed, unstable |-> Unstable]>>)
=============================================================================
