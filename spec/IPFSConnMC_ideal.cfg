SPECIFICATION Spec
CONSTANTS
  CheckTrailer = TRUE
  UpdateWatchdog = TRUE
  WaitOrigins = FALSE
  Bound = 1
  NOrigs = {0, 1}
  Intfs = {"keep", "recursive"}
  Gen = FALSE
INVARIANTS TypeOK InvSuccessSound InvFailureReported InvNoRedundant InvUnpinIdempotent
  InvStallGivesUp InvOriginsBestEffort InvUpdateOnlyIfRecursive InvSourceKept
PROPERTY Termination
