SPECIFICATION Spec
CONSTANTS
  CheckTrailer = TRUE
  UpdateWatchdog = TRUE
  Bound = 1
  NOrigs = {0, 1}
  Intfs = {"keep", "recursive"}
  Gen = FALSE
INVARIANTS TypeOK InvSuccessSound InvFailureReported InvNoRedundant InvUnpinIdempotent
  InvStallGivesUp InvUpdateOnlyIfRecursive InvSourceKept
PROPERTY Termination
