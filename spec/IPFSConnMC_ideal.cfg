SPECIFICATION Spec
CONSTANTS
  CheckTrailer = TRUE
  UpdateWatchdog = TRUE
  WaitOrigins = FALSE
  CallerCtx = TRUE
  Bound = 1
  NOrigs = {0, 1}
  Intfs = {"keep", "recursive"}
  Gen = FALSE
INVARIANTS TypeOK InvSuccessSound InvFailureReported InvNoRedundant InvLsTruthful InvUnpinIdempotent
  InvStallGivesUp InvOriginsBestEffort InvCallReturns InvCancelPropagates InvUpdateOnlyIfRecursive InvSourceKept
PROPERTY Termination
