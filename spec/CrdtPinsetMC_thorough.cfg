SPECIFICATION MCSpec
CONSTANTS
  REPS = {"r0", "r1", "r2"}
  CIDS = {"c1"}
  VALS = {"A", "B"}
  VOrder <- MCVOrder
  MaxDeltas = 4
  MaxOps = 4
  WithBatch = FALSE
VIEW View
INVARIANT MembershipConvergence
INVARIANT LocalEffect
