---------------------------- MODULE RestAPIGen ----------------------------
(* The request space of C11 as sets of abstract requests.  Used by         *)
(* RestAPIMC (design check) and RestAPICases (case files for the driver).  *)
EXTENDS RestAPI

BaseO == [n \in OptNames |-> "absent"]
BaseA == [n \in AddOptNames |-> "absent"]
\* every option present with a valid value (replication left out: it shadows min/max)
FullO == [n \in OptNames |->
            CASE n = "name" -> "special" [] n = "mode" -> "direct" [] n = "rmin" -> "two" [] n = "rmax" -> "three"
              [] n = "repl" -> "absent" [] n = "shard" -> "k1024" [] n = "ualloc" -> "two" [] n = "expire" -> "at"
              [] n = "meta" -> "two" [] n = "update" -> "v0" [] n = "origins" -> "two"]

CidPats == {"pins_hash", "pins_hash_recover", "allocations_hash"}

Canon(pat, method) ==
    [via |-> "http", tr |-> "plain", cfg |-> "open", cred |-> "missing", method |-> method, pat |-> pat, pre |-> "no",
     cid   |-> IF pat \in CidPats THEN "v0" ELSE "na",
     path  |-> IF pat = "pins_path" THEN "ipfs" ELSE "na",
     peer  |-> IF pat = "peers_peer" THEN "valid" ELSE "na",
     body  |-> IF pat = "peers" /\ method = "POST" THEN "valid"
               ELSE IF pat = "add" /\ method = "POST" THEN "file" ELSE "na",
     mname |-> IF pat = "monitor_metrics_name" THEN "ping" ELSE "na",
     local |-> "absent", filter |-> "absent", ans |-> "ok", o |-> BaseO, a |-> BaseA]

CanonR(r) == Canon(r.pat, r.method)

\* ---- credentials x routes x methods -------------------------------------
CfgCreds == {<<"open", "missing">>, <<"open", "wronguser">>} \cup {<<"auth", c>> : c \in Creds}

AuthCases(pat) ==
    {[Canon(pat, m) EXCEPT !.cfg = c[1], !.cred = c[2], !.pre = p] :
        m \in Methods \ {"OPTIONS"}, c \in CfgCreds, p \in {"no", "origin"}}
    \cup {[Canon(pat, "OPTIONS") EXCEPT !.cfg = c[1], !.cred = c[2], !.pre = p] :
        c \in CfgCreds, p \in {"no", "origin", "yes", "yesput"}}

\* unauthenticated and malformed at once, and unauthenticated with options
AuthInvalid(r) ==
    {[CanonR(r) EXCEPT !.cfg = "auth", !.cred = c,
                       !.cid = IF "cid" \in r.args THEN "garbage" ELSE @,
                       !.path = IF "path" \in r.args THEN "badcid" ELSE @,
                       !.peer = IF "peer" \in r.args THEN "garbage" ELSE @,
                       !.body = IF "body" \in r.args THEN "badjson" ELSE @] : c \in CredWrong}
    \cup {[CanonR(r) EXCEPT !.cfg = "auth", !.cred = c, !.o = FullO, !.local = "true"] : c \in CredWrong}

\* ---- positional arguments, local, filter, cluster answer -----------------
Pick(r, kind, all, none) == IF kind \in r.args THEN all ELSE {none}
AnsSet(r) == IF r.name = "Add" THEN AddAnswers
             ELSE IF r.nf # r.errst THEN {"ok", "err", "notfound"} ELSE {"ok", "err"}

PosCases(r, ctx) ==
    {[CanonR(r) EXCEPT !.cfg = ctx[1], !.cred = ctx[2], !.cid = c, !.path = p, !.peer = pe, !.body = b,
                       !.mname = mn, !.local = l, !.filter = f, !.ans = an] :
        c  \in Pick(r, "cid", CidValid \cup CidInvalid, "na"),
        p  \in Pick(r, "path", PathValid \cup PathInvalid, "na"),
        pe \in Pick(r, "peer", PeerValid \cup PeerInvalid, "na"),
        b  \in IF "body" \in r.args THEN BodyValid \cup BodyInvalid
               ELSE IF "multipart" \in r.args THEN MpartValid \cup MpartInvalid ELSE {"na"},
        mn \in Pick(r, "mname", MnameValid, "na"),
        l  \in Pick(r, "local", LocalVals \cup LocalLenient, "absent"),
        f  \in Pick(r, "filter", FilterValid \cup FilterInvalid \cup FilterLenient, "absent"),
        an \in AnsSet(r)}

\* ---- pin options ----------------------------------------------------------
Singles(base) == UNION {{[base EXCEPT ![n] = c] : c \in OptClasses(n)} : n \in OptNames}
PairsOver(base, C(_)) ==
    UNION {{[base EXCEPT ![nn[1]] = c1, ![nn[2]] = c2] : c1 \in C(nn[1]), c2 \in C(nn[2])} :
            nn \in {m \in OptNames \X OptNames : m[1] # m[2]}}
OptPairs == PairsOver(BaseO, OptClasses)
\* triples over a core of classes per option (one valid, one or two malformed, chosen at the decoding boundaries);
\* the full product of all classes is sampled by the orchestration (seeded), not enumerated
CoreClasses(n) ==
    {"absent"} \cup
    CASE n = "name" -> {"special"} [] n = "mode" -> {"direct", "upper"} [] n = "rmin" -> {"plus", "spacey"}
      [] n = "rmax" -> {"zero", "huge"} [] n = "repl" -> {"neg"} [] n = "shard" -> {"big", "plus"}
      [] n = "ualloc" -> {"qm", "spaced"} [] n = "expire" -> {"in1s", "inneg"} [] n = "meta" -> {"prefixy", "special"}
      [] n = "update" -> {"v1"} [] n = "origins" -> {"onlyp2p", "spaced"}
OptTriples(n0) == UNION {PairsOver([BaseO EXCEPT ![n0] = c0], CoreClasses) : c0 \in CoreClasses(n0)}

WithO(r, ctx, os) == {[CanonR(r) EXCEPT !.cfg = ctx[1], !.cred = ctx[2], !.o = o] : o \in os}
\* the same with the other valid / invalid CID and path shapes
WithOAlt(r, os) ==
    {[CanonR(r) EXCEPT !.o = o, !.cid = IF "cid" \in r.args THEN c ELSE @, !.path = IF "path" \in r.args THEN p ELSE @] :
        o \in os, c \in {"v1", "garbage"}, p \in {"ipnssub", "qmark", "badcid"}}

OptRoutes   == {r \in Routes : "opts" \in r.args}
CarryRoutes == {r \in Routes : UsedOpts(r) # {}}

\* ---- add options ----------------------------------------------------------
AddSingles == UNION {{[BaseA EXCEPT ![n] = c] : c \in AddOptClasses(n)} : n \in AddOptNames}
AddPairs   == UNION {{[BaseA EXCEPT ![nn[1]] = c1, ![nn[2]] = c2] : c1 \in AddOptClasses(nn[1]), c2 \in AddOptClasses(nn[2])} :
                nn \in {m \in AddOptNames \X AddOptNames : m[1] # m[2]}}
WithA(r, as, o) == {[CanonR(r) EXCEPT !.a = a, !.o = o] : a \in as}

Open  == <<"open", "missing">>
Right == <<"auth", "right">>

\* add outcomes: buffered / streaming x ok, rejected while adding, cluster failure at each step of the pipeline
AddOutcomes(r) ==
    {[CanonR(r) EXCEPT !.cfg = ctx[1], !.cred = ctx[2], !.ans = an, !.o = o,
                       !.a = [BaseA EXCEPT !["stream"] = st, !["chunker"] = ch, !["alocal"] = lo]] :
        ctx \in {Open, Right}, an \in AddAnswers, o \in {BaseO, FullO}, st \in {"absent", "true", "false"},
        ch \in {"absent", "size1024", "bogus"}, lo \in {"absent", "true"}}

\* the parameters that shape the DAG, in every combination, in the hand-written HTTP form
AddShapes(r) ==
    {[CanonR(r) EXCEPT !.a = [BaseA EXCEPT !["cidv"] = cv, !["rawleaves"] = rl, !["chunker"] = ch, !["stream"] = st,
                                           !["layout"] = ly]] :
        cv \in {"absent", "zero", "one"}, rl \in {"absent", "true", "false"}, ch \in {"absent", "size1024"},
        st \in {"absent", "false"}, ly \in {"absent", "trickle"}}

\* ---- configuration variants -------------------------------------------------
Variant(S, v) == {[q EXCEPT !.tr = v] : q \in S}
\* quick: all endpoints x all methods x {no, bad, good credentials} and every positional class, under every variant
SliceCreds == {<<"open", "missing">>, <<"auth", "missing">>, <<"auth", "wrongpass">>, <<"auth", "unknownempty">>,
               <<"auth", "right">>}
AuthSlice(pat) == {q \in AuthCases(pat) : <<q.cfg, q.cred>> \in SliceCreds}

\* ---- everything for one route / one pattern -------------------------------
RouteCasesPlain(r, level) ==
    PosCases(r, Open) \cup PosCases(r, Right) \cup AuthInvalid(r)
    \cup (IF r \in OptRoutes
            THEN WithO(r, Open, Singles(BaseO)) \cup WithO(r, Right, Singles(BaseO)) \cup WithOAlt(r, Singles(BaseO))
            ELSE {})
    \cup (IF r \in CarryRoutes
            THEN WithO(r, Open, Singles(FullO)) \cup WithO(r, Open, OptPairs)
            ELSE {})
    \cup (IF r.name = "Add"
            THEN WithA(r, AddSingles, BaseO) \cup WithA(r, AddSingles, FullO) \cup AddOutcomes(r) \cup AddShapes(r)
                 \cup (IF level = "thorough" THEN WithA(r, AddPairs, BaseO) ELSE {})
            ELSE {})
    \cup (IF level = "thorough" /\ r \in CarryRoutes
            THEN UNION {WithO(r, Open, OptTriples(n0)) : n0 \in OptNames} \cup WithO(r, Right, OptPairs)
            ELSE {})
    \cup (IF level = "thorough" /\ r.name \in {"Pin", "PinPath"} THEN WithOAlt(r, OptPairs) ELSE {})

RouteCases(r, level) ==
    RouteCasesPlain(r, level)
    \cup UNION {Variant(PosCases(r, Open) \cup PosCases(r, Right) \cup AuthInvalid(r), v) : v \in ConfigVariants}
    \cup (IF level = "thorough" THEN Variant(RouteCasesPlain(r, level), "tracing") ELSE {})

PatCases(pat, level) ==
    AuthCases(pat)
    \cup UNION {Variant(AuthSlice(pat), v) : v \in ConfigVariants}
    \cup (IF level = "thorough" THEN UNION {Variant(AuthCases(pat), v) : v \in ConfigVariants} ELSE {})

\* ---- the bundled client ---------------------------------------------------
ClientRoutes == Routes
ClientCtx == {<<"open", "missing">>, <<"auth", "right">>, <<"auth", "right2">>, <<"auth", "missing">>,
              <<"auth", "wrongpass">>, <<"auth", "wronguser">>, <<"auth", "unknownempty">>, <<"auth", "emptypass">>,
              <<"auth", "swapped">>}
\* option values a caller can express with api.PinOptions
ClientOpt(n) ==
    CASE n = "name" -> {"absent", "plain", "special", "ws"} [] n = "mode" -> {"absent", "direct"}
      [] n = "rmin" -> {"absent", "two", "neg", "zero", "negtwo"} [] n = "rmax" -> {"absent", "three", "neg", "zero"}
      [] n = "repl" -> {"absent"} [] n = "shard" -> {"absent", "k1024", "big"}
      [] n = "ualloc" -> {"absent", "one", "two", "qm", "dup"}
      [] n = "expire" -> {"absent", "at", "atfrac", "atpast"} [] n = "meta" -> OptValid("meta")
      [] n = "update" -> {"absent", "v0", "v1"}
      \* nopeer: a well-formed multiaddress the client sends and the server refuses (400)
      [] n = "origins" -> {"absent", "one", "two", "onlyp2p", "nopeer"}
ClientPairs == PairsOver(BaseO, ClientOpt)
ClientFull == [FullO EXCEPT !["expire"] = "at"]

\* add parameters a caller can express with api.AddParams (Add() forces stream-channels)
ClientAddSingles == UNION {{[BaseA EXCEPT ![n] = c] : c \in AddOptValid(n)} : n \in AddOptNames \ {"stream"}}

ClientCasesPlain(r) ==
    {[CanonR(r) EXCEPT !.via = "client", !.cfg = ctx[1], !.cred = ctx[2], !.cid = c, !.path = p, !.mname = mn,
                       !.peer = pe, !.local = l, !.filter = f, !.ans = an] :
        ctx \in ClientCtx,
        c  \in Pick(r, "cid", {"v0", "v1"}, "na"),
        pe \in Pick(r, "peer", {"valid", "qm"}, "na"),
        p  \in Pick(r, "path", PathValid \cup PathInvalid, "na"),
        mn \in Pick(r, "mname", MnameValid, "na"),
        l  \in Pick(r, "local", {"true", "false"}, "absent"),
        f  \in Pick(r, "filter", {"absent", "valid", "multi", "composite"}, "absent"),
        an \in AnsSet(r)}
    \cup (IF r.name \in {"Pin", "PinPath"}
            THEN {[CanonR(r) EXCEPT !.via = "client", !.o = o, !.cid = IF "cid" \in r.args THEN c ELSE @,
                                    !.path = IF "path" \in r.args THEN p ELSE @] :
                    o \in ClientPairs \cup {ClientFull}, c \in {"v0", "v1"}, p \in {"ipfs", "ipnssub"}}
            ELSE {})
    \cup (IF r.name = "Add"
            THEN {[CanonR(r) EXCEPT !.via = "client", !.o = o, !.a = a] :
                    o \in ClientPairs \cup {ClientFull}, a \in {BaseA}}
                 \cup {[CanonR(r) EXCEPT !.via = "client", !.o = o, !.a = a] :
                    o \in {BaseO, ClientFull}, a \in ClientAddSingles}
                 \* every DAG-shaping parameter and every boolean both ways, as a caller states them in api.AddParams
                 \cup {[CanonR(r) EXCEPT !.via = "client",
                                         !.a = [BaseA EXCEPT !["cidv"] = cv, !["rawleaves"] = rl, !["chunker"] = ch,
                                                             !["wrap"] = wr, !["progress"] = pg, !["hidden"] = hr,
                                                             !["recursive"] = hr, !["alocal"] = lo]] :
                    cv \in {"absent", "zero", "one"}, rl \in {"absent", "true", "false"}, ch \in {"absent", "size1024"},
                    wr \in {"absent", "true", "false"}, pg \in {"absent", "true", "false"}, hr \in {"true", "false"},
                    lo \in {"true", "false"}}
                 \cup {[CanonR(r) EXCEPT !.via = "client", !.cfg = ctx[1], !.cred = ctx[2], !.ans = an,
                                         !.o = o, !.a = [BaseA EXCEPT !["chunker"] = ch]] :
                    ctx \in ClientCtx, an \in AddAnswers, o \in {BaseO, [BaseO EXCEPT !["origins"] = "nopeer"]},
                    ch \in {"absent", "bogus"}}
            ELSE {})

ClientCases(r) ==
    ClientCasesPlain(r)
    \cup Variant({q \in ClientCasesPlain(r) : q.o = BaseO /\ q.a = BaseA}, "tracingcors")

=============================================================================
