SPECIFICATION Spec
CONSTANTS
  MaxAlerts = 2
  NWrites = 0
  NReads = 0
  SizedOutsideLock = FALSE
  ShutdownInline = FALSE
  ClientGuarded = TRUE
  Part = "alerts"
