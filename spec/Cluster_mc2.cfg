SPECIFICATION Spec
CONSTANTS
  PEERS = {"p1","p2"}
  CIDS = {"c1","c2"}
  MaxOps = 3
INVARIANTS E2EInv AllocInv
