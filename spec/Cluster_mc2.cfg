SPECIFICATION Spec
CONSTANTS
  PEERS = {"p1","p2"}
  CIDS = {"c1","c2"}
  MaxOps = 3
  MaxOut = 0
  HandoffOrdered = TRUE
INVARIANTS E2EInv AllocInv ErrorKept
