SPECIFICATION Spec
CONSTANTS
  TTLS = {4}
  INTERVALS = {1}
  HalfDiv = 2
  QuarterDiv = 4
  PingMul = 2
  MaxErrInf = 1
  MaxErrPing = 0
  MaxBurst = 11
