\* exhaustive, small: the stateless tracker as the client of the table
CONSTANTS CIDS = {"c1", "c2"} MaxOps = 4 K0 = 1 Q0 = 1 Level0 = "tracker" Strict = TRUE Lag = FALSE
INIT Init
NEXT Next
INVARIANTS TypeOK TableCid OneLivePerCid LiveIsTracked ReplacedIsCancelled CleanOnlyOwn CleanOnlyDone ErrorSticky PhaseForward FullQueueIsError QueueBound WorkerBound
