----------------------------- MODULE ProxyAdd -----------------------------
(* The steps of addHandler for one accepted /add request and the client   *)
(* hanging up at any moment (C12, "with the requested options" and "an    *)
(* error answer performs no cluster operation" under interleavings):      *)
(*                                                                         *)
(*   stream entries -> Finalize (Cluster.Pin) -> [pin=false: sleep ->     *)
(*   Cluster.Unpin] -> done          ||   client disconnects (cancels the *)
(*                                        request context)                *)
(*                                                                         *)
(* UnpinCtx says which context the post-add Unpin runs under ("proxy" as  *)
(* coded; "request" = cancelled when the client goes away, the callee     *)
(* honours it).  UnpinAfterPinError says whether the handler still unpins *)
(* when Finalize failed (FALSE as coded).  TLC enumerates every position  *)
(* of the disconnect; the non-coded settings give the design-level        *)
(* counterexamples that the driver realises (hangup / fault cases).       *)
EXTENDS Integers, TLC

CONSTANTS UnpinCtx, UnpinAfterPinError

VARIABLES pc, rctx, pinFalse, pinFails, wasPinned, pinned, effUnpins, errAnswer, opAfterErr
vars == <<pc, rctx, pinFalse, pinFails, wasPinned, pinned, effUnpins, errAnswer, opAfterErr>>

Init == /\ pc = "stream" /\ rctx = "live"
        /\ pinFalse \in BOOLEAN /\ pinFails \in BOOLEAN /\ wasPinned \in BOOLEAN
        /\ pinned = wasPinned /\ effUnpins = 0 /\ errAnswer = FALSE /\ opAfterErr = FALSE

Stream == pc = "stream" /\ pc' = "finalize"
          /\ UNCHANGED <<rctx, pinFalse, pinFails, wasPinned, pinned, effUnpins, errAnswer, opAfterErr>>

\* adder Finalize: Cluster.Pin under the proxy's context
Finalize ==
    /\ pc = "finalize"
    /\ IF pinFails
       THEN /\ errAnswer' = TRUE /\ pinned' = pinned
            /\ pc' = IF pinFalse /\ UnpinAfterPinError THEN "sleep" ELSE "done"
       ELSE /\ errAnswer' = FALSE /\ pinned' = TRUE
            /\ pc' = IF pinFalse THEN "sleep" ELSE "done"
    /\ UNCHANGED <<rctx, pinFalse, pinFails, wasPinned, effUnpins, opAfterErr>>

Sleep == pc = "sleep" /\ pc' = "unpin"
         /\ UNCHANGED <<rctx, pinFalse, pinFails, wasPinned, pinned, effUnpins, errAnswer, opAfterErr>>

Unpin ==
    /\ pc = "unpin" /\ pc' = "done"
    /\ IF UnpinCtx = "request" /\ rctx = "cancelled"
       THEN UNCHANGED <<pinned, effUnpins, opAfterErr>>            \* the callee returns ctx.Err()
       ELSE IF pinned
            THEN pinned' = FALSE /\ effUnpins' = effUnpins + 1 /\ opAfterErr' = errAnswer
            ELSE UNCHANGED <<pinned, effUnpins, opAfterErr>>       \* "not part of the pinset"
    /\ UNCHANGED <<rctx, pinFalse, pinFails, wasPinned, errAnswer>>

Disconnect == rctx = "live" /\ rctx' = "cancelled"
              /\ UNCHANGED <<pc, pinFalse, pinFails, wasPinned, pinned, effUnpins, errAnswer, opAfterErr>>

Next == Stream \/ Finalize \/ Sleep \/ Unpin \/ Disconnect
Spec == Init /\ [][Next]_vars

\* pin=false is honoured whenever the client disconnects
PinFalseHonoured == pc = "done" /\ pinFalse /\ ~pinFails => ~pinned /\ effUnpins = 1
PinTrueHonoured  == pc = "done" /\ ~pinFalse /\ ~pinFails => pinned /\ effUnpins = 0
\* an error answer performs no cluster operation
ErrorMeansNoOp   == pc = "done" /\ errAnswer => ~opAfterErr /\ pinned = wasPinned
=============================================================================
