---------------------------- MODULE CodecTrace ----------------------------
(* V: decides every observation recorded from the real encoder/decoder     *)
(* pairs (NDJSON file IOEnv.TRACE_FILE) with the specification's own       *)
(* field-wise comparison against Proj, and every decoder-totality outcome  *)
(* (IOEnv.FUZZ_FILE) against AllowedOutcomes.  Failing record numbers and  *)
(* fields are written to IOEnv.VERDICT_FILE.                               *)
EXTENDS Codec, Json, IOUtils

Obs  == ndJsonDeserialize(IOEnv.TRACE_FILE)
Fuzz == ndJsonDeserialize(IOEnv.FUZZ_FILE)

Bad     == {[i |-> i, fields |-> BadFields(Obs[i]), exp |-> Proj(Obs[i].rec, Obs[i].fmt, Obs[i].v)] :
                i \in {j \in 1..Len(Obs) : BadFields(Obs[j]) # {}}}
BadFuzz == {i \in 1..Len(Fuzz) : BadOutcome(Fuzz[i].outcome)}

SeqObs == ndJsonDeserialize(IOEnv.SEQ_TRACE_FILE)
BadSeq == {[n |-> n, items |-> BadItems(SeqObs[n])] : n \in {m \in 1..Len(SeqObs) : BadItems(SeqObs[m]) # {}}}

ClassesSeen  == {Fuzz[i].class : i \in 1..Len(Fuzz)}
ClassesMissing == CorruptionClasses \ ClassesSeen
ClassesUnknown == ClassesSeen \ CorruptionClasses

ASSUME ndJsonSerialize(IOEnv.VERDICT_FILE, <<[n |-> Len(Obs), bad |-> Bad, nfuzz |-> Len(Fuzz), badfuzz |-> BadFuzz,
                                              missing |-> ClassesMissing, unknown |-> ClassesUnknown,
                                              nseq |-> Len(SeqObs), badseq |-> BadSeq]>>)

VARIABLE x
Init == x = 0
Next == UNCHANGED x
Spec == Init /\ [][Next]_x
=============================================================================
