SPECIFICATION TraceSpec
CONSTANT NPEERS = 3
CONSTANT NCIDS = 2
CONSTANT Variants = {"a","b"}
CONSTANT RestoreMode = "replace"
INVARIANT Verdict
