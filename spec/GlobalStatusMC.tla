-------------------------- MODULE GlobalStatusMC --------------------------
(* Exhaustive: for every situation over 3 members the transcribed views    *)
(* satisfy the statement, except the listed deviation of StatusAll (an     *)
(* unreachable member that is NOT allocated shows cluster_error, not       *)
(* remote).                                                                *)
EXTENDS GlobalStatus, SequencesExt

VARIABLE sit
Peers == {"p1", "p2", "p3"}
Reports == {"pinned", "pin_error", "pinning"}
AsSeq(S) == SetToSeq(S)

Sits == {[members |-> AsSeq(m), everywhere |-> e, allocs |-> AsSeq(a), down |-> AsSeq(d), report |-> r, inpinset |-> i] :
            m \in (SUBSET Peers) \ {{}}, e \in BOOLEAN, a \in SUBSET Peers, d \in SUBSET Peers,
            r \in [Peers -> Reports], i \in BOOLEAN}

\* allocations name current members (a removed peer's pins are re-homed, C10)
Init == sit \in {s \in Sits : Rng(s.down) \subseteq Rng(s.members) /\ Rng(s.allocs) \subseteq Rng(s.members)
                               /\ (s.everywhere => s.allocs = <<>>)
                               /\ (~s.everywhere /\ s.inpinset => s.allocs # <<>>)}
Next == UNCHANGED sit
Spec == Init /\ [][Next]_sit

StatusOK == ViewGood(sit, StatusView(sit))
\* StatusAll deviates exactly when an unreachable member is not allocated
DownNotAllocated == sit.inpinset /\ (Rng(sit.down) \ Allocated(sit)) # {}
StatusAllOK == sit.inpinset => (ViewGood(sit, StatusAllView(sit)) <=> ~DownNotAllocated)
=============================================================================
