-------------------------- MODULE GlobalStatusMC --------------------------
(* Exhaustive: for every situation over 3 members the transcribed views    *)
(* satisfy the statement, except the listed deviation of StatusAll (an     *)
(* unreachable member that is NOT allocated shows cluster_error, not       *)
(* remote).                                                                *)
EXTENDS GlobalStatus, SequencesExt

VARIABLE sit
Peers == {"p1", "p2", "p3"}
Reports == {"pinned", "pin_error", "pinning"}
AsSeq(S) == SetToSeq(S)

Sits == {[members |-> AsSeq(m), everywhere |-> e, allocs |-> AsSeq(a), down |-> AsSeq(d), report |-> r, inpinset |-> i] :
            m \in (SUBSET Peers) \ {{}}, e \in BOOLEAN, a \in SUBSET Peers, d \in SUBSET Peers,
            r \in [Peers -> Reports], i \in BOOLEAN}

\* allocations may name peers that are no longer members (re-pinning is disabled by default, or has not
\* happened yet); an unreachable peer is a member or such a departed allocated peer; some member answers
Init == sit \in {s \in Sits : Rng(s.down) \subseteq (Rng(s.members) \cup Rng(s.allocs))
                               /\ (Rng(s.members) \ Rng(s.down)) # {}
                               /\ (s.everywhere => s.allocs = <<>>)
                               /\ (~s.everywhere /\ s.inpinset => s.allocs # <<>>)}
Next == UNCHANGED sit
Spec == Init /\ [][Next]_sit

StatusOK == ViewGood(sit, StatusView(sit))
\* StatusAll deviates exactly when an unreachable member is not allocated
DownNotAllocated == sit.inpinset /\ ((Rng(sit.down) \cap Rng(sit.members)) \ Allocated(sit)) # {}
\* and when the pin is allocated to a peer that is no longer a member: StatusAll only asks members, the
\* departed allocated peer is missing from the view (second listed deviation)
AllocNotMember == sit.inpinset /\ (Allocated(sit) \ Rng(sit.members)) # {}
StatusAllOK == sit.inpinset => (ViewGood(sit, StatusAllView(sit)) <=> ~(DownNotAllocated \/ AllocNotMember))
=============================================================================
