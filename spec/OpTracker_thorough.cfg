\* exhaustive: 2 CIDs, 2 pin workers, 3 operations
CONSTANTS CIDS = {"c1", "c2"} MaxOps = 3 K0 = 2 Q0 = 1 Level0 = "tracker" Strict = TRUE Lag = FALSE
INIT Init
NEXT TrackerNext
INVARIANTS TypeOK TableCid OneLivePerCid LiveIsTracked ReplacedIsCancelled CleanOnlyOwn CleanOnlyDone ErrorSticky PhaseForward FullQueueIsError FullQueueShowsError QueueBound WorkerBound
