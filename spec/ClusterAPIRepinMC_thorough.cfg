SPECIFICATION Spec
CONSTANT NPEERS = 5
CONSTANT MinN = 2
CONSTANT EqualsMode = "fixed"
CONSTANT UpdateGuard = TRUE
CONSTANT RepinRedirect = FALSE
INVARIANT PropertyHolds
