SPECIFICATION Spec
CONSTANTS
  PEERS = {"p1","p2"}
  CIDS = {"c1"}
  MaxOps = 3
  MaxOut = 1
  HandoffOrdered = TRUE
INVARIANTS E2EInv AllocInv ErrorKept
