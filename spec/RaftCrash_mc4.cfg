\* thorough tier
CONSTANTS CIDS = {"c1", "c2"} MaxOps = 4 KeepFsm = FALSE LoseLog = FALSE
INIT Init
NEXT Next
INVARIANTS TypeOK AckDurable PrefixInv AtMostOnce
