\* exhaustive, quick: 2 CIDs sharing the queues, 2 operations
CONSTANTS CIDS = {"c1", "c2"} MaxOps = 2 K0 = 1 Q0 = 1 Level0 = "tracker" Strict = TRUE Lag = FALSE
INIT Init
NEXT TrackerNext
INVARIANTS TypeOK TableCid OneLivePerCid LiveIsTracked ReplacedIsCancelled CleanOnlyOwn CleanOnlyDone ErrorSticky PhaseForward FullQueueIsError FullQueueShowsError QueueBound WorkerBound
