------------------------- MODULE AllocatorTrace -------------------------
(* Evaluates the property predicate Good and the transcription predicate  *)
(* Conforms on (input, output) pairs recorded from the real Cluster       *)
(* (NDJSON file named by env TRACE_FILE); writes the failing record       *)
(* numbers to env VERDICT_FILE.                                           *)
EXTENDS Allocator, Json, IOUtils

Recs == ndJsonDeserialize(IOEnv.TRACE_FILE)

Bad   == {i \in 1..Len(Recs) : ~Good(Recs[i].in, Recs[i].out)}
Drift == {i \in 1..Len(Recs) : ~Conforms(Recs[i].in, Recs[i].out)}
\* "nothing changes" on refusal is observed by the driver as a boolean
Changed == {i \in 1..Len(Recs) : ~Recs[i].out.ok /\ Recs[i].out.changed}

ASSUME ndJsonSerialize(IOEnv.VERDICT_FILE,
        <<[n |-> Len(Recs), bad |-> Bad, drift |-> Drift, changed |-> Changed]>>)

VARIABLE x
Init == x = 0
Next == UNCHANGED x
Spec == Init /\ [][Next]_x
=============================================================================
