--------------------------- MODULE RaftPinsetTrace ---------------------------
(***************************************************************************)
(* Trace validation for C01 / C17: the events recorded from the real code  *)
(* (NDJSON file named by env TRACE_FILE; several runs separated by "reset" *)
(* lines) are consumed one per step.  The committed sequence `log` is      *)
(* reconstructed from the apply events (an entry first seen at index       *)
(* Len(log)+1 is a commit); every observed pinset is judged by TLC with    *)
(* the property operators of RaftPinset (ApplyOp / CallFor):               *)
(*   PrefixInv       an observed pinset after apply / install / restart is *)
(*                   ApplyPrefix(n) for the replica's index n              *)
(*   Agreement       no two replicas apply different entries at one index  *)
(*   SnapFaithful    a snapshot (offline state) loads as a prefix result   *)
(*   AckDurable      an acknowledged op is in the sequence when acked      *)
(*   TrackerFaithful every apply is handed to the tracker as stored        *)
(*   NoSpontaneous   a quiescent observation equals the last event's state *)
(* Property breaches are collected in `bad`, pure transcription mismatches *)
(* (state differs from ApplyOp(previous state, entry) while the property   *)
(* predicates hold) in `drift`; both are written to env VERDICT_FILE.      *)
(***************************************************************************)
EXTENDS RaftPinsetOps, Json, IOUtils, SequencesExt

Trace == ndJsonDeserialize(IOEnv.TRACE_FILE)
N == Len(Trace)

VARIABLES l,        \* lines consumed
          tlog,     \* reconstructed committed sequence of [k, cid, v, id]
          tap,      \* [peer -> index of the last entry known applied]
          real,     \* [peer -> last observed pinset]
          tup,      \* [peer -> BOOLEAN]
          pend,     \* [peer -> Seq of tracker calls still expected]
          cs,       \* CID names of the current run
          bad, drift, stuck

tvars == <<l, tlog, tap, real, tup, pend, cs, bad, drift, stuck>>

Has(r, f) == f \in DOMAIN r
EmptyOn(c) == [x \in c |-> NONE]
PrefixOn(c, lg, n) ==
    LET f[i \in 0..n] == IF i = 0 THEN EmptyOn(c) ELSE ApplyOp(f[i - 1], lg[i]) IN f[n]
Mark(why) == Append(bad, [line |-> l + 1, why |-> why])

\* the index of the entry a line talks about: explicit (the driver plays raft),
\* else by unique op id, else "next"
IndexOf(ln) ==
    IF Has(ln, "i") THEN ln.i
    ELSE IF Has(ln, "op") THEN
         LET js == {j \in 1..Len(tlog) : tlog[j].id = ln.op /\ ln.op # ""} IN
         IF js # {} THEN CHOOSE j \in js : TRUE ELSE Len(tlog) + 1
    ELSE \* traces of the repository's own tests: no index, no op id. The entry continues the
         \* replica's own position; after a restore whose index was ambiguous any position n with
         \* ApplyPrefix(n-1) = the replica's state and the same entry at n (or n = next) explains it.
         LET e == [k |-> ln.k, cid |-> ln.cid, v |-> IF ln.k = "pin" THEN (IF Has(ln, "want") THEN ln.want ELSE ln.v) ELSE NONE]
             fits(n) == /\ PrefixOn(cs, tlog, n - 1) = real[ln.p]
                        /\ (n <= Len(tlog) => tlog[n].k = e.k /\ tlog[n].cid = e.cid /\ tlog[n].v = e.v)
         IN IF fits(tap[ln.p] + 1) THEN tap[ln.p] + 1
            ELSE LET ns == {n \in 1..(Len(tlog) + 1) : fits(n)} IN
                 IF ns = {} THEN tap[ln.p] + 1 ELSE CHOOSE n \in ns : \A m \in ns : n <= m

\* want = the value carried by the operation itself (when recorded): the statement says that is what is inserted
Entry(ln) == [k |-> ln.k, cid |-> ln.cid, v |-> IF ln.k = "pin" THEN (IF Has(ln, "want") THEN ln.want ELSE ln.v) ELSE NONE,
              id |-> IF Has(ln, "op") THEN ln.op ELSE ""]
SameOp(a, b) == a.k = b.k /\ a.cid = b.cid /\ a.v = b.v /\ a.id = b.id

\* largest prefix whose result is st (-1: none)
PrefixMatching(st) ==
    LET ns == {n \in 0..Len(tlog) : PrefixOn(cs, tlog, n) = st} IN
    IF ns = {} THEN -1 ELSE CHOOSE n \in ns : \A m \in ns : m <= n

StaleOnly(st, want) == \A c \in cs : want[c] # NONE => st[c] = want[c]

Init0 ==
    /\ l = 0 /\ tlog = <<>> /\ tap = <<>> /\ real = <<>> /\ tup = <<>> /\ pend = <<>>
    /\ cs = {} /\ bad = <<>> /\ drift = <<>> /\ stuck = <<>>

PendLeft == {p \in DOMAIN pend : tup[p] /\ pend[p] # <<>>}

Reset(ln) ==
    /\ tlog' = <<>>
    /\ cs' = ToSet(ln.cids)
    /\ tap' = [p \in ToSet(ln.peers) |-> 0]
    /\ real' = [p \in ToSet(ln.peers) |-> EmptyOn(ToSet(ln.cids))]
    /\ tup' = [p \in ToSet(ln.peers) |-> IF Has(ln, "up") THEN p \in ToSet(ln.up) ELSE TRUE]
    /\ pend' = [p \in ToSet(ln.peers) |-> <<>>]
    /\ UNCHANGED <<bad, drift>>

Apply(ln) ==
    LET p == ln.p
        e == Entry(ln)
        n == IndexOf(ln)
        lg == IF n = Len(tlog) + 1 THEN Append(tlog, e) ELSE tlog
        okIdx == n >= 1 /\ n <= Len(tlog) + 1
        agree == okIdx /\ SameOp(lg[n], e)
        want == IF okIdx THEN PrefixOn(cs, lg, n) ELSE EmptyOn(cs)
    IN
    /\ tlog' = IF okIdx THEN lg ELSE tlog
    /\ tap' = [tap EXCEPT ![p] = n]
    /\ real' = [real EXCEPT ![p] = ln.st]
    /\ tup' = [tup EXCEPT ![p] = TRUE]
    /\ pend' = [pend EXCEPT ![p] = Append(@, CallFor(e, ln.st))]
    /\ bad' = IF ~okIdx THEN Mark("Agreement:index-gap")
              ELSE IF ~agree THEN Mark("Agreement:different-entry-at-index")
              ELSE IF ln.st # want THEN Mark("PrefixInv:apply-" \o ln.k)
              ELSE IF ~ln.inited THEN Mark("PrefixInv:state-not-served")
              ELSE bad
    /\ drift' = IF okIdx /\ agree /\ ln.st = want /\ ln.st # ApplyOp(real[p], e)
                THEN Append(drift, l + 1) ELSE drift
    /\ UNCHANGED cs

Track(ln) ==
    LET p == ln.p
        js == {j \in 1..Len(pend[p]) : /\ pend[p][j].k = ln.k /\ pend[p][j].cid = ln.cid
                                       /\ (ln.k = "track" => pend[p][j].v \in ToSet(ln.vs))}
    IN
    /\ IF js # {}
       THEN /\ pend' = [pend EXCEPT ![p] = RemoveAt(@, CHOOSE j \in js : \A m \in js : j <= m)]
            /\ bad' = bad
       ELSE /\ pend' = pend
            /\ bad' = Mark("TrackerFaithful:" \o ln.k \o "-not-as-stored")
    /\ UNCHANGED <<tlog, tap, real, tup, cs, drift>>

Restored(ln) ==
    LET p == ln.p
        n == IF Has(ln, "idx") THEN ln.idx ELSE PrefixMatching(ln.st)
        okIdx == n >= 0 /\ n <= Len(tlog)
        want == IF okIdx THEN PrefixOn(cs, tlog, n) ELSE EmptyOn(cs)
    IN
    /\ tap' = [tap EXCEPT ![p] = IF okIdx THEN n ELSE 0]
    /\ real' = [real EXCEPT ![p] = ln.st]
    /\ tup' = [tup EXCEPT ![p] = TRUE]
    /\ pend' = [pend EXCEPT ![p] = <<>>]
    /\ bad' = IF Has(ln, "idx") /\ ~okIdx THEN Mark("Agreement:snapshot-ahead-of-log")
              ELSE IF ~okIdx THEN Mark("PrefixInv:" \o ln.ev \o "-no-prefix")
              ELSE IF ln.st # want
                   THEN (IF StaleOnly(ln.st, want) THEN Mark("PrefixInv:" \o ln.ev \o "-stale-entry-kept")
                                                   ELSE Mark("PrefixInv:" \o ln.ev))
              ELSE IF n > 0 /\ ~ln.inited THEN Mark("PrefixInv:state-not-served")
              ELSE bad
    /\ UNCHANGED <<tlog, cs, drift>>

Snapshot(ln) ==
    LET n == IF Has(ln, "idx") THEN ln.idx ELSE PrefixMatching(ln.st)
        okIdx == n >= 0 /\ n <= Len(tlog)
    IN
    /\ bad' = IF ~okIdx \/ ln.st # PrefixOn(cs, tlog, n) THEN Mark("SnapFaithful") ELSE bad
    /\ UNCHANGED <<tlog, tap, real, tup, pend, cs, drift>>

Down(ln) ==
    /\ tup' = [tup EXCEPT ![ln.p] = FALSE]
    /\ pend' = [pend EXCEPT ![ln.p] = <<>>]
    /\ UNCHANGED <<tlog, tap, real, cs, bad, drift>>

Ack(ln) ==
    LET js == {j \in 1..Len(tlog) : tlog[j].id = ln.op} IN
    /\ bad' = IF js = {} THEN Mark("AckDurable:acked-op-not-applied-anywhere") ELSE bad
    /\ UNCHANGED <<tlog, tap, real, tup, pend, cs, drift>>

\* quiescent observation through Consensus.State(); caught = the driver saw the
\* replica apply every entry of the sequence
Obs(ln) ==
    LET p == ln.p IN
    /\ bad' = IF ln.st # real[p] THEN Mark("NoSpontaneous:state-changed-without-apply")
              ELSE IF Has(ln, "caught") /\ ln.caught /\ ln.st # PrefixOn(cs, tlog, Len(tlog)) THEN Mark("CaughtUp")
              ELSE bad
    /\ UNCHANGED <<tlog, tap, real, tup, pend, cs, drift>>

Final(ln) ==
    /\ bad' = IF PendLeft # {} THEN Mark("TrackerFaithful:hand-off-missing") ELSE bad
    /\ UNCHANGED <<tlog, tap, real, tup, pend, cs, drift>>

Known == {"reset", "apply", "track", "install", "restart", "snapshot", "down", "ack", "noack", "obs", "final"}

Step ==
    /\ l < N
    /\ l' = l + 1
    /\ LET ln == Trace[l + 1] IN
       \/ ln.ev = "reset" /\ Reset(ln) /\ UNCHANGED stuck
       \/ ln.ev = "apply" /\ Apply(ln) /\ UNCHANGED stuck
       \/ ln.ev = "track" /\ Track(ln) /\ UNCHANGED stuck
       \/ ln.ev \in {"install", "restart"} /\ Restored(ln) /\ UNCHANGED stuck
       \/ ln.ev = "snapshot" /\ Snapshot(ln) /\ UNCHANGED stuck
       \/ ln.ev = "down" /\ Down(ln) /\ UNCHANGED stuck
       \/ ln.ev = "ack" /\ Ack(ln) /\ UNCHANGED stuck
       \/ ln.ev = "noack" /\ UNCHANGED <<tlog, tap, real, tup, pend, cs, bad, drift, stuck>>   \* Submit timed out / failed: the entry may or may not be committed
       \/ ln.ev = "obs" /\ Obs(ln) /\ UNCHANGED stuck
       \/ ln.ev = "final" /\ Final(ln) /\ UNCHANGED stuck
       \/ ln.ev \notin Known /\ stuck' = Append(stuck, l + 1)
                             /\ UNCHANGED <<tlog, tap, real, tup, pend, cs, bad, drift>>

TraceSpec == Init0 /\ [][Step]_tvars

\* evaluated on every state; at the end of the file it writes the verdict
Verdict ==
    l = N => ndJsonSerialize(IOEnv.VERDICT_FILE, <<[n |-> l, bad |-> bad, drift |-> drift, stuck |-> stuck]>>)
=============================================================================
