SPECIFICATION Spec
CONSTANTS
  NAMES = {"n1", "n2"}
  PEERS = {"p1"}
  Thr = 1
  CheckMode = "once"
  ForgetMode = "name"
  RenewMode = "restart"
  W = 2
  AccN = 6
  MaxArr = 2
  MaxT = 1
  REPS = {1}
  Garbage = FALSE
  Staged = FALSE
  PsFree = FALSE
  InitSets = {{"p1"}}
INVARIANTS NeverTwoNamesCycleCP
