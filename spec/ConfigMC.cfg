SPECIFICATION Spec
CONSTANT BoolAssign = "direct"
INVARIANT LawsHold
INVARIANT DefaultIsValid
