SPECIFICATION Spec
CONSTANTS
  CheckTrailer = TRUE
  UpdateWatchdog = FALSE
  Bound = 1
  NOrigs = {0}
  Intfs = {"keep"}
  Gen = FALSE
INVARIANTS InvStallGivesUp
