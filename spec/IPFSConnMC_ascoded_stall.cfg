SPECIFICATION Spec
CONSTANTS
  CheckTrailer = TRUE
  UpdateWatchdog = FALSE
  WaitOrigins = FALSE
  CallerCtx = TRUE
  Bound = 1
  NOrigs = {0}
  Intfs = {"keep"}
  Gen = FALSE
INVARIANTS InvStallGivesUp
