\* exhaustive: 1 CID, 4 operations
CONSTANTS CIDS = {"c1"} MaxOps = 4 K0 = 1 Q0 = 1 Level0 = "tracker" Strict = TRUE Lag = FALSE
INIT Init
NEXT TrackerNext
INVARIANTS TypeOK TableCid OneLivePerCid LiveIsTracked ReplacedIsCancelled CleanOnlyOwn CleanOnlyDone ErrorSticky PhaseForward FullQueueIsError FullQueueShowsError QueueBound WorkerBound
