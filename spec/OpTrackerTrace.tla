--------------------------- MODULE OpTrackerTrace ---------------------------
(***************************************************************************)
(* Trace validation of the pin tracker's operation table: executions of    *)
(* the real, unscripted code (the repository's own tests of                *)
(* pintracker/optracker, pintracker/stateless and pintracker, and a        *)
(* randomized concurrent driver) recorded by the verif hooks are checked   *)
(* to be behaviours of OpTracker.tla, with every property predicate of     *)
(* OpTracker evaluated on every state of every trace (INVARIANTS).         *)
(*                                                                         *)
(* TRACE_FILE: NDJSON, one event per line in the order of the per-tracker  *)
(* sequence numbers; several traces are concatenated, each starts with a   *)
(* {"ev":"reset"} line (written by the harness) followed by the tracker's  *)
(* "Init" event.  CIDs are renamed c1.. per trace by the harness.          *)
(*                                                                         *)
(* Every event is logged (no silent steps) and every action is determined  *)
(* by its record: a trace has exactly one behaviour, so an invariant that  *)
(* is false on it is false on what the code did.                           *)
(* Acceptance: every line was consumed, i.e. the diameter of the state     *)
(* graph is Len(Trace) + 1 (POSTCONDITION TraceAccepted).  To report WHERE *)
(* a trace is rejected, a line that no action can consume is turned into   *)
(* the marker state l = -line (TraceStuck, invariant TraceNotStuck).       *)
(*                                                                         *)
(* Verdict (tools/props/optrace.py): an INVARIANT false on a state reached *)
(* by a recorded trace = VIOLATION (behaviour of the real code); a trace   *)
(* that gets stuck under Strict = TRUE is re-checked with Strict = FALSE   *)
(* (OpTrackerTrace_perm.cfg: the recorded outcomes are applied as they     *)
(* are): an invariant false there = VIOLATION, otherwise the code merely   *)
(* left the transcribed path = SPEC-DRIFT.                                 *)
(***************************************************************************)
EXTENDS OpTracker, Json, IOUtils

Trace == ndJsonDeserialize(IOEnv.TRACE_FILE)

VARIABLE l      \* the next line of the trace
tvars == <<vars, l>>

Ev == Trace[l]
Has(f) == f \in DOMAIN Ev
IsEvent(name) == l >= 1 /\ l <= Len(Trace) /\ Ev.ev = name /\ l' = l + 1

\* the fields every operation-level record carries identify the operation ...
SameOp(i) == i \in Ids /\ ops[i].cid = Ev.cid /\ ops[i].type = Ev.typ
\* ... and the cheap scalar "context cancelled" must be what the specification has after the step
CancOK(i) == Strict => (Ev.canc = (ops'[i].cancelled \/ down'))

TraceInit == l = 1 /\ Init

\* {"ev":"reset"} + the tracker's "Init" record: a new tracker, empty table
TraceReset ==
    /\ IsEvent("reset")
    /\ ops' = <<>> /\ nops' = 0 /\ table' = [c \in CIDS |-> 0] /\ pinQ' = <<>> /\ unpinQ' = <<>>
    /\ mu' = None /\ down' = FALSE /\ hist' = NoHist
    /\ conf' = [level |-> "api", K |-> 0, Q |-> 0]

TraceBegin == IsEvent("Init") /\ nops = 0 /\ conf.level = "api" /\ UNCHANGED vars

TraceTracker  == IsEvent("Tracker") /\ TrackerEv(Ev.K, Ev.Q)
TraceReplace  == IsEvent("Replace") /\ Replace(Ev.cid, Ev.typ, Ev.ph, Ev.old)
TraceTrackNew == IsEvent("TrackNew") /\ TrackNew(Ev.cid, Ev.typ, Ev.ph, Ev.out, Ev.op, Ev.old)
                 /\ (Strict /\ Ev.out # "same" => (Ev.canc = down))   \* a tracker that was shut down creates cancelled operations
TraceClean    == IsEvent("Clean") /\ SameOp(Ev.op) /\ Clean(Ev.op, Ev.pre, Ev.post) /\ CancOK(Ev.op)
TraceTSetErr  == IsEvent("TSetError") /\ SameOp(Ev.op) /\ TSetError(Ev.op)
TraceCleanDn  == IsEvent("CleanDone") /\ SameOp(Ev.op) /\ CleanDone(Ev.op)
TraceCancel   == IsEvent("Cancel") /\ SameOp(Ev.op) /\ CancelRecorded(Ev.op) /\ Ev.canc
                 /\ (Strict => (Ev.first = ~(ops[Ev.op].cancelled \/ down)))
TraceSetPhase == IsEvent("SetPhase") /\ SameOp(Ev.op) /\ SetPhase(Ev.op, Ev.ph) /\ CancOK(Ev.op)
TraceSetError == IsEvent("OpSetError") /\ SameOp(Ev.op) /\ OpSetError(Ev.op) /\ Ev.ph = "error" /\ CancOK(Ev.op)
TraceEnqueue  == IsEvent("Enqueue") /\ SameOp(Ev.op) /\ Enqueue(Ev.op, Ev.len) /\ CancOK(Ev.op)
TraceFull     == IsEvent("QueueFull") /\ SameOp(Ev.op) /\ QueueFull(Ev.op, Ev.len) /\ CancOK(Ev.op)
TraceDequeue  == IsEvent("Dequeue") /\ SameOp(Ev.op) /\ Dequeue(Ev.op) /\ CancOK(Ev.op)
TraceSkip     == IsEvent("Skip") /\ SameOp(Ev.op) /\ Skip(Ev.op) /\ CancOK(Ev.op)
TraceStart    == IsEvent("CallStart") /\ SameOp(Ev.op) /\ CallStart(Ev.op) /\ CancOK(Ev.op)
TraceReturn   == IsEvent("CallReturn") /\ SameOp(Ev.op) /\ CallReturn(Ev.op, Ev.ok) /\ CancOK(Ev.op)
TraceAbandon  == IsEvent("Abandon") /\ SameOp(Ev.op) /\ Abandon(Ev.op) /\ CancOK(Ev.op)
TraceShutdown == IsEvent("Shutdown") /\ Shutdown

TraceStep ==
    \/ TraceReset \/ TraceBegin \/ TraceTracker
    \/ TraceReplace \/ TraceTrackNew \/ TraceClean \/ TraceTSetErr \/ TraceCleanDn
    \/ TraceCancel \/ TraceSetPhase \/ TraceSetError
    \/ TraceEnqueue \/ TraceFull \/ TraceDequeue \/ TraceSkip \/ TraceStart \/ TraceReturn \/ TraceAbandon
    \/ TraceShutdown

\* no action can consume line l: mark it (the run then ends with TraceNotStuck violated at this state)
TraceStuck == l >= 1 /\ l <= Len(Trace) /\ ~ENABLED TraceStep /\ l' = 0 - l /\ UNCHANGED vars

TraceNext == TraceStep \/ TraceStuck

TraceSpec == TraceInit /\ [][TraceNext]_tvars

TraceNotStuck == l >= 1

\* every line of the file was consumed by some behaviour
TraceAccepted ==
    LET d == TLCGet("stats").diameter IN
    IF d - 1 = Len(Trace) THEN TRUE
    ELSE Print(<<"TRACE-REJECT line=", d, "of", Len(Trace)>>, FALSE)
=============================================================================
