SPECIFICATION Spec
CONSTANTS
  PEERS = {"p1","p2","p3"}
  CIDS = {"c1","c2","c3"}
  MaxOps = 8
  MaxOut = 2
  HandoffOrdered = TRUE
INVARIANTS E2EInv AllocInv ErrorKept
