SPECIFICATION Spec
CONSTANTS
  DepthRule = "coded"
  MaxBlocks = 3
  Sizes = {1, 2}
  Limits = {3, 4}
  MaxLinksC = 2
  FaultAt = {}
  NFaults = 1
  PinFailAt = {0}
INVARIANT SafeAlways
INVARIANT GoodAtEnd

