SPECIFICATION Spec
CONSTANTS
  CIDS = {"c1"}
  VALS = {"A"}
  MaxOps = 4
  MaxArm = 0
  MaxRArm = 1
  EmptySkip = FALSE
  AgeReset = TRUE
INVARIANT NoCrash
