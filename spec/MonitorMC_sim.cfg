SPECIFICATION Spec
CONSTANTS
  NAMES = {"n1", "n2"}
  PEERS = {"p1", "p2", "p3"}
  Thr = 1
  CheckMode = "once"
  ForgetMode = "name"
  RenewMode = "restart"
  W = 3
  AccN = 6
  MaxArr = 9
  MaxT = 3
  REPS = {1, 2, 4}
  Garbage = FALSE
  Staged = TRUE
  PsFree = TRUE
  InitSets = {{"p1", "p2"}, {"p1", "p2", "p3"}}
INVARIANTS InvAtMostOne InvIsLatest InvValidUnexpiredMember InvNoFalseAlarm InvAlertOnce InvReported InvForgotten InvUsed InvObserverSane
