SPECIFICATION Spec
CONSTANTS
  MaxAlerts = 2
  NWrites = 0
  NReads = 0
  SizedOutsideLock = FALSE
  ShutdownInline = FALSE
  PeersErrInline = FALSE
  ClientGuarded = TRUE
  NInformers = 3
  LoopVarShared = FALSE
  NCheckers = 0
  NChecks = 0
  MaxVer = 1
  DistShared = FALSE
  NEntries = 0
  NestedRead = FALSE
  Part = "fanout"
INVARIANTS NoLoopVarRace EveryInformerPushed
