SPECIFICATION Spec
CONSTANTS
  CIDS = {"c1","c2"}
  K = 1
  Q = 1
  MaxInstr = 3
  MaxFail = 1
  GatedFinish = FALSE
  Eager = FALSE
  RecoverUsesStatePin = TRUE
  StatusAllListsDirect = TRUE
  DirOverRecStuck = TRUE
INVARIANTS TypeOK OneOpPerCid QueueBound ConvergeInv NoDrop RecoverInv AgreeInv TruthfulInv
