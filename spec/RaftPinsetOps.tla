--------------------------- MODULE RaftPinsetOps ---------------------------
(* Constants and pure operators of RaftPinset (pinset semantics of the      *)
(* statement, transcription of Restore and of the tracker hand-off), shared *)
(* by the design model (RaftPinset) and the trace validator                 *)
(* (RaftPinsetTrace).                                                       *)
EXTENDS Integers, Sequences, FiniteSets, TLC

CONSTANTS NPEERS,       \* number of peers p1..pN
          NCIDS,        \* number of CIDs c1..cN
          Variants,     \* abstract pin values (strings); concretised by the driver
          RestoreMode   \* "merge" | "replace"

PeerOf(i) == "p" \o ToString(i)
CidOf(i)  == "c" \o ToString(i)
Peers == {PeerOf(i) : i \in 1..NPEERS}
Cids  == {CidOf(i) : i \in 1..NCIDS}
NONE  == "none"

Pinsets  == [Cids -> Variants \cup {NONE}]
EmptyPs  == [c \in Cids |-> NONE]
PinOps   == [k : {"pin"}, cid : Cids, v : Variants]
UnpinOps == [k : {"unpin"}, cid : Cids, v : {NONE}]
Ops      == PinOps \cup UnpinOps
NoSnap   == [idx |-> 0, data |-> EmptyPs]
NoCall   == [k |-> NONE, cid |-> NONE, v |-> NONE]

-----------------------------------------------------------------------------
(* The pinset semantics of the statement: pin inserts or replaces the      *)
(* entry for its CID, unpin deletes it.                                    *)
ApplyOp(ps, op) == IF op.k = "pin" THEN [ps EXCEPT ![op.cid] = op.v]
                                   ELSE [ps EXCEPT ![op.cid] = NONE]

ApplyPrefixOf(l, n) ==
    LET f[i \in 0..n] == IF i = 0 THEN EmptyPs ELSE ApplyOp(f[i - 1], l[i])
    IN f[n]

(* Transcription of FSM.Restore -> DecodeSnapshot -> State.Unmarshal.      *)
Restore(old, data) ==
    IF RestoreMode = "replace" THEN data
    ELSE [c \in Cids |-> IF data[c] # NONE THEN data[c] ELSE old[c]]

(* Transcription of the hand-off in LogOp.ApplyTo: Track gets the pin that *)
(* was just stored, Untrack the CID.                                       *)
CallFor(op, stored) ==
    IF op.k = "pin" THEN [k |-> "track", cid |-> op.cid, v |-> stored[op.cid]]
                    ELSE [k |-> "untrack", cid |-> op.cid, v |-> NONE]
=============================================================================
