-------------------------- MODULE ClusterAPIMC --------------------------
(* Exhaustive design check for C04: for every environment, every pinset of *)
(* the universe and every call, every outcome the transcribed code can     *)
(* produce satisfies the property statement (and the predicate form of the *)
(* transcription used for recorded tuples agrees with the constructive     *)
(* one).  Two-stage Init/Next so that TLC's workers share the work.        *)
EXTENDS ClusterAPIGen

VARIABLES env, ps, call, obs, stage

SideC1 == {e \in C1Entries : e.meta = <<MA, MB>> /\ e.exp = "f1" /\ e.orig = <<>>}

Init == /\ stage = 0
        /\ \E ep \in (MainEnvs \X ({Context} \cup {Context \cup {e} : e \in C1Entries} \cup {{}, {C2Entry}}))
                           \cup ((SideEnvs \cup FaultEnvs) \X ({Context, {}} \cup {Context \cup {e} : e \in SideC1})) : env = ep[1] /\ ps = ep[2]
        /\ call = [op |-> "none"]
        /\ obs = [ok |-> FALSE]
Next == /\ stage = 0 /\ stage' = 1
        /\ UNCHANGED <<env, ps>>
        /\ call' \in Calls
        /\ obs' \in Outcomes(env, ps, call')
Spec == Init /\ [][Next]_<<env, ps, call, obs, stage>>

PropertyHolds == stage = 1 => EffectOK(env, ps, call, obs)
Transcription == stage = 1 => StepOK(env, ps, call, obs)
=============================================================================
