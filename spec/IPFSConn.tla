----------------------------- MODULE IPFSConn -----------------------------
(***************************************************************************)
(* C16 - the IPFS connector reports success only when the daemon reached   *)
(* the asked state.                                                        *)
(*                                                                         *)
(* Two processes talk over one HTTP connection at a time:                  *)
(*                                                                         *)
(*  * the DAEMON: a pin table CID -> {none, direct, recursive, both} with  *)
(*    the semantics of go-ipfs-pinner v0.1.1 (dspinner.Pin / Unpin /       *)
(*    Update / IsPinnedWithType) behind the go-ipfs commands pin/ls,       *)
(*    pin/add, pin/update, pin/rm, and, per request, one behaviour chosen  *)
(*    from a finite set: answer honestly, answer with an IPFS error body,  *)
(*    answer with a non-JSON error, drop the connection, stall, or - for   *)
(*    the pin/add progress stream - progress followed by the final         *)
(*    message, by a late error (X-Stream-Error trailer, which is how       *)
(*    go-ipfs-cmds v0.6.0 reports an error after the first emitted value), *)
(*    by a stall, by the same progress value for ever, or by a drop.       *)
(*    The table changes only where a real daemon changes it.  An external  *)
(*    actor may change the target CID between the look-up and the          *)
(*    mutating request (inp.intf).                                         *)
(*                                                                         *)
(*  * the CONNECTOR: ipfsconn/ipfshttp Pin / Unpin / PinLsCid transcribed  *)
(*    step by step (one action per request sent / response consumed,       *)
(*    watchdog ticks, background swarm/connect requests).                  *)
(*                                                                         *)
(* Kept apart on purpose:                                                  *)
(*  * the transcription (actions below; Conformance is decided in          *)
(*    IPFSConnTrace by running this machine on a recorded script), and     *)
(*  * the property predicates (section PROPERTY), written from the         *)
(*    statement over an observation record  [in |-> ..., out |-> ...]      *)
(*    and evaluated both on every terminal state of the model (MC) and on  *)
(*    every outcome recorded from the real connector (Trace).              *)
(*                                                                         *)
(* Switches: the as-coded values are what recorded runs are compared with, *)
(* the ideal values (TRUE, TRUE) are what the statement needs.             *)
(*   CheckTrailer   : pinProgress looks at X-Stream-Error after EOF        *)
(*   UpdateWatchdog : a stalled pin/update is abandoned after some time    *)
(*   WaitOrigins    : Pin waits for the swarm/connect answers before it    *)
(*                    goes on (as coded: it does not; they are best-effort)*)
(*   CallerCtx      : the requests of Pin after the first look-up run under *)
(*                    the caller's context (as coded: yes)                 *)
(*   Bound          : at most this many origins get a swarm/connect (10)   *)
(***************************************************************************)
EXTENDS Integers, Sequences, FiniteSets, TLC

CONSTANTS CheckTrailer, UpdateWatchdog, WaitOrigins, CallerCtx, Bound

PinSt == {"none", "direct", "recursive", "both"}
Modes == {"recursive", "direct", "depth"}   \* MaxDepth -1, 0, >0
Ops   == {"pin", "unpin", "lscid"}
Intf  == {"keep", "none", "direct", "recursive"}

HasR(p) == p \in {"recursive", "both"}
HasD(p) == p \in {"direct", "both"}
\* "the daemon holds the CID in the requested mode"
Has(p, mode) == IF mode = "direct" THEN HasD(p) ELSE HasR(p)

Min(a, b) == IF a < b THEN a ELSE b
Range(s) == {s[i] : i \in DOMAIN s}

(***************************************************************************)
(* DAEMON semantics (go-ipfs-pinner v0.1.1 dspinner, go-ipfs pin commands) *)
(***************************************************************************)
\* pin/ls?arg=c&type=t : IsPinnedWithType(c, t); "all" looks at recursive first.
LsAnswer(p, typ) ==
    CASE typ = "recursive" -> IF HasR(p) THEN "recursive" ELSE "notpinned"
      [] typ = "direct"    -> IF HasD(p) THEN "direct" ELSE "notpinned"
      [] OTHER             -> IF HasR(p) THEN "recursive" ELSE IF HasD(p) THEN "direct" ELSE "notpinned"

\* pin/add : Pin(node, recurse).  recurse: already recursive -> nothing; a direct
\* pin is replaced.  not recurse: error when pinned recursively.
AddOk(p, rec)  == rec \/ ~HasR(p)
AddNew(p, rec) == IF rec THEN (IF HasR(p) THEN p ELSE "recursive")
                  ELSE (IF HasD(p) THEN p ELSE "direct")

\* pin/rm (recursive=true by default) : Unpin(c, true)
RmOk(p) == p # "none"

\* pin/update from to unpin=false : Update(from, to, false)
UpdOk(pf, pt)  == HasR(pf) /\ ~HasR(pt)
UpdNew(pt)     == IF pt = "direct" THEN "both" ELSE "recursive"

BehLs  == {"ok", "errBody", "nonJson", "drop", "stall"}
BehAdd == {"ok", "errBody", "nonJson", "drop", "stall", "commitDrop",
           "progOk", "progTrailer", "progStall", "flat", "progDrop", "progForever"}
BehUpd == {"ok", "errBody", "nonJson", "drop", "stall", "commitDrop"}
BehRm  == {"ok", "errBody", "nonJson", "drop", "stall", "commitDrop"}
BehsFor(ep) == CASE ep = "ls" -> BehLs [] ep = "add" -> BehAdd
                 [] ep = "update" -> BehUpd [] OTHER -> BehRm
Mutating(ep) == ep \in {"add", "update", "rm"}

VARIABLES
    inp,      \* [op, mode, upd, norig, prior, intf] : the call and the world before it
    script,   \* [free, s, swarm] : free = the daemon chooses; else it follows s / swarm
    pins,     \* daemon pin table  [c1, c2 -> PinSt]
    held,     \* depth of the recursive pin the daemon holds: "" none | "full" | "1" | "2"
              \* (a pin/add with max-depth=d leaves a partial pin: not what a recursive request asks)
    pc,       \* connector control state
    net,      \* the one in-flight main request / response
    reqs,     \* requests the daemon received, in order, with what it did
    swarm,    \* origins for which a swarm/connect reached the daemon
    bg,       \* origins whose background swarm/connect has been started, not yet sent
    result,   \* "" | "ok" | "err" | "hung" (ended by the caller's deadline only) | "never" (not even then)
    abandoned, \* the caller cancelled and the request in flight was given up
    status,   \* PinLsCid answer ("" for pin/unpin)
    lastProg, \* watchdog: highest progress seen
    age       \* watchdog: ticks since progress last increased

vars == <<inp, abandoned, script, pins, held, pc, net, reqs, swarm, bg, result, status, lastProg, age>>

Idle == [st |-> "idle", ep |-> "", cid |-> "", typ |-> "", rec |-> "", from |-> "", depth |-> "", prog |-> "",
         kind |-> "", msg |-> "", msgs |-> <<>>, end |-> ""]
Req(ep, cid, typ, rec, from) ==
    [Idle EXCEPT !.st = "req", !.ep = ep, !.cid = cid, !.typ = typ, !.rec = rec, !.from = from]
Resp(kind, msg, msgs, end) ==
    [net EXCEPT !.st = "resp", !.kind = kind, !.msg = msg, !.msgs = msgs, !.end = end]

\* the depth a recursive pin is held with; single calls start from full pins
FullIf(p) == IF HasR(p) THEN "full" ELSE ""
Rank(h) == CASE h = "1" -> 1 [] h = "2" -> 2 [] h = "full" -> 99 [] OTHER -> 0
\* holding depth h serves a request for depth d ("" = all the way down)
DepthOk(h, d) == h = "full" \/ (d # "" /\ Rank(h) >= Rank(d))

Inputs(norigs, intfs) ==
    {[op |-> "pin", mode |-> m, d |-> dd, upd |-> u, norig |-> n, ohang |-> h, cancel |-> k,
      prior |-> [c1 |-> p1, c2 |-> p2], pheld |-> [c1 |-> FullIf(p1), c2 |-> FullIf(p2)], intf |-> i] :
        m \in Modes, dd \in {"", "1", "2"}, u \in BOOLEAN, n \in norigs, h \in BOOLEAN, k \in BOOLEAN, p1 \in PinSt, p2 \in PinSt, i \in intfs}
    \cup
    {[op |-> o, mode |-> m, d |-> dd, upd |-> FALSE, norig |-> 0, ohang |-> FALSE, cancel |-> FALSE,
      prior |-> [c1 |-> p1, c2 |-> "none"], pheld |-> [c1 |-> FullIf(p1), c2 |-> ""], intf |-> i] :
        o \in {"unpin", "lscid"}, m \in Modes, dd \in {"", "1", "2"}, p1 \in PinSt, i \in intfs}

\* the update source only matters when an update is asked; unpin has no mode;
\* a look-up is never interfered with.  ohang: the daemon never answers the
\* swarm/connect requests of this pin (they hang until the caller goes away).
Relevant(i) ==
    /\ i.norig = 0 => ~i.ohang
    /\ (i.op = "pin" /\ ~i.upd) => i.prior.c2 = "none"
    /\ i.op = "unpin" => i.mode = "recursive"
    /\ i.op = "lscid" => i.intf = "keep"
    /\ i.cancel => i.op = "pin"
    /\ (i.mode = "depth") = (i.d # "")

InitWith(i, sc) ==
    /\ inp = i /\ script = sc
    /\ pins = i.prior /\ held = i.pheld
    /\ pc = "start" /\ net = Idle /\ reqs = <<>> /\ swarm = {} /\ bg = {}
    /\ abandoned = FALSE
    /\ result = "" /\ status = "" /\ lastProg = 0 /\ age = 0

\* the same connector and daemon take the next call
LoadCall(i, sc) ==
    /\ inp' = i /\ script' = sc
    /\ pins' = i.prior /\ held' = i.pheld
    /\ abandoned' = FALSE
    /\ pc' = "start" /\ net' = Idle /\ reqs' = <<>> /\ swarm' = {} /\ bg' = {}
    /\ result' = "" /\ status' = "" /\ lastProg' = 0 /\ age' = 0

Free == [free |-> TRUE, s |-> <<>>, swarm |-> {}]

\* the k-th main request may get behaviour b
Pick(k, b) == script.free \/ (k <= Len(script.s) /\ script.s[k] = b)

(***************************************************************************)
(* DAEMON: answer the in-flight request                                    *)
(***************************************************************************)
\* what the daemon does with request n under behaviour b from table pre:
\* [pins, resp, eff, ans]
\*   eff : "reply" honest look-up | "commit" mutation done (or already so) |
\*         "semerr" honest refusal | "notpinned" pin/rm of a CID not pinned | "fail" |
\*         "commitfail" mutation done but the answer is lost (commitDrop)
Fail(pre, kind) == [pins |-> pre, resp |-> Resp(kind, "other", <<>>, ""), eff |-> "fail", ans |-> ""]
Serve(n, b, pre) ==
    LET generic ==
            CASE b = "errBody" -> Fail(pre, "jsonerr")
              [] b = "nonJson" -> Fail(pre, "nonjson")
              [] b = "drop"    -> Fail(pre, "drop")
              [] OTHER         -> Fail(pre, "stall")
    IN
    CASE b \in {"errBody", "nonJson", "drop", "stall"} -> generic
      [] n.ep = "ls" ->
            LET a == LsAnswer(pre[n.cid], n.typ) IN
            [pins |-> pre, eff |-> "reply", ans |-> a,
             resp |-> IF a = "notpinned" THEN Resp("jsonerr", "lsnotpinned", <<>>, "")
                      ELSE Resp("keys", a, <<>>, "")]
      [] n.ep = "rm" ->
            IF RmOk(pre[n.cid])
            THEN [pins |-> [pre EXCEPT ![n.cid] = "none"], ans |-> "",
                  eff |-> IF b = "commitDrop" THEN "commitfail" ELSE "commit",
                  resp |-> IF b = "commitDrop" THEN Resp("drop", "", <<>>, "") ELSE Resp("ok200", "", <<>>, "")]
            ELSE IF b = "commitDrop" THEN Fail(pre, "drop")
            ELSE [pins |-> pre, eff |-> "notpinned", ans |-> "",
                  resp |-> Resp("jsonerr", "notpinned", <<>>, "")]
      [] n.ep = "update" ->
            IF UpdOk(pre[n.from], pre[n.cid])
            THEN [pins |-> [pre EXCEPT ![n.cid] = UpdNew(pre[n.cid])], ans |-> "",
                  eff |-> IF b = "commitDrop" THEN "commitfail" ELSE "commit",
                  resp |-> IF b = "commitDrop" THEN Resp("drop", "", <<>>, "") ELSE Resp("ok200", "", <<>>, "")]
            ELSE IF b = "commitDrop" THEN Fail(pre, "drop")
            ELSE [pins |-> pre, eff |-> "semerr", ans |-> "",
                  resp |-> Resp("jsonerr", "updrefused", <<>>, "")]
      [] OTHER -> \* pin/add with progress=true
            LET rec == n.rec = "true"
                ok  == AddOk(pre[n.cid], rec)
                new == [pre EXCEPT ![n.cid] = AddNew(pre[n.cid], rec)]
            IN
            CASE b = "ok" ->
                    IF ok THEN [pins |-> new, eff |-> "commit", ans |-> "", resp |-> Resp("stream", "", <<>>, "pins")]
                    ELSE [pins |-> pre, eff |-> "semerr", ans |-> "", resp |-> Resp("jsonerr", "alreadyrec", <<>>, "")]
              [] b = "progOk" ->
                    \* once a progress value went out, a refusal can only travel in the trailer
                    IF ok THEN [pins |-> new, eff |-> "commit", ans |-> "", resp |-> Resp("stream", "", <<0, 1, 2>>, "pins")]
                    ELSE [pins |-> pre, eff |-> "semerr", ans |-> "", resp |-> Resp("stream", "", <<0, 0>>, "trailer")]
              [] b = "commitDrop" ->
                    \* pinned, but the connection breaks before the final message arrives
                    [pins |-> IF ok THEN new ELSE pre, eff |-> IF ok THEN "commitfail" ELSE "fail", ans |-> "",
                     resp |-> Resp("stream", "", <<0, 1>>, "drop")]
              [] b = "progTrailer" -> [pins |-> pre, eff |-> "fail", ans |-> "", resp |-> Resp("stream", "", <<0, 1, 2>>, "trailer")]
              [] b = "progStall"   -> [pins |-> pre, eff |-> "fail", ans |-> "", resp |-> Resp("stream", "", <<0, 1, 2>>, "stall")]
              [] b = "progForever" -> \* keeps fetching, never done: only the caller can end this pin
                    [pins |-> pre, eff |-> "fail", ans |-> "", resp |-> Resp("stream", "", <<0, 1, 2>>, "forever")]
              [] b = "flat"        -> [pins |-> pre, eff |-> "fail", ans |-> "", resp |-> Resp("stream", "", <<0, 2>>, "flat")]
              [] OTHER (* progDrop *) -> [pins |-> pre, eff |-> "fail", ans |-> "", resp |-> Resp("stream", "", <<0, 1>>, "drop")]

Respond ==
    /\ net.st = "req"
    /\ \E b \in BehsFor(net.ep) :
        /\ Pick(Len(reqs) + 1, b)
        /\ LET first == Mutating(net.ep) /\ ~\E j \in DOMAIN reqs : Mutating(reqs[j].ep)
               pre   == IF first /\ inp.intf # "keep" THEN [pins EXCEPT !["c1"] = inp.intf] ELSE pins
               o     == Serve(net, b, pre)
               hpre  == IF first /\ inp.intf # "keep"
                        THEN [held EXCEPT !["c1"] = IF inp.intf = "recursive" THEN "full" ELSE ""] ELSE held
               \* a new recursive pin is as deep as the request said; an existing one stays as it is
               hnew(c) == IF ~HasR(o.pins[c]) THEN ""
                          ELSE IF HasR(pre[c]) THEN hpre[c]
                          ELSE IF net.ep = "add" /\ net.depth # "" THEN net.depth ELSE "full"
           IN /\ pins' = o.pins
              /\ held' = [c \in DOMAIN held |-> hnew(c)]
              /\ net' = o.resp
              /\ reqs' = Append(reqs, [ep |-> net.ep, cid |-> net.cid, typ |-> net.typ, rec |-> net.rec,
                                       from |-> net.from, depth |-> net.depth, prog |-> net.prog, unpin |-> IF net.ep = "update" THEN "false" ELSE "",
                                       beh |-> b, eff |-> o.eff, ans |-> o.ans])
    /\ UNCHANGED <<inp, abandoned, script, pc, swarm, bg, result, status, lastProg, age>>

(***************************************************************************)
(* CONNECTOR (ipfshttp.go)                                                 *)
(***************************************************************************)
TypOf(mode) == IF mode = "direct" THEN "direct" ELSE "recursive"   \* MaxDepth.ToPinMode()
RecArg(mode) == IF mode = "direct" THEN "false" ELSE "true"        \* pinArgs()
\* api.IPFSPinStatus.IsPinned(maxDepth)
IsPinned(st, mode) == IF mode = "direct" THEN st = "direct" ELSE st = "recursive"

Finish(r, st) ==
    /\ result' = r /\ status' = st /\ pc' = "done" /\ net' = Idle /\ bg' = {}
    /\ UNCHANGED <<inp, abandoned, script, pins, held, reqs, swarm, lastProg, age>>

Send(n, next) ==
    /\ net' = n /\ pc' = next
    /\ UNCHANGED <<inp, abandoned, script, pins, held, reqs, swarm, bg, result, status, lastProg, age>>

Goto(next) ==
    /\ pc' = next /\ net' = Idle
    /\ UNCHANGED <<inp, abandoned, script, pins, held, reqs, swarm, bg, result, status, lastProg, age>>

\* The conversation is blocked on a daemon that is silent, repeats itself or
\* never finishes.  inp.cancel: the caller cancels its context shortly after the
\* call started - honest exchanges are over by then, and none of the
\* connector's own timers has fired yet - so the cancellation meets the first
\* blocked request.  It aborts that request if it runs under the caller's context.
Blocked == net.st = "resp" /\ (net.kind = "stall" \/
              (net.kind = "stream" /\ net.msgs = <<>> /\ net.end \in {"stall", "flat", "forever"}))
UnderCaller == CallerCtx \/ pc \in {"wLs1", "wRm"}
Cancelled == inp.cancel /\ Blocked /\ UnderCaller

\* ctx.Done(): the request in flight is abandoned, the call returns the error
CallerCancel ==
    /\ pc \notin {"start", "done"} /\ Cancelled
    /\ abandoned' = TRUE
    /\ result' = "err" /\ status' = (IF inp.op = "lscid" THEN "error" ELSE "") /\ pc' = "done" /\ net' = Idle /\ bg' = {}
    /\ UNCHANGED <<inp, script, pins, held, reqs, swarm, lastProg, age>>

\* Pin and PinLsCid start with PinLsCid(pin); Unpin goes straight to pin/rm
Start ==
    /\ pc = "start"
    /\ IF inp.op = "unpin" THEN Send(Req("rm", "c1", "", "", ""), "wRm")
       ELSE Send(Req("ls", "c1", TypOf(inp.mode), "", ""), "wLs1")

\* PinLsCid: no body + error -> (Error, err); error body -> Unpinned; else the type found
LsStatus == CASE net.kind = "keys" -> net.msg
              [] net.kind = "jsonerr" -> "unpinned"
              [] OTHER -> "error"    \* nonjson, drop, stall (request timeout)

RecvLs1 ==
    /\ pc = "wLs1" /\ net.st = "resp" /\ ~Cancelled
    /\ IF LsStatus = "error" THEN Finish("err", IF inp.op = "lscid" THEN "error" ELSE "")
       ELSE IF inp.op = "lscid" THEN Finish("ok", LsStatus)
       ELSE IF IsPinned(LsStatus, inp.mode) THEN Finish("ok", "")   \* already pinned: nothing else is requested
       ELSE Goto("spawn")

\* go func(o) { swarm/connect } for at most 10 origins
Spawn ==
    /\ pc = "spawn"
    /\ bg' = 1..Min(inp.norig, Bound)
    /\ pc' = "spawned"
    /\ UNCHANGED <<inp, abandoned, script, pins, held, net, reqs, swarm, result, status, lastProg, age>>

BgConnect(o) ==
    /\ o \in bg /\ pc # "done"
    /\ script.free \/ (pc = "spawned" /\ o \in script.swarm /\ \A q \in bg \cap script.swarm : o <= q)
    /\ swarm' = swarm \cup {o} /\ bg' = bg \ {o}
    /\ UNCHANGED <<inp, abandoned, script, pins, held, pc, net, reqs, result, status, lastProg, age>>

\* As coded the goroutines are left alone.  WaitOrigins: a wg.Wait() here - every
\* swarm/connect has been sent and answered; a daemon that hangs on them never
\* answers, and only the caller's context ends the wait.
AfterSpawn ==
    /\ pc = "spawned"
    /\ script.free \/ bg \cap script.swarm = {}
    /\ WaitOrigins => bg = {}
    /\ IF WaitOrigins /\ inp.ohang /\ swarm # {}
       THEN Finish("hung", "")
       ELSE Goto(IF inp.upd THEN "ls2" ELSE "add")

SendLs2 == pc = "ls2" /\ Send(Req("ls", "c2", TypOf(inp.mode), "", ""), "wLs2")

\* pinStatus, _ := PinLsCid(fromPin); update only if pinned recursively
RecvLs2 ==
    /\ pc = "wLs2" /\ net.st = "resp" /\ ~Cancelled
    /\ Goto(IF LsStatus = "recursive" THEN "update" ELSE "add")

SendUpd == pc = "update" /\ Send(Req("update", "c1", "", "", "c2"), "wUpd")

RecvUpd ==
    /\ pc = "wUpd" /\ net.st = "resp" /\ ~Cancelled
    /\ CASE net.kind = "ok200" -> Finish("ok", "")
         \* no timer of its own: the caller's deadline ends it - if the request runs under it
         [] net.kind = "stall" -> Finish(IF UpdateWatchdog THEN "err" ELSE IF CallerCtx THEN "hung" ELSE "never", "")
         [] OTHER -> Finish("err", "")

SendAdd ==
    /\ pc = "add"
    /\ net' = [Req("add", "c1", "", RecArg(inp.mode), "") EXCEPT !.depth = inp.d, !.prog = "true"] /\ pc' = "wAdd"
    /\ lastProg' = 0 /\ age' = 0
    /\ UNCHANGED <<inp, abandoned, script, pins, held, reqs, swarm, bg, result, status>>

\* the daemon is silent (or repeats itself): only the watchdog ticker can move
Silent == net.kind = "stall" \/ (net.kind = "stream" /\ net.msgs = <<>> /\ net.end \in {"stall", "flat"})

\* ticker.C: cancel when the last increase is older than PinTimeout
Tick ==
    /\ pc = "wAdd" /\ net.st = "resp" /\ Silent /\ ~Cancelled
    /\ IF age >= 1 THEN Finish("err", "")
       ELSE /\ age' = age + 1
            /\ UNCHANGED <<inp, abandoned, script, pins, held, pc, net, reqs, swarm, bg, result, status, lastProg>>

\* progress keeps increasing: the watchdog stays quiet, the pin goes on until the
\* caller's deadline
Forever == net.kind = "stream" /\ net.msgs = <<>> /\ net.end = "forever"
DeadlineEnds ==
    /\ pc = "wAdd" /\ net.st = "resp" /\ Forever /\ ~Cancelled
    /\ Finish(IF CallerCtx THEN "hung" ELSE "never", "")

RecvAdd ==
    /\ pc = "wAdd" /\ net.st = "resp" /\ ~Silent /\ ~Forever
    /\ CASE net.kind # "stream" -> Finish("err", "")          \* checkResponse / transport error
         [] net.kind = "stream" /\ net.msgs # <<>> ->          \* one progress object decoded
                /\ net' = [net EXCEPT !.msgs = Tail(net.msgs)]
                /\ IF Head(net.msgs) > lastProg
                   THEN lastProg' = Head(net.msgs) /\ age' = 0
                   ELSE UNCHANGED <<lastProg, age>>
                /\ UNCHANGED <<inp, abandoned, script, pins, held, pc, reqs, swarm, bg, result, status>>
         [] net.kind = "stream" /\ net.msgs = <<>> /\ net.end = "pins" -> Finish("ok", "")
         [] net.kind = "stream" /\ net.msgs = <<>> /\ net.end = "trailer" ->
                Finish(IF CheckTrailer THEN "err" ELSE "ok", "")  \* clean EOF
         [] OTHER -> Finish("err", "")                          \* unexpected EOF

\* Unpin: any error is returned unless it is the daemon's "not pinned" message
RecvRm ==
    /\ pc = "wRm" /\ net.st = "resp" /\ ~Cancelled
    /\ IF net.kind = "ok200" \/ (net.kind = "jsonerr" /\ net.msg = "notpinned")
       THEN Finish("ok", "") ELSE Finish("err", "")

Next ==
    \/ Respond \/ Start \/ RecvLs1 \/ Spawn \/ AfterSpawn \/ SendLs2 \/ RecvLs2
    \/ SendUpd \/ RecvUpd \/ SendAdd \/ Tick \/ DeadlineEnds \/ RecvAdd \/ RecvRm \/ CallerCancel
    \/ \E o \in bg : BgConnect(o)

(***************************************************************************)
(* Observation record of a finished call                                   *)
(***************************************************************************)
Obs == [in  |-> inp,
        out |-> [res |-> result, status |-> status, pins |-> pins, held |-> held, reqs |-> reqs, swarm |-> swarm,
                 abandoned |-> abandoned]]

(***************************************************************************)
(* PROPERTY - written from the statement, over an observation R            *)
(***************************************************************************)
ReqIdx(R) == DOMAIN R.out.reqs
Rq(R, j) == R.out.reqs[j]

\* success only if the daemon ends up holding / not holding the CID as asked
SuccessSound(R) ==
    /\ (R.in.op = "pin" /\ R.out.res = "ok") => Has(R.out.pins.c1, R.in.mode)
    \* ... to the requested depth: a partial (depth-limited) pin is not a recursive one
    /\ (R.in.op = "pin" /\ R.out.res = "ok" /\ R.in.mode # "direct") => DepthOk(R.out.held.c1, R.in.d)
    /\ (R.in.op = "unpin" /\ R.out.res = "ok") => R.out.pins.c1 = "none"
    /\ (R.in.op = "lscid" /\ R.out.res = "ok" /\ R.out.status = "recursive") => HasR(R.out.pins.c1)
    /\ (R.in.op = "lscid" /\ R.out.res = "ok" /\ R.out.status = "direct") => HasD(R.out.pins.c1)

\* daemon and transport failures on the mutating call (resp. on the look-up
\* of PinLsCid) are reported as errors; "not pinned" on pin/rm is not a failure
FailureReported(R) ==
    /\ \A j \in ReqIdx(R) :
          (Mutating(Rq(R, j).ep) /\ Rq(R, j).eff \in {"fail", "semerr", "commitfail"}) => R.out.res # "ok"
    /\ R.in.op = "lscid" =>
          \A j \in ReqIdx(R) : Rq(R, j).beh \in {"nonJson", "drop", "stall"} => R.out.res # "ok"

\* nothing is requested (beyond looking) when the CID is already pinned as asked
NoRedundantRequest(R) ==
    (/\ R.in.op = "pin"
     /\ Has(R.in.prior.c1, R.in.mode)     \* a depth-limited pin is held as a recursive pin
     /\ \A j \in ReqIdx(R) : Rq(R, j).ep = "ls" => Rq(R, j).beh = "ok")
    => /\ \A j \in ReqIdx(R) : Rq(R, j).ep = "ls"
       /\ R.out.swarm = {}

\* PinLsCid against an honest daemon tells whether the CID is held in the mode
\* the pin records (the other direction is part of SuccessSound)
LsTruthful(R) ==
    (/\ R.in.op = "lscid" /\ R.out.res = "ok"
     /\ \A j \in ReqIdx(R) : Rq(R, j).beh = "ok"
     /\ Has(R.out.pins.c1, R.in.mode))
    => R.out.status = (IF R.in.mode = "direct" THEN "direct" ELSE "recursive")

\* unpinning what is not pinned is a success
UnpinIdempotent(R) ==
    (/\ R.in.op = "unpin"
     /\ \A j \in ReqIdx(R) : Rq(R, j).beh = "ok"
     /\ R.out.pins.c1 = "none")
    => R.out.res = "ok"

\* a pin that makes no progress is given up, with an error
Stalls == {"stall", "progStall", "flat"}
StallGivesUpOn(R, eps) ==
    (R.in.op = "pin" /\ \E j \in ReqIdx(R) : Rq(R, j).ep \in eps /\ Rq(R, j).beh \in Stalls)
    => R.out.res = "err"
StallGivesUp(R) == StallGivesUpOn(R, {"add", "update"})

\* origins are best effort: whatever the swarm/connect requests (and the
\* look-ups, which have their own timeout) do, a pin whose pin/add or
\* pin/update does not stall returns by itself - with that request's outcome -
\* and never only because the caller's context ended ("hung").  Together with
\* StallGivesUp: a pin never needs the caller to end it.
OriginsBestEffort(R) ==
    (R.in.op = "pin" /\ ~\E j \in ReqIdx(R) : Rq(R, j).ep \in {"add", "update"} /\ Rq(R, j).beh \in Stalls \cup {"progForever"})
    => R.out.res # "hung"

\* every call returns: once the caller's context has ended and the daemon stays
\* silent, a call that still does not return reports nothing at all
CallReturns(R) == R.out.res # "never"

\* the caller (the pin tracker) cancels operations through the context: the
\* request that is in flight against a silent or never-finishing daemon is
\* abandoned and the call returns an error
CancelPropagates(R) ==
    (/\ R.in.op = "pin" /\ R.in.cancel /\ Len(R.out.reqs) > 0
     /\ Rq(R, Len(R.out.reqs)).beh \in Stalls \cup {"progForever"})
    => (R.out.res = "err" /\ R.out.abandoned)

\* pin/update only from the asked source, only when that is recursively pinned
UpdateOnlyIfRecursive(R) ==
    \A j \in ReqIdx(R) : Rq(R, j).ep = "update" =>
        /\ R.in.op = "pin" /\ R.in.upd
        /\ Rq(R, j).from = "c2" /\ Rq(R, j).cid = "c1"
        /\ HasR(R.in.prior.c2)

\* ... and never unpins the source (nor anything else while pinning)
SourceKept(R) ==
    R.in.op = "pin" =>
        /\ \A j \in ReqIdx(R) : Rq(R, j).ep # "rm" /\ (Rq(R, j).ep = "update" => Rq(R, j).unpin = "false")
        /\ R.out.pins.c2 = R.in.prior.c2

PredNames == <<"SuccessSound", "FailureReported", "NoRedundantRequest", "LsTruthful", "UnpinIdempotent",
               "StallGivesUp", "OriginsBestEffort", "CallReturns", "CancelPropagates",
               "UpdateOnlyIfRecursive", "SourceKept">>
Pred(name, R) ==
    CASE name = "SuccessSound" -> SuccessSound(R)
      [] name = "FailureReported" -> FailureReported(R)
      [] name = "NoRedundantRequest" -> NoRedundantRequest(R)
      [] name = "LsTruthful" -> LsTruthful(R)
      [] name = "UnpinIdempotent" -> UnpinIdempotent(R)
      [] name = "StallGivesUp" -> StallGivesUp(R)
      [] name = "OriginsBestEffort" -> OriginsBestEffort(R)
      [] name = "CallReturns" -> CallReturns(R)
      [] name = "CancelPropagates" -> CancelPropagates(R)
      [] name = "UpdateOnlyIfRecursive" -> UpdateOnlyIfRecursive(R)
      [] OTHER -> SourceKept(R)
Broken(R) == {PredNames[k] : k \in {k \in DOMAIN PredNames : ~Pred(PredNames[k], R)}}

Done == pc = "done"
InvSuccessSound   == Done => SuccessSound(Obs)
InvFailureReported == Done => FailureReported(Obs)
InvNoRedundant    == Done => NoRedundantRequest(Obs)
InvLsTruthful     == Done => LsTruthful(Obs)
InvUnpinIdempotent == Done => UnpinIdempotent(Obs)
InvStallGivesUp   == Done => StallGivesUp(Obs)
InvOriginsBestEffort == Done => OriginsBestEffort(Obs)
InvCallReturns == Done => CallReturns(Obs)
InvCancelPropagates == Done => CancelPropagates(Obs)
InvStallGivesUpAdd == Done => StallGivesUpOn(Obs, {"add"})
InvUpdateOnlyIfRecursive == Done => UpdateOnlyIfRecursive(Obs)
InvSourceKept     == Done => SourceKept(Obs)

TypeOK ==
    /\ pins \in [{"c1", "c2"} -> PinSt]
    /\ \A c \in {"c1", "c2"} : HasR(pins[c]) = (held[c] # "")
    /\ result \in {"", "ok", "err", "hung", "never"}
    /\ pc \in {"start", "wLs1", "spawn", "spawned", "ls2", "wLs2", "update", "wUpd", "add", "wAdd", "wRm", "done"}
    /\ (pc = "done") = (result # "")
    /\ swarm \subseteq 1..Min(inp.norig, Bound)
    /\ Len(reqs) <= 3
=============================================================================
