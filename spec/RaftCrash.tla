----------------------------- MODULE RaftCrash -----------------------------
(***************************************************************************)
(* C01 seam 3: one raft.Consensus peer as a PROCESS that can be killed.    *)
(* Production wiring (cmdutils/state.go raftStateManager.GetStore):        *)
(* the pinset store given to raft is inmem.New(), so a SIGKILL loses the   *)
(* fsm (KeepFsm = FALSE); what is durable is raft.db (log) + snapshots,    *)
(* and a restart = restore last snapshot + replay the log.                 *)
(* An op is identified by its submission index; a pin writes its own id    *)
(* as the variant of its CID, an unpin writes 0 (none).                    *)
(***************************************************************************)
EXTENDS Naturals, Sequences, FiniteSets

CONSTANTS CIDS,      \* CID names
          MaxOps,    \* bound on submitted operations
          KeepFsm,   \* TRUE: the pinset store survives a kill (not the production choice)
          LoseLog    \* TRUE: CONTROL / classification only: a kill may lose log entries after the snapshot

VARIABLES sub,       \* sequence of submitted ops [typ, cid]; id = index
          log,       \* durable committed sequence of op ids
          acked,     \* ids whose LogPin/LogUnpin returned nil
          pending,   \* submitted, not committed, caller (process) still alive
          up, ready, \* process runs / reported Ready (caught up)
          fsm, applied,      \* pinset of the running peer = ApplyAll(applied)
          snapIdx, snapFsm   \* last durable snapshot
vars == <<sub, log, acked, pending, up, ready, fsm, applied, snapIdx, snapFsm>>

Empty == [c \in CIDS |-> 0]
ApplyOp(f, id) == IF sub[id].typ = "pin" THEN [f EXCEPT ![sub[id].cid] = id]
                  ELSE [f EXCEPT ![sub[id].cid] = 0]
ApplyAll(n) == LET F[k \in 0..n] == IF k = 0 THEN Empty ELSE ApplyOp(F[k - 1], log[k]) IN F[n]
Range(s) == {s[i] : i \in 1..Len(s)}
InLog(id) == id \in Range(log)
Pos(id) == CHOOSE p \in 1..Len(log) : log[p] = id

Init == /\ sub = <<>> /\ log = <<>> /\ acked = {} /\ pending = {}
        /\ up = TRUE /\ ready = TRUE
        /\ fsm = Empty /\ applied = 0 /\ snapIdx = 0 /\ snapFsm = Empty

Submit(typ, cid) ==
    /\ up /\ ready /\ Len(sub) < MaxOps
    /\ sub' = Append(sub, [typ |-> typ, cid |-> cid])
    /\ pending' = pending \cup {Len(sub) + 1}
    /\ UNCHANGED <<log, acked, up, ready, fsm, applied, snapIdx, snapFsm>>

\* durable append to the raft log (commit on a single voter)
Commit(id) ==
    /\ up /\ id \in pending
    /\ log' = Append(log, id) /\ pending' = pending \ {id}
    /\ UNCHANGED <<sub, acked, up, ready, fsm, applied, snapIdx, snapFsm>>

Apply ==
    /\ up /\ applied < Len(log)
    /\ fsm' = ApplyOp(fsm, log[applied + 1]) /\ applied' = applied + 1
    /\ UNCHANGED <<sub, log, acked, pending, up, ready, snapIdx, snapFsm>>

\* LogPin returns nil: committed and applied on this (the committing) peer
Ack(id) ==
    /\ up /\ id \notin acked /\ InLog(id) /\ Pos(id) <= applied
    /\ acked' = acked \cup {id}
    /\ UNCHANGED <<sub, log, pending, up, ready, fsm, applied, snapIdx, snapFsm>>

Snapshot ==
    /\ up /\ snapIdx < applied
    /\ snapIdx' = applied /\ snapFsm' = fsm
    /\ UNCHANGED <<sub, log, acked, pending, up, ready, fsm, applied>>

Kill ==
    /\ up /\ up' = FALSE /\ ready' = FALSE /\ pending' = {}
    /\ IF KeepFsm THEN UNCHANGED <<fsm, applied>> ELSE fsm' = Empty /\ applied' = 0
    /\ IF LoseLog THEN \E n \in snapIdx..Len(log) : log' = SubSeq(log, 1, n) ELSE UNCHANGED log
    /\ UNCHANGED <<sub, acked, snapIdx, snapFsm>>

\* new process on the same data folder: restore the snapshot; the log is replayed by Apply
Restart ==
    /\ ~up /\ up' = TRUE /\ ready' = FALSE
    /\ fsm' = snapFsm /\ applied' = snapIdx
    /\ UNCHANGED <<sub, log, acked, pending, snapIdx, snapFsm>>

BecomeReady ==
    /\ up /\ ~ready /\ applied = Len(log) /\ ready' = TRUE
    /\ UNCHANGED <<sub, log, acked, pending, up, fsm, applied, snapIdx, snapFsm>>

Next == \/ \E t \in {"pin", "unpin"}, c \in CIDS : Submit(t, c)
        \/ \E id \in pending : Commit(id)
        \/ \E id \in 1..Len(sub) : Ack(id)
        \/ Apply \/ Snapshot \/ Kill \/ Restart \/ BecomeReady
Spec == Init /\ [][Next]_vars

TypeOK == /\ Len(sub) <= MaxOps /\ Range(log) \subseteq 1..Len(sub) /\ acked \subseteq 1..Len(sub)
          /\ applied <= Len(log) /\ snapIdx <= Len(log) /\ (ready => up)
\* an acknowledged op is in the durable sequence, and visible on a ready peer
AckDurable == \A id \in acked : InLog(id) /\ (ready => Pos(id) <= applied)
\* the pinset of a running peer (and its snapshot) is the result of a prefix of the committed sequence
PrefixInv == /\ up => fsm = ApplyAll(applied)
             /\ snapFsm = ApplyAll(snapIdx)
             /\ ready /\ pending = {} /\ applied = Len(log) => fsm = ApplyAll(Len(log))
AtMostOnce == \A i, j \in 1..Len(log) : log[i] = log[j] => i = j
=============================================================================
