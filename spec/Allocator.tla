--------------------------- MODULE Allocator ---------------------------
(***************************************************************************)
(* C03 - where a CID goes.                                                 *)
(*                                                                         *)
(* Two things are specified here and kept apart on purpose:                *)
(*                                                                         *)
(*  * Conforms(in, out): the transcription of allocate.go                  *)
(*    (allocate + obtainAllocations), allocator/util/metricsorter.go       *)
(*    (SortNumeric) and ascendalloc / descendalloc, as a relation between  *)
(*    an input and an observable output.  Everything the code leaves to    *)
(*    chance (Go map iteration order, unstable sort ties) is left free.    *)
(*                                                                         *)
(*  * Good(in, out): what the property statement promises, written from    *)
(*    the statement and not from the code.                                 *)
(*                                                                         *)
(* TLC checks  \A in, out : Conforms(in,out) => Good(in,out)  exhaustively *)
(* (AllocatorMC), and AllocatorTrace evaluates both predicates on          *)
(* input/output pairs recorded from the real Cluster.                      *)
(*                                                                         *)
(* Peers are strings "p1".."pN" so that values travel through JSON.        *)
(***************************************************************************)
EXTENDS Integers, Sequences, FiniteSets, TLC

CONSTANT NPEERS

Peers == {"p" \o ToString(i) : i \in 1..NPEERS}

\* Per-peer state of the informer metric as the monitor holds it.
\*   bad    : absent, expired, invalid or not a member -> filtered by the monitor
\*   nonnum : valid, unexpired, member, value does not parse as uint
\*   v0..v2 : valid, unexpired, member, numeric value 0..2
Health == {"bad", "nonnum", "v0", "v1", "v2"}

Healthy(h)  == h # "bad"
Numeric(h)  == h \in {"v0", "v1", "v2"}
Val(h)      == CASE h = "v0" -> 0 [] h = "v1" -> 1 [] h = "v2" -> 2 [] OTHER -> 0

Range(s) == {s[i] : i \in DOMAIN s}
NoDup(s) == \A i, j \in DOMAIN s : i # j => s[i] # s[j]

\* All duplicate-free sequences enumerating exactly the set S.
Perms(S) == {s \in [1..Cardinality(S) -> S] : \A i, j \in 1..Cardinality(S) : i # j => s[i] # s[j]}

\* All duplicate-free sequences of length n over S.
Arrangements(S, n) == UNION {Perms(T) : T \in {U \in SUBSET S : Cardinality(U) = n}}

Min(a, b) == IF a < b THEN a ELSE b

(***************************************************************************)
(* Inputs.                                                                 *)
(*   ms    : peer -> Health                                                *)
(*   cur   : current allocations, a duplicate-free sequence (the stored    *)
(*           order matters only because one code path returns it verbatim) *)
(*   bl    : blacklist (set, given as sequence in JSON)                    *)
(*   prio  : priority list = user allocations (set)                        *)
(*   rmin, rmax : effective replication factors (after defaults)           *)
(*   strat : "asc" (ascendalloc) | "desc" (descendalloc)                   *)
(***************************************************************************)
CurSet(in)  == Range(in.cur)
BlSet(in)   == Range(in.bl)
PrioSet(in) == Range(in.prio)

\* --- classification exactly as the switch in allocate() orders it ---
\* (metrics returned by the monitor: healthy peers only)
Seen(in)     == {p \in DOMAIN in.ms : Healthy(in.ms[p])}
CurValid(in) == {p \in Seen(in) : p \notin BlSet(in) /\ p \in CurSet(in)}
CandPrio(in) == {p \in Seen(in) : p \notin BlSet(in) /\ p \notin CurSet(in) /\ p \in PrioSet(in)}
CandRest(in) == {p \in Seen(in) : p \notin BlSet(in) /\ p \notin CurSet(in) /\ p \notin PrioSet(in)}
NumPrio(in)  == {p \in CandPrio(in) : Numeric(in.ms[p])}
NumRest(in)  == {p \in CandRest(in) : Numeric(in.ms[p])}

Needed(in) == in.rmin - Cardinality(CurValid(in))
Wanted(in) == in.rmax - Cardinality(CurValid(in))

\* Rank: smaller is better.  ascendalloc sorts by value ascending,
\* descendalloc descending; priority peers come first in both.
Rank(in, p)  == IF in.strat = "asc" THEN Val(in.ms[p]) ELSE 0 - Val(in.ms[p])
Class(in, p) == IF p \in PrioSet(in) THEN 0 ELSE 1
Better(in, p, q) ==     \* p strictly better than q
    \/ Class(in, p) < Class(in, q)
    \/ Class(in, p) = Class(in, q) /\ Rank(in, p) < Rank(in, q)

\* a is the first Len(a) elements of SOME order the allocator may return:
\* sorted (no later element strictly better than an earlier one) and no
\* unchosen rankable candidate strictly better than a chosen one.
SortedPrefix(in, a) ==
    LET pool == NumPrio(in) \cup NumRest(in) IN
    /\ NoDup(a)
    /\ Range(a) \subseteq pool
    /\ \A i, j \in DOMAIN a : i < j => ~Better(in, a[j], a[i])
    /\ \A q \in pool \ Range(a) : \A i \in DOMAIN a : ~Better(in, q, a[i])

(***************************************************************************)
(* Conforms: the code path, outcome by outcome.                            *)
(* out = [ok |-> BOOLEAN, allocs |-> sequence of peers]                    *)
(***************************************************************************)
Everywhere(in) == in.rmin < 0 /\ in.rmax < 0

Conforms(in, out) ==
    LET nV   == Cardinality(CurValid(in))
        nNum == Cardinality(NumPrio(in) \cup NumRest(in))
        nCand == Cardinality(CandPrio(in) \cup CandRest(in))
    IN
    IF in.rmin + in.rmax = 0 THEN out.ok = FALSE
    ELSE IF Everywhere(in) THEN out.ok /\ out.allocs = <<>>
    ELSE IF Wanted(in) < 0 THEN
        \* validAllocations[0 : len+wanted] : any rmax of the valid holders
        /\ out.ok
        /\ Len(out.allocs) = in.rmax
        /\ NoDup(out.allocs)
        /\ Range(out.allocs) \subseteq CurValid(in)
    ELSE IF Needed(in) <= 0 THEN
        \* "we don't provide any new allocations": the stored list verbatim
        out.ok /\ out.allocs = in.cur
    ELSE IF nCand < Needed(in) \/ nNum < Needed(in) THEN
        out.ok = FALSE
    ELSE
        LET take == Min(Wanted(in), nNum) IN
        /\ out.ok
        /\ Len(out.allocs) = nV + take
        /\ NoDup(out.allocs)
        /\ Range(SubSeq(out.allocs, 1, nV)) = CurValid(in)
        /\ SortedPrefix(in, SubSeq(out.allocs, nV + 1, nV + take))

\* Constructive version used by the exhaustive check (same relation).
Outs(in) ==
    LET nV   == Cardinality(CurValid(in))
        pool == NumPrio(in) \cup NumRest(in)
        nNum == Cardinality(pool)
        nCand == Cardinality(CandPrio(in) \cup CandRest(in))
        fail == {[ok |-> FALSE, allocs |-> <<>>]}
    IN
    IF in.rmin + in.rmax = 0 THEN fail
    ELSE IF Everywhere(in) THEN {[ok |-> TRUE, allocs |-> <<>>]}
    ELSE IF Wanted(in) < 0 THEN
        {[ok |-> TRUE, allocs |-> s] : s \in Arrangements(CurValid(in), in.rmax)}
    ELSE IF Needed(in) <= 0 THEN {[ok |-> TRUE, allocs |-> in.cur]}
    ELSE IF nCand < Needed(in) \/ nNum < Needed(in) THEN fail
    ELSE LET take == Min(Wanted(in), nNum) IN
        {[ok |-> TRUE, allocs |-> k \o a] :
            k \in Perms(CurValid(in)),
            a \in {b \in Arrangements(pool, take) : SortedPrefix(in, b)}}

(***************************************************************************)
(* Good: the property statement.                                           *)
(***************************************************************************)
IsHealthyHolder(in, p) == Healthy(in.ms[p]) /\ p \notin BlSet(in)
StillHealthy(in) == {p \in CurSet(in) : IsHealthyHolder(in, p)}
\* peers that could be newly added and ranked
Addable(in) == {p \in DOMAIN in.ms : /\ Numeric(in.ms[p]) /\ p \notin BlSet(in) /\ p \notin CurSet(in)}
ReachRanked(in) == Cardinality(StillHealthy(in)) + Cardinality(Addable(in))

Good(in, out) ==
    LET res   == Range(out.allocs)
        added == res \ CurSet(in)
    IN
    IF Everywhere(in) THEN out.ok /\ out.allocs = <<>>          \* -1: empty list, every peer
    ELSE IF ~out.ok THEN
        \* a refusal is justified only if min cannot be reached
        ReachRanked(in) < in.rmin
    ELSE
        /\ NoDup(out.allocs)                                     \* no peer twice
        /\ \A p \in added : Healthy(in.ms[p]) /\ p \notin BlSet(in)   \* adds only healthy, not excluded
        /\ IF Cardinality(StillHealthy(in)) <= in.rmax           \* keeps healthy holders ...
              THEN StillHealthy(in) \subseteq res
              ELSE res \subseteq StillHealthy(in) /\ added = {}  \* ... dropping only above max
        /\ LET h == Cardinality({p \in res : IsHealthyHolder(in, p)}) IN
              in.rmin <= h /\ h <= in.rmax                       \* between min and max healthy holders
        /\ \A a \in added : \A q \in Addable(in) \ res :          \* user's peers first, then best ranked
              ~Better(in, q, a)

=============================================================================
