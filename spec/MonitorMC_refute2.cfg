SPECIFICATION Spec
CONSTANTS
  NAMES = {"n1"}
  PEERS = {"p1"}
  Thr = 1
  CheckMode = "once"
  ForgetMode = "name"
  RenewMode = "sticky"
  W = 3
  AccN = 6
  MaxArr = 3
  MaxT = 2
  REPS = {1}
  Garbage = FALSE
  Staged = FALSE
  PsFree = FALSE
  InitSets = {{"p1"}}
VIEW View
INVARIANTS InvReported
