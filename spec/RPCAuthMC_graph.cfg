SPECIFICATION Spec
CONSTANT Remote = {"b", "c"}
CONSTANT MaxActs = 100
CONSTANT HoleMode = "none"
VIEW GraphView
INVARIANT UntrustedOnlyOpen
INVARIANT LocalOnlyRefused
