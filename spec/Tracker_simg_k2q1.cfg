SPECIFICATION Spec
CONSTANTS
  CIDS = {"c1","c2"}
  K = 2
  Q = 1
  MaxInstr = 9
  MaxFail = 2
  GatedFinish = TRUE
  Eager = TRUE
  RecoverUsesStatePin = TRUE
  StatusAllListsDirect = TRUE
  DirOverRecStuck = TRUE
