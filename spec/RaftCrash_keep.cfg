\* the other store choice (persistent pinset store): same invariants
CONSTANTS CIDS = {"c1", "c2"} MaxOps = 3 KeepFsm = TRUE LoseLog = FALSE
INIT Init
NEXT Next
INVARIANTS TypeOK AckDurable PrefixInv AtMostOnce
