\* exhaustive: any client of the optracker package, 2 CIDs
CONSTANTS CIDS = {"c1", "c2"} MaxOps = 2 K0 = 1 Q0 = 1 Level0 = "api" Strict = TRUE Lag = FALSE
INIT Init
NEXT ApiNext
INVARIANTS TypeOK TableCid ReplacedIsCancelled CleanOnlyOwn
