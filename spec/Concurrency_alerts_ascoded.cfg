SPECIFICATION Spec
CONSTANTS
  MaxAlerts = 2
  NWrites = 5
  NReads = 2
  SizedOutsideLock = TRUE
  ShutdownInline = FALSE
  ClientGuarded = FALSE
  Part = "alerts"
INVARIANTS NoIndexPanic NoTear
