SPECIFICATION Spec
CONSTANTS
  MaxAlerts = 2
  NWrites = 5
  NReads = 2
  SizedOutsideLock = TRUE
  ShutdownInline = FALSE
  PeersErrInline = FALSE
  ClientGuarded = FALSE
  NInformers = 0
  LoopVarShared = FALSE
  NCheckers = 0
  NChecks = 0
  MaxVer = 1
  DistShared = FALSE
  NEntries = 0
  NestedRead = FALSE
  Part = "alerts"
INVARIANTS NoIndexPanic NoTear
