SPECIFICATION Spec
CONSTANTS
  MaxAlerts = 2
  NWrites = 5
  NReads = 2
  SizedOutsideLock = TRUE
  ClientGuarded = FALSE
  Part = "alerts"
INVARIANTS NoIndexPanic NoTear
