SPECIFICATION Spec
CONSTANT NPEERS = 3
CONSTANT Tier = "thorough"
CONSTANT EqualsMode = "fixed"
CONSTANT UpdateGuard = TRUE
INVARIANT PropertyHolds
INVARIANT Transcription
CONSTANT RepinRedirect = FALSE
