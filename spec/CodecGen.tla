----------------------------- MODULE CodecGen -----------------------------
(* GEN: TLC enumerates the case set of strength IOEnv.STRENGTH and writes  *)
(* it as NDJSON to IOEnv.CASES_FILE; first line: the base values           *)
(* (used by the driver only to name the culprit field of a refusal).       *)
EXTENDS Codec, Json, IOUtils, SequencesExt, Randomization

Strength == IF IOEnv.STRENGTH = "3" THEN 3 ELSE IF IOEnv.STRENGTH = "1" THEN 1 ELSE 2

\* plus a seeded (TLC -seed) sample of the full product of the pin domains; three quarters of it without
\* origins, because a decoder that refuses origins outright hides every other field of such a value
NRandom == IF "NRANDOM" \in DOMAIN IOEnv THEN atoi(IOEnv.NRANDOM) ELSE 0
PinAll(orig) == [cid: PinDom.cid, type: PinDom.type, depth: PinDom.depth, mode: PinDom.mode, rmin: PinDom.rmin, rmax: PinDom.rmax,
                 name: PinDom.name, shard: PinDom.shard, allocs: PinDom.allocs, ualloc: PinDom.ualloc, expire: PinDom.expire,
                 meta: PinDom.meta, update: PinDom.update, origins: orig, ref: PinDom.ref]
RandomPins == RandomSubset((NRandom * 3) \div 4, PinAll({<<>>})) \cup RandomSubset(NRandom \div 4, PinAll(PinDom.origins))
RandomCases == {[rec |-> "Pin", fmt |-> fmt, v |-> v] : fmt \in PinFormats, v \in RandomPins}

All == UNION {Cases(rec, Strength) : rec \in Recs} \cup RandomCases
\* (LET: the case set is built once)
ASSUME LET all == All IN
       ndJsonSerialize(IOEnv.CASES_FILE,
            <<[hdr |-> TRUE, strength |-> Strength, n |-> Cardinality(all), base |-> [rec \in Recs |-> MinBase(rec)]]>>
            \o SetToSeq(all))

\* sequence cases: all ordered pairs over PairPool, plus NSEQ seeded sequences of every length 3..8
NSeq == IF "NSEQ" \in DOMAIN IOEnv THEN atoi(IOEnv.NSEQ) ELSE 0
NSeqFor(fmt) == IF fmt = "pubsub-live" /\ NSeq > 150 THEN 150 ELSE NSeq   \* live bursts cost real time
SeqCases ==
    UNION {UNION {
        {SeqCase(rec, fmt, <<a, b>>) : a \in PairsFor(rec, fmt), b \in PairsFor(rec, fmt)}
        \cup UNION {{SeqCase(rec, fmt, s) : s \in RandomSubset(NSeqFor(fmt), [1..k -> SeqPool(rec, fmt)])} : k \in 3..8}
        : fmt \in SeqFormats(rec)} : rec \in Recs}
ASSUME "SEQ_FILE" \in DOMAIN IOEnv => ndJsonSerialize(IOEnv.SEQ_FILE, SetToSeq(SeqCases))

VARIABLE x
Init == x = 0
Next == UNCHANGED x
Spec == Init /\ [][Next]_x
=============================================================================
