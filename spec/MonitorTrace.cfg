SPECIFICATION Spec
CONSTANTS
  NAMES = {"n1", "n2"}
  PEERS = {"p1", "p2", "p3"}
  Thr = 1
  CheckMode = "once"
  ForgetMode = "name"
  RenewMode = "restart"
