SPECIFICATION Spec
CONSTANT N = 2
CONSTANT AuthStateShared = TRUE
CONSTANT CredPool = {"right", "wrongpass", "missing"}
INVARIANT NoBadAccepted
