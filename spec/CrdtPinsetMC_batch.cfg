SPECIFICATION MCSpec
CONSTANTS
  REPS = {"r0", "r1"}
  CIDS = {"c1"}
  VALS = {"A", "B", "C"}
  VOrder <- MCVOrder
  MaxDeltas = 3
  MaxOps = 3
  WithBatch = TRUE
VIEW View
INVARIANT MembershipConvergence
INVARIANT LocalEffect
