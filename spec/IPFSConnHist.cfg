SPECIFICATION HSpec
CONSTANTS
  CheckTrailer = TRUE
  UpdateWatchdog = FALSE
  WaitOrigins = FALSE
  CallerCtx = TRUE
  Bound = 1
  Gen = TRUE
INVARIANTS TypeOK InvSuccessSound InvFailureReported InvNoRedundant InvLsTruthful InvUnpinIdempotent
  InvStallGivesUp InvOriginsBestEffort InvCallReturns InvCancelPropagates InvUpdateOnlyIfRecursive InvSourceKept
  GenHist
