------------------------ MODULE ClusterAPIRepinMC ------------------------
(* Exhaustive design check for C10 over small worlds: every peerset of    *)
(* 2..NPEERS members, any one failing / being removed / every member      *)
(* running StateSync, followers, repinning on/off, survivors' metric      *)
(* states, every closest-peer assignment (rotations of the peer order per *)
(* CID), pinsets with every allocation shape incl. a pin created by       *)
(* pin-update; the alert reaches the survivors in every order.            *)
EXTENDS ClusterAPIRepin

CONSTANT MinN
VARIABLES w, ep, ps0, ps, members, acts, pending, stage, mid

PeerSeq(n) == [i \in 1..n |-> "p" \o ToString(i)]
Rot(s, k)  == [i \in 1..Len(s) |-> s[((i + k - 1) % Len(s)) + 1]]
SubSeqs(s, lo, hi) == {x \in UNION {[1..k -> Range(s)] : k \in lo..hi} :
                          \A i, j \in DOMAIN x : i < j => Pos(s, x[i]) < Pos(s, x[j])}   \* ordered subsets

Vals == <<"v0", "v1", "v2", "v1", "v0">>
AllWorlds == UNION {
    {[peers |-> PeerSeq(n), followers |-> fo, norepin |-> nr, strat |-> "asc", getfail |-> gf,
      ms |-> [p \in Range(PeerSeq(n)) |-> IF p \in hp[1] THEN "bad" ELSE IF p \in hp[2] THEN "nonnum" ELSE Vals[Pos(PeerSeq(n), p)]],
      rank |-> [c \in {"c1", "c2", "c3", "m1", "d1", "s1"} |->
                    CASE c = "c1" -> Rot(PeerSeq(n), k1) [] c = "c2" -> Rot(PeerSeq(n), k1 + k2) [] OTHER -> Rot(PeerSeq(n), k1 + 1)],
      blocks |-> << <<"d1", <<"s1">> >> >>] :
        fo \in {<<>>} \cup {<<PeerSeq(n)[i]>> : i \in {1, n}}, nr \in BOOLEAN,
        \* health patterns <<bad, nonnum>>: all rankable; one peer without a valid metric; one peer / every peer but
        \* p1 with a valid but non-numeric (unrankable) metric
        hp \in {<<{}, {}>>, <<{PeerSeq(n)[2]}, {}>>, <<{PeerSeq(n)[n]}, {}>>, <<{}, {PeerSeq(n)[n]}>>,
                <<{}, Range(PeerSeq(n)) \ {"p1"}>>},
        \* State.Get of c1 / c2 failing with a read error (only combined with the plain worlds)
        gf \in {<<>>, <<"c1">>, <<"c2">>}, k1 \in 0..(n - 1), k2 \in {0, 1}} : n \in MinN..NPEERS}
Worlds == {x \in AllWorlds : x.getfail = <<>> \/ (x.followers = <<>> /\ ~x.norepin /\ \A p \in DOMAIN x.ms : Numeric(x.ms[p]))}

Episodes(x) == {[kind |-> "fail", failed |-> f, at |-> ""] : f \in Members(x)}
               \cup {[kind |-> "remove", failed |-> t, at |-> p] : t \in Members(x), p \in Members(x)}
               \cup {e \in {[kind |-> "remove2", failed |-> t, failed2 |-> u, at |-> p] :
                                t \in Members(x), u \in Members(x), p \in Members(x)} :
                        e.failed # e.failed2 /\ e.at \notin {e.failed, e.failed2}}
               \cup {[kind |-> "sync", failed |-> "", at |-> ""], [kind |-> "noise", failed |-> PeerSeq(2)[2], at |-> ""]}

Rich(c, f, al, up, ex) ==
    [cid |-> c, type |-> "data", mode |-> "rec", depth |-> 0 - 1, rmin |-> f[1], rmax |-> f[2], allocs |-> al,
     name |-> "n-" \o c, exp |-> ex, meta |-> << <<"a", "x">> >>, orig |-> <<"o1">>, ua |-> <<>>, upd |-> up, ref |-> NoCid]
Factors == {<<1, 1>>, <<1, 2>>, <<2, 3>>}
C1s(x) == {Rich("c1", f, al, NoCid, "f1") : f \in Factors, al \in SubSeqs(x.peers, 1, 3)}
          \cup {Rich("c1", <<1, 2>>, <<x.peers[1]>>, NoCid, "past")}
C2s(x) == {Rich("c2", <<2, 2>>, <<x.peers[1], x.peers[2]>>, up, "f1") : up \in {NoCid, "c1"}}
          \cup {[Rich("c2", <<1, 2>>, <<x.peers[1]>>, "c1", "past") EXCEPT !.name = "other", !.meta = <<>>]}
EveryPin == Rich("c3", <<0 - 1, 0 - 1>>, <<>>, NoCid, "none")
Group(e) == {[Rich("m1", <<1, 2>>, <<>>, NoCid, e) EXCEPT !.type = "meta", !.depth = 0, !.mode = "dir", !.ref = "d1"],
             [Rich("d1", <<0 - 1, 0 - 1>>, <<>>, NoCid, e) EXCEPT !.type = "cdag", !.depth = 0, !.mode = "dir", !.ref = "m1"],
             [Rich("s1", <<1, 2>>, <<"p1">>, NoCid, e) EXCEPT !.type = "shard", !.depth = 1]}
WellFormed(e) == e.rmin <= Len(e.allocs) /\ Len(e.allocs) <= e.rmax
Pinsets(x) == {({a} \cup B \cup G) :
                  a \in {e \in C1s(x) : WellFormed(e)}, B \in {{}} \cup {{b} : b \in C2s(x)},
                  G \in {{EveryPin} \cup Group("past"), Group("f1")}}

Init == /\ stage = "world"
        /\ w \in Worlds
        /\ ep = [kind |-> "none"] /\ ps0 = {} /\ ps = {} /\ members = {} /\ acts = <<>> /\ pending = {}
        /\ mid = [ps |-> {}, n |-> 0]
Tag(log, p) == [i \in DOMAIN log |-> [by |-> p, kind |-> log[i][1], cid |-> log[i][2]]]

Setup == /\ stage = "world" /\ stage' = "run"
         /\ ep' \in Episodes(w)
         /\ ps0' \in Pinsets(w)
         /\ ps' = ps0' /\ members' = Members(w) /\ acts' = <<>>
         /\ mid' = mid
         /\ pending' = CASE ep'.kind \in {"remove", "remove2"} -> {ep'.at}
                         [] ep'.kind = "sync" -> Members(w)
                         [] OTHER -> Members(w) \ {ep'.failed}
         /\ UNCHANGED w
\* two removals in quick succession, both at ep.at
First2 == /\ stage = "run" /\ pending # {} /\ ep.kind = "remove2" /\ ep.failed \in members
          /\ \E r \in VacateOutcomes(w, ep.at, ep.failed, ps) :
                /\ ps' = r.ps /\ acts' = acts \o Tag(r.log, ep.at)
                /\ mid' = [ps |-> r.ps, n |-> Len(acts')]
          /\ members' = members \ {ep.failed}
          /\ UNCHANGED <<w, ep, ps0, stage, pending>>
Second2 == /\ stage = "run" /\ pending # {} /\ ep.kind = "remove2" /\ ep.failed \notin members
           /\ \E r \in VacateOutcomes(WAfter(w, ep.failed), ep.at, ep.failed2, ps) :
                 /\ ps' = r.ps /\ acts' = acts \o Tag(r.log, ep.at)
           /\ members' = members \ {ep.failed2} /\ pending' = {}
           /\ UNCHANGED <<w, ep, ps0, stage, mid>>
Deliver == /\ stage = "run" /\ pending # {} /\ ep.kind # "remove2"
           /\ \E p \in pending :
                \E r \in CASE ep.kind = "fail"   -> AlertOutcomes(w, members, p, ep.failed, "ping", ps)
                           [] ep.kind = "noise"  -> AlertOutcomes(w, members, p, ep.failed, "freespace", ps)
                           [] ep.kind = "remove" -> VacateOutcomes(w, p, ep.failed, ps)
                           [] ep.kind = "sync"   -> SyncOutcomes(w, members, p, ps) :
                   /\ ps' = r.ps
                   /\ acts' = acts \o Tag(r.log, p)
                   /\ pending' = pending \ {p}
                   /\ members' = IF ep.kind = "remove" THEN members \ {ep.failed} ELSE members
           /\ UNCHANGED <<w, ep, ps0, stage, mid>>
Next == Setup \/ Deliver \/ First2 \/ Second2
Spec == Init /\ [][Next]_<<w, ep, ps0, ps, members, acts, pending, stage, mid>>

Done == stage = "run" /\ pending = {}
PropertyHolds == Done => IF ep.kind = "sync" THEN ExpiryEpisodeOK(w, ps0, acts, ps)
                         ELSE IF ep.kind = "remove2"
                              THEN Remove2EpisodeOK(w, ep, ps0, SubSeq(acts, 1, mid.n), mid.ps, SubSeq(acts, mid.n + 1, Len(acts)), ps)
                         ELSE RehomeEpisodeOK(w, ep, ps0, acts, ps)
=============================================================================
