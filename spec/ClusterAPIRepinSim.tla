------------------------ MODULE ClusterAPIRepinSim ------------------------
(* Episode generator for C10 (TLC -simulate, depth 2): a world of 1..NPEERS *)
(* members, followers, repinning on/off, survivors' metric states, an       *)
(* episode (one member fails / is removed at some member / every member     *)
(* runs StateSync / a non-ping alert) and a pinset with every allocation    *)
(* shape incl. pins created by pin-update and one sharded content.  The     *)
(* closest-peer order is NOT generated: in the replay it is whatever real   *)
(* blake2b distances between the concrete peer IDs and CIDs say.            *)
EXTENDS ClusterAPIRepin, Randomization

VARIABLES w, ep, ps0, stage

PeerSeq(n) == [i \in 1..n |-> "p" \o ToString(i)]
Vals == <<"v0", "v1", "v2", "v1", "v0", "v2", "v0", "v1">>
SomeSub(S, x) == RandomElement(SUBSET S)
SubSeqOf(s, S) == LET idx == {i \in DOMAIN s : s[i] \in S}
                      f[k \in 0..Len(s)] == IF k = 0 THEN <<>> ELSE IF k \in idx THEN Append(f[k - 1], s[k]) ELSE f[k - 1]
                  IN f[Len(s)]

World(n, x) ==
    LET ps  == PeerSeq(n)
        fo  == IF RandomElement(1..4) = 1 THEN SubSeqOf(ps, {RandomElement(Range(ps))}) ELSE <<>>
        bad == RandomElement({{}, {}, {RandomElement(Range(ps))}, {RandomElement(Range(ps)), RandomElement(Range(ps))}})
        \* valid but non-numeric (unrankable) metrics: nobody, one peer, a random subset, everybody
        nn  == RandomElement({{}, {}, {RandomElement(Range(ps))}, RandomElement(SUBSET Range(ps)), Range(ps)})
    IN [getfail |-> <<>>, peers |-> ps, followers |-> fo, norepin |-> (n <= 4 /\ RandomElement(1..6) = 1), strat |-> "asc",
        ms |-> [p \in Range(ps) |-> IF p \in bad THEN "bad" ELSE IF p \in nn THEN "nonnum" ELSE Vals[Pos(ps, p)]],
        blocks |-> << <<"d1", <<"s1", "s2">> >> >>]

Rich(c, f, al, up, ex, nm, md) ==
    [cid |-> c, type |-> "data", mode |-> RandomElement({"rec", "dir"}), depth |-> 0, rmin |-> f[1], rmax |-> f[2], allocs |-> al,
     name |-> nm, exp |-> ex, meta |-> md, orig |-> RandomElement({<<>>, <<"o1">>, <<"o1", "o2">>}), ua |-> <<>>, upd |-> up,
     ref |-> NoCid]
Fix(e) == [e EXCEPT !.depth = DepthOfMode(e.mode)]
Factors == {<<1, 1>>, <<1, 2>>, <<2, 2>>, <<2, 3>>, <<1, 3>>, <<3, 3>>, <<0 - 1, 0 - 1>>}
RandAllocs(x, f) ==
    IF f[1] < 0 THEN <<>>
    ELSE LET cands == {S \in SUBSET Range(x.peers) : Cardinality(S) >= f[1] /\ Cardinality(S) <= f[2]} IN
         IF cands = {} THEN <<>> ELSE RandomElement(Perms(RandomElement(cands)))
DataPin(x, c, up) ==
    LET f == RandomElement(Factors) IN
    Fix(Rich(c, f, RandAllocs(x, f), up, RandomElement({"none", "f1", "f1", "past"}), RandomElement({"", "n1", "n2"}),
             RandomElement({<<>>, << <<"a", "x">> >>, << <<"a", "y">>, <<"b", "x">> >>})))
Typed(x, c, ty, d, f, rf, ex) ==
    [cid |-> c, type |-> ty, mode |-> ModeOfDepth(d), depth |-> d, rmin |-> f[1], rmax |-> f[2],
     allocs |-> IF ty = "shard" THEN RandAllocs(x, f) ELSE <<>>, name |-> "sh", exp |-> ex, meta |-> <<>>, orig |-> <<>>,
     ua |-> <<>>, upd |-> NoCid, ref |-> rf]
Group(x, ex) == {Typed(x, "m1", "meta", 0, <<1, 2>>, "d1", ex), Typed(x, "d1", "cdag", 0, <<0 - 1, 0 - 1>>, "m1", ex),
                 Typed(x, "s1", "shard", 1, <<1, 2>>, NoCid, ex), Typed(x, "s2", "shard", 1, <<1, 2>>, "s1", ex)}
Pinset(x) ==
    LET base == {DataPin(x, c, NoCid) : c \in RandomElement({{"c1"}, {"c1", "c2"}, {"c1", "c2", "c3"}})}
        upd  == {DataPin(x, c, RandomElement({"c1", "c9"})) : c \in RandomElement({{}, {"c4"}, {"c4", "c5"}})}
        grp  == RandomElement({{}, {}, Group(x, "f1"), Group(x, "past")})
    \* only well-formed entries (the random draws above are independent of each other)
    IN {e \in base \cup upd \cup grp :
           \/ e.type \in {"meta", "cdag"}
           \/ e.rmin = 0 - 1 /\ e.rmax = 0 - 1 /\ e.allocs = <<>>
           \/ 1 <= e.rmin /\ e.rmin <= e.rmax /\ e.rmin <= Len(e.allocs) /\ Len(e.allocs) <= e.rmax}

Episode(x) ==
    LET k0 == RandomElement({"fail", "fail", "fail", "remove", "remove", "remove2", "sync", "noise"})
        k  == IF k0 = "remove2" /\ Len(x.peers) < 3 THEN "remove" ELSE k0
        t  == RandomElement(Members(x)) IN
    IF k = "remove2"
    THEN LET u == RandomElement(Members(x) \ {t}) IN
         [kind |-> k, failed |-> t, failed2 |-> u, at |-> RandomElement(Members(x) \ {t, u})]
    ELSE [kind |-> k, failed |-> IF k = "sync" THEN "" ELSE t, failed2 |-> "",
          at |-> IF k = "remove" THEN RandomElement(Members(x)) ELSE ""]

Init == stage = 0 /\ w = [n |-> 0] /\ ep = [kind |-> "none"] /\ ps0 = {}
\* Every random choice is bound once by a quantifier over a singleton set (a LET definition would be re-evaluated,
\* hence re-drawn, at each of its uses).
Next == /\ stage = 0 /\ stage' = 1
        /\ \E n \in {IF RandomElement(1..15) = 1 THEN 1 ELSE RandomElement(2..NPEERS)} :
           \E x \in {World(n, n)} :
           \E e \in {Episode(x)} :
           \* now and then State.Get of one CID fails with a read error while the episode is handled
           \E gf \in {IF e.kind \in {"fail", "remove"} /\ RandomElement(1..4) = 1
                       THEN <<RandomElement({"c1", "c2", "c4"})>> ELSE <<>>} :
           \* two removals in a row run on the rig with the real pubsubmon monitor: plain configuration
           \E y \in {IF e.kind = "remove2" THEN [x EXCEPT !.followers = <<>>, !.norepin = FALSE]
                      ELSE [x EXCEPT !.getfail = gf]} :
             /\ ep' = e
             \* the monitors of the survivors hold no valid metric of a failed peer
             /\ w' = IF e.kind = "fail" THEN [y EXCEPT !.ms = [p \in DOMAIN y.ms |-> IF p = e.failed THEN "bad" ELSE y.ms[p]]] ELSE y
        /\ ps0' = Pinset(w')
Spec == Init /\ [][Next]_<<w, ep, ps0, stage>>
=============================================================================
