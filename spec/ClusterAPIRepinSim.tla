------------------------ MODULE ClusterAPIRepinSim ------------------------
(* Episode generator for C10 (TLC -simulate, depth 2): a world of 1..NPEERS *)
(* members, followers, repinning on/off, survivors' metric states, an       *)
(* episode (one member fails / is removed at some member / every member     *)
(* runs StateSync / a non-ping alert) and a pinset with every allocation    *)
(* shape incl. pins created by pin-update and one sharded content.  The     *)
(* closest-peer order is NOT generated: in the replay it is whatever real   *)
(* blake2b distances between the concrete peer IDs and CIDs say.            *)
EXTENDS ClusterAPIRepin, Randomization

VARIABLES w, ep, ps0, stage

PeerSeq(n) == [i \in 1..n |-> "p" \o ToString(i)]
Vals == <<"v0", "v1", "v2", "v1", "v0", "v2", "v0", "v1">>
SomeSub(S, x) == RandomElement(SUBSET S)
SubSeqOf(s, S) == LET idx == {i \in DOMAIN s : s[i] \in S}
                      f[k \in 0..Len(s)] == IF k = 0 THEN <<>> ELSE IF k \in idx THEN Append(f[k - 1], s[k]) ELSE f[k - 1]
                  IN f[Len(s)]

World(n, x) ==
    LET ps  == PeerSeq(n)
        fo  == IF RandomElement(1..4) = 1 THEN SubSeqOf(ps, {RandomElement(Range(ps))}) ELSE <<>>
        bad == RandomElement({{}, {}, {RandomElement(Range(ps))}, {RandomElement(Range(ps)), RandomElement(Range(ps))}})
        \* valid but non-numeric (unrankable) metrics: nobody, one peer, a random subset, everybody
        nn  == RandomElement({{}, {}, {RandomElement(Range(ps))}, RandomElement(SUBSET Range(ps)), Range(ps)})
    IN [peers |-> ps, followers |-> fo, norepin |-> (n <= 4 /\ RandomElement(1..6) = 1), strat |-> "asc",
        ms |-> [p \in Range(ps) |-> IF p \in bad THEN "bad" ELSE IF p \in nn THEN "nonnum" ELSE Vals[Pos(ps, p)]],
        blocks |-> << <<"d1", <<"s1", "s2">> >> >>]

Rich(c, f, al, up, ex, nm, md) ==
    [cid |-> c, type |-> "data", mode |-> RandomElement({"rec", "dir"}), depth |-> 0, rmin |-> f[1], rmax |-> f[2], allocs |-> al,
     name |-> nm, exp |-> ex, meta |-> md, orig |-> RandomElement({<<>>, <<"o1">>, <<"o1", "o2">>}), ua |-> <<>>, upd |-> up,
     ref |-> NoCid]
Fix(e) == [e EXCEPT !.depth = DepthOfMode(e.mode)]
Factors == {<<1, 1>>, <<1, 2>>, <<2, 2>>, <<2, 3>>, <<1, 3>>, <<3, 3>>, <<0 - 1, 0 - 1>>}
RandAllocs(x, f) ==
    IF f[1] < 0 THEN <<>>
    ELSE LET cands == {S \in SUBSET Range(x.peers) : Cardinality(S) >= f[1] /\ Cardinality(S) <= f[2]} IN
         IF cands = {} THEN <<>> ELSE RandomElement(Perms(RandomElement(cands)))
DataPin(x, c, up) ==
    LET f == RandomElement(Factors) IN
    Fix(Rich(c, f, RandAllocs(x, f), up, RandomElement({"none", "f1", "f1", "past"}), RandomElement({"", "n1", "n2"}),
             RandomElement({<<>>, << <<"a", "x">> >>, << <<"a", "y">>, <<"b", "x">> >>})))
Typed(x, c, ty, d, f, rf, ex) ==
    [cid |-> c, type |-> ty, mode |-> ModeOfDepth(d), depth |-> d, rmin |-> f[1], rmax |-> f[2],
     allocs |-> IF ty = "shard" THEN RandAllocs(x, f) ELSE <<>>, name |-> "sh", exp |-> ex, meta |-> <<>>, orig |-> <<>>,
     ua |-> <<>>, upd |-> NoCid, ref |-> rf]
Group(x, ex) == {Typed(x, "m1", "meta", 0, <<1, 2>>, "d1", ex), Typed(x, "d1", "cdag", 0, <<0 - 1, 0 - 1>>, "m1", ex),
                 Typed(x, "s1", "shard", 1, <<1, 2>>, NoCid, ex), Typed(x, "s2", "shard", 1, <<1, 2>>, "s1", ex)}
Pinset(x) ==
    LET base == {DataPin(x, c, NoCid) : c \in RandomElement({{"c1"}, {"c1", "c2"}, {"c1", "c2", "c3"}})}
        upd  == {DataPin(x, c, RandomElement({"c1", "c9"})) : c \in RandomElement({{}, {"c4"}, {"c4", "c5"}})}
        grp  == RandomElement({{}, {}, Group(x, "f1"), Group(x, "past")})
    IN {e \in base \cup upd \cup grp : e.rmin < 0 \/ e.type \in {"meta", "cdag"} \/ e.allocs # <<>>}

Episode(x) ==
    LET k == RandomElement({"fail", "fail", "fail", "remove", "remove", "sync", "noise"}) IN
    [kind |-> k, failed |-> IF k = "sync" THEN "" ELSE RandomElement(Members(x)),
     at |-> IF k = "remove" THEN RandomElement(Members(x)) ELSE ""]

Init == stage = 0 /\ w = [n |-> 0] /\ ep = [kind |-> "none"] /\ ps0 = {}
Next == /\ stage = 0 /\ stage' = 1
        /\ \E n \in {IF RandomElement(1..15) = 1 THEN 1 ELSE RandomElement(2..NPEERS)} :
             LET x == World(n, n) e == Episode(x) IN
             /\ ep' = e
             \* the monitors of the survivors hold no valid metric of a failed peer
             /\ w' = IF e.kind = "fail" THEN [x EXCEPT !.ms = [p \in DOMAIN x.ms |-> IF p = e.failed THEN "bad" ELSE x.ms[p]]] ELSE x
        /\ ps0' = Pinset(w')
Spec == Init /\ [][Next]_<<w, ep, ps0, stage>>
=============================================================================
