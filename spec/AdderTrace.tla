----------------------------- MODULE AdderTrace -----------------------------
(* Evaluates, on every run recorded from the real code (NDJSON file named by  *)
(* env TRACE_FILE; one {in, out} record per run), the property predicates of  *)
(* Adder (which ones fail), the content clauses, and the transcription        *)
(* predicate Conforms (not for `partial` records, whose block stream was not *)
(* observable); writes the verdicts to env VERDICT_FILE.                     *)
EXTENDS Adder, Json, IOUtils

Recs == ndJsonDeserialize(IOEnv.TRACE_FILE)

FailedAll(r) == Failed(r.in, NormGraph(r.out)) \cup (IF ContentOK(r.out) THEN {} ELSE {"ContentOK"})

Verdicts == [i \in 1..Len(Recs) |->
                [i |-> i, failed |-> FailedAll(Recs[i]), conforms |-> Recs[i].partial \/ Conforms(Recs[i].in, Recs[i].out)]]

ASSUME ndJsonSerialize(IOEnv.VERDICT_FILE,
        <<[n |-> Len(Recs),
           bad |-> SelectSeq(Verdicts, LAMBDA v : v.failed # {}),
           drift |-> {i \in 1..Len(Recs) : ~Verdicts[i].conforms}]>>)

VARIABLE x
Init == x = 0
Next == UNCHANGED x
Spec == Init /\ [][Next]_x
=============================================================================
