------------------------------ MODULE Config ------------------------------
(***************************************************************************)
(* C15 - configuration saves and loads losslessly, validates totally,      *)
(* hides secrets.                                                          *)
(*                                                                         *)
(* Like C08 this is a law over a data schema.  The schema (sections,       *)
(* settings, JSON kinds) is NOT written here: the Go driver extracts it    *)
(* from the real component configurations at check time (ToJSON /          *)
(* ToDisplayJSON of the default configuration; reflection over the Config  *)
(* structs), so a new setting is covered without touching the spec.        *)
(* The specification contributes                                           *)
(*   - the value classes tried for every setting (Classes, written out by  *)
(*     TLC for the driver), which of them are "zero" (may fall back to the *)
(*     default) and which are not (bool false is NOT a zero),              *)
(*   - an abstract model of a loader  Load = Validate(Apply(Default, j))   *)
(*     and the laws it must satisfy (ConfigMC checks the model),           *)
(*   - the same laws as predicates over the facts recorded from the real   *)
(*     code (ConfigTrace evaluates them: the verdict is TLC's).            *)
(***************************************************************************)
EXTENDS Integers, Sequences, FiniteSets, TLC

(***************************************************************************)
(* Value classes per JSON kind of a setting.                               *)
(***************************************************************************)
Classes == [
    string |-> {"empty", "str", "dur", "dur-zero", "dur-neg", "dur-bad", "maddr", "maddr-bad", "path", "hex32", "peerid",
                "wrongtype", "null", "absent", "path-rel", "path-abs", "path-dotdot"},
    number |-> {"zero", "one", "typ", "neg", "big", "frac", "wrongtype", "null", "absent"},
    bool   |-> {"true", "false", "wrongtype", "null", "absent"},
    array  |-> {"arr-empty", "arr-typ", "arr-str", "arr-maddr", "arr-bad", "wrongtype", "null", "absent"},
    object |-> {"obj-empty", "obj-str", "obj-list", "wrongtype", "null", "absent"} ]

VKinds == DOMAIN Classes

\* classes that say "nothing given": the loader may (need not) put the default in their place.
\* "a numeric or duration zero conventionally means 'use the default'"; the same convention is applied by the
\* code to the empty string, the empty list and the empty map.  FALSE IS NOT IN THIS SET.
ZeroClasses == {"empty", "dur-zero", "zero", "arr-empty", "obj-empty", "null", "absent"}

AllClasses == UNION {Classes[k] : k \in VKinds}

Outcomes  == {"accepted", "rejected", "panic"}
Relations == {"same", "default", "absent", "other", "n/a"}

(***************************************************************************)
(* Laws over recorded facts.                                               *)
(*                                                                         *)
(* default fact  [section, err, valid, panic]                              *)
(* load fact     [section, setting, vkind, class, scope, outcome, valid,   *)
(*                rel, reload, stable, isdefault]                          *)
(*    scope   "alone" | "manager" | "env" | "pair" (next to a value of      *)
(*            another setting that the loader accepted but did not keep)   *)
(*    outcome of LoadJSON (ApplyEnvVars for scope env)                     *)
(*    valid   Validate() = nil on the loaded configuration                 *)
(*    rel     relation of the saved value of the setting to the value      *)
(*            given: same | default (the default took its place) | absent  *)
(*            (the key disappeared) | other                                *)
(*    reload  outcome of loading the saved form again                      *)
(*    stable  Save(Load(Save(Load(j)))) = Save(Load(j))                    *)
(*    isdefault  the value given happens to equal the default              *)
(* reject fact   [section, field, class, rejects, represented, load,       *)
(*                asdefault, panic]                                        *)
(* hidden fact   [section, setting, tokens, injected, shown, scope]        *)
(* subset fact   [family, section, registered, outcome, kept, panic]       *)
(***************************************************************************)
DefaultValid(f) == ~f.panic /\ ~f.err /\ f.valid

NoPanic(f) == f.outcome # "panic" /\ (f.outcome = "accepted" => f.reload # "panic")

AcceptedValid(f) == f.outcome = "accepted" => f.valid

Stable(f) == f.outcome = "accepted" => (f.reload = "accepted" /\ f.stable)

\* Which classes are well-formed values for a setting depends on what the setting holds; the driver reports the
\* shape of the setting's default value (skind) and this table says which classes are certainly well-formed for
\* it.  (Acceptance alone proves nothing: consensus/raft deliberately takes a malformed duration as "use the
\* default", with a warning.)  Lists of free strings are not judged: their elements may be peer IDs, origins ...
WellFormedFor(skind) ==
    CASE skind = "duration"       -> {"dur", "dur-neg"}
      [] skind = "multiaddr"      -> {"maddr"}
      [] skind = "number"         -> {"one", "typ", "neg", "big"}
      [] skind = "bool"           -> {"true", "false"}
      [] skind \in {"text", "unknown"} -> {"str", "path"}
      [] skind = "list-multiaddr" -> {"arr-typ", "arr-maddr"}
      [] skind = "map"            -> {"obj-str", "obj-list"}
      [] OTHER                    -> {}

\* keys that are still parsed but are no settings any more: identity moved to identity.json in 0.11
Legacy == {<<"cluster", "id">>, <<"cluster", "private_key">>}

\* a well-formed value that the loader accepts and that is not a zero is reproduced; it is never replaced by the
\* default and never disappears from the saved form
NotDropped(f) ==
    (/\ f.outcome = "accepted" /\ f.class \in WellFormedFor(f.skind) /\ f.class \notin ZeroClasses
     /\ ~f.isdefault /\ <<f.section, f.setting>> \notin Legacy)
        => f.rel \notin {"default", "absent"}

\* File and folder settings (found by name: file, folder, dir, path) are given relative, absolute and ".."
\* paths through a config.Manager that has a real base directory (scope "basedir": the setting alone;
\* "basedir-together": all file settings of the section at once, e.g. a certificate with its key), the files
\* and folders existing.  What is saved is the CONFIGURED value, not the value resolved against the base
\* directory: Save(Load(j)) reproduces it literally.
PathClasses == {"path-rel", "path-abs", "path-dotdot"}
PathReproduced(f) == (f.outcome = "accepted" /\ f.class \in PathClasses) => f.rel = "same"

BrokenLoadLaws(f) ==
    {l \in {"NoPanic", "AcceptedValid", "Stable", "NotDropped", "PathReproduced"} :
        CASE l = "NoPanic" -> ~NoPanic(f)
          [] l = "AcceptedValid" -> ~AcceptedValid(f)
          [] l = "Stable" -> ~Stable(f)
          [] l = "NotDropped" -> ~NotDropped(f)
          [] l = "PathReproduced" -> ~PathReproduced(f)}

\* a value Validate rejects is refused by LoadJSON (zero may instead be taken as "use the default")
RejectedAtLoad(f) ==
    /\ ~f.panic
    /\ (f.rejects /\ f.represented) =>
          \/ f.load = "rejected"
          \/ f.class \in {"zero", "nil"} /\ f.load = "accepted" /\ f.asdefault

\* what must never be displayed: the statement's list (cluster secret, private keys, API credentials), and
\* by name any setting that looks like one
StatedSecrets == {<<"cluster", "secret">>, <<"cluster", "private_key">>, <<"restapi", "private_key">>,
                  <<"restapi", "basic_auth_credentials">>}
SecretByName(tokens) ==
    LET T == {tokens[i] : i \in DOMAIN tokens} IN
    \/ T \cap {"secret", "password", "passwd", "credentials", "token"} # {}
    \/ {"private", "key"} \subseteq T
IsSecret(f) == <<f.section, f.setting>> \in StatedSecrets \/ SecretByName(f.tokens)
Hidden(f) == (IsSecret(f) /\ f.injected) => ~f.shown

\* subset fact [family, section, registered, outcome, kept, panic]: a full configuration file loaded by a Manager
\* that registers only the components of `family` (as the binaries do).  Such a Manager must load the file, must
\* not crash, and its ToJSON must still carry every section it does not know, unchanged (no loss on save).
\* The Hidden law applies to its display form for the secrets of EVERY section, registered or not
\* (hidden facts with scope "subset:<family>").
Preserved(f) == ~f.panic /\ f.outcome = "accepted" /\ (~f.registered => f.kept)

\* history fact [section, seq, outcome, same]: the result of Default() or of loading a file never depends on
\* what the process (or the object) loaded before.  seq names the sequence run at the end of a section's
\* cases, after hundreds of different files went through the component: "default-after-loads",
\* "load-default-file-after-loads", "reload-on-used-object" (load A, then the default file, on one object),
\* "load-twice" (A, something else, A again); on ONE config.Manager: "manager-section-missing-set-missing"
\* (a file without the section, the file with the section = A, the file without it again) and
\* "manager-section-set-missing", both compared with a fresh Manager that loaded only the last file.
\* same: the saved form equals the reference.
OrderIndependent(f) == f.outcome = "accepted" /\ f.same

\* save fact [mem, file, savers]: outcome of concurrent SaveJSON calls on a real Manager (spec/ConfigSave.tla
\* is the model; the same predicate is its invariant NoLostUpdate).  Once every save has returned, if some
\* save started after the last change, the file holds the current configuration.
SaveOutcomeOK(f) ==
    ((\A i \in DOMAIN f.savers : f.savers[i].returned) /\ (\E i \in DOMAIN f.savers : f.savers[i].startver = f.mem))
        => f.file = f.mem

(***************************************************************************)
(* Abstract loader (the model ConfigMC checks the laws on).                *)
(* A setting has a kind, a default and a valid range; a JSON value is one  *)
(* of a few abstract values.                                               *)
(***************************************************************************)
MKinds == {"int", "duration", "string", "bool", "list"}
MVals(k) == IF k = "bool" THEN {"false", "true", "malformed", "absent"}
            ELSE {"zero", "low", "typ", "high", "malformed", "absent"}
MZero(k) == IF k = "bool" THEN "none" ELSE "zero"
\* ranges: which well-formed values Validate accepts
MRanges(k) == IF k = "bool" THEN {{"false", "true"}}
              ELSE {{"zero", "low", "typ", "high"}, {"low", "typ", "high"}, {"typ", "high"}, {"low", "typ"}, {"typ"}}
MDefaults(k, range) == range \ {"zero"}

\* BoolAssign = "direct": cfg.X = jcfg.X ; "ifnotdefault": config.SetIfNotDefault (true only)
MApply(k, def, v, boolAssign) ==
    IF v = "absent" THEN def
    ELSE IF k = "bool" THEN (IF boolAssign = "ifnotdefault" /\ v = "false" THEN def ELSE v)
    ELSE IF v = MZero(k) THEN def
    ELSE v

MLoad(k, def, range, v, boolAssign) ==
    IF v = "malformed" THEN [outcome |-> "rejected", val |-> def]
    ELSE LET a == MApply(k, def, v, boolAssign) IN
         IF a \in range THEN [outcome |-> "accepted", val |-> a] ELSE [outcome |-> "rejected", val |-> def]

\* the fact the model loader produces for one input
MFact(k, def, range, v, boolAssign) ==
    LET l  == MLoad(k, def, range, v, boolAssign)
        l2 == MLoad(k, def, range, l.val, boolAssign)
    IN [section |-> "model", setting |-> k, vkind |-> k, scope |-> "alone",
        skind |-> (CASE k = "int" -> "number" [] k = "string" -> "text" [] k = "list" -> "list-multiaddr" [] OTHER -> k),
        class |-> (CASE v \in {"zero", "absent", "false", "true"} -> v [] v = "malformed" -> "wrongtype"
                     [] k = "int" -> "typ" [] k = "duration" -> "dur" [] k = "string" -> "str" [] OTHER -> "arr-typ"),
        outcome |-> l.outcome, valid |-> (l.val \in range),
        rel |-> (IF l.val = v THEN "same" ELSE IF l.val = def THEN "default" ELSE "other"),
        reload |-> l2.outcome, stable |-> (l2.val = l.val), isdefault |-> (v = def)]
=============================================================================
