SPECIFICATION MCSpec
CONSTANT NPEERS = 2
CONSTANT NCIDS = 2
CONSTANT Variants = {"a","b"}
CONSTANT RestoreMode = "replace"
CONSTANT MaxLog = 3
CONSTANT MaxSnaps = 2
CONSTANT MaxDowns = 1
CONSTANT MaxFaults = 0
CONSTANT MaxInstalls = 2
VIEW View
INVARIANT TypeOK
INVARIANT PrefixInv
INVARIANT CaughtUp
INVARIANT SnapFaithful
INVARIANT AckDurable
INVARIANT TrackerFaithful
PROPERTY Monotonic
