------------------------------ MODULE Persist ------------------------------
(***************************************************************************)
(* C14 - state export/import, Raft snapshots, rotated backups and the      *)
(* peerstore file.                                                         *)
(*                                                                         *)
(* Four small machines, selected by the constant Machine:                  *)
(*                                                                         *)
(*  "xfer"   cmdutils ExportState / ImportState (raft and crdt state       *)
(*           managers) and dsstate Marshal / Unmarshal over abstract       *)
(*           pinsets                                                       *)
(*  "snap"   raft.SnapshotSave -> raft.OfflineState / a raft.Consensus     *)
(*           started on the saved snapshot                                 *)
(*  "rot"    the Raft data directory: data, data.old.0 .. data.old.MAXIDX, *)
(*           raft.CleanupRaft -> dataBackupHelper.makeBackup (rotation),   *)
(*           raft.SnapshotSave (which cleans when a snapshot exists)       *)
(*  "pstore" pstoremgr PeerInfos / SavePeerstore / LoadPeerstore /         *)
(*           ImportPeers                                                   *)
(*                                                                         *)
(* For each machine two things are kept apart on purpose:                  *)
(*   * the TRANSCRIPTION of the code path, as functions / relations over   *)
(*     explicit records (CleanDirs, SaveDirs, ImportResult, LoadExpected,  *)
(*     ...) which the actions below use and PersistTrace evaluates on      *)
(*     (pre, post) pairs recorded from the real code  ("...Conforms"),     *)
(*   * the PROPERTY predicates written from the statement ("...Good").     *)
(* TLC checks exhaustively that every transcribed step is Good; the trace  *)
(* spec evaluates both on what the real code did: ~Good is a violation,    *)
(* Good /\ ~Conforms is transcription drift.                               *)
(*                                                                         *)
(* All values are strings / integers / records so they travel through JSON.*)
(***************************************************************************)
EXTENDS Integers, Sequences, FiniteSets, TLC

CONSTANTS
    Machine,        \* "xfer" | "snap" | "rot" | "pstore"
    CIDS,           \* abstract CIDs, e.g. {"c1","c2","c3"}
    VALS,           \* abstract pin values, e.g. {"vA","vB"}
    MAXIDX,         \* highest backup index modelled (data.old.0 .. data.old.MAXIDX); two-digit in the wide configs
    INITS,          \* rot: the sets of backup indices that may exist initially (subsets of 0..MAXIDX)
    ROTOPS,         \* rot: which operations occur ("save", "clean", "mklogs")
    KEEPS,          \* retention values N (raft Config.BackupsRotate)
    MAXOPS,         \* rot: number of operations per behaviour
    MAXCLEAN,       \* rot: number of snapshot-holding cleans per behaviour
    PEERS,          \* pstore: peers in the address book
    ADDRSETS,       \* pstore: address-kind sets a peer may have
    PRIOS,          \* pstore: priority tags (-1 = no tag)
    JUNK,           \* pstore: kinds of malformed line
    MAXJUNK,        \* pstore: malformed lines inserted per behaviour
    MAXSAVES,       \* snap: snapshots saved per behaviour
    REKEEP,         \* rot: whether the retention value may change between operations
    MAXIMPORTS,     \* xfer: imports into the SAME target state manager per behaviour
    FAULTS,         \* xfer: positions k at which the datastore query under Marshal fails (0 = no fault)
    MarshalStopsOnError, \* as coded: TRUE (Marshal returns the query error; FALSE = log and go on)
    TruncInLock,    \* plock, as coded: TRUE (SavePeerstore creates/truncates the file while holding the lock)
    MAXLOADS,       \* plock: loads per behaviour
    ImportCleans,   \* as coded: TRUE  (ImportState calls Clean first)
    UnmarshalMode,  \* as coded: "replace" (dsstate.Unmarshal removes every existing entry first, since
                    \* commit 2eb6568); "merge" = the former behaviour, kept only as a refutation witness
    LoadSkipsBad    \* as coded after the fix: TRUE (unparsable line skipped)

Range(s) == {s[i] : i \in DOMAIN s}
NoDup(s) == \A i, j \in DOMAIN s : i # j => s[i] # s[j]
Perms(S) == {s \in [1..Cardinality(S) -> S] : \A i, j \in 1..Cardinality(S) : i # j => s[i] # s[j]}
Min(a, b) == IF a < b THEN a ELSE b
MaxOf(S) == CHOOSE x \in S : \A y \in S : y <= x
AnySeq(S) == CHOOSE s \in [1..Cardinality(S) -> S] : Range(s) = S

(***************************************************************************)
(* Pinsets: a pinset is a set of entries [c |-> cid, v |-> value] with at  *)
(* most one entry per cid.  state.Add is datastore Put: insert or replace. *)
(***************************************************************************)
IsPinset(ps) == \A e1, e2 \in ps : e1.c = e2.c => e1 = e2
Add(ps, e)   == {x \in ps : x.c # e.c} \cup {e}
RECURSIVE AddAll(_, _)
AddAll(ps, s) == IF s = <<>> THEN ps ELSE AddAll(Add(ps, Head(s)), Tail(s))

Pinsets == UNION {{{[c |-> x, v |-> f[x]] : x \in D} : f \in [D -> VALS]} : D \in SUBSET CIDS}

(***************************************************************************)
(* (a) export / import, marshal / unmarshal                                *)
(***************************************************************************)
\* exportState: st.List (datastore query order: free), one JSON document per pin
ExportConforms(ps, s) == Len(s) = Cardinality(ps) /\ Range(s) = ps
\* ImportState as coded, both state managers: Clean(); offline state; Add every decoded pin;
\* raft: SnapshotSave of that state, crdt: Commit of the batch.
ImportResult(s, target) == AddAll(IF ImportCleans THEN {} ELSE target, s)
\* dsstate.Unmarshal as coded: delete every existing key of the namespace, then Put every decoded entry
\* ("merge": the former code, no clearing)
UnmarshalResult(s, target) == AddAll(IF UnmarshalMode = "replace" THEN {} ELSE target, s)

\* dsstate.Marshal over a datastore whose query yields an error instead of its k-th result (k = 0: no
\* fault).  order = the query order.  As coded the error is returned (the bytes written so far are
\* useless); "log and go on" would report success with the k-th entry missing.
MarshalHit(order, k) == k > 0 /\ k <= Len(order)
MarshalOutcome(order, k) ==
    IF ~MarshalHit(order, k) THEN [ok |-> TRUE, s |-> order]
    ELSE IF MarshalStopsOnError THEN [ok |-> FALSE, s |-> SubSeq(order, 1, k - 1)]
    ELSE [ok |-> TRUE, s |-> SubSeq(order, 1, k - 1) \o SubSeq(order, k + 1, Len(order))]
\* property: a dump either fails or holds exactly the pinset - never success with fewer pins
MarshalGood(ps, ok, got) == ok => (IsPinset(got) /\ got = ps)

\* property: exporting ps and importing the stream anywhere yields ps
ImportGood(source, result) == IsPinset(result) /\ result = source
ExportGood(ps, s)          == Range(s) = ps /\ Len(s) = Cardinality(ps)

(***************************************************************************)
(* (c) the Raft data directory.  d = [data |-> content, old |-> sequence   *)
(* of MAXIDX+1 contents]; old[i+1] is the folder data.old.i.  A content is *)
(* "absent" (no folder), "nosnap" (folder without snapshot) or the marker  *)
(* of the snapshot in it.                                                  *)
(***************************************************************************)
Absent == "absent"
NoSnap == "nosnap"
HasSnap(c) == c # Absent /\ c # NoSnap

\* dataBackupHelper.listBackups: data.old.0, .1, ... while they exist, at most N
RunLen(d, N) == Cardinality({k \in 1..Min(N, Len(d.old)) : \A j \in 1..k : d.old[j] # Absent})

\* dataBackupHelper.makeBackup (the data folder exists)
MakeBackup(d, N) ==
    LET k == RunLen(d, N)
        \* length of the list after "remove the oldest" (k >= N) or "append a new name" (k < N);
        \* its last name does not exist at this point
        L == IF k >= N THEN k ELSE k + 1
    IN [data |-> Absent,
        old  |-> [j \in 1..Len(d.old) |->
                    IF j = 1 THEN d.data             \* data -> data.old.0
                    ELSE IF j <= L THEN d.old[j - 1]  \* i-1 -> i
                    ELSE d.old[j]]]                  \* not in the list: untouched

\* raft.CleanupRaft
CleanDirs(d, N) ==
    IF HasSnap(d.data) THEN MakeBackup(d, N)
    ELSE [d EXCEPT !.data = Absent]                  \* no snapshot: plain delete, no backup

\* raft.SnapshotSave: CleanupRaft when a snapshot exists, then write the new one
SaveDirs(d, N, m) ==
    LET d1 == IF HasSnap(d.data) THEN CleanDirs(d, N) ELSE d IN [d1 EXCEPT !.data = m]

Backups(d)  == {d.old[j] : j \in 1..Len(d.old)} \ {Absent}
Window(d, N) == {j \in 1..Min(N, Len(d.old)) : d.old[j] # Absent}

\* property of one backup-making step from d to e (e.data is checked by the caller):
BackupGood(d, N, e) ==
    /\ e.old[1] = d.data                                        \* newest backup is old.0, holds the cleaned snapshot
    /\ \A j \in 1..RunLen(d, N) : j + 1 <= N => e.old[j + 1] = d.old[j]   \* older backups shift by one
    /\ (Backups(d) \ Backups(e)) \subseteq                      \* only the oldest within N is discarded
           (IF Window(d, N) = {} THEN {} ELSE {d.old[MaxOf(Window(d, N))]})
    /\ Cardinality(Backups(d) \ Backups(e)) <= 1
    /\ (RunLen(d, N) < N => \A j \in 1..RunLen(d, N) : d.old[j] \in Backups(e))  \* ... and only once N is reached
    /\ Len(e.old) = Len(d.old)
    /\ \A j \in 1..Len(d.old) : j > N => e.old[j] \in {Absent, d.old[j]}  \* at most N: nothing new beyond index N-1

CleanGood(d, N, e) ==
    HasSnap(d.data) => (e.data = Absent /\ BackupGood(d, N, e))
SaveGood(d, N, m, e) ==
    /\ e.data = m
    /\ HasSnap(d.data) => BackupGood(d, N, e)

(***************************************************************************)
(* (d) peerstore file.  A book maps a peer to [addrs |-> set of address    *)
(* kinds, prio |-> priority tag or -1].  A line is [t, p, k]:              *)
(*   t = "addr"  a multiaddress of kind k with /p2p/<p>                    *)
(*   t = "nop2p" a multiaddress without peer id (parses; cannot be         *)
(*               imported)                                                 *)
(*   t = "badma" starts with '/', does not parse                           *)
(*   t = "garbage" / "empty": does not start with '/'                      *)
(*   t = "toolong" a line longer than 64 KiB                               *)
(*   t = "nil"   (observations only) a nil address returned by Load        *)
(***************************************************************************)
IsDNS(k) == k \in {"dns4", "dns6"}
\* string order of the concrete addresses the kinds stand for
Rank(k) == CASE k = "dns4" -> 1 [] k = "dns6" -> 2 [] k = "ip4" -> 3 [] k = "ip4b" -> 4 [] k = "ip6" -> 5 [] OTHER -> 9
Filtered(b, p) == LET D == {k \in b[p].addrs : IsDNS(k)} IN IF D # {} THEN D ELSE b[p].addrs
Prio(b, p)     == IF b[p].prio < 0 THEN 0 ELSE b[p].prio
Listed(b, peers, self) == {p \in peers \cap DOMAIN b : p # self /\ b[p].addrs # {}}
PeerSeq(infos) == [i \in DOMAIN infos |-> infos[i].p]

\* PeerInfos, property level: known peers with addresses, highest priority first (ties free)
InfosGood(infos, b, peers, self) ==
    /\ NoDup(PeerSeq(infos))
    /\ Range(PeerSeq(infos)) = Listed(b, peers, self)
    /\ \A i, j \in DOMAIN infos : i < j => Prio(b, infos[i].p) <= Prio(b, infos[j].p)
    /\ \A i \in DOMAIN infos : /\ NoDup(infos[i].addrs)
                               /\ Range(infos[i].addrs) # {}
                               /\ Range(infos[i].addrs) \subseteq b[infos[i].p].addrs
\* PeerInfos as coded: DNS addresses shadow the others; non-DNS addresses sorted by string
InfosConforms(infos, b, peers, self) ==
    /\ InfosGood(infos, b, peers, self)
    /\ \A i \in DOMAIN infos :
          /\ Range(infos[i].addrs) = Filtered(b, infos[i].p)
          /\ (\A k \in Range(infos[i].addrs) : ~IsDNS(k)) =>
                \A x, y \in DOMAIN infos[i].addrs : x < y => Rank(infos[i].addrs[x]) < Rank(infos[i].addrs[y])

RECURSIVE FileOf(_)
FileOf(infos) ==
    IF infos = <<>> THEN <<>>
    ELSE [i \in DOMAIN Head(infos).addrs |-> [t |-> "addr", p |-> Head(infos).p, k |-> Head(infos).addrs[i]]]
         \o FileOf(Tail(infos))

IsAddr(l)     == l.t = "addr"
Parses(l)     == l.t \in {"addr", "nop2p"}
StartsSlash(l) == l.t \in {"addr", "nop2p", "badma"}
NilLine       == [t |-> "nil", p |-> "", k |-> ""]
\* LoadPeerstore as coded.  The file is read with a bufio.Scanner, which gives up at the first line
\* longer than 64 KiB (t = "toolong"): nothing from that line on is read.
MinOf(S) == CHOOSE x \in S : \A y \in S : x <= y
Readable(file) ==
    LET long == {i \in DOMAIN file : file[i].t = "toolong"}
    IN IF long = {} THEN file ELSE SubSeq(file, 1, MinOf(long) - 1)
LoadExpected(file) ==
    IF LoadSkipsBad THEN SelectSeq(Readable(file), Parses)
    ELSE LET f == SelectSeq(Readable(file), StartsSlash) IN [i \in DOMAIN f |-> IF Parses(f[i]) THEN f[i] ELSE NilLine]
\* property: same addresses, same order, malformed lines skipped, not fatal
LoadGood(file, loaded, fatal) ==
    /\ ~fatal
    /\ \A i \in DOMAIN loaded : Parses(loaded[i])
    /\ SelectSeq(loaded, IsAddr) = SelectSeq(file, IsAddr)

\* ImportPeers: address i gets added to its peer, the peer's priority tag becomes i (0-based);
\* our own addresses are not added; an address without peer id is an error and skipped.
AddrIdx(loaded, p) == {i \in DOMAIN loaded : IsAddr(loaded[i]) /\ loaded[i].p = p}
PeersIn(loaded)    == {loaded[i].p : i \in {j \in DOMAIN loaded : IsAddr(loaded[j])}}
ImportBook(loaded, self2) ==
    [p \in PeersIn(loaded) |->
        [addrs |-> IF p = self2 THEN {} ELSE {loaded[i].k : i \in AddrIdx(loaded, p)},
         prio  |-> MaxOf(AddrIdx(loaded, p)) - 1]]
\* every peer's lines are adjacent (true of every file SavePeerstore writes)
Contiguous(loaded) ==
    \A p \in PeersIn(loaded) : \A i, j \in AddrIdx(loaded, p) : \A x \in i..j : IsAddr(loaded[x]) => loaded[x].p = p
\* order of first appearance of the peers other than self2
RECURSIVE FirstSeen(_, _)
FirstSeen(s, seen) ==
    IF s = <<>> THEN <<>>
    ELSE IF IsAddr(Head(s)) /\ Head(s).p \notin seen
         THEN <<Head(s).p>> \o FirstSeen(Tail(s), seen \cup {Head(s).p})
         ELSE FirstSeen(Tail(s), seen)
\* property: after importing, the peers come back in the file's order with the file's addresses
ImportPeersGood(loaded, infos2, self2, fatal) ==
    /\ ~fatal
    /\ Contiguous(loaded) =>
         /\ PeerSeq(infos2) = FirstSeen(loaded, {self2})
         /\ \A i \in DOMAIN infos2 :
               Range(infos2[i].addrs) = {loaded[x].k : x \in AddrIdx(loaded, infos2[i].p)}
ImportPeersConforms(loaded, infos2, self2) ==
    InfosConforms(infos2, ImportBook(loaded, self2), PeersIn(loaded), self2)

(***************************************************************************)
(* State machines                                                          *)
(***************************************************************************)
VARIABLES
    \* (a) xfer
    src,        \* pinset of the source state
    tgt0,       \* pinset the target held initially ("whatever was there")
    tgt,        \* pinset of the target
    stream,     \* exported / marshalled sequence of entries
    xst,        \* "init" | "exported" | "imported" | "reexported" | "marshalled" | "marshalfailed" | "unmarshalled"
    nimp,       \* imports done into the target (all through the same state manager)
    fault,      \* position at which the datastore query under Marshal fails (0: never)
    \* (b) snap
    nsaved,     \* snapshots saved so far
    disk,       \* [has |-> BOOLEAN, ps |-> pinset, idx, term] latest snapshot in the data folder
    offl,       \* [valid |-> BOOLEAN, ps |-> pinset] last raft.OfflineState result
    peer,       \* [up |-> BOOLEAN, ps |-> pinset] state of a raft.Consensus started on the folder
    \* (c) rot
    dirs, keep, nsave, nclean, nops,
    \* (d) pstore
    book, infos, file, loaded, infos2, pst, fatal, njunk,
    \* (e) plock: SavePeerstore / LoadPeerstore running concurrently on one Manager
    cfile,      \* the peerstore file: sequence of lines
    clock,      \* peerstoreLock: "free" or the process holding it
    cpc,        \* process -> program counter
    coff,       \* saver -> offset of its file descriptor (lines written)
    cres,       \* set of results LoadPeerstore returned so far
    nloads

xvars == <<src, tgt0, tgt, stream, xst, nimp, fault>>
svars == <<nsaved, disk, offl, peer>>
rvars == <<dirs, keep, nsave, nclean, nops>>
pvars == <<book, infos, file, loaded, infos2, pst, fatal, njunk>>
cvars == <<cfile, clock, cpc, coff, cres, nloads>>
vars  == <<xvars, svars, rvars, pvars, cvars>>

NoDisk  == [has |-> FALSE, ps |-> {}, idx |-> 0, term |-> 0]
XIdle == src = {} /\ tgt0 = {} /\ tgt = {} /\ stream = <<>> /\ xst = "off" /\ nimp = 0 /\ fault = 0
CIdle == cfile = <<>> /\ clock = "free" /\ cpc = <<>> /\ coff = <<>> /\ cres = {} /\ nloads = 0
SIdle == nsaved = 0 /\ disk = NoDisk /\ offl = [valid |-> FALSE, ps |-> {}] /\ peer = [up |-> FALSE, ps |-> {}]
RIdle == dirs = [data |-> Absent, old |-> [j \in 1..MAXIDX + 1 |-> Absent]] /\ keep = 1 /\ nsave = 0 /\ nclean = 0 /\ nops = 0
PIdle == book = <<>> /\ infos = <<>> /\ file = <<>> /\ loaded = <<>> /\ infos2 = <<>> /\ pst = "off" /\ fatal = FALSE /\ njunk = 0

---------------------------------------------------------------------------
\* (a)
XInit == /\ src \in Pinsets /\ tgt0 \in Pinsets /\ tgt = tgt0 /\ stream = <<>> /\ xst = "init"
         /\ nimp = 0 /\ fault \in FAULTS
Export ==           \* ExportState on some other peer holding src
    /\ Machine = "xfer" /\ UNCHANGED <<svars, rvars, pvars, cvars>>
    /\ xst = "init" /\ fault = 0
    /\ stream' \in {s \in Perms(src) : ExportConforms(src, s)}
    /\ xst' = "exported" /\ UNCHANGED <<src, tgt0, tgt, nimp, fault>>
Import ==           \* ImportState on the target's state manager
    /\ Machine = "xfer" /\ UNCHANGED <<svars, rvars, pvars, cvars>>
    /\ xst = "exported"
    /\ tgt' = ImportResult(stream, tgt)
    /\ nimp' = nimp + 1
    /\ xst' = "imported" /\ UNCHANGED <<src, tgt0, stream, fault>>
ReExport ==         \* ExportState on the SAME manager that just imported
    /\ Machine = "xfer" /\ UNCHANGED <<svars, rvars, pvars, cvars>>
    /\ xst = "imported"
    /\ stream' \in {s \in Perms(tgt) : ExportConforms(tgt, s)}
    /\ xst' = "reexported" /\ UNCHANGED <<src, tgt0, tgt, nimp, fault>>
NextSource ==       \* a different pinset gets exported somewhere and imported into the same target again
    /\ Machine = "xfer" /\ UNCHANGED <<svars, rvars, pvars, cvars>>
    /\ xst \in {"imported", "reexported"} /\ nimp < MAXIMPORTS
    /\ src' \in Pinsets \ {src}
    /\ stream' = <<>> /\ xst' = "init" /\ UNCHANGED <<tgt0, tgt, nimp, fault>>
Marshal ==
    /\ Machine = "xfer" /\ UNCHANGED <<svars, rvars, pvars, cvars>>
    /\ xst = "init" /\ nimp = 0
    /\ \E order \in Perms(src) :
          LET o == MarshalOutcome(order, fault) IN
          /\ stream' = o.s
          /\ xst' = IF o.ok THEN "marshalled" ELSE "marshalfailed"
    /\ UNCHANGED <<src, tgt0, tgt, nimp, fault>>
Unmarshal ==
    /\ Machine = "xfer" /\ UNCHANGED <<svars, rvars, pvars, cvars>>
    /\ xst = "marshalled"
    /\ tgt' = UnmarshalResult(stream, tgt)
    /\ xst' = "unmarshalled" /\ UNCHANGED <<src, tgt0, stream, nimp, fault>>
XNext == Export \/ Import \/ ReExport \/ NextSource \/ Marshal \/ Unmarshal

ExportLaw       == /\ xst = "exported" => ExportGood(src, stream)
                   /\ xst = "reexported" => ExportGood(tgt, stream)
\* a successful Marshal holds the whole pinset (refuted by TLC for MarshalStopsOnError = FALSE)
MarshalLaw      == xst = "marshalled" => MarshalGood(src, TRUE, Range(stream))
ImportLaw       == xst \in {"imported", "reexported"} => ImportGood(src, tgt)    \* after EVERY import on the manager
SerialLawFresh  == (xst = "unmarshalled" /\ tgt0 = {}) => ImportGood(src, tgt)
SerialLawAny    == xst = "unmarshalled" => ImportGood(src, tgt)       \* required; refuted by TLC for "merge"

---------------------------------------------------------------------------
\* (b)
SInit == SIdle
SnapSave(ps) ==
    /\ Machine = "snap" /\ UNCHANGED <<xvars, rvars, pvars, cvars>>
    /\ nsaved < MAXSAVES
    /\ disk' = [has |-> TRUE, ps |-> ps,
                \* no snapshot: index 2, term 1 ("begin the log after the index of a fresh start");
                \* otherwise index and term are copied from the existing snapshot
                idx |-> IF disk.has THEN disk.idx ELSE 2, term |-> IF disk.has THEN disk.term ELSE 1]
    /\ nsaved' = nsaved + 1
    /\ offl' = [valid |-> FALSE, ps |-> {}] /\ peer' = [up |-> FALSE, ps |-> {}]
Offline ==
    /\ Machine = "snap" /\ UNCHANGED <<xvars, rvars, pvars, cvars>>
    /\ ~offl.valid
    /\ offl' = [valid |-> TRUE, ps |-> IF disk.has THEN disk.ps ELSE {}]
    /\ UNCHANGED <<nsaved, disk, peer>>
\* hraft restores the newest snapshot into the FSM (FSM.Restore = dsstate.Unmarshal).  The daemon gives
\* Raft an empty in-memory store; the restore must not depend on that, so the store may also hold a
\* stray pin when there is a snapshot to restore.
StrayStores == {{}, {[c |-> "c9", v |-> "vS"]}}
StartPeer ==
    /\ Machine = "snap" /\ UNCHANGED <<xvars, rvars, pvars, cvars>>
    /\ ~peer.up
    /\ \E st0 \in StrayStores :
          /\ st0 # {} => disk.has
          /\ peer' = [up |-> TRUE, ps |-> IF disk.has THEN UnmarshalResult(AnySeq(disk.ps), st0) ELSE st0]
    /\ UNCHANGED <<nsaved, disk, offl>>
SNext == (\E ps \in Pinsets : SnapSave(ps)) \/ Offline \/ StartPeer

SnapGood(saved, got) == IsPinset(got) /\ got = saved
OfflineLaw == offl.valid => SnapGood(disk.ps, offl.ps)
PeerLaw    == peer.up => SnapGood(disk.ps, peer.ps)

---------------------------------------------------------------------------
\* (c)
Marker(i) == "s" \o ToString(i)
RInit ==
    /\ keep \in KEEPS
    /\ \E S \in INITS :
          dirs = [data |-> Absent, old |-> [j \in 1..MAXIDX + 1 |-> IF (j - 1) \in S THEN "b" \o ToString(j - 1) ELSE Absent]]
    /\ nsave = 0 /\ nclean = 0 /\ nops = 0
RotSave ==
    /\ Machine = "rot" /\ UNCHANGED <<xvars, svars, pvars, cvars>>
    /\ "save" \in ROTOPS /\ nops < MAXOPS
    /\ HasSnap(dirs.data) => nclean < MAXCLEAN
    /\ dirs' = SaveDirs(dirs, keep, Marker(nsave + 1))
    /\ nsave' = nsave + 1 /\ nops' = nops + 1
    /\ nclean' = IF HasSnap(dirs.data) THEN nclean + 1 ELSE nclean
    /\ UNCHANGED keep
RotClean ==
    /\ Machine = "rot" /\ UNCHANGED <<xvars, svars, pvars, cvars>>
    /\ "clean" \in ROTOPS /\ nops < MAXOPS
    /\ HasSnap(dirs.data) => nclean < MAXCLEAN
    /\ dirs' = CleanDirs(dirs, keep)
    /\ nops' = nops + 1
    /\ nclean' = IF HasSnap(dirs.data) THEN nclean + 1 ELSE nclean
    /\ UNCHANGED <<keep, nsave>>
RotMkLogs ==                      \* a data folder with Raft logs but no snapshot appears
    /\ Machine = "rot" /\ UNCHANGED <<xvars, svars, pvars, cvars>>
    /\ "mklogs" \in ROTOPS /\ nops < MAXOPS
    /\ dirs.data = Absent
    /\ dirs' = [dirs EXCEPT !.data = NoSnap]
    /\ nops' = nops + 1
    /\ UNCHANGED <<keep, nsave, nclean>>
RotRekeep ==                      \* the operator edits backups_rotate between runs
    /\ Machine = "rot" /\ UNCHANGED <<xvars, svars, pvars, cvars>>
    /\ REKEEP /\ nops < MAXOPS /\ nops > 0
    /\ keep' \in KEEPS \ {keep}
    /\ nops' = nops + 1
    /\ UNCHANGED <<dirs, nsave, nclean>>
RNext == RotSave \/ RotClean \/ RotMkLogs \/ RotRekeep

\* step properties (action formulas, checked as [][...]_rvars)
RotCleanStep == RotClean => CleanGood(dirs, keep, dirs')
RotSaveStep  == RotSave => SaveGood(dirs, keep, Marker(nsave + 1), dirs')
\* a snapshot that was cleaned is never lost while it is among the newest N backups:
\* every marker is in the data folder or in some backup folder, or was rotated out
RotTypeOK == \A j \in 1..MAXIDX + 1 : \A i \in 1..MAXIDX + 1 :
                (i # j /\ dirs.old[i] # Absent) => dirs.old[i] # dirs.old[j]

---------------------------------------------------------------------------
\* (d)
PSelf == "p1"
Loader == "q"
PInit ==
    /\ book \in [PEERS -> [addrs : ADDRSETS, prio : PRIOS]]
    /\ infos = <<>> /\ file = <<>> /\ loaded = <<>> /\ infos2 = <<>>
    /\ pst = "init" /\ fatal = FALSE /\ njunk = 0
\* every duplicate-free sequence over a subset of some address set
AddrSeqs == UNION {Perms(B) : B \in UNION {SUBSET A : A \in ADDRSETS}}
PSave ==            \* Cluster shutdown: SavePeerstoreForPeers(all peers)
    /\ Machine = "pstore" /\ UNCHANGED <<xvars, svars, rvars, cvars>>
    /\ pst = "init"
    /\ \E li \in {s \in Perms(Listed(book, PEERS, PSelf)) :
                     \A i, j \in DOMAIN s : i < j => Prio(book, s[i]) <= Prio(book, s[j])} :
         \E ad \in [Listed(book, PEERS, PSelf) -> AddrSeqs] :
            LET is == [i \in DOMAIN li |-> [p |-> li[i], addrs |-> ad[li[i]]]] IN
            /\ InfosConforms(is, book, PEERS, PSelf)
            /\ infos' = is
            /\ file' = FileOf(is)
    /\ pst' = "saved" /\ UNCHANGED <<book, loaded, infos2, fatal, njunk>>
PCorrupt ==         \* somebody edits the file
    /\ Machine = "pstore" /\ UNCHANGED <<xvars, svars, rvars, cvars>>
    /\ pst = "saved" /\ njunk < MAXJUNK
    /\ \E i \in 0..Len(file), j \in JUNK :
          file' = SubSeq(file, 1, i) \o <<[t |-> j, p |-> "", k |-> ""]>> \o SubSeq(file, i + 1, Len(file))
    /\ njunk' = njunk + 1 /\ UNCHANGED <<book, infos, loaded, infos2, pst, fatal>>
PLoad ==
    /\ Machine = "pstore" /\ UNCHANGED <<xvars, svars, rvars, cvars>>
    /\ pst = "saved"
    /\ loaded' = LoadExpected(file)
    /\ pst' = "loaded" /\ UNCHANGED <<book, infos, file, infos2, fatal, njunk>>
PImport ==          \* a fresh peer: ImportPeersFromPeerstore, then PeerInfos of everybody
    /\ Machine = "pstore" /\ UNCHANGED <<xvars, svars, rvars, cvars>>
    /\ pst = "loaded"
    /\ IF \E i \in DOMAIN loaded : loaded[i].t = "nil"
       THEN fatal' = TRUE /\ infos2' = <<>>          \* nil multiaddress dereferenced
       ELSE /\ fatal' = FALSE
            /\ \E li \in Perms(Listed(ImportBook(loaded, Loader), PeersIn(loaded), Loader)) :
                 \E ad \in [Range(li) -> AddrSeqs] :
                    LET is == [i \in DOMAIN li |-> [p |-> li[i], addrs |-> ad[li[i]]]] IN
                    /\ ImportPeersConforms(loaded, is, Loader)
                    /\ infos2' = is
    /\ pst' = "imported" /\ UNCHANGED <<book, infos, file, loaded, njunk>>
PNext == PSave \/ PCorrupt \/ PLoad \/ PImport

SaveLaw   == pst # "init" => InfosGood(infos, book, PEERS, PSelf)
LoadLaw   == pst \in {"loaded", "imported"} => LoadGood(file, loaded, FALSE)
\* the statement's round trip: same addresses, same priority order
RoundTrip == pst = "imported" =>
               /\ ImportPeersGood(loaded, infos2, Loader, fatal)
               /\ PeerSeq(infos2) = PeerSeq(infos)
               /\ \A i \in DOMAIN infos2 : Range(infos2[i].addrs) = Range(infos[i].addrs)
NotFatal  == ~fatal

---------------------------------------------------------------------------
\* (e) SavePeerstore and LoadPeerstore of ONE pstoremgr.Manager running concurrently.
\*   SavePeerstore: Lock; os.Create (truncate, own descriptor at offset 0); one Write per address; Unlock
\*   LoadPeerstore: Lock; open and read the whole file; Unlock
\* TruncInLock = FALSE is the variant that creates the file before taking the lock.
CLists == [A |-> <<"a1", "a2">>, B |-> <<"b1", "b2", "b3">>, Z |-> <<"z1">>]
Savers == {"A", "B"}
CInit ==
    /\ cfile = CLists.Z /\ clock = "free"
    /\ cpc = [p \in Savers \cup {"L"} |-> "start"]
    /\ coff = [p \in Savers |-> 0]
    /\ cres = {} /\ nloads = 0
\* a Write of one line through a descriptor at line offset o (holes read back as "?")
WriteAt(f, o, l) ==
    IF o < Len(f) THEN [f EXCEPT ![o + 1] = l]
    ELSE f \o [i \in 1..(o - Len(f)) |-> "?"] \o <<l>>
CTrunc(p) == cfile' = <<>> /\ coff' = [coff EXCEPT ![p] = 0]
CSaveLock(p) ==
    /\ Machine = "plock" /\ UNCHANGED <<xvars, svars, rvars, pvars>>
    /\ p \in Savers /\ cpc[p] = (IF TruncInLock THEN "start" ELSE "created") /\ clock = "free"
    /\ clock' = p
    /\ IF TruncInLock THEN CTrunc(p) ELSE UNCHANGED <<cfile, coff>>
    /\ cpc' = [cpc EXCEPT ![p] = "writing"] /\ UNCHANGED <<cres, nloads>>
CSaveCreateEarly(p) ==        \* only in the variant: truncate without holding the lock
    /\ Machine = "plock" /\ UNCHANGED <<xvars, svars, rvars, pvars>>
    /\ ~TruncInLock /\ p \in Savers /\ cpc[p] = "start"
    /\ CTrunc(p)
    /\ cpc' = [cpc EXCEPT ![p] = "created"] /\ UNCHANGED <<clock, cres, nloads>>
CSaveWrite(p) ==
    /\ Machine = "plock" /\ UNCHANGED <<xvars, svars, rvars, pvars>>
    /\ p \in Savers /\ cpc[p] = "writing" /\ coff[p] < Len(CLists[p])
    /\ cfile' = WriteAt(cfile, coff[p], CLists[p][coff[p] + 1])
    /\ coff' = [coff EXCEPT ![p] = @ + 1]
    /\ UNCHANGED <<clock, cpc, cres, nloads>>
CSaveUnlock(p) ==
    /\ Machine = "plock" /\ UNCHANGED <<xvars, svars, rvars, pvars>>
    /\ p \in Savers /\ cpc[p] = "writing" /\ coff[p] = Len(CLists[p])
    /\ clock' = "free" /\ cpc' = [cpc EXCEPT ![p] = "done"]
    /\ UNCHANGED <<cfile, coff, cres, nloads>>
CLoadLock ==
    /\ Machine = "plock" /\ UNCHANGED <<xvars, svars, rvars, pvars>>
    /\ cpc["L"] = "start" /\ clock = "free" /\ nloads < MAXLOADS
    /\ clock' = "L" /\ cpc' = [cpc EXCEPT !["L"] = "reading"]
    /\ UNCHANGED <<cfile, coff, cres, nloads>>
CLoadRead ==
    /\ Machine = "plock" /\ UNCHANGED <<xvars, svars, rvars, pvars>>
    /\ cpc["L"] = "reading"
    /\ cres' = cres \cup {cfile} /\ nloads' = nloads + 1
    /\ clock' = "free" /\ cpc' = [cpc EXCEPT !["L"] = "start"]
    /\ UNCHANGED <<cfile, coff>>
CNext == (\E p \in Savers : CSaveLock(p) \/ CSaveCreateEarly(p) \/ CSaveWrite(p) \/ CSaveUnlock(p)) \/ CLoadLock \/ CLoadRead

\* property (statement: the file reads back as the same addresses in the same order): a load never
\* returns a torn list - it is exactly the initial content or one saved list, whole
WholeLists == {CLists[k] : k \in DOMAIN CLists}
NoTornLoad == cres \subseteq WholeLists
FinalFile  == (\A p \in Savers : cpc[p] = "done") => cfile \in {CLists[p] : p \in Savers}
\* the same predicate on a result projected to segments [l |-> list, from, to] (PersistTrace):
WholeSegs(segs, sizes) ==
    /\ Len(segs) = 1
    /\ segs[1].l \in DOMAIN sizes
    /\ segs[1].from = 1 /\ segs[1].to = sizes[segs[1].l]

---------------------------------------------------------------------------
Init ==
    \/ Machine = "xfer"   /\ XInit /\ SIdle /\ RIdle /\ PIdle /\ CIdle
    \/ Machine = "snap"   /\ SInit /\ XIdle /\ RIdle /\ PIdle /\ CIdle
    \/ Machine = "rot"    /\ RInit /\ XIdle /\ SIdle /\ PIdle /\ CIdle
    \/ Machine = "pstore" /\ PInit /\ XIdle /\ SIdle /\ RIdle /\ CIdle
    \/ Machine = "plock"  /\ CInit /\ XIdle /\ SIdle /\ RIdle /\ PIdle
Next == XNext \/ SNext \/ RNext \/ PNext \/ CNext
Spec == Init /\ [][Next]_vars

RotSteps == [][RotCleanStep /\ RotSaveStep]_vars
=============================================================================
