SPECIFICATION Spec
