SPECIFICATION Spec
CONSTANT BoolAssign = "ifnotdefault"
INVARIANT LawsHold
INVARIANT DefaultIsValid
