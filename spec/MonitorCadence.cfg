SPECIFICATION Spec
CONSTANTS
  TTLS = {4, 8, 400, 30000}
  INTERVALS = {1, 3, 300, 15000}
  HalfDiv = 2
  QuarterDiv = 4
  PingMul = 2
  MaxErrInf = 1
  MaxErrPing = 0
  MaxBurst = 11
INVARIANT Cadence
INVARIANT Resume
