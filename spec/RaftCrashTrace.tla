--------------------------- MODULE RaftCrashTrace ---------------------------
(***************************************************************************)
(* Trace validation for C01 seam 3 (harness/c01_crash).  TRACE_FILE is     *)
(* NDJSON: many runs concatenated, each starting with {"ev":"reset"}.      *)
(* Logged: submit / ack / err / kill (SIGKILL delivered and process        *)
(* reaped) / restart (new process on the same data folder) / ready         *)
(* (Consensus.Ready fired) / obs (Consensus.State().List() of a ready      *)
(* peer).  NOT logged: Commit and Apply - TLC infers them (silent steps),  *)
(* i.e. whether an op in flight at a kill reached the log.  Snapshot is    *)
(* not observable and left out here (RaftCrash's exhaustive run shows      *)
(* PrefixInv for every snapshot choice).                                   *)
(* Acceptance: some behaviour consumes every line (high-water mark in TLC  *)
(* register 1; run with ONE worker).                                       *)
(***************************************************************************)
EXTENDS RaftCrash, Json, IOUtils, TLC

Trace == ndJsonDeserialize(IOEnv.TRACE_FILE)
VARIABLE l
tvars == <<vars, l>>
Ev == Trace[l]
Is(name) == l <= Len(Trace) /\ Ev.ev = name /\ l' = l + 1
Hw == TLCSet(1, IF l + 1 > TLCGet(1) THEN l + 1 ELSE TLCGet(1))   \* last conjunct of every event action

TraceInit == l = 1 /\ Init /\ TLCSet(1, 1)

TReset   == /\ Is("reset")
            /\ sub' = <<>> /\ log' = <<>> /\ acked' = {} /\ pending' = {} /\ up' = TRUE /\ ready' = TRUE
            /\ fsm' = Empty /\ applied' = 0 /\ snapIdx' = 0 /\ snapFsm' = Empty /\ Hw
TSubmit  == Is("submit") /\ Ev.id = Len(sub) + 1 /\ Submit(Ev.typ, Ev.cid) /\ Hw
TAck     == Is("ack") /\ Ack(Ev.id) /\ Hw
TErr     == Is("err") /\ UNCHANGED vars /\ Hw       \* the call failed: the op may or may not get committed
TKill    == Is("kill") /\ Kill /\ Hw
TRestart == Is("restart") /\ Restart /\ Hw
TReady   == Is("ready") /\ BecomeReady /\ Hw
TObs     == /\ Is("obs") /\ ready /\ Ev.extra = 0
            /\ \A c \in CIDS : Ev.state[c] = fsm[c]
            /\ UNCHANGED vars /\ Hw
Silent   == /\ l <= Len(Trace) /\ l' = l
            /\ ((\E id \in pending : Commit(id)) \/ Apply)

TraceNext == TReset \/ TSubmit \/ TAck \/ TErr \/ TKill \/ TRestart \/ TReady \/ TObs \/ Silent
TraceSpec == TraceInit /\ [][TraceNext]_tvars

TraceAccepted ==
    IF TLCGet(1) = Len(Trace) + 1 THEN TRUE
    ELSE Print(<<"TRACE-REJECT line=", TLCGet(1), "of", Len(Trace)>>, FALSE)
=============================================================================
