----------------------------- MODULE ProxyMC -----------------------------
(* Exhaustive design check for C12 and case generator.                    *)
(*  - every request class is an initial state; the invariants say that    *)
(*    the observation the transcription predicts (ObsOf) satisfies the    *)
(*    property statement (Good) and, as a sanity check of the two         *)
(*    formulations, Conforms;                                             *)
(*  - the ASSUME writes every request class to env CASES_FILE (NDJSON),   *)
(*    which the Go driver concretises and sends through the real proxy.   *)
EXTENDS Proxy, Json, IOUtils

VARIABLE req

O(r) == ObsOf(r, World(r.world))

ASSUME IOEnv.CASES_FILE = "" \/ ndJsonSerialize(IOEnv.CASES_FILE, SetToSeq(Requests \cup UncleanRequests))

Init == req \in Requests
Next == UNCHANGED req
Spec == Init /\ [][Next]_req

PropertyHolds == Good(req, O(req))
Transcription == Conforms(req, O(req))
\* the parts of Good, separately (each is implied by PropertyHolds)
InvHijackExact    == HijackExact(req, O(req))
InvNeverLeaks     == HijackPath(req) /\ Hijacked(req) => NeverLeaks(req, O(req))
InvErrorMeansNoOp == HijackPath(req) /\ Hijacked(req) => ErrorMeansNoOp(req, O(req))
InvFaithful       == HijackPath(req) /\ Hijacked(req) => Faithful(req, O(req))
InvRelayIdentity  == ~Hijacked(req) => IF Reachable(req) THEN Relayed(req, O(req)) ELSE RelayDown(req, O(req))
=============================================================================
