---------------------------- MODULE IPFSConnMC ----------------------------
(* Exhaustive design check for C16: every call (operation, mode, update    *)
(* source, origins, prior pin table, interference) against every choice of *)
(* daemon behaviour per request.  Gen = TRUE additionally prints one CASE  *)
(* line per terminal state (the replay scripts for the real connector).    *)
EXTENDS IPFSConn

CONSTANTS NOrigs, Intfs, Gen

Init == \E i \in {x \in Inputs(NOrigs, Intfs) : Relevant(x)} : InitWith(i, Free)
Spec == Init /\ [][Next]_vars /\ WF_vars(Next)

Behs == [j \in DOMAIN reqs |-> reqs[j].beh]
GenCases == (Gen /\ Done) => PrintT(<<"CASE", inp, Behs>>)

\* every call ends (with the watchdog tick as a fair action)
Termination == <>Done
=============================================================================
