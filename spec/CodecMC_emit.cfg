SPECIFICATION Spec
CONSTANT T = 3
INVARIANT InDomain
INVARIANT Idempotent
INVARIANT DocumentedLossOnly
INVARIANT ExportComposes
INVARIANT ProjAccepted
INVARIANT Emit
