--------------------------- MODULE GlobalStatus ---------------------------
(***************************************************************************)
(* C06, cluster-wide view (Cluster.Status / Cluster.StatusAll in           *)
(* cluster.go: globalPinInfoCid / globalPinInfoSlice).                     *)
(*                                                                         *)
(* A situation: members, for each CID its allocation (a set of peers, or   *)
(* "everywhere"), which members are reachable, and what each member's pin  *)
(* tracker reports for the CID.  The view is the peer map returned.        *)
(*                                                                         *)
(* Statement: a peer appears at most once per CID (structural: a map);     *)
(* allocated peers carry their own report, or cluster_error if             *)
(* unreachable; other members are remote.                                  *)
(***************************************************************************)
EXTENDS Integers, Sequences, FiniteSets, TLC

Rng(s) == {s[i] : i \in DOMAIN s}

\* sit = [members: seq, everywhere: BOOLEAN, allocs: seq, down: seq, report: [peer -> status], inpinset: BOOLEAN]
Allocated(sit) == IF sit.everywhere THEN Rng(sit.members) ELSE Rng(sit.allocs)

\* --- the statement, per CID view (view: [peer -> status], a record) ---
ViewGood(sit, view) ==
    IF ~sit.inpinset
    THEN \* not in the pinset: unpinned on every member (or absent from a listing)
         \A p \in DOMAIN view : view[p] = "unpinned"
    ELSE
      /\ \A p \in Allocated(sit) :
            /\ p \in DOMAIN view
            /\ view[p] = IF p \in Rng(sit.down) THEN "cluster_error" ELSE sit.report[p]
      /\ \A p \in Rng(sit.members) \ Allocated(sit) :
            p \in DOMAIN view /\ view[p] = "remote"
      /\ DOMAIN view \subseteq (Rng(sit.members) \cup Allocated(sit))

\* --- transcription of globalPinInfoCid (Status of one CID) ---
StatusView(sit) ==
    IF ~sit.inpinset THEN [p \in Rng(sit.members) |-> "unpinned"]
    ELSE [p \in Rng(sit.members) \cup Allocated(sit) |->
            IF p \in Allocated(sit)
              THEN (IF p \in Rng(sit.down) THEN "cluster_error" ELSE sit.report[p])
              ELSE "remote"]

\* --- transcription of globalPinInfoSlice (StatusAll): every member is asked for its
\* --- whole listing; an unreachable member is cluster_error for every listed CID
StatusAllView(sit) ==
    [p \in Rng(sit.members) |->
        IF p \in Rng(sit.down) THEN "cluster_error"
        ELSE IF p \in Allocated(sit) THEN sit.report[p] ELSE "remote"]
=============================================================================
