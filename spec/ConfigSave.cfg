SPECIFICATION Spec
CONSTANT Savers = {"a", "b"}
CONSTANT MaxChanges = 2
CONSTANT SerialiseInLock = TRUE
INVARIANT NoLostUpdate
INVARIANT MutualExclusion
