----------------------- MODULE ClusterAPIRepinTrace -----------------------
(* C10: evaluates the property predicates (per pin: RehomeCidOK /          *)
(* ExpiryCidOK; per episode: NeverRemoved frame) and the transcription     *)
(* predicates (per event) on episodes recorded from N real Cluster         *)
(* instances sharing one pinset (NDJSON file named by env TRACE_FILE);     *)
(* writes one verdict record per episode to env VERDICT_FILE.              *)
EXTENDS ClusterAPIRepin, Json, IOUtils

Recs == ndJsonDeserialize(IOEnv.TRACE_FILE)

EvOK(w, e) ==
    LET ps == Range(e.ps) ps2 == Range(e.ps2) mem == Range(e.members) IN
    /\ e.other = <<>>                                   \* nobody else acted meanwhile
    /\ CASE e.kind = "alert"  -> /\ AlertStepOK(w, mem, e.at, e.failed, e.metric, ps, ps2, e.log)
                                 \* the handler goroutine ends at the first ping alert when repinning is disabled
                                 /\ (AlertKind(w, e.at, e.metric) = "die" => ~e.barrier)
                                 /\ (AlertKind(w, e.at, e.metric) = "repin" => e.barrier)
        [] e.kind = "remove" -> VacateStepOK(w, e.at, e.failed, ps, ps2, e.log) /\ e.failed \notin Range(e.members2)
        [] e.kind = "sync"   -> SyncStepOK(w, mem, e.at, ps, ps2, e.log)
        [] e.kind = "alerts" -> /\ AlertsStepOK(w, mem, e.failed, e.metric, ps, ps2, e.logs, Range(e.peers))
                                /\ \A p \in Range(e.peers) :
                                      /\ (AlertKind(w, p, e.metric) = "die" => ~e.seen[p])
                                      /\ (AlertKind(w, p, e.metric) = "repin" => e.seen[p])
        [] e.kind = "syncs"  -> SyncsStepOK(w, mem, ps, ps2, e.logs, Range(e.peers))

TagLog(log, p) == [i \in DOMAIN log |-> [by |-> p, kind |-> log[i][1], cid |-> log[i][2]]]
\* two removals in a row: each judged as a removal of its own, the second one in the world without the first peer
Verdict2(r) ==
    LET e1 == r.events[1] e2 == r.events[2]
        w2 == WAfter(r.w, r.ep.failed)
        a1 == TagLog(e1.log, e1.at) a2 == TagLog(e2.log, e2.at) IN
    [id |-> r.id,
     frame |-> RehomeFrameOK(Range(r.ps0), r.acts, Range(r.psF)) /\ SamePs(Range(e1.ps2), Range(e2.ps)),
     badcids |-> {e.cid : e \in {x \in Range(e1.ps) : ~RehomeCidOK(r.w, Step1(r.ep), a1, Range(e1.ps2), x)}}
                 \cup {e.cid : e \in {x \in Range(e2.ps) : ~RehomeCidOK(w2, Step2(r.ep), a2, Range(e2.ps2), x)}},
     drift |-> {i \in {1} : ~EvOK(r.w, e1)} \cup {i \in {2} : ~EvOK(w2, e2)}]
Verdict(r) ==
    IF r.ep.kind = "remove2" THEN Verdict2(r) ELSE
    LET ps0 == Range(r.ps0) psF == Range(r.psF) IN
    [id |-> r.id,
     frame |-> IF r.ep.kind = "sync" THEN ExpiryFrameOK(ps0, r.acts, psF) ELSE RehomeFrameOK(ps0, r.acts, psF),
     badcids |-> {e.cid : e \in {x \in ps0 : ~(IF r.ep.kind = "sync" THEN ExpiryCidOK(r.w, ps0, r.acts, psF, x)
                                              ELSE RehomeCidOK(r.w, r.ep, r.acts, psF, x))}},
     drift |-> {i \in DOMAIN r.events : ~EvOK(r.w, r.events[i])}]

ASSUME ndJsonSerialize(IOEnv.VERDICT_FILE, [i \in 1..Len(Recs) |-> Verdict(Recs[i])])

VARIABLE x
Init == x = 0
Next == UNCHANGED x
Spec == Init /\ [][Next]_x
=============================================================================
