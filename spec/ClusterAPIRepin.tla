------------------------- MODULE ClusterAPIRepin -------------------------
(***************************************************************************)
(* C10 - peer failure / removal re-homes under-replicated pins once and    *)
(* drops none; expired pins are unpinned once.                             *)
(*                                                                         *)
(* TRANSCRIPTION (cluster.go alertsHandler, vacatePeer, repinFromPeer,     *)
(* PeerRemove, StateSync, distances/getTrustedPeers; util.go isClosest):   *)
(* AlertOutcomes / VacateOutcomes / SyncOutcomes (constructive) and        *)
(* AlertStepOK / VacateStepOK / SyncStepOK (predicates for recorded        *)
(* events).  A repin is ClusterAPI!PinDecide with allocations cleared and  *)
(* blacklist <<failed>>; an expiry unpin is ClusterAPI!UnpinDecide.        *)
(*                                                                         *)
(* PROPERTY (from the statement): RehomeEpisodeOK (ExactlyOne, RehomeGood, *)
(* Untouched, NeverRemoved) and ExpiryEpisodeOK (ExpiryOnce) relate the    *)
(* pinset before an episode, the LogPin/LogUnpin calls per peer and the    *)
(* pinset after it.                                                        *)
(*                                                                         *)
(* world  w = [peers, followers, norepin, ms, strat, rank, blocks]         *)
(*   peers     members (sequence), all peers see the same membership       *)
(*   followers peers in follower mode (not trusted by the others)          *)
(*   norepin   cluster.disable_repinning on every peer                     *)
(*   ms        peer -> Health as every survivor's monitor reports it:      *)
(*             v0..v2 numeric, nonnum = valid but not a number, bad =      *)
(*             absent / invalid flag / expired (the monitor filters those) *)
(*   getfail   CIDs whose State.Get fails (a read error, not "not found")  *)
(*             while the alert / PeerRemove / StateSync is handled         *)
(*   rank      cid -> peers ordered by XOR distance, closest first (an     *)
(*             arbitrary strict total order; only totality is used)        *)
(***************************************************************************)
EXTENDS ClusterAPI

Members(w)        == Range(w.peers)
IsFollower(w, p)  == p \in Range(w.followers)
EnvAt(w, p) == [follower |-> IsFollower(w, p), dmin |-> 0 - 1, dmax |-> 0 - 1, strat |-> w.strat, ms |-> w.ms,
                paths |-> <<>>, blocks |-> w.blocks, fail |-> <<>>, logfail |-> <<>>, deferred |-> FALSE, getfail |-> w.getfail]

Pos(s, x) == CHOOSE i \in DOMAIN s : s[i] = x
\* distances(exclude) + isClosest: p against the trusted members other than itself and `exclude`
Closest(w, members, p, c, exclude) ==
    \A q \in {x \in members : x # p /\ x # exclude /\ ~IsFollower(w, x)} :
        ~(Pos(w.rank[c], p) > Pos(w.rank[c], q))

RepinReq(e) == [e EXCEPT !.allocs = <<>>]          \* repinFromPeer: "force re-allocations"
Holds(e, f) == f \in Range(e.allocs)

(***************************************************************************)
(* TRANSCRIPTION, constructive                                             *)
(***************************************************************************)
Same(ps) == {[ps |-> ps, log |-> <<>>]}

\* the loops work on the list read before the loop (ps0) while pin()/Unpin() read the current state (ps)
RECURSIVE RepinAll(_, _, _, _, _)
RepinAll(env, ps0, ps, f, order) ==
    IF order = <<>> THEN Same(ps)
    ELSE LET outs == OutcomesOf(PinDecide(env, ps, RepinReq(Ent(ps0, Head(order))), <<f>>), ps) IN
         UNION {{[ps |-> r.ps, log |-> o.log \o r.log] : r \in RepinAll(env, ps0, o.ps2, f, Tail(order))} : o \in outs}

RECURSIVE UnpinAll(_, _, _)
UnpinAll(env, ps, order) ==
    IF order = <<>> THEN Same(ps)
    ELSE LET outs == OutcomesOf(UnpinDecide(env, ps, Head(order)), ps) IN
         UNION {{[ps |-> r.ps, log |-> o.log \o r.log] : r \in UnpinAll(env, o.ps2, Tail(order))} : o \in outs}

\* what alertsHandler does with one alert: "ignore" | "die" (the goroutine returns) | "repin"
AlertKind(w, p, metric) ==
    IF IsFollower(w, p) THEN "ignore"
    ELSE IF metric # "ping" THEN "ignore"
    ELSE IF w.norepin THEN "die"
    ELSE "repin"
AlertTargets(w, members, p, f, ps) == {e.cid : e \in {x \in ps : Holds(x, f) /\ Closest(w, members, p, x.cid, f)}}
AlertOutcomes(w, members, p, f, metric, ps) ==
    IF AlertKind(w, p, metric) # "repin" THEN Same(ps)
    ELSE UNION {RepinAll(EnvAt(w, p), ps, ps, f, o) : o \in Perms(AlertTargets(w, members, p, f, ps))}

\* PeerRemove(t) at p: vacatePeer (no closest test, no follower test of its own), then RmPeer
VacateTargets(t, ps) == {e.cid : e \in {x \in ps : Holds(x, t)}}
VacateOutcomes(w, p, t, ps) ==
    IF w.norepin THEN Same(ps)
    ELSE UNION {RepinAll(EnvAt(w, p), ps, ps, t, o) : o \in Perms(VacateTargets(t, ps))}

\* StateSync at p
SyncTargets(w, members, p, ps) == {e.cid : e \in {x \in ps : x.exp = "past" /\ Closest(w, members, p, x.cid, "")}}
SyncOutcomes(w, members, p, ps) ==
    IF IsFollower(w, p) THEN Same(ps)
    ELSE UNION {UnpinAll(EnvAt(w, p), ps, o) : o \in Perms(SyncTargets(w, members, p, ps))}

(***************************************************************************)
(* TRANSCRIPTION, as predicates on a recorded event                        *)
(* (ps before, ps2 after, log = this peer's <<kind, cid>> consensus calls) *)
(***************************************************************************)
Logged(log, k, c) == \E i \in DOMAIN log : log[i] = <<k, c>>
Count(log, k, c)  == Cardinality({i \in DOMAIN log : log[i] = <<k, c>>})

RepinOneOK(env, ps, ps2, log, f, c) ==
    LET e == Ent(ps, c)
        d == PinDecide(env, ps, RepinReq(e), <<f>>)
        n == Ent(ps2, c)
        l == Logged(log, "pin", c)
    IN /\ Has(ps2, c) /\ Count(log, "pin", c) <= 1
       /\ CASE d.kind = "refuse" -> ~l /\ Norm(n) = Norm(e)
            [] d.kind = "store"  -> l /\ Norm(n) = Norm(AsStored(d.rec))
            [] d.kind = "alloc"  -> \/ /\ l /\ Conforms(d.in, [ok |-> TRUE, allocs |-> n.allocs])
                                       /\ Norm(n) = Norm(AsStored([d.rec EXCEPT !.allocs = n.allocs]))
                                    \/ /\ ~l /\ Norm(n) = Norm(e) /\ Conforms(d.in, [ok |-> FALSE, allocs |-> <<>>])
            [] OTHER -> FALSE

RepinLoopOK(env, ps, ps2, log, f, T) ==
    /\ OthersSame(ps, ps2, T)
    /\ \A i \in DOMAIN log : log[i][1] = "pin" /\ log[i][2] \in T
    /\ \A c \in T : RepinOneOK(env, ps, ps2, log, f, c)

AlertStepOK(w, members, p, f, metric, ps, ps2, log) ==
    IF AlertKind(w, p, metric) # "repin" THEN SamePs(ps2, ps) /\ log = <<>>
    ELSE RepinLoopOK(EnvAt(w, p), ps, ps2, log, f, AlertTargets(w, members, p, f, ps))

VacateStepOK(w, p, t, ps, ps2, log) ==
    IF w.norepin THEN SamePs(ps2, ps) /\ log = <<>>
    ELSE RepinLoopOK(EnvAt(w, p), ps, ps2, log, t, VacateTargets(t, ps))

\* constructive outcomes are few for unpins (no allocation): compare with them directly
SyncStepOK(w, members, p, ps, ps2, log) ==
    \E r \in SyncOutcomes(w, members, p, ps) :
        /\ SamePs(ps2, r.ps)
        /\ Len(log) = Len(r.log) /\ BagOf(log) = BagOf(r.log)

\* concurrent delivery: every survivor handles the alert having read the same pinset ps
\* (the targets of different peers are disjoint because the closest peer is unique)
AlertsStepOK(w, members, f, metric, ps, ps2, logs, peers) ==
    LET T(p) == IF AlertKind(w, p, metric) = "repin" THEN AlertTargets(w, members, p, f, ps) ELSE {} IN
    /\ OthersSame(ps, ps2, UNION {T(p) : p \in peers})
    /\ \A p \in peers :
          /\ \A i \in DOMAIN logs[p] : logs[p][i][1] = "pin" /\ logs[p][i][2] \in T(p)
          /\ \A c \in T(p) : RepinOneOK(EnvAt(w, p), ps, ps2, logs[p], f, c)

SyncsStepOK(w, members, ps, ps2, logs, peers) ==
    LET R(p) == CHOOSE r \in SyncOutcomes(w, members, p, ps) : TRUE IN
    /\ \A p \in peers : Len(logs[p]) = Len(R(p).log) /\ BagOf(logs[p]) = BagOf(R(p).log)
    /\ SamePs(ps2, {e \in ps : \A p \in peers : e \in R(p).ps})

(***************************************************************************)
(* PROPERTY                                                                *)
(* acts: sequence of [by, kind, cid] (every LogPin/LogUnpin of the episode)*)
(***************************************************************************)
HealthyP(w, q)      == q \in DOMAIN w.ms /\ Healthy(w.ms[q])
Remaining(w, e, f)  == {q \in Range(e.allocs) : q # f /\ HealthyP(w, q)}
BelowMin(w, e, f)   == Holds(e, f) /\ e.rmin > 0 /\ Cardinality(Remaining(w, e, f)) < e.rmin
AllocIn(w, e, f)    == [ms |-> w.ms, cur |-> e.allocs, bl |-> <<f>>, prio |-> <<>>, rmin |-> e.rmin, rmax |-> e.rmax,
                        strat |-> w.strat]
\* C03: a refusal is justified only when the healthy holders that remain plus the RANKABLE (numeric metric)
\* candidates do not reach the minimum; a survivor with a valid but non-numeric metric is healthy as a holder
\* but cannot be chosen. When the minimum cannot be reached the pin must stay untouched (allocation failure).
CanRehome(w, e, f)  == ~(ReachRanked(AllocIn(w, e, f)) < e.rmin)
SameOptions(n, e)   == /\ n.type = e.type /\ n.mode = e.mode /\ n.depth = e.depth /\ n.rmin = e.rmin /\ n.rmax = e.rmax
                       /\ n.name = e.name /\ n.exp = e.exp /\ PairSet(n.meta) = PairSet(e.meta)
                       /\ Range(n.orig) = Range(e.orig) /\ n.upd = e.upd /\ n.ref = e.ref
Actors(acts, k, c)  == {acts[i].by : i \in {j \in DOMAIN acts : acts[j].kind = k /\ acts[j].cid = c}}
Cids(ps)            == {e.cid : e \in ps}

\* ep = [kind |-> "fail" | "remove" | "noise", failed |-> f, at |-> peer where PeerRemove is called ("" otherwise)]
RepinEnabled(w, ep) ==
    LET active == (IF ep.kind = "remove" THEN {ep.at} ELSE Members(w) \ {ep.failed}) \ Range(w.followers)
    IN ep.kind # "noise" /\ ~w.norepin /\ active # {}

\* NeverRemoved
RehomeFrameOK(ps0, acts, psF) ==
    /\ \A i \in DOMAIN acts : acts[i].kind # "unpin"
    /\ Cids(psF) = Cids(ps0)

\* per pin of the pinset before the episode
RehomeCidOK(w, ep, acts, psF, e) ==
    LET f == ep.failed
        n == Ent(psF, e.cid)
        rehomed == /\ SameOptions(n, e)                                         \* RehomeGood: options preserved
                   /\ f \notin Range(n.allocs) /\ \A q \in Range(n.allocs) : HealthyP(w, q)
                   /\ n.allocs # <<>> /\ Len(n.allocs) >= e.rmin                 \* never committed empty / below min
                   /\ (Cardinality(Remaining(w, e, f)) <= e.rmax => Remaining(w, e, f) \subseteq Range(n.allocs))  \* no live holder dropped
                   /\ Good(AllocIn(w, e, f), [ok |-> TRUE, allocs |-> n.allocs])  \*             allocation per C03
                   /\ Cardinality(Actors(acts, "pin", e.cid)) = 1               \* ExactlyOne
    IN
    /\ Has(psF, e.cid)
    /\ IF e.cid \in Range(w.getfail) THEN Norm(n) = Norm(e)      \* its read failed: it stays exactly as it was (drops none)
       ELSE IF RepinEnabled(w, ep) /\ BelowMin(w, e, f) /\ CanRehome(w, e, f)
       THEN IF e.exp = "past" THEN rehomed \/ Norm(n) = Norm(e)   \* an expired pin awaits its unpin: either is fine
            ELSE rehomed
       ELSE Norm(n) = Norm(e)                                                   \* Untouched

RehomeEpisodeOK(w, ep, ps0, acts, psF) ==
    RehomeFrameOK(ps0, acts, psF) /\ \A e \in ps0 : RehomeCidOK(w, ep, acts, psF, e)

\* Two removals in a row (ep.failed, then ep.failed2, both called at ep.at).  After the first one the removed peer
\* is no member any more: the monitor (pubsubmon filters the metrics by the consensus peerset at every call) reports
\* nothing for it, so for the second removal it is as good as a peer without a metric -- in particular nothing may be
\* re-homed onto it.
WAfter(w, t) == [w EXCEPT !.peers = SelectSeq(w.peers, LAMBDA q : q # t),
                          !.ms = [q \in DOMAIN w.ms |-> IF q = t THEN "bad" ELSE w.ms[q]]]
Step1(ep) == [kind |-> "remove", failed |-> ep.failed, at |-> ep.at]
Step2(ep) == [kind |-> "remove", failed |-> ep.failed2, at |-> ep.at]
Remove2EpisodeOK(w, ep, ps0, acts1, ps1, acts2, psF) ==
    /\ RehomeEpisodeOK(w, Step1(ep), ps0, acts1, ps1)
    /\ RehomeEpisodeOK(WAfter(w, ep.failed), Step2(ep), ps1, acts2, psF)

Sharded(w, ps, m)  == IF Has(ps, m.ref) /\ HasBlock(EnvAt(w, ""), m.ref) THEN {m.cid, m.ref} \cup Range(Links(EnvAt(w, ""), m.ref))
                      ELSE {}
ExpiryDue(w, ps0) ==
    IF Members(w) \ Range(w.followers) = {} THEN {}
    ELSE {e.cid : e \in {x \in ps0 : x.exp = "past" /\ x.type = "data"}}
         \cup UNION {Sharded(w, ps0, m) : m \in {x \in ps0 : x.exp = "past" /\ x.type = "meta"}}
ExpiryFrameOK(ps0, acts, psF) ==
    /\ \A i \in DOMAIN acts : acts[i].kind # "pin"
    /\ Cids(psF) \subseteq Cids(ps0)
ExpiryCidOK(w, ps0, acts, psF, e) ==
    IF e.cid \in Range(w.getfail) THEN Has(psF, e.cid) /\ Norm(Ent(psF, e.cid)) = Norm(e)
    ELSE IF e.cid \in ExpiryDue(w, ps0)
    THEN ~Has(psF, e.cid) /\ Cardinality(Actors(acts, "unpin", e.cid)) = 1      \* ExpiryOnce: exactly one peer
    ELSE /\ Has(psF, e.cid) /\ Norm(Ent(psF, e.cid)) = Norm(e)
         /\ (e.exp # "past" => Actors(acts, "unpin", e.cid) = {})               \* an unexpired pin by none
ExpiryEpisodeOK(w, ps0, acts, psF) ==
    ExpiryFrameOK(ps0, acts, psF) /\ \A e \in ps0 : ExpiryCidOK(w, ps0, acts, psF, e)
=============================================================================
