SPECIFICATION Spec
