--------------------------- MODULE ClusterAPI ---------------------------
(***************************************************************************)
(* C04 / C10 - what Pin, PinPath, PinUpdate, Unpin, UnpinPath and the      *)
(* re-pinning paths do to the shared pinset.                               *)
(*                                                                         *)
(* As in Allocator.tla two things are specified and kept apart:            *)
(*                                                                         *)
(*  * Decide / StepOK: the TRANSCRIPTION of cluster.go (pin, setupPin,     *)
(*    setupReplicationFactor, checkPinType, PinUpdate, Unpin,              *)
(*    unpinClusterDag, cidsFromMetaPin, PinPath, UnpinPath) and of         *)
(*    api.PinOptions.Equals, guard by guard in the order of the code.      *)
(*    Allocation is not re-specified: the decision hands an Allocator      *)
(*    input to Allocator!Conforms / Allocator!Outs.                        *)
(*                                                                         *)
(*  * EffectOK: what the PROPERTY STATEMENT promises about                 *)
(*    (pinset before, call, pinset after, success/refusal), written from   *)
(*    the statement.  The allocation clause is Allocator!Good.             *)
(*                                                                         *)
(* ClusterAPIMC checks  StepOK => EffectOK  for every pinset/call of a     *)
(* small universe; ClusterAPITrace evaluates both on tuples recorded from  *)
(* the real Cluster.  A recorded tuple that fails EffectOK is a violation, *)
(* one that only fails StepOK is transcription drift.                      *)
(*                                                                         *)
(* Values are JSON-shaped: CIDs, peers, names are strings; everything      *)
(* set-like is a duplicate-free sequence; a pinset is a set (or sequence)  *)
(* of pin records                                                          *)
(*   [cid, type, mode, depth, rmin, rmax, allocs, name, exp, meta, orig,   *)
(*    ua, upd, ref]                                                        *)
(* type in data|meta|cdag|shard, mode in rec|dir, depth -1|0|1,            *)
(* exp in none|past|f1|f2 (classes of ExpireAt relative to now),           *)
(* meta a sequence of <<key, value>>, orig/ua sequences, upd/ref a CID or  *)
(* "" (cid.Undef / nil).                                                   *)
(***************************************************************************)
EXTENDS Allocator

CONSTANTS EqualsMode,   \* "fixed": PinOptions.Equals compares the metadata maps both ways
                        \* "ascoded": as in the pinned commit, only keys of the NEW map are compared
          UpdateGuard,  \* TRUE: Cluster.PinUpdate has its own follower-mode guard; FALSE: as in the pinned commit
          RepinRedirect \* TRUE (pinned commit): pin() sends a pin carrying PinUpdate into PinUpdate() also when it is
                        \* called by repinFromPeer with a blacklist; FALSE: only for user requests (empty blacklist)

NoCid  == ""
Future == {"f1", "f2"}

Has(ps, c)     == \E e \in ps : e.cid = c
Ent(ps, c)     == CHOOSE e \in ps : e.cid = c
Without(ps, C) == {e \in ps : e.cid \notin C}
Put(ps, r)     == Without(ps, {r.cid}) \cup {r}

PairSet(m)  == {<<m[i][1], m[i][2]>> : i \in DOMAIN m}
ValOf(m, k) == LET I == {i \in DOMAIN m : m[i][1] = k}
               IN IF I = {} THEN "" ELSE m[CHOOSE i \in I : TRUE][2]

ModeOfDepth(d) == IF d = 0 THEN "dir" ELSE "rec"
DepthOfMode(m) == IF m = "dir" THEN 0 ELSE 0 - 1

\* order-insensitive form of an entry / a pinset (set-like fields as sets)
Norm(e)   == [e EXCEPT !.meta = PairSet(@), !.orig = Range(@), !.ua = Range(@)]
NormPs(S) == {Norm(e) : e \in S}
SamePs(a, b) == NormPs(a) = NormPs(b)

\* environment: [follower, dmin, dmax, strat, ms, paths, blocks, fail, logfail, deferred]
\* env.getfail: the CIDs whose State.Get (PinGet) fails at the moment with an error that is not "not found"
GetFails(env, c) == c \in Range(env.getfail)
\* env.deferred: the consensus component acknowledges LogPin/LogUnpin into a queue; State() (what pin(), Unpin(),
\* PinUpdate() and Pins() read) shows only what has been committed; Flush commits the queue in order (crdt
\* batching, a raft follower that lags behind)
\* env.logfail: the <<kind, cid>> consensus operations (LogPin "pin" / LogUnpin "unpin") that fail at the moment
LF(env) == {<<env.logfail[i][1], env.logfail[i][2]>> : i \in DOMAIN env.logfail}
Resolve(env, path) == LET I == {i \in DOMAIN env.paths : env.paths[i][1] = path}
                      IN IF I = {} THEN NoCid ELSE env.paths[CHOOSE i \in I : TRUE][2]
\* env.blocks is the truth about the cluster-DAG (cdag -> shard links); env.fail lists the CIDs whose
\* IPFSConnector.BlockGet fails at the moment (the transcription can only use what BlockGet returns,
\* the property is stated over the truth)
HasBlock(env, d)   == (\E i \in DOMAIN env.blocks : env.blocks[i][1] = d) /\ d \notin Range(env.fail)
Links(env, d)      == LET I == {i \in DOMAIN env.blocks : env.blocks[i][1] = d}
                      IN IF I = {} THEN <<>> ELSE env.blocks[CHOOSE i \in I : TRUE][2]

\* api.PinWithOpts(cid, opts): what Cluster.Pin hands to pin()
ReqOf(c, o) == [cid |-> c, type |-> "data", mode |-> o.mode, depth |-> DepthOfMode(o.mode),
                rmin |-> o.rmin, rmax |-> o.rmax, allocs |-> <<>>, name |-> o.name, exp |-> o.exp,
                meta |-> o.meta, orig |-> o.orig, ua |-> o.ua, upd |-> o.upd, ref |-> NoCid]

\* what the state keeps of a pin (api.Pin.ProtoMarshal / ProtoUnmarshal):
\* user allocations are not stored, the mode is derived from the depth
AsStored(r) == [r EXCEPT !.mode = ModeOfDepth(r.depth), !.ua = <<>>]

(***************************************************************************)
(* TRANSCRIPTION                                                           *)
(***************************************************************************)
\* cluster_config.go isReplicationFactorValid
CodeFactorsValid(a, b) ==
    /\ a # 0 /\ b # 0
    /\ ~(a > b)
    /\ ~(a < 0 - 1) /\ ~(b < 0 - 1)
    /\ ~((a = 0 - 1 /\ b # 0 - 1) \/ (a # 0 - 1 /\ b = 0 - 1))

\* cluster.go checkPinType
CheckPinType(q) ==
    CASE q.type = "data"  -> q.ref = NoCid
      [] q.type = "shard" -> q.depth = 1
      [] q.type = "cdag"  -> q.depth = 0 /\ q.ref # NoCid
      [] q.type = "meta"  -> q.allocs = <<>> /\ q.ref # NoCid
      [] OTHER -> FALSE

\* api/types.go PinOptions.Equals (q = new options, ex = options read from the state)
MetaEq(q, ex) ==
    IF EqualsMode = "ascoded"
    THEN \A kv \in PairSet(q.meta) : kv[1] # "" => kv[2] = ValOf(ex.meta, kv[1])
    ELSE {kv \in PairSet(q.meta) : kv[1] # ""} = {kv \in PairSet(ex.meta) : kv[1] # ""}
CodeEquals(q, ex) ==
    /\ q.name = ex.name
    /\ q.mode = ex.mode
    /\ q.rmax = ex.rmax
    /\ q.rmin = ex.rmin
    /\ Len(q.ua) = Len(ex.ua) /\ Range(q.ua) = Range(ex.ua)
    /\ q.exp = ex.exp
    /\ MetaEq(q, ex)
    \* "deliberately ignore Update"
    /\ Len(q.orig) = Len(ex.orig) /\ Range(q.orig) \subseteq Range(ex.orig)

\* decisions
Refuse           == [kind |-> "refuse"]
Store(r)         == [kind |-> "store", rec |-> r]
Alloc(r, in)     == [kind |-> "alloc", rec |-> r, in |-> in]
\* log: the LogUnpin calls in one possible order; free: the part of it whose order the code leaves to chance
Remove(c, cs, l) == [kind |-> "remove", cid |-> c, cids |-> cs, log |-> l, free |-> 0]
RemoveSharded(c, cs, l, n) == [kind |-> "remove", cid |-> c, cids |-> cs, log |-> l, free |-> n]

\* Cluster.PinUpdate(from, to, opts)
UpdateDecide(env, ps, from, to, o) ==
    IF UpdateGuard /\ env.follower THEN Refuse
    ELSE IF GetFails(env, from) THEN Refuse                  \* PinGet(from) fails: the error is returned
    ELSE IF ~Has(ps, from) THEN Refuse
    ELSE LET s == Ent(ps, from) IN
         IF s.type # "data" THEN Refuse
         ELSE Store([s EXCEPT !.cid = to, !.upd = from,
                              !.name = IF o.name # "" THEN o.name ELSE @,
                              !.exp = IF o.exp \in Future THEN o.exp ELSE @])

\* Cluster.pin(pin, blacklist)
PinDecide(env, ps, p0, bl) ==
    IF env.follower THEN Refuse
    ELSE IF p0.upd # NoCid /\ p0.upd # p0.cid /\ (RepinRedirect \/ bl = <<>>)
         THEN UpdateDecide(env, ps, p0.upd, p0.cid, p0)
    \* existing, err := PinGet(cid): only "not found" means "new pin"; any other read error ends the call, nothing is
    \* allocated or submitted
    ELSE IF GetFails(env, p0.cid) THEN Refuse
    ELSE
      LET ex == IF Has(ps, p0.cid) THEN <<Ent(ps, p0.cid)>> ELSE <<>>
          \* setupReplicationFactor
          q1 == [p0 EXCEPT !.rmin = IF @ = 0 THEN env.dmin ELSE @, !.rmax = IF @ = 0 THEN env.dmax ELSE @]
          q  == IF q1.rmin = 0 - 1 /\ q1.rmax = 0 - 1 THEN [q1 EXCEPT !.allocs = <<>>] ELSE q1
      IN
      IF ~CodeFactorsValid(q.rmin, q.rmax) THEN Refuse
      ELSE IF q.exp = "past" THEN Refuse
      ELSE IF ex # <<>> /\ ex[1].type # q.type THEN Refuse
      ELSE IF ex # <<>> /\ ex[1].mode = "rec" /\ q.mode # "rec" THEN Refuse
      ELSE IF ex # <<>> /\ ~CheckPinType(q) THEN Refuse
      ELSE IF q.type = "meta" THEN Store(q)
      ELSE
        LET r == IF ex # <<>> /\ CodeEquals(q, ex[1]) /\ bl = <<>> THEN ex[1] ELSE q IN
        IF r.allocs = <<>>
        THEN Alloc(r, [ms |-> env.ms, cur |-> IF ex = <<>> THEN <<>> ELSE ex[1].allocs, bl |-> bl,
                       prio |-> r.ua, rmin |-> r.rmin, rmax |-> r.rmax, strat |-> env.strat])
        ELSE Store(r)

Reverse(s) == [i \in 1..Len(s) |-> s[Len(s) + 1 - i]]

\* Cluster.Unpin(c) with unpinClusterDag / cidsFromMetaPin
UnpinDecide(env, ps, c) ==
    IF env.follower THEN Refuse
    ELSE IF GetFails(env, c) THEN Refuse
    ELSE IF ~Has(ps, c) THEN Refuse
    ELSE LET e == Ent(ps, c) IN
      CASE e.type = "data" -> Remove(c, {c}, <<c>>)
        [] e.type = "meta" ->
             IF e.ref = NoCid THEN Refuse
             ELSE IF GetFails(env, e.ref) \/ ~Has(ps, e.ref) THEN Refuse
             \* BlockGet of the cluster-DAG block fails: cidsFromMetaPin returns an error and unpinClusterDag gives
             \* up BEFORE the first LogUnpin, so a failed Unpin leaves the pinset as it was. Only the cluster-DAG
             \* block is read (its links are the shards); shard blocks are never fetched.
             ELSE IF ~HasBlock(env, e.ref) THEN Refuse
             ELSE LET ls == Links(env, e.ref) IN
                  \* shards, clusterDAG, the meta pin (by unpinClusterDag) and the meta pin again (by Unpin). The shards come
                  \* in the reverse of the order in which the CBOR node lists its links, which is Go map iteration order:
                  \* any order (the first Len(ls) entries of the log are free)
                  RemoveSharded(c, Range(ls) \cup {e.ref, c}, Reverse(ls) \o <<e.ref, c, c>>, Len(ls))
        [] OTHER -> Refuse

\* ENTRY POINTS.  A call may carry `via`: "go" = the exported method of *Cluster (Pin, PinPath, Unpin, UnpinPath,
\* PinUpdate), "rpc" = the Cluster.Pin / Cluster.Unpin / Cluster.PinPath / Cluster.UnpinPath endpoint of the peer's RPC
\* server, which is how the REST API, the adder and other peers get in (PinUpdate has no endpoint of its own: it is
\* reached with the update option of Cluster.Pin; "rpcpin" is that endpoint with a full pin object).  rpc_api.go calls
\* pin() / Unpin() / PinPath() / UnpinPath() directly, and every guard (follower mode first) sits in those, so the
\* decision -- and the statement: refusals are the same whichever way a request comes in -- does not depend on `via`.
Decide(env, ps, call) ==
    CASE call.op = "pin"       -> PinDecide(env, ps, ReqOf(call.cid, call.o), <<>>)
      [] call.op = "rpcpin"    -> PinDecide(env, ps, call.p, <<>>)
      [] call.op = "update"    -> UpdateDecide(env, ps, call.from, call.to, call.o)
      [] call.op = "unpin"     -> UnpinDecide(env, ps, call.cid)
      [] call.op = "pinpath"   -> IF Resolve(env, call.path) = NoCid THEN Refuse
                                  ELSE PinDecide(env, ps, ReqOf(Resolve(env, call.path), call.o), <<>>)
      [] call.op = "unpinpath" -> IF Resolve(env, call.path) = NoCid THEN Refuse
                                  ELSE UnpinDecide(env, ps, Resolve(env, call.path))

\* observation: [ok, ps2, ret (0/1 pin records), log (sequence of <<kind, cid>>)]
Stored1(ps, r, a) == Put(ps, AsStored([r EXCEPT !.allocs = a]))

\* the returned pin is the object handed to the consensus component (fields that the state does not keep are not compared)
RetLike(x, e) == /\ x.cid = e.cid /\ x.type = e.type /\ x.depth = e.depth /\ x.rmin = e.rmin /\ x.rmax = e.rmax
                 /\ x.allocs = e.allocs /\ x.name = e.name /\ x.exp = e.exp /\ PairSet(x.meta) = PairSet(e.meta)
                 /\ Range(x.orig) = Range(e.orig) /\ x.upd = e.upd /\ x.ref = e.ref
BagOf(s) == [x \in Range(s) |-> Cardinality({i \in DOMAIN s : s[i] = x})]

StepOKOf(d, ps, obs) ==
    CASE d.kind = "refuse" -> ~obs.ok /\ SamePs(obs.ps2, ps) /\ obs.log = <<>>
      [] d.kind = "store"  -> /\ obs.ok
                              /\ SamePs(obs.ps2, Put(ps, AsStored(d.rec)))
                              /\ Len(obs.ret) = 1 /\ RetLike(obs.ret[1], AsStored(d.rec))
                              /\ obs.log = << <<"pin", d.rec.cid>> >>
      [] d.kind = "alloc"  ->
            \/ /\ obs.ok /\ Has(obs.ps2, d.rec.cid)
               /\ LET a == Ent(obs.ps2, d.rec.cid).allocs IN
                  /\ Conforms(d.in, [ok |-> TRUE, allocs |-> a])
                  /\ SamePs(obs.ps2, Stored1(ps, d.rec, a))
                  /\ Len(obs.ret) = 1 /\ RetLike(obs.ret[1], AsStored([d.rec EXCEPT !.allocs = a]))
               /\ obs.log = << <<"pin", d.rec.cid>> >>
            \/ /\ ~obs.ok /\ SamePs(obs.ps2, ps) /\ obs.log = <<>>
               /\ Conforms(d.in, [ok |-> FALSE, allocs |-> <<>>])
      [] d.kind = "remove" -> /\ obs.ok
                              /\ SamePs(obs.ps2, Without(ps, d.cids))
                              /\ Len(obs.ret) = 1 /\ RetLike(obs.ret[1], Ent(ps, d.cid))
                              /\ Len(obs.log) = Len(d.log)
                              /\ BagOf([i \in DOMAIN obs.log |-> obs.log[i][2]]) = BagOf(d.log)
                              /\ \A i \in DOMAIN obs.log : obs.log[i][1] = "unpin"

(* Consensus faults.  What the code does when LogPin / LogUnpin returns an error:                          *)
(*  - pin() / PinUpdate() return the LogPin error; nothing was stored.                                    *)
(*  - Unpin of a data pin returns the LogUnpin error; nothing was removed.                                *)
(*  - Unpin of sharded content: unpinClusterDag issues LogUnpin for the shards (reverse link order), the   *)
(*    cluster-DAG and the meta pin and RETURNS AT THE FIRST FAILURE; Unpin then returns that error without *)
(*    its own LogUnpin of the meta pin.  What was unpinned before the failure stays unpinned, the failing  *)
(*    entry and everything after it (in particular the meta pin, which comes last) stay.                   *)
FirstFail(env, l) == LET I == {i \in DOMAIN l : <<"unpin", l[i]>> \in LF(env)} IN
                     IF I = {} THEN 0 ELSE CHOOSE i \in I : \A j \in I : i <= j
Faulty(env, d) ==
    CASE d.kind \in {"store", "alloc"} -> <<"pin", d.rec.cid>> \in LF(env)
      [] d.kind = "remove" -> FirstFail(env, d.log) # 0
      [] OTHER -> FALSE
AllocPossible(d) == \E out \in Outs(d.in) : out.ok
\* the orders in which the LogUnpin calls of a remove decision may be issued
Orders(d) == {p \o SubSeq(d.log, d.free + 1, Len(d.log)) : p \in Perms({d.log[i] : i \in 1..d.free})}
\* the possible [ps2, log, failed] of a faulty decision (always an error return)
FaultResults(env, d, ps) ==
    CASE d.kind = "store" -> {[ps2 |-> ps, log |-> <<>>, failed |-> << <<"pin", d.rec.cid>> >>]}
      [] d.kind = "alloc" -> {[ps2 |-> ps, log |-> <<>>,
                               failed |-> IF AllocPossible(d) THEN << <<"pin", d.rec.cid>> >> ELSE <<>>]}
      [] d.kind = "remove" ->
            {LET k == FirstFail(env, l) IN
             [ps2 |-> Without(ps, {l[i] : i \in 1..(k - 1)}),
              log |-> [i \in 1..(k - 1) |-> <<"unpin", l[i]>>],
              failed |-> << <<"unpin", l[k]>> >>] : l \in Orders(d)}

StepNow(env, ps, call, obs) ==
    LET d == Decide(env, ps, call) IN
    IF Faulty(env, d)
    THEN \E r \in FaultResults(env, d, ps) :
            ~obs.ok /\ SamePs(obs.ps2, r.ps2) /\ obs.log = r.log /\ obs.failed = r.failed
    ELSE StepOKOf(d, ps, obs) /\ obs.failed = <<>>

\* constructive form for the exhaustive check and for generating histories
OutcomesOf(d, ps) ==
    LET refused == [ok |-> FALSE, ps2 |-> ps, ret |-> <<>>, log |-> <<>>] IN
    CASE d.kind = "refuse" -> {refused}
      [] d.kind = "store"  -> {[ok |-> TRUE, ps2 |-> Put(ps, AsStored(d.rec)), ret |-> <<AsStored(d.rec)>>,
                                log |-> << <<"pin", d.rec.cid>> >>]}
      [] d.kind = "alloc"  -> {IF out.ok
                               THEN [ok |-> TRUE, ps2 |-> Stored1(ps, d.rec, out.allocs),
                                     ret |-> <<AsStored([d.rec EXCEPT !.allocs = out.allocs])>>,
                                     log |-> << <<"pin", d.rec.cid>> >>]
                               ELSE refused : out \in Outs(d.in)}
      [] d.kind = "remove" -> {[ok |-> TRUE, ps2 |-> Without(ps, d.cids), ret |-> <<Ent(ps, d.cid)>>,
                                log |-> [i \in DOMAIN d.log |-> <<"unpin", d.log[i]>>]]}
Outcomes(env, ps, call) ==
    LET d == Decide(env, ps, call) IN
    IF Faulty(env, d)
    THEN {[ok |-> FALSE, ps2 |-> r.ps2, ret |-> <<>>, log |-> r.log, failed |-> r.failed] : r \in FaultResults(env, d, ps)}
    ELSE {[failed |-> <<>>] @@ o : o \in OutcomesOf(d, ps)}

(***************************************************************************)
(* PROPERTY (C04)                                                          *)
(***************************************************************************)
\* "invalid replication factors": both -1, or 1 <= min <= max
PropFactorsValid(a, b) == (a = 0 - 1 /\ b = 0 - 1) \/ (a >= 1 /\ b >= a)

OneEntry(ps, c) == Cardinality({e \in ps : e.cid = c}) = 1
OthersSame(ps, ps2, C) == NormPs(Without(ps2, C)) = NormPs(Without(ps, C))

\* a pin request p (full pin object) against the pinset
PinEffect(env, ps, p, obs) ==
    LET c     == p.cid
        hasEx == Has(ps, c)
        ex    == Ent(ps, c)
        rmin  == IF p.rmin = 0 THEN env.dmin ELSE p.rmin      \* cluster defaults substituted
        rmax  == IF p.rmax = 0 THEN env.dmax ELSE p.rmax
        mustRefuse ==
            \/ env.follower                                    \* any write in follower mode
            \/ ~PropFactorsValid(rmin, rmax)                   \* invalid replication factors
            \/ p.exp = "past"                                  \* expiry in the past
            \/ hasEx /\ ex.type # p.type                       \* a different pin type
            \/ hasEx /\ ex.mode = "rec" /\ p.mode = "dir"      \* recursive downgraded to direct
        \* options the state can carry, requested vs existing, field by field
        sameOpts == /\ hasEx
                    /\ ex.name = p.name /\ ex.depth = p.depth /\ ex.rmin = rmin /\ ex.rmax = rmax /\ ex.exp = p.exp
                    /\ PairSet(ex.meta) = PairSet(p.meta) /\ Range(ex.orig) = Range(p.orig)
        n == Ent(obs.ps2, c)
        carries == /\ n.type = p.type /\ n.name = p.name /\ n.depth = p.depth /\ n.mode = ModeOfDepth(p.depth)
                   /\ n.rmin = rmin /\ n.rmax = rmax /\ n.exp = p.exp
                   /\ PairSet(n.meta) = PairSet(p.meta) /\ Range(n.orig) = Range(p.orig)
                   /\ n.ref = p.ref /\ n.upd \in {p.upd, NoCid}
        in == [ms |-> env.ms, cur |-> IF hasEx THEN ex.allocs ELSE <<>>, bl |-> <<>>, prio |-> p.ua,
               rmin |-> rmin, rmax |-> rmax, strat |-> env.strat]
        validAlloc == CASE p.type = "meta" -> n.allocs = <<>>
                        \* preset by the caller (the adder): kept as they are, or at least treated as the priority list
                        [] p.allocs # <<>> /\ rmin > 0 ->
                              \/ n.allocs = p.allocs
                              \/ Good([in EXCEPT !.prio = p.allocs], [ok |-> TRUE, allocs |-> n.allocs])
                        \* effective factor -1 (explicit, or unset under a default of -1): the list is empty = every peer,
                        \* whatever the caller had preset (Good: Everywhere => allocs = <<>>)
                        [] OTHER -> Good(in, [ok |-> TRUE, allocs |-> n.allocs])
        fresh == carries /\ validAlloc
        kept  == Norm(n) = Norm(ex) \/ Norm(n) = Norm([ex EXCEPT !.upd = p.upd])    \* nothing changes, allocations kept
    IN
    IF ~obs.ok THEN SamePs(obs.ps2, ps)                        \* refused: pinset unchanged
    ELSE /\ ~mustRefuse
         /\ OneEntry(obs.ps2, c)                               \* exactly one entry for that CID
         /\ OthersSame(ps, obs.ps2, {c})                       \* and nothing else touched
         /\ IF sameOpts THEN (IF p.ua = <<>> /\ p.type = "data" THEN kept ELSE kept \/ fresh)
            ELSE fresh

UpdateEffect(env, ps, from, to, o, obs) ==
    IF ~obs.ok THEN SamePs(obs.ps2, ps)
    ELSE /\ ~env.follower                                      \* any write in follower mode
         /\ Has(ps, from)                                      \* update of a CID that is not pinned
         /\ LET s == Ent(ps, from)
                n == Ent(obs.ps2, to) IN
            \* (the statement speaks of copying "to the new CID": when the target is already pinned the
            \*  copy semantics below is all that is asked; type/mode of the overwritten entry are not judged)
            /\ OneEntry(obs.ps2, to)
            /\ OthersSame(ps, obs.ps2, {to})                   \* in particular the source is still there
            /\ Has(obs.ps2, from)
            \* allocations and options copied from the source
            /\ n.type = s.type /\ n.depth = s.depth /\ n.mode = s.mode /\ n.rmin = s.rmin /\ n.rmax = s.rmax
            /\ n.allocs = s.allocs
            /\ PairSet(n.meta) = PairSet(s.meta) /\ Range(n.orig) = Range(s.orig) /\ n.ref = s.ref
            /\ n.name \in {s.name} \cup (IF o.name # "" THEN {o.name} ELSE {})
            /\ n.exp \in {s.exp} \cup ({o.exp} \cap Future)
            /\ n.upd \in {from, s.upd, NoCid}

\* the entries an Unpin of c is about: for sharded content the meta pin, its cluster-DAG and every shard
UnpinGroup(env, ps, c) ==
    IF Has(ps, c) /\ Ent(ps, c).type = "meta" THEN {c, Ent(ps, c).ref} \cup Range(Links(env, Ent(ps, c).ref)) ELSE {c}
UnpinEffect(env, ps, c, obs) ==
    IF ~obs.ok THEN
        IF env.logfail = <<>> THEN SamePs(obs.ps2, ps)              \* refused: pinset unchanged
        ELSE \* the consensus component fails some operations: an unpin of sharded content is several operations and
             \* may stop half way, but an error return never takes the root/meta entry away while entries of its
             \* cluster-DAG / shards remain (the unpin can be retried), never touches other CIDs, adds nothing
             LET G == UnpinGroup(env, ps, c) IN
             /\ NormPs(obs.ps2) \subseteq NormPs(ps)
             /\ OthersSame(ps, obs.ps2, G)
             /\ (~Has(obs.ps2, c) => \A g \in G : ~Has(obs.ps2, g))
    ELSE /\ ~env.follower
         /\ Has(ps, c)                                         \* unpin of a CID that is not pinned
         /\ LET e == Ent(ps, c) IN
            IF e.type = "meta"
            THEN SamePs(obs.ps2, Without(ps, {c, e.ref} \cup Range(Links(env, e.ref))))   \* + cluster-DAG and shards
            ELSE SamePs(obs.ps2, Without(ps, {c}))                                         \* exactly that entry

EffectNow(env, ps, call, obs) ==
    CASE call.op = "pin" ->
            IF call.o.upd # NoCid /\ call.o.upd # call.cid
            THEN UpdateEffect(env, ps, call.o.upd, call.cid, call.o, obs)
            ELSE PinEffect(env, ps, ReqOf(call.cid, call.o), obs)
      [] call.op = "rpcpin" ->
            IF call.p.upd # NoCid /\ call.p.upd # call.p.cid
            THEN UpdateEffect(env, ps, call.p.upd, call.p.cid, call.p, obs)
            ELSE PinEffect(env, ps, call.p, obs)
      [] call.op = "update" -> UpdateEffect(env, ps, call.from, call.to, call.o, obs)
      [] call.op = "unpin"  -> UnpinEffect(env, ps, call.cid, obs)
      [] call.op = "pinpath" ->
            LET c == Resolve(env, call.path) IN
            IF c = NoCid THEN ~obs.ok /\ SamePs(obs.ps2, ps)
            ELSE IF call.o.upd # NoCid /\ call.o.upd # c THEN UpdateEffect(env, ps, call.o.upd, c, call.o, obs)
            ELSE PinEffect(env, ps, ReqOf(c, call.o), obs)
      [] call.op = "unpinpath" ->
            LET c == Resolve(env, call.path) IN
            IF c = NoCid THEN ~obs.ok /\ SamePs(obs.ps2, ps) ELSE UnpinEffect(env, ps, c, obs)

(***************************************************************************)
(* DEFERRED CONSENSUS                                                      *)
(* Between two flushes the committed pinset ps0 does not change; win is    *)
(* the sequence of [call, ok, ret] acknowledged since the last flush.      *)
(***************************************************************************)
\* TRANSCRIPTION.  Every call decides on the committed pinset exactly as in the immediate mode -- in particular the
\* "same options" branch of pin() still SUBMITS LogPin(existing) -- and what it submits is queued, not applied.
Virtual(d, ps, obs) ==
    IF obs.ok /\ d.kind \in {"store", "alloc"} /\ Len(obs.ret) = 1 THEN Put(ps, AsStored(obs.ret[1]))
    ELSE IF obs.ok /\ d.kind = "remove" THEN Without(ps, d.cids)
    ELSE ps
DeferStepOK(env, ps, call, obs) ==
    LET d == Decide(env, ps, call) IN
    /\ SamePs(obs.ps2, ps)                                   \* nothing is committed by the call itself
    /\ obs.failed = <<>>
    /\ StepOKOf(d, ps, [obs EXCEPT !.ps2 = Virtual(d, ps, obs)])
\* Flush applies the queued operations in the order in which they were acknowledged
RECURSIVE ApplyWin(_, _, _, _)
ApplyWin(env, ps0, cur, win) ==
    IF win = <<>> THEN cur
    ELSE LET w == Head(win) IN
         ApplyWin(env, ps0, Virtual(Decide(env, ps0, w.call), cur, w), Tail(win))
FlushStepOK(env, ps0, win, psF) == SamePs(psF, ApplyWin(env, ps0, ps0, win))

\* PROPERTY.  At a flushed state the pinset is the sequential application of the acknowledged successful calls:
\* per CID the last successful call that is about it wins; calls that were refused change nothing.
CidsOf(S) == {e.cid : e \in S}
Targets(env, ps0, call) ==
    CASE call.op = "pin"       -> {call.cid}
      [] call.op = "rpcpin"    -> {call.p.cid}
      [] call.op = "update"    -> {call.to}
      [] call.op = "unpin"     -> UnpinGroup(env, ps0, call.cid)
      [] call.op = "pinpath"   -> {Resolve(env, call.path)} \ {NoCid}
      [] call.op = "unpinpath" -> IF Resolve(env, call.path) = NoCid THEN {} ELSE UnpinGroup(env, ps0, Resolve(env, call.path))
LastWriter(env, ps0, win, x) ==
    LET I == {i \in DOMAIN win : win[i].ok /\ x \in Targets(env, ps0, win[i].call)} IN
    IF I = {} THEN 0 ELSE CHOOSE i \in I : \A j \in I : j <= i
\* the entry n carries what the pin request p asked for (cluster defaults substituted)
CarriesReq(env, n, p) ==
    /\ n.type = p.type /\ n.name = p.name /\ n.depth = p.depth /\ n.mode = ModeOfDepth(p.depth)
    /\ n.rmin = (IF p.rmin = 0 THEN env.dmin ELSE p.rmin) /\ n.rmax = (IF p.rmax = 0 THEN env.dmax ELSE p.rmax)
    /\ n.exp = p.exp /\ PairSet(n.meta) = PairSet(p.meta) /\ Range(n.orig) = Range(p.orig) /\ n.ref = p.ref
\* the entry n is a copy of the source as the update saw it (the committed pinset)
CopiesSource(ps0, n, from, o) ==
    /\ Has(ps0, from)
    /\ LET s == Ent(ps0, from) IN
       /\ n.type = s.type /\ n.depth = s.depth /\ n.mode = s.mode /\ n.rmin = s.rmin /\ n.rmax = s.rmax
       /\ n.allocs = s.allocs /\ PairSet(n.meta) = PairSet(s.meta) /\ Range(n.orig) = Range(s.orig) /\ n.ref = s.ref
       /\ n.name \in {s.name} \cup (IF o.name # "" THEN {o.name} ELSE {})
       /\ n.exp \in {s.exp} \cup ({o.exp} \cap Future)
\* the committed pinset a call of the window saw: the one at the last flush -- unless the record says otherwise (a real
\* batching consensus commits when the batch is old enough, which may be in the middle of a window)
ViewOf(w, ps0) == IF "ps" \in DOMAIN w THEN Range(w.ps) ELSE ps0
WriterOK(env, ps0, call, x, psF) ==
    IF call.op \in {"unpin", "unpinpath"} THEN ~Has(psF, x)                 \* the last word was "unpin": gone
    ELSE /\ OneEntry(psF, x)                                                 \* the last word was a pin: there, as asked
         /\ LET n == Ent(psF, x) IN
            CASE call.op = "update" -> CopiesSource(ps0, n, call.from, call.o)
              [] call.op = "rpcpin" -> IF call.p.upd # NoCid /\ call.p.upd # x THEN CopiesSource(ps0, n, call.p.upd, call.p)
                                       ELSE CarriesReq(env, n, call.p)
              [] OTHER -> IF call.o.upd # NoCid /\ call.o.upd # x THEN CopiesSource(ps0, n, call.o.upd, call.o)
                          ELSE CarriesReq(env, n, ReqOf(x, call.o))
FlushOK(env, ps0, win, psF) ==
    \A x \in CidsOf(ps0) \cup CidsOf(psF) \cup UNION {Targets(env, ps0, win[i].call) : i \in DOMAIN win} :
        LET k == LastWriter(env, ps0, win, x) IN
        IF k = 0 THEN /\ Has(ps0, x) <=> Has(psF, x)                          \* nobody (successfully) asked: untouched
                      /\ Has(ps0, x) => OneEntry(psF, x) /\ Norm(Ent(psF, x)) = Norm(Ent(ps0, x))
        ELSE WriterOK(env, ViewOf(win[k], ps0), win[k].call, x, psF)

\* ---- dispatch: immediate mode / deferred mode / flush ----
EffectOK(env, ps, call, obs) ==
    IF call.op = "flush" THEN FlushOK(env, ps, obs.win, obs.ps2)
    ELSE IF env.deferred THEN TRUE                   \* judged at the next flush
    ELSE EffectNow(env, ps, call, obs)
StepOK(env, ps, call, obs) ==
    IF call.op = "flush" THEN FlushStepOK(env, ps, obs.win, obs.ps2)
    ELSE IF env.deferred THEN DeferStepOK(env, ps, call, obs)
    ELSE StepNow(env, ps, call, obs)
=============================================================================
