SPECIFICATION Spec
CONSTANT NPEERS = 3
CONSTANT EqualsMode = "ascoded"
CONSTANT UpdateGuard = FALSE
CONSTANT RepinRedirect = TRUE
