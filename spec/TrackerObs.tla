---------------------------- MODULE TrackerObs ----------------------------
(* Judges observations recorded from the REAL stateless tracker (one record *)
(* per stable state reached while replaying TLC-generated behaviours) with  *)
(* the property predicates of Tracker.tla.  Reads env TRACE_FILE, writes    *)
(* the numbers of the failing records to env VERDICT_FILE.                  *)
EXTENDS Tracker, Json, IOUtils

Recs == ndJsonDeserialize(IOEnv.TRACE_FILE)
N == Len(Recs)

Rng(s) == {s[i] : i \in DOMAIN s}

\* C05
BadConverge == {i \in 1..N : Recs[i].quiescent /\ ~ConvergeOn(Recs[i].st, Recs[i].ipfs, Recs[i].status)}
\* the tolerated class "direct pin over a CID the daemon holds recursively" counts only
\* if the daemon held it recursively BEFORE the recover round (ipfs0): a recover round
\* that itself turns a direct pin into a recursive one is a violation.
RecoverObs(r) ==
    \A c \in DOMAIN r.st :
        \/ MatchesIn(r.st, r.ipfs, c)
        \/ (DirOverRecStuck /\ StuckDirOverRec(r.st, r.ipfs, c) /\ r.ipfs0[c] = "rec")
BadRecover  == {i \in 1..N : Recs[i].quiescent /\ Recs[i].healthy /\ ~RecoverObs(Recs[i])}
\* the situation was as the spec says (queue full) but the instruction did not report it
BadNoDrop   == {i \in 1..N : Recs[i].expres = "fullq" /\ Recs[i].why \in {"", "result"} /\ Recs[i].res # "fullq"}
\* tolerated class actually observed (reported as a known finding by the check)
StuckSeen   == {i \in 1..N : Recs[i].quiescent /\ Recs[i].healthy /\
                    \E c \in DOMAIN Recs[i].st :
                        StuckDirOverRec(Recs[i].st, Recs[i].ipfs, c) /\ Recs[i].ipfs0[c] = "rec"}

\* C06
BadAgree    == {i \in 1..N : Recs[i].quiescent /\ ~AgreeOn(Recs[i].status, Recs[i].statusall)}
\* "... an error status whenever ... its last pin or unpin failed": an instruction that was
\* rejected (queue full) must leave its CID in an error status
LastFailedShown(r) ==
    (r.res = "fullq" /\ r.act.name \in {"Track", "Untrack", "Recover"}) => IsErr(r.status[r.act.cid])
BadTruthful == {i \in 1..N : (Recs[i].quiescent /\ ~TruthfulOn(Recs[i].st, Recs[i].ipfs, Recs[i].status))
                               \/ ~LastFailedShown(Recs[i])}
BadFilter   == {i \in 1..N : Recs[i].quiescent /\
                    \E k \in DOMAIN Recs[i].filters :
                        ~FilterOn(Recs[i].statusall, Rng(Recs[i].filters[k].f), Recs[i].filters[k].res)}

Drift == {i \in 1..N : ~Recs[i].match}

ASSUME ndJsonSerialize(IOEnv.VERDICT_FILE,
        <<[n |-> N, converge |-> BadConverge, recover |-> BadRecover, nodrop |-> BadNoDrop, stuck |-> StuckSeen,
           agree |-> BadAgree, truthful |-> BadTruthful, filter |-> BadFilter, drift |-> Drift]>>)
=============================================================================
