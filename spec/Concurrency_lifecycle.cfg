SPECIFICATION LifeSpec
CONSTANTS
  MaxAlerts = 2
  NWrites = 0
  NReads = 0
  SizedOutsideLock = FALSE
  ShutdownInline = FALSE
  ClientGuarded = TRUE
  Part = "lifecycle"
INVARIANTS NoSelfWait
PROPERTIES EventuallyStopped
