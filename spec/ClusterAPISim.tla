-------------------------- MODULE ClusterAPISim --------------------------
(* History generator for C04 (TLC -simulate): call sequences over the      *)
(* universe of ClusterAPIGen, biased towards re-pins that are identical to *)
(* a stored entry or differ from it in exactly one option, interleaved     *)
(* with changes of the peers' metrics.  The histories are read from the     *)
(* behaviour files TLC writes; the driver replays them on a real Cluster.  *)
EXTENDS ClusterAPIGen, Json, Randomization

CONSTANT Depth
VARIABLES env, ps, hist, init

\* the request that repeats the options of a stored data entry
OptsOfEnt(e) == [name |-> e.name, mode |-> e.mode, rmin |-> e.rmin, rmax |-> e.rmax, exp |-> e.exp, meta |-> e.meta,
                 orig |-> e.orig, ua |-> <<>>, upd |-> NoCid]
Near(o) == {o}
           \cup {[o EXCEPT !.name = v] : v \in ONames} \cup {[o EXCEPT !.mode = v] : v \in OModes}
           \cup {[o EXCEPT !.rmin = f[1], !.rmax = f[2]] : f \in OFactors} \cup {[o EXCEPT !.exp = v] : v \in OExps}
           \cup {[o EXCEPT !.meta = v] : v \in OMetas} \cup {[o EXCEPT !.orig = v] : v \in OOrigs}
           \cup {[o EXCEPT !.ua = v] : v \in OUas} \cup {[o EXCEPT !.upd = v] : v \in OUpds \cup {"c1"}}
NearCalls(S) == UNION {{PinCall(e.cid, o) : o \in Near(OptsOfEnt(e))} : e \in {x \in S : x.type = "data"}}
RandOpt(x) == Opt(RandomElement(ONames), RandomElement(OModes), RandomElement(OFactors), RandomElement(OExps),
                  RandomElement(OMetas), RandomElement(OOrigs), RandomElement(OUas), RandomElement(OUpds))
Fresh(S) == {PinCall(x[1], RandOpt(x)) : x \in {"c1", "c2", "c3"} \X (1..4)}
Pinned(S) == {e.cid : e \in S}
SimCalls(S) == RandomSubset(14, NearCalls(S)) \cup Fresh(S)
               \cup {UnpinCall(c) : c \in Pinned(S)} \cup {UnpinCall("c3")} \cup {UnpathCall(p) : p \in PathNames}
               \cup {UpdCall(f, t, o) : f \in Pinned(S) \cap {"c1", "c2", "c3"}, t \in {"c1", "c2", "c3"}, o \in RandomSubset(2, FewOpts)}
               \cup RandomSubset(10, OtherCalls)

Init == /\ env \in Envs
        /\ ps \in {{}, Context, {C2Entry}}
        /\ hist = <<>>
        /\ init = [env |-> env, pre |-> ps]
Next == /\ Len(hist) < Depth
        /\ UNCHANGED init
        /\ \/ \E call \in SimCalls(ps) : \E o \in Outcomes(env, ps, call) :
                 /\ ps' = o.ps2 /\ env' = env
                 /\ hist' = Append(hist, IF HasEndpoint(call) THEN Via(call, RandomElement({"go", "rpc"})) ELSE call)
           \/ \E lf \in LogFailSet \ {env.logfail} :  \* the consensus component starts / stops failing operations
                 /\ env' = [env EXCEPT !.logfail = lf] /\ ps' = ps
                 /\ hist' = Append(hist, [op |-> "logfail", logfail |-> lf])
           \/ \E fl \in FailSet \ {env.fail} :       \* BlockGet starts / stops failing for some blocks
                 /\ env' = [env EXCEPT !.fail = fl] /\ ps' = ps
                 /\ hist' = Append(hist, [op |-> "blockfail", fail |-> fl])
           \/ \E m \in MsSet \ {env.ms} :
                 /\ env' = [env EXCEPT !.ms = m] /\ ps' = ps
                 /\ hist' = Append(hist, [op |-> "metrics", ms |-> m])
Spec == Init /\ [][Next]_<<env, ps, hist, init>>
=============================================================================
