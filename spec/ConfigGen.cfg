SPECIFICATION Spec
