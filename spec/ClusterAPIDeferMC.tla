------------------------ MODULE ClusterAPIDeferMC ------------------------
(* C04 with a consensus component that acknowledges before it commits      *)
(* (crdt batching, a lagging raft follower): every history of at most      *)
(* MaxLen events over {pin c1 with options A, pin c1 with options B,       *)
(* unpin c1, update c2->c1, update c1->c3, pin c3 updating from c1, plain  *)
(* pin of c3, unpin of the sharded content, Flush}, Flush at any position. *)
(* Invariant: at every flushed state FlushOK (the pinset is the sequential *)
(* application of the acknowledged successful calls).  Every history of    *)
(* EmitLens events is also printed as one JSON line and replayed on a real *)
(* Cluster.                                                                *)
EXTENDS ClusterAPIGen, Json

CONSTANTS MaxLen, EmitLens, SkipSameOptsLogPin
VARIABLES ps, win, hist, init, last

DEnv == [EnvOf(FALSE, <<1, 2>>, "asc", MsGood, <<>>) EXCEPT !.deferred = TRUE]
OA == Opt("n1", "rec", <<1, 2>>, "f1", <<MA>>, <<>>, <<>>, NoCid)
OB == [OA EXCEPT !.name = "n2"]
C1A == DataEnt("c1", "n1", "rec", <<1, 2>>, <<"p2", "p1">>, "f1", <<MA>>, <<>>, NoCid)
DCalls == {PinCall("c1", OA), PinCall("c1", OB), UnpinCall("c1"), UpdCall("c2", "c1", PlainOpt), UpdCall("c1", "c3", PlainOpt),
           PinCall("c3", [OA EXCEPT !.upd = "c1"]), PinCall("c3", PlainOpt), UnpinCall("m1")}
          \cup T({}, {UnpinCall("c2"), PinCall("c2", OB), UnpinCall("c3")})

\* what the mutant of interest does: the "same options" branch returns without LogPin (used only by the _nologpin cfg,
\* which must violate the invariant)
Acked(call) ==
    LET d == Decide(DEnv, ps, call) IN
    IF SkipSameOptsLogPin /\ d.kind = "store" /\ Has(ps, d.rec.cid) /\ call.op = "pin" /\ d.rec = Ent(ps, d.rec.cid)
    THEN {[call |-> call, ok |-> TRUE, ret |-> <<>>]}
    ELSE {[call |-> call, ok |-> o.ok, ret |-> o.ret] : o \in Outcomes(DEnv, ps, call)}

Init == /\ ps \in {{C2Entry}, {C2Entry, C1A} \cup Sharded}
        /\ win = <<>> /\ hist = <<>> /\ init = ps /\ last = [ps0 |-> {}, win |-> <<>>]
Call == /\ Len(hist) < MaxLen
        /\ \E c \in DCalls : \E a \in Acked(c) :
              /\ win' = Append(win, a) /\ hist' = Append(hist, c)
        /\ UNCHANGED <<ps, init, last>>
Flush == /\ Len(hist) < MaxLen
         /\ ps' = ApplyWin(DEnv, ps, ps, win)
         /\ last' = [ps0 |-> ps, win |-> win]
         /\ win' = <<>> /\ hist' = Append(hist, [op |-> "flush"])
         /\ UNCHANGED init
Next == Call \/ Flush
Spec == Init /\ [][Next]_<<ps, win, hist, init, last>>

Flushed == Len(hist) > 0 /\ hist[Len(hist)].op = "flush"
PropertyHolds == Flushed => FlushOK(DEnv, last.ps0, last.win, ps)
\* a final flush is always checked too
FinalHolds == FlushOK(DEnv, ps, win, ApplyWin(DEnv, ps, ps, win))
Emit == Len(hist) \in EmitLens => PrintT("HIST " \o ToJson([env |-> DEnv, pre |-> init, steps |-> hist]))
=============================================================================
