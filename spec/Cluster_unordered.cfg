SPECIFICATION Spec
CONSTANTS
  PEERS = {"p1"}
  CIDS = {"c1"}
  MaxOps = 2
  MaxOut = 0
  HandoffOrdered = FALSE
INVARIANTS E2EInv
