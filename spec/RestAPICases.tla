---------------------------- MODULE RestAPICases ----------------------------
(* Writes the abstract requests of a level to env CASES_FILE (HTTP cases)   *)
(* and env CLIENT_FILE (calls through the bundled client).                  *)
EXTENDS RestAPIGen, Json, IOUtils, SequencesExt

Level == IOEnv.LEVEL
Http   == UNION {RouteCases(r, Level) : r \in Routes} \cup UNION {PatCases(p, Level) : p \in Pats}
Client == UNION {ClientCases(r) : r \in ClientRoutes}

ASSUME ndJsonSerialize(IOEnv.CASES_FILE, SetToSeq(Http))
ASSUME ndJsonSerialize(IOEnv.CLIENT_FILE, SetToSeq(Client))
ASSUME PrintT(<<"cases", Cardinality(Http), Cardinality(Client)>>)

VARIABLE x
Init == x = 0
Next == UNCHANGED x
Spec == Init /\ [][Next]_x
=============================================================================
