SPECIFICATION TSpec
CONSTANTS
    Machine = "none"
    CIDS = {"c1"}
    VALS = {"vA"}
    MAXIDX = 4
    INITS = {}
    ROTOPS = {"save","clean","mklogs"}
    KEEPS = {1}
    MAXOPS = 0
    MAXCLEAN = 0
    PEERS = {"p1"}
    ADDRSETS = {"x"}
    PRIOS = {0}
    JUNK = {"garbage"}
    MAXJUNK = 0
    MAXIMPORTS = 1
    FAULTS = {0}
    MarshalStopsOnError = TRUE
    TruncInLock = TRUE
    MAXLOADS = 2
    REKEEP = FALSE
    MAXSAVES = 0
    ImportCleans = TRUE
    UnmarshalMode = "replace"
    LoadSkipsBad = TRUE
