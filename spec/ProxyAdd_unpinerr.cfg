SPECIFICATION Spec
CONSTANT UnpinCtx = "proxy"
CONSTANT UnpinAfterPinError = TRUE
INVARIANT PinFalseHonoured
INVARIANT PinTrueHonoured
INVARIANT ErrorMeansNoOp
