\* control: with the transcription guards off (any recorded outcome is applied) the property predicates are
\* refutable - expected to be violated
CONSTANTS CIDS = {"c1"} MaxOps = 2 K0 = 1 Q0 = 1 Level0 = "tracker" Strict = FALSE Lag = FALSE
INIT Init
NEXT ControlNext
INVARIANTS TypeOK TableCid OneLivePerCid LiveIsTracked ReplacedIsCancelled CleanOnlyOwn CleanOnlyDone ErrorSticky PhaseForward FullQueueIsError FullQueueShowsError QueueBound WorkerBound
