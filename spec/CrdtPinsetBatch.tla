------------------------- MODULE CrdtPinsetBatch -------------------------
(***************************************************************************)
(* C02, first half - the batching layer of consensus/crdt/consensus.go on  *)
(* ONE replica: LogPin / LogUnpin (direct write, or enqueue on the bounded *)
(* channel batchItemCh, or ErrMaxQueueSizeReached), and batchWorker (size  *)
(* commit, age timer, commit failure handling exactly as coded).           *)
(*                                                                         *)
(* Kept apart on purpose:                                                  *)
(*  * the transcription: actions Submit, Take, AddOk, AddErr, SizeCommit*,  *)
(*    AgeCommit*, AgeEmpty                                                 *)
(*    with the go-ds-crdt "current delta" of a datastore batch (Put        *)
(*    appends an element, Delete drops the key's elements from the delta   *)
(*    and tombstones what the store holds - updateDeltaWithRemove);        *)
(*  * the property predicates (EffectIsPrefix, HooksCover, NotStranded,    *)
(*    NoHang, CommitRule), written from the statement over the history     *)
(*    variables accepted / ncomm / tracked.                                *)
(*                                                                         *)
(* cfg is a variable that never changes (it is chosen in Init) so that the *)
(* trace specification can take it from each recorded run.                 *)
(*   cfg.batching : batching enabled (MaxBatchSize > 0 /\ MaxBatchAge > 0) *)
(*   cfg.maxsize, cfg.maxq                                                 *)
(*   cfg.agereset : FALSE = as coded at the pinned commit (a commit error  *)
(*                  on the age path leaves the expired timer alone);       *)
(*                  TRUE  = the timer is re-armed after such an error.     *)
(*   cfg.emptyskip: FALSE = as coded before the second repair (the age     *)
(*                  timer, armed before the first item is added, fires     *)
(*                  with nothing batched and Commit publishes a nil delta: *)
(*                  go-ds-crdt panics); TRUE = the age path skips an empty *)
(*                  batch.                                                 *)
(***************************************************************************)
EXTENDS Integers, Sequences, FiniteSets, TLC

CONSTANTS CIDS, VALS

Absent == "-"
PinOps   == [k : {"pin"}, c : CIDS, v : VALS]
UnpinOps == [k : {"unpin"}, c : CIDS, v : {Absent}]
Ops      == PinOps \cup UnpinOps

EmptyPinset == [c \in CIDS |-> Absent]
Apply(ps, op) == IF op.k = "pin" THEN [ps EXCEPT ![op.c] = op.v]
                                 ELSE [ps EXCEPT ![op.c] = Absent]
RECURSIVE ApplyAll(_, _)
ApplyAll(ps, ops) == IF ops = <<>> THEN ps ELSE ApplyAll(Apply(ps, Head(ops)), Tail(ops))

Range(s) == {s[j] : j \in DOMAIN s}

VARIABLES
    cfg,        \* see above
    pinset,     \* what State().List() shows: cid -> value | Absent
    queue,      \* batchItemCh (buffered channel, capacity cfg.maxq)
    inhand,     \* item received by batchWorker and not yet added (<<>> or <<op>>)
    delta,      \* go-ds-crdt curDelta of the batching state: [elems, tombs]
    cur,        \* batchCurSize
    timer,      \* "stopped" | "running" | "drained" (expired and its channel consumed)
    wpc,        \* batchWorker: "select" | "add" | "sizecommit" | "hung"
    fails,      \* armed datastore failures (the next `fails` commits fail on their first write)
    rfails,     \* armed datastore READ failures (the next `rfails` set.Rmv queries fail: batch.Delete errors)
    accepted,   \* history: operations that returned nil, in submission order
    taken,      \* history: the accepted operations that were written (directly) or added to a batch, in order
    ndropped,   \* history: accepted operations the worker dropped because adding them failed (only logged)
    ncomm,      \* history: how many of `taken` are covered by successful commits
    nbatch,     \* history: operations added to the delta since the last successful commit
    tracked,    \* history: the pin tracker's view, built from Track/Untrack hand-offs
    res,        \* result of the last Submit: "ok" | "full" | "err" | "none"
    out         \* log lines the last action produces (hooks fire inside the commit)

vars == <<cfg, pinset, queue, inhand, delta, cur, timer, wpc, fails, rfails, accepted, taken, ndropped, ncomm, nbatch, tracked, res, out>>

EmptyDelta == [elems |-> <<>>, tombs |-> <<>>]

-----------------------------------------------------------------------------
(* go-ds-crdt batch / set semantics on one replica *)

\* batch.Put: set.Add(key, value) merged into curDelta
DeltaPut(d, c, v) == [d EXCEPT !.elems = Append(@, [c |-> c, v |-> v])]
\* batch.Delete: set.Rmv(key) tombstones the elements the STORE holds now;
\* updateDeltaWithRemove drops the key's elements from the current delta.
DeltaDel(d, ps, c) ==
    [elems |-> SelectSeq(d.elems, LAMBDA e : e.c # c),
     tombs |-> IF ps[c] # Absent /\ c \notin Range(d.tombs) THEN Append(d.tombs, c) ELSE d.tombs]

RECURSIVE PutElems(_, _)
PutElems(ps, es) == IF es = <<>> THEN ps
                    ELSE PutElems([ps EXCEPT ![Head(es).c] = Head(es).v], Tail(es))
\* set.Merge: putTombs first, then putElems (a fresh local delta has the highest priority)
Merge(ps, d) == PutElems([c \in CIDS |-> IF c \in Range(d.tombs) THEN Absent ELSE ps[c]], d.elems)

TrackL(c, v)   == [ev |-> "track", c |-> c, v |-> v]
UntrackL(c)    == [ev |-> "untrack", c |-> c]
BatchedL(op, n) == [ev |-> "batched", op |-> op.k, c |-> op.c, cur |-> n]
CommitL(r, n, ok) == [ev |-> "commit", reason |-> r, cur |-> n, ok |-> ok]
StoreFailL     == [ev |-> "storefail"]
ReadFailL      == [ev |-> "readfail"]
BatchErrL(op, n) == [ev |-> "batcherr", op |-> op.k, c |-> op.c, cur |-> n]

\* deleteHook once per tombstoned key, then putHook per element, in delta order
Hooks(d) == [j \in 1..Len(d.tombs) |-> UntrackL(d.tombs[j])] \o
            [j \in 1..Len(d.elems) |-> TrackL(d.elems[j].c, d.elems[j].v)]

RECURSIVE ApplyHooks(_, _)
ApplyHooks(tr, hs) ==
    IF hs = <<>> THEN tr
    ELSE ApplyHooks(IF Head(hs).ev = "track" THEN [tr EXCEPT ![Head(hs).c] = Head(hs).v]
                                             ELSE [tr EXCEPT ![Head(hs).c] = Absent], Tail(hs))

-----------------------------------------------------------------------------
InitWith(c) ==
    /\ cfg = c
    /\ pinset = EmptyPinset /\ tracked = EmptyPinset
    /\ queue = <<>> /\ inhand = <<>> /\ delta = EmptyDelta
    /\ cur = 0 /\ timer = "stopped" /\ wpc = "select" /\ fails = 0 /\ rfails = 0
    /\ accepted = <<>> /\ taken = <<>> /\ ndropped = 0 /\ ncomm = 0 /\ nbatch = 0
    /\ res = "none" /\ out = <<>>

(* LogPin / LogUnpin with batching: non-blocking send on the channel *)
SubmitBatched(op) ==
    /\ cfg.batching
    /\ IF Len(queue) < cfg.maxq
         THEN queue' = Append(queue, op) /\ accepted' = Append(accepted, op) /\ res' = "ok"
         ELSE UNCHANGED <<queue, accepted>> /\ res' = "full"
    /\ out' = <<>>
    /\ UNCHANGED <<cfg, pinset, inhand, delta, cur, timer, wpc, fails, rfails, taken, ndropped, ncomm, nbatch, tracked>>

(* LogPin / LogUnpin without batching: state.Add / state.Rm on the crdt datastore.
   Rm of a key the store does not hold writes nothing (no tombstones -> no publish). *)
SubmitDirect(op) ==
    /\ ~cfg.batching
    /\ LET d    == IF op.k = "pin" THEN DeltaPut(EmptyDelta, op.c, op.v) ELSE DeltaDel(EmptyDelta, pinset, op.c)
           noop == op.k = "unpin" /\ d.tombs = <<>>
       IN IF op.k = "unpin" /\ rfails > 0
            THEN \* set.Rmv starts with a query of the key's elements: a read error is returned to the caller
                 /\ rfails' = rfails - 1 /\ res' = "err" /\ out' = <<ReadFailL>>
                 /\ UNCHANGED <<pinset, tracked, accepted, taken, ncomm, fails>>
          ELSE IF noop
            THEN /\ res' = "ok" /\ accepted' = Append(accepted, op) /\ taken' = Append(taken, op) /\ ncomm' = ncomm + 1
                 /\ out' = <<>> /\ UNCHANGED <<pinset, tracked, fails, rfails>>
            ELSE IF fails > 0
                   THEN /\ fails' = fails - 1 /\ res' = "err" /\ out' = <<StoreFailL>>
                        /\ UNCHANGED <<pinset, tracked, accepted, taken, ncomm, rfails>>
                   ELSE /\ pinset' = Merge(pinset, d) /\ tracked' = ApplyHooks(tracked, Hooks(d))
                        /\ accepted' = Append(accepted, op) /\ taken' = Append(taken, op) /\ ncomm' = ncomm + 1
                        /\ res' = "ok" /\ out' = Hooks(d) /\ UNCHANGED <<fails, rfails>>
    /\ UNCHANGED <<cfg, queue, inhand, delta, cur, timer, wpc, nbatch, ndropped>>

Submit(op) == SubmitBatched(op) \/ SubmitDirect(op)

Arm(n) == /\ fails' = fails + n /\ out' = <<>>
          /\ UNCHANGED <<cfg, pinset, queue, inhand, delta, cur, timer, wpc, rfails, accepted, taken, ndropped, ncomm, nbatch, tracked, res>>
RArm(n) == /\ rfails' = rfails + n /\ out' = <<>>
           /\ UNCHANGED <<cfg, pinset, queue, inhand, delta, cur, timer, wpc, fails, accepted, taken, ndropped, ncomm, nbatch, tracked, res>>

(* batchWorker: case batchItem := <-css.batchItemCh, first half (timer reset) *)
Take ==
    /\ cfg.batching /\ wpc = "select" /\ queue # <<>>
    /\ inhand' = <<Head(queue)>> /\ queue' = Tail(queue)
    /\ timer' = IF cur = 0 THEN "running" ELSE timer
    /\ wpc' = "add" /\ out' = <<>>
    /\ UNCHANGED <<cfg, pinset, delta, cur, fails, rfails, accepted, taken, ndropped, ncomm, nbatch, tracked, res>>

(* batchingState.Add / Rm, batchCurSize++, size test *)
AddOk ==
    /\ wpc = "add"
    /\ ~(inhand[1].k = "unpin" /\ rfails > 0)
    /\ LET op == inhand[1] IN
         /\ delta' = IF op.k = "pin" THEN DeltaPut(delta, op.c, op.v) ELSE DeltaDel(delta, pinset, op.c)
         /\ out' = <<BatchedL(op, cur + 1)>>
         /\ taken' = Append(taken, op)
    /\ cur' = cur + 1 /\ nbatch' = nbatch + 1 /\ inhand' = <<>>
    /\ wpc' = IF cur + 1 < cfg.maxsize THEN "select" ELSE "sizecommit"
    /\ UNCHANGED <<cfg, pinset, queue, timer, fails, rfails, accepted, ndropped, ncomm, tracked, res>>

(* batchingState.Rm fails (set.Rmv cannot query the store): the error is logged and the item is
   DROPPED (`continue`): batchCurSize is not incremented, the timer armed in Take keeps running *)
AddErr ==
    /\ wpc = "add" /\ inhand[1].k = "unpin" /\ rfails > 0
    /\ rfails' = rfails - 1 /\ inhand' = <<>> /\ wpc' = "select"
    /\ ndropped' = ndropped + 1
    /\ out' = <<ReadFailL, BatchErrL(inhand[1], cur)>>
    /\ UNCHANGED <<cfg, pinset, queue, delta, cur, timer, fails, accepted, taken, ncomm, nbatch, tracked, res>>

CommitEffect ==
    /\ pinset' = Merge(pinset, delta)
    /\ tracked' = ApplyHooks(tracked, Hooks(delta))
    /\ delta' = EmptyDelta /\ ncomm' = ncomm + nbatch /\ nbatch' = 0

(* Commit after reaching max size. On success: `if !batchTimer.Stop() { <-batchTimer.C }`
   - blocks for ever when the timer expired AND its channel was already consumed
   by the age case (only possible after a failed age commit). On error: continue. *)
SizeCommitOk ==
    /\ wpc = "sizecommit" /\ fails = 0
    /\ CommitEffect
    /\ out' = Hooks(delta) \o <<CommitL("size", cur, TRUE)>>
    /\ IF timer = "drained" THEN wpc' = "hung" /\ UNCHANGED <<timer, cur>>
                            ELSE wpc' = "select" /\ timer' = "stopped" /\ cur' = 0
    /\ UNCHANGED <<cfg, queue, inhand, fails, rfails, accepted, taken, ndropped, res>>

SizeCommitFail ==
    /\ wpc = "sizecommit" /\ fails > 0
    /\ fails' = fails - 1 /\ wpc' = "select"
    /\ out' = <<StoreFailL, CommitL("size", cur, FALSE)>>
    /\ UNCHANGED <<cfg, pinset, queue, inhand, delta, cur, timer, rfails, accepted, taken, ndropped, ncomm, nbatch, tracked, res>>

(* case <-batchTimer.C (the timer has fired; firing is not a separate step) *)
AgeCommitOk ==
    /\ cfg.batching /\ wpc = "select" /\ timer = "running" /\ fails = 0 /\ cur > 0
    /\ CommitEffect
    /\ out' = Hooks(delta) \o <<CommitL("age", cur, TRUE)>>
    /\ timer' = "drained" /\ cur' = 0
    /\ UNCHANGED <<cfg, queue, inhand, wpc, fails, rfails, accepted, taken, ndropped, res>>

AgeCommitFail ==
    /\ cfg.batching /\ wpc = "select" /\ timer = "running" /\ fails > 0 /\ cur > 0
    /\ fails' = fails - 1
    /\ timer' = IF cfg.agereset THEN "running" ELSE "drained"
    /\ out' = <<StoreFailL, CommitL("age", cur, FALSE)>>
    /\ UNCHANGED <<cfg, pinset, queue, inhand, delta, cur, wpc, rfails, accepted, taken, ndropped, ncomm, nbatch, tracked, res>>

(* the timer fires with nothing batched (cur = 0 <=> the current delta is nil: the first item of the
   batch was dropped by AddErr). As coded before the repair: Commit -> publishDelta(nil) -> go-ds-crdt
   addDAGNode dereferences the nil delta: the panic kills the process (everything queued is lost). *)
AgeEmpty ==
    /\ cfg.batching /\ wpc = "select" /\ timer = "running" /\ cur = 0
    /\ IF cfg.emptyskip THEN timer' = "drained" /\ UNCHANGED wpc
                         ELSE wpc' = "crashed" /\ UNCHANGED timer
    /\ out' = <<>>
    /\ UNCHANGED <<cfg, pinset, queue, inhand, delta, cur, fails, rfails, accepted, taken, ndropped, ncomm, nbatch, tracked, res>>

Worker == Take \/ AddOk \/ AddErr \/ SizeCommitOk \/ SizeCommitFail \/ AgeCommitOk \/ AgeCommitFail \/ AgeEmpty

-----------------------------------------------------------------------------
(* Property predicates (from the statement) *)

\* accepted operations take effect in submission order, nothing lost, nothing
\* reordered, refused / failed operations have no effect
EffectIsPrefix == pinset = ApplyAll(EmptyPinset, SubSeq(taken, 1, ncomm))

\* every change of the pinset was handed to the tracker
HooksCover == tracked = pinset

\* a batch is committed when it reaches its size limit ...
CommitRule == /\ (wpc = "sizecommit" => cur >= cfg.maxsize)
              /\ (cfg.batching /\ wpc \in {"select", "add"} /\ cur >= cfg.maxsize => timer = "running")
\* ... or its age limit: whenever operations are waiting in the batch and the
\* worker is idle, the age timer is running (safety form of "cur > 0 ~> cur = 0")
NotStranded == ~(wpc = "select" /\ nbatch > 0 /\ timer # "running")
NoHang == wpc # "hung"
\* the batch worker never takes the process down
NoCrash == wpc # "crashed"

Quiescent == queue = <<>> /\ inhand = <<>> /\ nbatch = 0 /\ wpc = "select"
\* (an operation dropped by AddErr after it was acknowledged IS lost: ndropped > 0 is reported separately)
NothingLost == (Quiescent /\ ndropped = 0) => pinset = ApplyAll(EmptyPinset, accepted)
=============================================================================
