---------------------------- MODULE RestAPITrace ----------------------------
(* Evaluates the property predicates and the transcription on (request,     *)
(* observation) pairs recorded from the real rest.API and REST client       *)
(* (NDJSON file env TRACE_FILE); writes the verdicts to env VERDICT_FILE.   *)
EXTENDS RestAPI, Json, IOUtils, SequencesExt

Recs == ndJsonDeserialize(IOEnv.TRACE_FILE)

IsClient(i) == Recs[i].req.via = "client"
Http   == {i \in 1..Len(Recs) : ~IsClient(i)}
Client == {i \in 1..Len(Recs) : IsClient(i)}

Bad    == {i \in Http : ~Good(Recs[i].req, Recs[i].obs)}
Drift  == {i \in Http : ~Conforms(Recs[i].req, Recs[i].obs)}
CBad   == {i \in Client : ~ClientFaithful(Recs[i].req, Recs[i].obs)}
Dev    == {i \in Http : Deviates(Recs[i].req)}

Why(i) == [i |-> i, broken |-> Broken(Recs[i].req, Recs[i].obs),
           exp |-> LET e == Expected(Recs[i].req) IN [st |-> e.st, ops |-> e.ops, docs |-> e.docs]]
CWhy(i) == [i |-> i, expops |-> ClientExpectedOps(Recs[i].req)]

SetSeq(S) == SetToSortSeq(S, LAMBDA a, b : a < b)

ASSUME ndJsonSerialize(IOEnv.VERDICT_FILE,
        <<[n |-> Len(Recs), bad |-> SetSeq(Bad), drift |-> SetSeq(Drift), cbad |-> SetSeq(CBad), dev |-> SetSeq(Dev),
           why |-> [j \in 1..Cardinality(Bad \cup Drift) |-> Why(SetSeq(Bad \cup Drift)[j])],
           cwhy |-> [j \in 1..Cardinality(CBad) |-> CWhy(SetSeq(CBad)[j])]]>>)

VARIABLE x
Init == x = 0
Next == UNCHANGED x
Spec == Init /\ [][Next]_x
=============================================================================
