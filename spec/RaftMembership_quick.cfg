SPECIFICATION Spec
CONSTANT NPEERS = 3
CONSTANT NCIDS = 2
CONSTANT MaxOps = 3
CONSTANT MaxChanges = 4
CONSTANT BackupsRotate = 1
CONSTANT MaxDowns = 1
INVARIANT TypeOK
INVARIANT Agreement
INVARIANT LastPeerStays
INVARIANT ReadyImpliesSynced
INVARIANT RemovedStops
PROPERTY NoOpHarmless
PROPERTY PinsetKept
PROPERTY UnackedFaultyNotCommitted
INVARIANT StoppedCanRestart
INVARIANT RemovedDataGone
