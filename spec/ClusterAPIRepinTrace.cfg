SPECIFICATION Spec
CONSTANT NPEERS = 8
CONSTANT EqualsMode = "fixed"
CONSTANT UpdateGuard = TRUE
CONSTANT RepinRedirect = FALSE
