----------------------------- MODULE OpTracker -----------------------------
(***************************************************************************)
(* C05 / C18 - the operation table of the pin tracker at the grain of its  *)
(* critical sections, for TRACE VALIDATION of free-running executions.      *)
(*                                                                         *)
(* Shaped after pintracker/optracker/{operationtracker,operation}.go and   *)
(* the users of the table in pintracker/stateless/stateless.go (enqueue,   *)
(* opWorker, applyPinF, Track of a remote pin, Shutdown).  There is ONE    *)
(* ACTION PER HOOK EVENT (build tag verif; optracker/verif_on.go,          *)
(* stateless/verif_on.go) - each event is emitted while the lock that      *)
(* protects the change is held (opt.mu for the map, op.mu for the phase;   *)
(* Cancel / Shutdown / the non-blocking channel send are made one step of  *)
(* the event order by the hook) - so a recorded execution is a sequence of *)
(* these actions and nothing is inferred:                                  *)
(*                                                                         *)
(*   table level (opt.mu)  TrackNew(out = same | new | replaced), Replace, *)
(*                         Clean, TSetError, CleanDone                     *)
(*   operation level       SetPhase, OpSetError (op.mu), Cancel (context)  *)
(*   stateless tracker     TrackerEv, Enqueue, QueueFull, Dequeue, Skip,   *)
(*                         CallStart, CallReturn, Abandon, Shutdown        *)
(*                                                                         *)
(* Two layers are kept apart (BUILDING.md):                                *)
(*  - the TRANSCRIPTION of the code paths: every guard written             *)
(*    `Strict => ...` (how TrackNewOperation decides, the pointer compare  *)
(*    of Clean, the order of the steps of enqueue / opWorker / applyPinF,  *)
(*    carried by a program counter per operation `pc`, FIFO channels of    *)
(*    capacity Q, K pin workers + 1 unpin worker).  With Strict = FALSE    *)
(*    the actions just apply what was recorded.                            *)
(*  - the PROPERTY predicates (bottom of the module) over the table, the   *)
(*    operations and the history flags `hist`, which the actions maintain  *)
(*    in both modes.  A recorded execution that leaves the transcription   *)
(*    with every property predicate true is specification drift; one that  *)
(*    reaches a state where a predicate is false is a violation.           *)
(*                                                                         *)
(* RELATION TO Tracker.tla.  OpTracker is Tracker projected on (ops,       *)
(* table, pinQ, unpinQ) - the shared pinset `st`, the daemon `ipfs` and    *)
(* worker identities are not represented - at a finer grain.  State map:   *)
(*   Tracker!ops[id].{cid,type,phase,cancelled} = ops[id].(same fields)    *)
(*   Tracker!table, pinQ, unpinQ                = table, pinQ, unpinQ      *)
(*   Tracker!wk[w] = [op |-> i, pc |-> p]  <=>  ops[i].pc in               *)
(*       got~"got"/"gotc", call/applied~"calling", ret_ok~"retok",         *)
(*       ret_err~"reterr"/"reterrc", done~"done"/"donec"; the thread of    *)
(*       Track(remote) (RemoteT) ~ the "r..." program counters             *)
(* Action map (one Tracker step = a sequence of OpTracker steps, each at   *)
(* its own lock; `.` is sequential composition):                           *)
(*   Track / Untrack / Recover (Tracker!Enqueue)                           *)
(*       dedup      = TrackNew(same)                                       *)
(*       new        = TrackNew(new) . (Enqueue | QueueFull.OpSetError.Cancel)*)
(*       replace    = Replace . Cancel(old) . TrackNew(replaced) . (same tail)*)
(*   RecoverAll     = a sequence of the above, one per listed CID          *)
(*   TrackRemote    = TrackNew(remote,inprogress) [. Replace.Cancel first] . CallStart *)
(*   Dequeue        = Dequeue                                              *)
(*   Start          = Skip | SetPhase(inprogress) . CallStart              *)
(*   Apply/Fail/ReturnOk/Abort = CallReturn(ok | not ok)  (daemon side folded)*)
(*   HandleErr      = Abandon | OpSetError . Cancel      (remote: Cancel . OpSetError)*)
(*   Finish         = SetPhase(done) . Cancel            (remote: Cancel . SetPhase(done))*)
(*   Clean          = Clean                                                *)
(* Tracker.tla takes each of these sequences as one atomic step; here the  *)
(* interleavings inside them are explored (e.g. the phase read by          *)
(* TrackNewOperation may be stale w.r.t. a concurrent SetPhase: `seen`).   *)
(* Tracker!OneOpPerCid, the cancel-and-replace discipline and the pointer  *)
(* compare of Clean, which Tracker.tla has by construction, are the        *)
(* invariants checked here on every state of every recorded execution.     *)
(***************************************************************************)
EXTENDS Integers, Sequences, FiniteSets, TLC

CONSTANTS CIDS,     \* e.g. {"c1","c2"}
          MaxOps,   \* model checking: bound on operations ever created
          K0, Q0,   \* model checking: pin workers, queue capacity (traces: from the Tracker event)
          Level0,   \* model checking: "tracker" (stateless tracker as the client) | "api" (any client of optracker)
          Strict,   \* TRUE: the transcription guards are enforced
          Lag       \* TRUE (traces): a channel receive and its Dequeue event are not one step: tolerate
                    \* receives of idle workers that are not yet logged

VARIABLES ops,      \* id -> operation record (ids 1..nops in creation order)
          nops,
          table,    \* OperationTracker.operations: cid -> id | 0
          pinQ, unpinQ,
          mu,       \* opt.mu held across events: TrackNewOperation between Replace and TrackNew
          down,     \* the tracker's context was cancelled (Shutdown): every operation context is cancelled
          conf,     \* [level, K, Q]
          hist      \* history flags read by the property predicates only

vars == <<ops, nops, table, pinQ, unpinQ, mu, down, conf, hist>>

Phases == {"queued", "inprogress", "done", "error"}
Types  == {"pin", "unpin", "remote"}
None   == [c |-> "-", typ |-> "-", ph |-> "-"]
NoHist == [lost |-> {}, notdone |-> {}, errleft |-> {}, back |-> {}, fullq |-> {}]

Ids  == 1..nops
T    == conf.level = "tracker"
ST   == Strict /\ T

\* program counters of an operation: who performs the next step on it
\*   new      returned to enqueue(), not yet sent              (caller)
\*   full, fullerr                  queue was full: SetError, Cancel      (caller)
\*   queued   in its channel
\*   got/gotc received by a worker (not cancelled / cancelled at that point)
\*   started, calling, retok, reterr/reterrc, seterr, done, donec      (worker)
\*   rnew, rcalling, rretok, rreterr, rokc, rerrc, rdone               (Track of a remote pin)
\*   end      no step left;  "-" operation created by another kind of client
WorkerPcs == {"got", "gotc", "started", "calling", "retok", "reterr", "reterrc", "seterr", "done", "donec"}

InitPc(typ, ph) == IF typ \in {"pin", "unpin"} /\ ph = "queued" THEN "new"
                   ELSE IF typ = "remote" /\ ph = "inprogress" THEN "rnew" ELSE "-"

NewOp(c, typ, ph) == [cid |-> c, type |-> typ, phase |-> ph, cancelled |-> FALSE, replaced |-> FALSE,
                      pc |-> IF T THEN InitPc(typ, ph) ELSE "-", seen |-> {}]

Cancelled(i) == ops[i].cancelled \/ down
QOf(typ)     == IF typ = "unpin" THEN unpinQ ELSE pinQ
WOf(typ)     == IF typ = "unpin" THEN 1 ELSE conf.K
Busy(typ)    == Cardinality({i \in Ids : ops[i].type = typ /\ ops[i].pc \in WorkerPcs})
Idle(typ)    == WOf(typ) - Busy(typ)
Pos(q, i)    == CHOOSE n \in 1..Len(q) : q[n] = i
InQ(q, i)    == \E n \in 1..Len(q) : q[n] = i
Without(q, i) == SelectSeq(q, LAMBDA x : x # i)
Min(a, b)    == IF a < b THEN a ELSE b

\* a table-level event closes the window of phases a later TrackNewOperation may have read
ResetSeen(o) == [i \in DOMAIN o |-> [o[i] EXCEPT !.seen = {}]]

Init ==
    /\ ops = <<>> /\ nops = 0
    /\ table = [c \in CIDS |-> 0]
    /\ pinQ = <<>> /\ unpinQ = <<>>
    /\ mu = None /\ down = FALSE
    /\ conf = [level |-> Level0, K |-> K0, Q |-> Q0]
    /\ hist = NoHist

(***************************************************************************)
(* Table level (every event is logged inside the opt.mu critical section)  *)
(***************************************************************************)
\* What TrackNewOperation(c, typ) may decide.  It reads the entry's phase under
\* op.mu, not atomically with its own event: it may have read any phase the entry
\* had since the previous table-level event (opt.mu was free at some point after it).
Outcomes(c, typ) ==
    IF table[c] = 0 THEN {"new"}
    ELSE LET o == ops[table[c]] IN
         {IF o.type = typ /\ p \notin {"error", "done"} THEN "same" ELSE "replaced" : p \in {o.phase} \cup o.seen}

\* TrackNewOperation decided to cancel and replace the entry (logged before op.Cancel())
Replace(c, typ, ph, old) ==
    /\ c \in CIDS /\ old = table[c] /\ old # 0
    /\ Strict => (mu = None /\ "replaced" \in Outcomes(c, typ))
    /\ ST => InitPc(typ, ph) # "-"
    /\ mu' = [c |-> c, typ |-> typ, ph |-> ph]
    /\ ops' = ResetSeen(ops)
    /\ UNCHANGED <<nops, table, pinQ, unpinQ, down, conf, hist>>

\* TrackNewOperation returns: out = "same" (nil: ongoing operation of the same type),
\* "new" (no entry) or "replaced" (entry `old` was cancelled and is replaced by `id`)
TrackNew(c, typ, ph, out, id, old) ==
    /\ c \in CIDS /\ old = table[c]
    /\ out \in {"same", "new", "replaced"}
    /\ (out = "new") <=> (old = 0)
    /\ Strict => IF out = "replaced"
                   THEN mu = [c |-> c, typ |-> typ, ph |-> ph] /\ ops[old].cancelled
                   ELSE mu = None /\ out \in Outcomes(c, typ)
    /\ IF out = "same"
         THEN /\ id = 0
              /\ ops' = ResetSeen(ops)
              /\ UNCHANGED <<nops, table>>
         ELSE /\ id = nops + 1
              /\ ST => InitPc(typ, ph) # "-"
              /\ nops' = id
              /\ ops' = [i \in 1..id |->
                            IF i = id THEN NewOp(c, typ, ph)
                            ELSE IF i = old THEN [ops[i] EXCEPT !.replaced = TRUE, !.seen = {}]
                            ELSE [ops[i] EXCEPT !.seen = {}]]
              /\ table' = [table EXCEPT ![c] = id]
    /\ mu' = None
    /\ UNCHANGED <<pinQ, unpinQ, down, conf, hist>>

\* Clean(op i): `pre` the entry found for its cid, `post` the entry left (0 = none).
\* As coded: the entry is deleted iff it is this very operation (pointer compare).
Clean(i, pre, post) ==
    /\ i \in Ids
    /\ LET c == ops[i].cid
           removed == pre # 0 /\ post = 0 IN
        /\ pre = table[c]
        /\ post = 0 \/ post = pre
        /\ Strict => (mu = None /\ removed = (pre = i))
        /\ ST => ops[i].pc \in {"donec", "rdone"}
        /\ table' = [table EXCEPT ![c] = post]
        /\ ops' = [j \in Ids |-> IF j = i /\ ops[i].pc \in {"donec", "rdone"}
                                   THEN [ops[j] EXCEPT !.seen = {}, !.pc = "end"]
                                   ELSE [ops[j] EXCEPT !.seen = {}]]
        /\ hist' = [hist EXCEPT
              !.lost    = IF removed /\ pre # i THEN @ \cup {pre} ELSE @,
              !.notdone = IF removed /\ ops[pre].phase # "done" THEN @ \cup {pre} ELSE @,
              !.errleft = IF removed /\ ops[pre].phase = "error" THEN @ \cup {pre} ELSE @]
    /\ UNCHANGED <<nops, pinQ, unpinQ, mu, down, conf>>

\* OperationTracker.SetError applies to the entry (then calls SetPhase(error), SetError on it).
\* Not used by the stateless tracker.
TSetError(i) ==
    /\ i \in Ids
    /\ Strict => (mu = None /\ table[ops[i].cid] = i /\ ops[i].type # "remote"
                  /\ ({ops[i].phase} \cup ops[i].seen) \cap {"done", "error"} # {})
    /\ ST => FALSE
    /\ ops' = ResetSeen(ops)
    /\ UNCHANGED <<nops, table, pinQ, unpinQ, mu, down, conf, hist>>

\* CleanAllDone deleted the entry.  Not used by the stateless tracker.
CleanDone(i) ==
    /\ i \in Ids
    /\ table[ops[i].cid] = i
    /\ Strict => (mu = None /\ "done" \in ({ops[i].phase} \cup ops[i].seen))
    /\ ST => FALSE
    /\ table' = [table EXCEPT ![ops[i].cid] = 0]
    /\ ops' = ResetSeen(ops)
    /\ hist' = [hist EXCEPT !.errleft = IF ops[i].phase = "error" THEN @ \cup {i} ELSE @]
    /\ UNCHANGED <<nops, pinQ, unpinQ, mu, down, conf>>

(***************************************************************************)
(* Operation level                                                         *)
(***************************************************************************)
\* the phases a TrackNewOperation holding opt.mu may have read: only the table entry is ever read
SeenAfter(i) == IF table[ops[i].cid] = i THEN ops[i].seen \cup {ops[i].phase} ELSE {}

Rank(p) == CASE p = "queued" -> 1 [] p = "inprogress" -> 2 [] OTHER -> 3
Backward(old, new) == Rank(new) < Rank(old) \/ (Rank(old) = 3 /\ new # old)

\* Operation.Cancel by the goroutine that owns the operation's next step
CancelOwn(i) ==
    /\ i \in Ids
    /\ ops[i].pc \in {"fullerr", "seterr", "done", "rretok", "rreterr"}
    /\ ops' = [ops EXCEPT ![i].cancelled = TRUE,
                          ![i].pc = CASE @ = "fullerr" -> "end" [] @ = "seterr" -> "end" [] @ = "done" -> "donec"
                                      [] @ = "rretok" -> "rokc" [] OTHER -> "rerrc"]
    /\ UNCHANGED <<nops, table, pinQ, unpinQ, mu, down, conf, hist>>

\* Operation.Cancel by somebody else: TrackNewOperation (holding opt.mu) cancels the entry it replaces.
\* (Cancelling a cancelled operation again changes nothing and is always possible.)
CancelOther(i) ==
    /\ i \in Ids
    /\ ST => ((mu # None /\ mu.c = ops[i].cid /\ table[mu.c] = i) \/ ops[i].cancelled)
    /\ ops' = [ops EXCEPT ![i].cancelled = TRUE]
    /\ UNCHANGED <<nops, table, pinQ, unpinQ, mu, down, conf, hist>>

Cancel(i) == CancelOwn(i) \/ CancelOther(i)

\* A recorded Cancel does not say who called it.  When the replacing TrackNewOperation and the owner both cancel
\* an operation, attributing the first of the two events to the owner is harmless: the owner's program counter
\* moves early, its own (then redundant) Cancel is still to come before its next recorded step.
CancelRecorded(i) == IF i \in Ids /\ ops[i].pc \in {"fullerr", "seterr", "done", "rretok", "rreterr"}
                       THEN CancelOwn(i) ELSE CancelOther(i)

PcAfterPhase(pc, ph) ==
    CASE pc = "got" /\ ph = "inprogress" -> "started"
      [] pc = "retok" /\ ph = "done"     -> "done"
      [] pc = "rokc" /\ ph = "done"      -> "rdone"
      [] OTHER -> pc

SetPhase(i, ph) ==
    /\ i \in Ids /\ ph \in Phases
    /\ ST => PcAfterPhase(ops[i].pc, ph) # ops[i].pc
    /\ ops' = [ops EXCEPT ![i].phase = ph, ![i].seen = SeenAfter(i), ![i].pc = PcAfterPhase(@, ph)]
    /\ hist' = [hist EXCEPT
          !.back    = IF Backward(ops[i].phase, ph) THEN @ \cup {i} ELSE @,
          !.errleft = IF ops[i].phase = "error" /\ ph # "error" THEN @ \cup {i} ELSE @]
    /\ UNCHANGED <<nops, table, pinQ, unpinQ, mu, down, conf>>

PcAfterError(pc) == CASE pc = "full" -> "fullerr" [] pc = "reterr" -> "seterr" [] pc = "rerrc" -> "end" [] OTHER -> pc

OpSetError(i) ==
    /\ i \in Ids
    /\ ST => PcAfterError(ops[i].pc) # ops[i].pc
    /\ ops' = [ops EXCEPT ![i].phase = "error", ![i].seen = SeenAfter(i), ![i].pc = PcAfterError(@)]
    /\ hist' = [hist EXCEPT !.back = IF Backward(ops[i].phase, "error") THEN @ \cup {i} ELSE @]
    /\ UNCHANGED <<nops, table, pinQ, unpinQ, mu, down, conf>>

(***************************************************************************)
(* The stateless tracker: queues, workers, calls                           *)
(***************************************************************************)
TrackerEv(k, q) ==
    /\ nops = 0 /\ conf.level = "api"
    /\ k \in Nat /\ q \in Nat
    /\ conf' = [level |-> "tracker", K |-> k, Q |-> q]
    /\ UNCHANGED <<ops, nops, table, pinQ, unpinQ, mu, down, hist>>

SetQ(typ, q) == IF typ = "unpin" THEN unpinQ' = q /\ pinQ' = pinQ ELSE pinQ' = q /\ unpinQ' = unpinQ

\* receives by idle workers that may not be logged yet
Tol(typ) == IF Lag THEN Min(Idle(typ), Len(QOf(typ))) ELSE 0

\* enqueue(): the non-blocking send succeeded (n = len(ch) right after)
Enqueue(i, n) ==
    /\ i \in Ids /\ ops[i].type \in {"pin", "unpin"}
    /\ LET typ == ops[i].type  q == QOf(typ) IN
        /\ ST => /\ ops[i].pc = "new"
                 /\ Len(q) - Tol(typ) < conf.Q
                 /\ n <= Len(q) + 1 /\ n >= Len(q) + 1 - Tol(typ) - (IF Lag /\ Idle(typ) > Len(q) THEN 1 ELSE 0)
        /\ SetQ(typ, Append(q, i))
    /\ ops' = [ops EXCEPT ![i].pc = IF @ = "new" THEN "queued" ELSE @]
    /\ UNCHANGED <<nops, table, mu, down, conf, hist>>

\* enqueue(): the channel was full (then SetError(ErrFullQueue), Cancel, error returned)
QueueFull(i, n) ==
    /\ i \in Ids /\ ops[i].type \in {"pin", "unpin"}
    /\ ST => /\ ops[i].pc = "new" /\ Len(QOf(ops[i].type)) >= conf.Q
             /\ n <= conf.Q /\ n >= conf.Q - (IF Lag THEN Idle(ops[i].type) ELSE 0)
    /\ ops' = [ops EXCEPT ![i].pc = IF @ = "new" THEN "full" ELSE @]
    /\ hist' = [hist EXCEPT !.fullq = @ \cup {i}]
    /\ UNCHANGED <<nops, table, pinQ, unpinQ, mu, down, conf>>

\* opWorker received the operation
Dequeue(i) ==
    /\ i \in Ids /\ ops[i].type \in {"pin", "unpin"}
    /\ LET typ == ops[i].type  q == QOf(typ) IN
        /\ InQ(q, i)
        /\ ST => /\ ops[i].pc = "queued"
                 /\ Idle(typ) >= 1
                 /\ Pos(q, i) <= 1 + (IF Lag THEN Idle(typ) - 1 ELSE 0)
        /\ SetQ(typ, Without(q, i))
    /\ ops' = [ops EXCEPT ![i].pc = IF @ = "queued" THEN (IF Cancelled(i) THEN "gotc" ELSE "got") ELSE @]
    /\ UNCHANGED <<nops, table, mu, down, conf, hist>>

\* applyPinF: op.Cancelled() before starting -> move on
Skip(i) ==
    /\ i \in Ids
    /\ ST => (ops[i].pc \in {"got", "gotc"} /\ Cancelled(i))
    /\ ops' = [ops EXCEPT ![i].pc = IF @ \in {"got", "gotc"} THEN "end" ELSE @]
    /\ UNCHANGED <<nops, table, pinQ, unpinQ, mu, down, conf, hist>>

\* pin()/unpin(): the IPFSConnector call is issued
CallStart(i) ==
    /\ i \in Ids
    /\ ST => ops[i].pc \in {"started", "rnew"}
    /\ ops' = [ops EXCEPT ![i].pc = CASE @ = "started" -> "calling" [] @ = "rnew" -> "rcalling" [] OTHER -> @]
    /\ UNCHANGED <<nops, table, pinQ, unpinQ, mu, down, conf, hist>>

\* the call returned
CallReturn(i, ok) ==
    /\ i \in Ids /\ ok \in BOOLEAN
    /\ ST => ops[i].pc \in {"calling", "rcalling"}
    /\ ops' = [ops EXCEPT ![i].pc =
                  CASE @ = "calling"  -> (IF ok THEN "retok" ELSE IF Cancelled(i) THEN "reterrc" ELSE "reterr")
                    [] @ = "rcalling" -> (IF ok THEN "rretok" ELSE "rreterr")
                    [] OTHER -> @]
    /\ UNCHANGED <<nops, table, pinQ, unpinQ, mu, down, conf, hist>>

\* applyPinF: the call failed and op.Cancelled() -> move on, nothing recorded
Abandon(i) ==
    /\ i \in Ids
    /\ ST => (ops[i].pc \in {"reterr", "reterrc"} /\ Cancelled(i))
    /\ ops' = [ops EXCEPT ![i].pc = IF @ \in {"reterr", "reterrc"} THEN "end" ELSE @]
    /\ UNCHANGED <<nops, table, pinQ, unpinQ, mu, down, conf, hist>>

\* Shutdown: spt.cancel()
Shutdown ==
    /\ ST => ~down
    /\ down' = TRUE
    /\ UNCHANGED <<ops, nops, table, pinQ, unpinQ, mu, conf, hist>>

(***************************************************************************)
(* Model checking: the clients of the table                                *)
(***************************************************************************)
CanCreate == nops < MaxOps

\* TrackNewOperation(c, typ, ph) by some caller: the decision, then (replace) Cancel(old) is
\* CancelOther below, then TrackNew(replaced)
TNO(c, typ, ph) ==
    \/ (mu = None /\ TrackNew(c, typ, ph, "same", 0, table[c]))
    \/ (mu = None /\ CanCreate /\ TrackNew(c, typ, ph, "new", nops + 1, 0))
    \/ (mu = None /\ CanCreate /\ table[c] # 0 /\ Replace(c, typ, ph, table[c]))

TNOFinish == mu # None /\ TrackNew(mu.c, mu.typ, mu.ph, "replaced", nops + 1, table[mu.c])

CleanAsCoded(i) == Clean(i, table[ops[i].cid], IF table[ops[i].cid] = i THEN 0 ELSE table[ops[i].cid])

\* ---- the stateless tracker: enqueue() for pins and unpins, Track() of remote pins, workers.
\* One named action per hook event and branch, so that `-coverage` lists what was never taken.
TrackArgs == {<<"pin", "queued">>, <<"unpin", "queued">>, <<"remote", "inprogress">>}
Entry(c)  == ops[table[c]]

DoTrackSame       == \E c \in CIDS, a \in TrackArgs : mu = None /\ table[c] # 0 /\ Entry(c).phase \notin {"done", "error"}
                                                       /\ TrackNew(c, a[1], a[2], "same", 0, table[c])
DoTrackSameStale  == \E c \in CIDS, a \in TrackArgs : mu = None /\ table[c] # 0 /\ Entry(c).phase \in {"done", "error"}
                                                       /\ TrackNew(c, a[1], a[2], "same", 0, table[c])   \* decided on a phase read earlier
DoTrackNew        == \E c \in CIDS, a \in TrackArgs : mu = None /\ CanCreate /\ TrackNew(c, a[1], a[2], "new", nops + 1, 0)
DoReplace         == \E c \in CIDS, a \in TrackArgs : mu = None /\ CanCreate /\ table[c] # 0
                                                       /\ (Entry(c).type # a[1] \/ Entry(c).phase \in {"done", "error"})
                                                       /\ Replace(c, a[1], a[2], table[c])
DoReplaceStale    == \E c \in CIDS, a \in TrackArgs : mu = None /\ CanCreate /\ table[c] # 0
                                                       /\ ~(Entry(c).type # a[1] \/ Entry(c).phase \in {"done", "error"})
                                                       /\ Replace(c, a[1], a[2], table[c])
DoTrackReplaced   == TNOFinish
DoCancelOwn       == \E i \in Ids : CancelOwn(i)
DoCancelReplaced  == \E i \in Ids : CancelOther(i)
DoStart           == \E i \in Ids : SetPhase(i, "inprogress")
DoFinish          == \E i \in Ids : SetPhase(i, "done")
DoSetError        == \E i \in Ids : OpSetError(i)
DoEnqueue         == \E i \in Ids : Enqueue(i, Len(QOf(ops[i].type)) + 1)
DoQueueFull       == \E i \in Ids : QueueFull(i, conf.Q)
DoDequeue         == \E i \in Ids : ~Cancelled(i) /\ Dequeue(i)
DoDequeueCancelled == \E i \in Ids : Cancelled(i) /\ Dequeue(i)
DoSkip            == \E i \in Ids : Skip(i)
DoCallStart       == \E i \in Ids : CallStart(i)
DoCallReturnOk    == \E i \in Ids : CallReturn(i, TRUE)
DoCallReturnErr   == \E i \in Ids : CallReturn(i, FALSE)
DoAbandon         == \E i \in Ids : Abandon(i)
DoCleanRemoves    == \E i \in Ids : table[ops[i].cid] = i /\ CleanAsCoded(i)
DoCleanKeeps      == \E i \in Ids : table[ops[i].cid] # i /\ CleanAsCoded(i)    \* a newer operation is in the table
DoShutdown        == Shutdown

TrackerNext ==
    \/ DoTrackSame \/ DoTrackSameStale \/ DoTrackNew \/ DoReplace \/ DoReplaceStale \/ DoTrackReplaced
    \/ DoCancelOwn \/ DoCancelReplaced \/ DoStart \/ DoFinish \/ DoSetError
    \/ DoEnqueue \/ DoQueueFull \/ DoDequeue \/ DoDequeueCancelled \/ DoSkip
    \/ DoCallStart \/ DoCallReturnOk \/ DoCallReturnErr \/ DoAbandon
    \/ DoCleanRemoves \/ DoCleanKeeps \/ DoShutdown

\* ---- any client of the optracker package (its unit tests): every exported method, any argument
ApiTrack      == \E c \in CIDS, typ \in Types, ph \in Phases : TNO(c, typ, ph)
ApiTrackDone  == TNOFinish
ApiCancel     == \E i \in Ids : Cancel(i)
ApiSetPhase   == \E i \in Ids, ph \in Phases : SetPhase(i, ph)
ApiOpSetError == \E i \in Ids : OpSetError(i)
ApiClean      == \E i \in Ids : CleanAsCoded(i)
ApiSetError   == \E i \in Ids : TSetError(i)
ApiCleanDone  == \E i \in Ids : CleanDone(i)

ApiNext == ApiTrack \/ ApiTrackDone \/ ApiCancel \/ ApiSetPhase \/ ApiOpSetError \/ ApiClean \/ ApiSetError \/ ApiCleanDone

Next == IF T THEN TrackerNext ELSE ApiNext

\* control (Strict = FALSE): a client whose recorded outcomes are arbitrary - the property predicates must be refutable
ControlNext ==
    \/ \E c \in CIDS, typ \in {"pin", "unpin"}, out \in {"same", "new", "replaced"} :
          CanCreate /\ TrackNew(c, typ, "queued", out, IF out = "same" THEN 0 ELSE nops + 1, table[c])
    \/ \E i \in Ids :
          \/ Cancel(i) \/ (\E ph \in Phases : SetPhase(i, ph)) \/ OpSetError(i)
          \/ \E post \in {0, table[ops[i].cid]} : Clean(i, table[ops[i].cid], post)

Spec == Init /\ [][Next]_vars

\* workers, callers inside a critical section and the daemon make progress
Fairness ==
    /\ WF_vars(TNOFinish)
    /\ \A i \in 1..MaxOps :
        /\ WF_vars(i \in Ids /\ ~down /\ Dequeue(i))
        /\ WF_vars(i \in Ids /\ Cancel(i))
        /\ WF_vars(i \in Ids /\ Skip(i)) /\ WF_vars(i \in Ids /\ SetPhase(i, "inprogress"))
        /\ WF_vars(i \in Ids /\ CallStart(i)) /\ WF_vars(i \in Ids /\ (CallReturn(i, TRUE) \/ CallReturn(i, FALSE)))
        /\ WF_vars(i \in Ids /\ Abandon(i)) /\ WF_vars(i \in Ids /\ OpSetError(i))
        /\ WF_vars(i \in Ids /\ SetPhase(i, "done")) /\ WF_vars(i \in Ids /\ CleanAsCoded(i))

LiveSpec == Spec /\ Fairness

(***************************************************************************)
(* Properties (the C05 / C18 obligations at this level)                    *)
(***************************************************************************)
LiveOp(i) == ~ops[i].cancelled /\ ops[i].phase \in {"queued", "inprogress"}

TypeOK ==
    /\ nops \in Nat /\ DOMAIN ops = Ids
    /\ \A c \in CIDS : table[c] \in 0..nops
    /\ \A i \in Ids : ops[i].cid \in CIDS /\ ops[i].phase \in Phases /\ ops[i].seen \subseteq Phases
    /\ \A n \in 1..Len(pinQ) : pinQ[n] \in Ids
    /\ \A n \in 1..Len(unpinQ) : unpinQ[n] \in Ids

\* the table maps a cid to an operation on that cid
TableCid == \A c \in CIDS : table[c] # 0 => ops[table[c]].cid = c

\* (1) at most one live (not cancelled, not done / error) operation per cid ...
OneLivePerCid == T => \A i \in Ids : LiveOp(i) => \A j \in 1..(i - 1) : ~(LiveOp(j) /\ ops[j].cid = ops[i].cid)
\*     ... and it is the one in the table (what Status reports is what runs)
LiveIsTracked == T => \A i \in Ids : LiveOp(i) => table[ops[i].cid] = i

\* (2) an operation replaced in the table was cancelled before the new one became visible
ReplacedIsCancelled == \A i \in Ids : ops[i].replaced => ops[i].cancelled

\* (3) Clean never removes an operation other than the one that finished: no newer instruction is lost
CleanOnlyOwn  == hist.lost = {}
CleanOnlyDone == T => hist.notdone = {}

\* (4) an entry in phase error is only ever left by a new TrackNewOperation (the error stays visible)
ErrorSticky == T => hist.errleft = {}

\* (5) phases only move forward for a given operation: queued -> inprogress -> done | error
PhaseForward == T => hist.back = {}

\* an instruction that found its queue full ends as a cancelled operation in phase error
FullQueueIsError == T => \A i \in hist.fullq : ops[i].pc = "end" => (ops[i].phase = "error" /\ ops[i].cancelled)
\* ... the error is recorded before the operation is cancelled: while it is the table entry (and nobody is
\* replacing it) a cancelled operation that found its queue full shows phase error (the instruction is not dropped silently)
FullQueueShowsError == T => \A i \in hist.fullq :
    (ops[i].cancelled /\ table[ops[i].cid] = i /\ mu = None) => ops[i].phase = "error"

\* queues hold what was enqueued and not yet received, within capacity (+ receives not yet logged)
QueueBound == ST => /\ Len(pinQ) <= conf.Q + (IF Lag THEN conf.K ELSE 0)
                    /\ Len(unpinQ) <= conf.Q + (IF Lag THEN 1 ELSE 0)
WorkerBound == ST => (Busy("pin") <= conf.K /\ Busy("unpin") <= 1)

\* (6) liveness, under Fairness: every operation that was enqueued is eventually received by a worker,
\*     or cancelled (replaced, or the tracker shut down)
EnqueuedIsServed == \A i \in 1..MaxOps :
    (i \in Ids /\ ops[i].pc = "queued") ~> (i \in Ids /\ (ops[i].pc # "queued" \/ Cancelled(i)))
\* every worker step that was started comes to an end: no operation stays in a worker's hands
WorkersSettle == \A i \in 1..MaxOps :
    (i \in Ids /\ ops[i].pc \in WorkerPcs) ~> (i \in Ids /\ ops[i].pc = "end")
=============================================================================
