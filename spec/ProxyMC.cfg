SPECIFICATION Spec
INVARIANT PropertyHolds
INVARIANT Transcription
INVARIANT InvHijackExact
INVARIANT InvNeverLeaks
INVARIANT InvErrorMeansNoOp
INVARIANT InvFaithful
INVARIANT InvRelayIdentity
