SPECIFICATION Spec
CONSTANT Remote = {"b", "c"}
CONSTANT MaxActs = 2
CONSTANT HoleMode = "each"
INVARIANT UntrustedOnlyOpen
INVARIANT SensitiveRefused
INVARIANT LocalOnlyRefused
INVARIANT DefaultDeny
INVARIANT TrustFollowsConfig
INVARIANT FoldAgrees
INVARIANT TablesSane
