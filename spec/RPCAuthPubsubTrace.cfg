SPECIFICATION Spec
CONSTANT Reps = {"a", "b", "c", "d"}
CONSTANT MaxPub = 1000
CONSTANT MaxActs = 1000
INVARIANT NotDone
POSTCONDITION Report
