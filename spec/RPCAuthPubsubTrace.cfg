SPECIFICATION Spec
CONSTANT Reps = {"a", "b", "c", "d"}
CONSTANT MaxPub = 1000
CONSTANT MaxActs = 1000
CONSTANT StartOrder <- OrderAsCoded
CONSTANT SignPolicy = "strict"
CONSTANT JoinTrusts = FALSE
INVARIANT NotDone
POSTCONDITION Report
