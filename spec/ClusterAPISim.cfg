SPECIFICATION Spec
CONSTANT NPEERS = 3
CONSTANT Tier = "thorough"
CONSTANT EqualsMode = "fixed"
CONSTANT UpdateGuard = TRUE
CONSTANT Depth = 6
CONSTANT RepinRedirect = FALSE
