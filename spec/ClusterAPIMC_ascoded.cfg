SPECIFICATION Spec
CONSTANT NPEERS = 3
CONSTANT Tier = "quick"
CONSTANT EqualsMode = "ascoded"
CONSTANT UpdateGuard = FALSE
INVARIANT PropertyHolds
CONSTANT RepinRedirect = TRUE
