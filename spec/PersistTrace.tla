---------------------------- MODULE PersistTrace ----------------------------
(* Judges what the real code did.  Every line of the NDJSON file named by   *)
(* env TRACE_FILE is one step recorded by harness/c14_persist: the step's   *)
(* inputs, the projected state before and after.  For every record TLC      *)
(* evaluates the property predicate of Persist (Good) and the transcribed   *)
(* code path (Conf); record numbers failing either are written to env       *)
(* VERDICT_FILE.  No Go code decides a verdict.                             *)
EXTENDS Persist, Json, IOUtils

Recs == ndJsonDeserialize(IOEnv.TRACE_FILE)

SetOf(s)  == Range(s)
Uniq(s)   == NoDup([i \in DOMAIN s |-> s[i].c])          \* a listing names every CID once
NoErr(r)  == r.err = ""
BookOf(s) == [p \in {s[i].p : i \in DOMAIN s} |->
                LET e == CHOOSE i \in DOMAIN s : s[i].p = p IN [addrs |-> SetOf(s[e].addrs), prio |-> s[e].prio]]

Good(r) ==
    CASE r.act = "Export"      -> NoErr(r) /\ ExportGood(SetOf(r.src), r.stream)
      [] r.act = "Import"      -> NoErr(r) /\ Uniq(r.post) /\ ImportGood(SetOf(r.src), SetOf(r.post))
      [] r.act = "Reserialize" -> NoErr(r) /\ Uniq(r.post) /\ ImportGood(SetOf(r.src), SetOf(r.post))
      [] r.act = "Marshal"     -> /\ (r.fault = 0 => r.ok)
                                  /\ Uniq(r.got) /\ MarshalGood(SetOf(r.src), r.ok, SetOf(r.got))
      [] r.act = "CLoad"       -> WholeSegs(r.segs, r.sizes)
      [] r.act = "CFinal"      -> WholeSegs(r.segs, r.sizes) /\ r.segs[1].l # "Z"
      [] r.act = "SnapSave"    -> NoErr(r)
      [] r.act = "Offline"     -> NoErr(r) /\ Uniq(r.got) /\ SnapGood(SetOf(r.saved), SetOf(r.got))
      [] r.act = "StartPeer"   -> NoErr(r) /\ Uniq(r.got) /\ SnapGood(SetOf(r.saved), SetOf(r.got))
      [] r.act = "RotClean"    -> CleanGood(r.pre, r.keep, r.post)
      [] r.act = "RotSave"     -> NoErr(r) /\ SaveGood(r.pre, r.keep, r.marker, r.post)
      [] r.act = "RotMkLogs"   -> TRUE
      [] r.act = "RotRekeep"   -> TRUE
      [] r.act = "PSave"       -> NoErr(r) /\ InfosGood(r.infos, BookOf(r.book), SetOf(r.peers), r.self)
                                           /\ r.file = FileOf(r.infos)
      [] r.act = "PLoad"       -> LoadGood(r.file, r.loaded, r.fatal)
      [] r.act = "PImport"     -> ImportPeersGood(r.loaded, r.infos2, r.self2, r.fatal)
      [] r.act = "PRound"      -> /\ PeerSeq(r.infos2) = PeerSeq(r.infos)
                                  /\ \A i \in DOMAIN r.infos2 : SetOf(r.infos2[i].addrs) = SetOf(r.infos[i].addrs)
      [] OTHER -> FALSE

Conf(r) ==
    CASE r.act = "Export"      -> ExportConforms(SetOf(r.src), r.stream)
      [] r.act = "Import"      -> SetOf(r.post) = ImportResult(r.stream, SetOf(r.pre))
      [] r.act = "Reserialize" -> SetOf(r.post) = UnmarshalResult(AnySeq(SetOf(r.src)), SetOf(r.pre))
      [] r.act = "Marshal"     -> r.ok = ~(r.fault > 0 /\ r.fault <= Len(r.src))
      [] r.act = "CLoad"       -> TRUE
      [] r.act = "CFinal"      -> TRUE
      [] r.act = "SnapSave"    -> /\ r.idx  = IF r.had THEN r.preidx  ELSE 2
                                  /\ r.term = IF r.had THEN r.preterm ELSE 1
      [] r.act = "Offline"     -> TRUE
      [] r.act = "StartPeer"   -> TRUE
      [] r.act = "RotClean"    -> r.post = CleanDirs(r.pre, r.keep) /\ r.post = r.exp /\ r.extra = <<>>
      [] r.act = "RotSave"     -> r.post = SaveDirs(r.pre, r.keep, r.marker) /\ r.post = r.exp /\ r.extra = <<>>
      [] r.act = "RotMkLogs"   -> r.post = [r.pre EXCEPT !.data = NoSnap] /\ r.post = r.exp
      [] r.act = "RotRekeep"   -> r.post = r.pre /\ r.post = r.exp
      [] r.act = "PSave"       -> InfosConforms(r.infos, BookOf(r.book), SetOf(r.peers), r.self)
      [] r.act = "PLoad"       -> r.loaded = LoadExpected(r.file)
      [] r.act = "PImport"     -> r.fatal \/ ImportPeersConforms(r.loaded, r.infos2, r.self2)
      [] r.act = "PRound"      -> TRUE
      [] OTHER -> FALSE

Bad   == {i \in 1..Len(Recs) : ~Good(Recs[i])}
Drift == {i \in 1..Len(Recs) : ~Conf(Recs[i])}

ASSUME ndJsonSerialize(IOEnv.VERDICT_FILE, <<[n |-> Len(Recs), bad |-> Bad, drift |-> Drift]>>)

TInit == XIdle /\ SIdle /\ RIdle /\ PIdle /\ CIdle
TNext == UNCHANGED vars
TSpec == TInit /\ [][TNext]_vars
=============================================================================
