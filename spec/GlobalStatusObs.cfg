SPECIFICATION Spec
