--------------------------- MODULE IPFSConnTrace ---------------------------
(* Decides the verdicts on outcomes recorded from the real                 *)
(* ipfshttp.Connector talking to the scripted daemon (NDJSON, one record   *)
(* per executed script, file named by env TRACE_FILE):                     *)
(*  * Broken(R): the property predicates of IPFSConn evaluated on the      *)
(*    recorded observation -> VERDICT_FILE (a violation of the statement); *)
(*  * conformance: the IPFSConn machine (as-coded switches) is run on the  *)
(*    script of each record; a record is explained when some terminal      *)
(*    state of the machine equals the recorded outcome (result, status,    *)
(*    daemon pin table, request log with what the daemon did, set of       *)
(*    swarm/connect requests); TLC prints <<"MATCH", i>> for those.        *)
EXTENDS IPFSConn, Json, IOUtils

Recs == ndJsonDeserialize(IOEnv.TRACE_FILE)

InOf(r) == [op |-> r.in.op, mode |-> r.in.mode, d |-> r.in.d, pheld |-> [c1 |-> r.in.pheld.c1, c2 |-> r.in.pheld.c2], upd |-> r.in.upd, norig |-> r.in.norig, ohang |-> r.in.ohang, cancel |-> r.in.cancel,
            prior |-> [c1 |-> r.in.prior.c1, c2 |-> r.in.prior.c2], intf |-> r.in.intf]
ReqOf(q) == [ep |-> q.ep, cid |-> q.cid, typ |-> q.typ, rec |-> q.rec, from |-> q.from, depth |-> q.depth, prog |-> q.prog, unpin |-> q.unpin,
             beh |-> q.beh, eff |-> q.eff, ans |-> q.ans]
\* the recorded observation in the shape the predicates expect
ObsOf(r) == [in  |-> InOf(r),
             out |-> [res |-> r.out.res, status |-> r.out.status,
                      pins |-> [c1 |-> r.out.pins.c1, c2 |-> r.out.pins.c2],
                      held |-> [c1 |-> r.out.held.c1, c2 |-> r.out.held.c2],
                      reqs |-> [j \in DOMAIN r.out.reqs |-> ReqOf(r.out.reqs[j])],
                      swarm |-> Range(r.out.swarm), abandoned |-> r.out.abandoned]]

BadIdx == {i \in 1..Len(Recs) : Broken(ObsOf(Recs[i])) # {}}
ASSUME ndJsonSerialize(IOEnv.VERDICT_FILE,
        <<[n |-> Len(Recs), bad |-> {[i |-> i, broken |-> Broken(ObsOf(Recs[i]))] : i \in BadIdx}]>>)

VARIABLE idx

TInit == \E i \in 1..Len(Recs) :
            /\ idx = i
            /\ InitWith(InOf(Recs[i]), [free |-> FALSE, s |-> Recs[i].in.beh, swarm |-> Range(Recs[i].out.swarm)])
TNext == Next /\ UNCHANGED idx
TSpec == TInit /\ [][TNext]_<<vars, idx>>

Explained == (Done /\ Obs.out = ObsOf(Recs[idx]).out) => PrintT(<<"MATCH", idx>>)
=============================================================================
