SPECIFICATION Spec
CONSTANTS
  CIDS = {"c1","c2"}
  K = 1
  Q = 1
  MaxInstr = 5
  MaxFail = 1
  GatedFinish = FALSE
  Eager = TRUE
  RecoverUsesStatePin = TRUE
  StatusAllListsDirect = TRUE
  DirOverRecStuck = TRUE
INVARIANT QCoverNew
