----------------------------- MODULE ConfigMC -----------------------------
(* The abstract loader satisfies the laws for every kind, default, range   *)
(* and input (BoolAssign = "direct"); with BoolAssign = "ifnotdefault"     *)
(* (config.SetIfNotDefault on a bool whose default is true) NotDropped is  *)
(* violated - the witness run of the design-level catch.                   *)
EXTENDS Config

CONSTANT BoolAssign
VARIABLES stage, s

Init == stage = 0 /\ s \in {[k |-> k, range |-> r] : k \in MKinds, r \in UNION {MRanges(kk) : kk \in MKinds}} /\ s.range \in MRanges(s.k)
Next == /\ stage = 0 /\ stage' = 1
        /\ s' \in {[k |-> s.k, range |-> s.range, def |-> d, v |-> v] : d \in MDefaults(s.k, s.range), v \in MVals(s.k)}
Spec == Init /\ [][Next]_<<stage, s>>

Fact == MFact(s.k, s.def, s.range, s.v, BoolAssign)
LawsHold == stage = 1 => BrokenLoadLaws(Fact) = {}
DefaultIsValid == stage = 1 => MLoad(s.k, s.def, s.range, "absent", BoolAssign).outcome = "accepted"
=============================================================================
