------------------------ MODULE RPCAuthPubsubTrace ------------------------
(* Trace validation for the CRDT clause of C07. The NDJSON file (env          *)
(* TRACE_FILE) holds concatenated traces recorded from real crdt.Consensus    *)
(* replicas:                                                                  *)
(*   {"ev":"init","trust":{"a":{"all":..,"set":[..]},..}}   (starts a trace)  *)
(*   {"ev":"publish","r":..,"u":{"s":..,"n":..}}   LogPin on replica r        *)
(*   {"ev":"trust"|"distrust","r":..,"p":..}       Trust/Distrust on r        *)
(*   {"ev":"observe","r":..,"pins":[{"s","n"}..]}  r's pinset after settling  *)
(* (1) TLC searches for a behaviour of RPCAuthPubsub (deliveries and          *)
(*     rebroadcasts are silent steps) that explains every line: the trace is  *)
(*     accepted iff the last line is consumed (invariant NotDone violated).   *)
(* (2) Independently the statement's predicate PinsetOK is evaluated on every *)
(*     observation with the trust history folded from the lines before it;    *)
(*     the result goes to env VERDICT_FILE. Only (2) makes a violation; a     *)
(*     rejected trace with (2) clean is transcription drift / a settle miss.  *)
EXTENDS RPCAuthPubsub, Json, IOUtils

Lines == ndJsonDeserialize(IOEnv.TRACE_FILE)
N == Len(Lines)
Rng(s) == {s[i] : i \in 1..Len(s)}

TrustOf(e) == [r \in Reps |-> [all |-> e.trust[r].all, set |-> Rng(e.trust[r].set)]]

\* ---- (2) property verdict by folding the trust history
EverAt[i \in 0..N] ==
    IF i = 0 THEN [r \in Reps |-> {}]
    ELSE LET e == Lines[i] IN
         CASE e.ev = "init"  -> EverOf(TrustOf(e))
           [] e.ev = "trust" -> [EverAt[i - 1] EXCEPT ![e.r] = @ \cup {e.p}]
           [] OTHER          -> EverAt[i - 1]
PBad == {i \in 1..N : Lines[i].ev = "observe" /\ ~PinsetOK(EverAt[i], Lines[i].r, Rng(Lines[i].pins))}

ASSUME ndJsonSerialize(IOEnv.VERDICT_FILE,
        <<[n |-> N, observes |-> Cardinality({i \in 1..N : Lines[i].ev = "observe"}),
           traces |-> Cardinality({i \in 1..N : Lines[i].ev = "init"}), bad |-> PBad]>>)

\* ---- (1) behaviour search
VARIABLE l
tvars == <<pvars, l>>

Mark == TLCSet(1, IF TLCGet(1) < l THEN l ELSE TLCGet(1))

Init == /\ l = 2 /\ Lines[1].ev = "init" /\ InitWith(TrustOf(Lines[1])) /\ TLCSet(1, 1)

Cur == Lines[l]
TReset ==
    /\ l <= N /\ Cur.ev = "init"
    /\ trust' = TrustOf(Cur) /\ ever' = EverOf(TrustOf(Cur))
    /\ dag' = [r \in Reps |-> {}] /\ msgs' = {} /\ npub' = 0 /\ nact' = 0
    /\ l' = l + 1 /\ Mark
TPublish  == l <= N /\ Cur.ev = "publish"  /\ Publish(Cur.r, [s |-> Cur.u.s, n |-> Cur.u.n]) /\ l' = l + 1 /\ Mark
TTrust    == l <= N /\ Cur.ev = "trust"    /\ Trust(Cur.r, Cur.p)    /\ l' = l + 1 /\ Mark
TDistrust == l <= N /\ Cur.ev = "distrust" /\ Distrust(Cur.r, Cur.p) /\ l' = l + 1 /\ Mark
TObserve  == /\ l <= N /\ Cur.ev = "observe"
             /\ dag[Cur.r] = {[s |-> u.s, n |-> u.n] : u \in Rng(Cur.pins)}
             /\ UNCHANGED pvars /\ l' = l + 1 /\ Mark
Silent    == /\ l <= N
             /\ \/ \E m \in msgs, r \in Reps : Deliver(m, r)
                \/ \E r \in Reps : Rebroadcast(r)
             /\ UNCHANGED l
Next == TReset \/ TPublish \/ TTrust \/ TDistrust \/ TObserve \/ Silent
Spec == Init /\ [][Next]_tvars

\* violated exactly when every line has been explained
NotDone == l <= N
\* evaluated when the search ends without consuming everything
Report == PrintT(<<"TRACE-REJECT line", TLCGet(1) + 1>>)
=============================================================================
