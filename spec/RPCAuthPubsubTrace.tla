------------------------ MODULE RPCAuthPubsubTrace ------------------------
(* Trace validation for the CRDT clause of C07. The NDJSON file (env          *)
(* TRACE_FILE) holds concatenated traces recorded from real crdt.Consensus    *)
(* replicas:                                                                  *)
(*   {"ev":"init","trust":{"a":{"all":..,"set":[..]},..},"quiet":[..]}         *)
(*        starts a trace; quiet = replicas that never rebroadcast in it       *)
(*   {"ev":"publish","r":..,"u":{"s":..,"n":..}}   LogPin on replica r        *)
(*   {"ev":"trust"|"distrust","r":..,"p":..}       Trust/Distrust on r        *)
(*   {"ev":"observe","r":..,"pins":[{"s","n"}..]}  r's pinset after settling  *)
(*   {"ev":"addpeer","r":..,"p":..}                Consensus.AddPeer(p) on r  *)
(*   {"ev":"forge","as":..,"of":..,"sig":"none"|"bad"}  raw message naming    *)
(*        `as` as author with the heads of `of`, sent by a third party        *)
(*   {"ev":"setup"|"window"|"ready","r":..}  start-up of a replica listed in  *)
(*        "down" of the init line: setup() begun / go-ds-crdt reading its     *)
(*        heads (subscribed, not running) / component ready                   *)
(* (1) TLC searches for a behaviour of RPCAuthPubsub (deliveries and          *)
(*     rebroadcasts are silent steps) that explains every line: the trace is  *)
(*     accepted iff the last line is consumed (invariant NotDone violated).   *)
(* (2) Independently the statement's predicate PinsetOK is evaluated on every *)
(*     observation with the trust history folded from the lines before it;    *)
(*     the result goes to env VERDICT_FILE. Only (2) makes a violation; a     *)
(*     rejected trace with (2) clean is transcription drift / a settle miss.  *)
EXTENDS RPCAuthPubsub, Json, IOUtils

Lines == ndJsonDeserialize(IOEnv.TRACE_FILE)
N == Len(Lines)
Rng(s) == {s[i] : i \in 1..Len(s)}

\* nodes of Reps that a script does not use trust nobody and never act
TrustOf(e) == [r \in Reps |-> IF r \in DOMAIN e.trust
                               THEN [all |-> e.trust[r].all, set |-> Rng(e.trust[r].set)]
                               ELSE [all |-> FALSE, set |-> {}]]

\* ---- (2) property verdict by folding the trust history
EverAt[i \in 0..N] ==
    IF i = 0 THEN [r \in Reps |-> {}]
    ELSE LET e == Lines[i] IN
         CASE e.ev = "init"  -> EverOf(TrustOf(e))
           [] e.ev = "trust" -> [EverAt[i - 1] EXCEPT ![e.r] = @ \cup {e.p}]
           [] OTHER          -> EverAt[i - 1]
PBad == {i \in 1..N : Lines[i].ev = "observe" /\ ~PinsetOK(EverAt[i], Lines[i].r, Rng(Lines[i].pins))}

\* ---- (2b) the sharper reading: an update enters r's pinset only inside a head SIGNED by a peer
\* that r trusts when it arrives. MaxAt[i] is the largest pinset each replica can have after line
\* i under that rule: every head that exists is delivered at once to everybody whose validator
\* accepts its signer (deliveries only add, so eager delivery is an upper bound of every
\* schedule). Heads exist when their signer publishes and, for replicas not listed as "quiet"
\* (rebroadcast interval far beyond the script), at any time (rebroadcast of the current heads).
Val(tr, r, signer) == tr[r].all \/ signer = r \/ signer \in tr[r].set
RECURSIVE Sat(_)
Sat(mx) ==
    LET ms == mx.msgs \cup {[from |-> r, content |-> mx.dag[r]] : r \in {q \in Reps \ mx.quiet : mx.dag[q] # {}}}
        dg == [r \in Reps |-> mx.dag[r] \cup
                  UNION {m.content : m \in {x \in ms : x.from # r /\ Val(mx.trust, r, x.from)}}]
    IN IF dg = mx.dag /\ ms = mx.msgs THEN mx ELSE Sat([mx EXCEPT !.dag = dg, !.msgs = ms])
NoDag == [r \in Reps |-> {}]
MaxAt[i \in 0..N] ==
    IF i = 0 THEN [trust |-> [r \in Reps |-> [all |-> FALSE, set |-> {}]], dag |-> NoDag, msgs |-> {}, quiet |-> {}]
    ELSE LET e == Lines[i]
             p == MaxAt[i - 1] IN
         CASE e.ev = "init"     -> [trust |-> TrustOf(e), dag |-> NoDag, msgs |-> {}, quiet |-> Rng(e.quiet)]
           [] e.ev = "publish"  -> LET d2 == [p.dag EXCEPT ![e.r] = @ \cup {[s |-> e.u.s, n |-> e.u.n]}]
                                   IN Sat([p EXCEPT !.dag = d2, !.msgs = @ \cup {[from |-> e.r, content |-> d2[e.r]]}])
           [] e.ev = "trust"    -> Sat([p EXCEPT !.trust[e.r].set = @ \cup {e.p}])
           [] e.ev = "distrust" -> [p EXCEPT !.trust[e.r].set = @ \ {e.p}]
           [] OTHER             -> p
Obs(i) == {[s |-> u.s, n |-> u.n] : u \in Rng(Lines[i].pins)}
\* violation: the pinset holds something that no trusted signer's head can have carried
PBadSigner == {i \in 1..N : Lines[i].ev = "observe" /\ ~(Obs(i) \subseteq MaxAt[i].dag[Lines[i].r])}
\* conformance only: less than what complete delivery gives (used for final observations of
\* scripts whose connectivity guarantees delivery)
PShort == {i \in 1..N : Lines[i].ev = "observe" /\ Obs(i) # MaxAt[i].dag[Lines[i].r]}

ASSUME ndJsonSerialize(IOEnv.VERDICT_FILE,
        <<[n |-> N, observes |-> Cardinality({i \in 1..N : Lines[i].ev = "observe"}),
           traces |-> Cardinality({i \in 1..N : Lines[i].ev = "init"}), bad |-> PBad,
           badsigner |-> PBadSigner, short |-> PShort]>>)

\* ---- (1) behaviour search
VARIABLES l, quiet, began
tvars == <<pvars, l, quiet, began>>

Mark == TLCSet(1, IF TLCGet(1) < l THEN l ELSE TLCGet(1))
DownOf(e) == IF "down" \in DOMAIN e THEN Rng(e.down) ELSE {}

Init == /\ l = 2 /\ Lines[1].ev = "init" /\ InitWith(TrustOf(Lines[1]), DownOf(Lines[1])) /\ TLCSet(1, 1)
        /\ quiet = Rng(Lines[1].quiet) /\ began = {}

Cur == Lines[l]
Step == l' = l + 1 /\ Mark
TReset ==
    /\ l <= N /\ Cur.ev = "init"
    /\ trust' = TrustOf(Cur) /\ ever' = EverOf(TrustOf(Cur))
    /\ dag' = [r \in Reps |-> {}] /\ msgs' = {} /\ npub' = 0 /\ nact' = 0
    /\ st' = [r \in Reps |-> IF r \in DownOf(Cur) THEN Down ELSE Up] /\ buf' = [r \in Reps |-> {}]
    /\ quiet' = Rng(Cur.quiet) /\ began' = {}
    /\ Step
TPublish  == l <= N /\ Cur.ev = "publish"  /\ Publish(Cur.r, [s |-> Cur.u.s, n |-> Cur.u.n]) /\ Step /\ UNCHANGED <<quiet, began>>
TTrust    == l <= N /\ Cur.ev = "trust"    /\ Trust(Cur.r, Cur.p)    /\ Step /\ UNCHANGED <<quiet, began>>
TDistrust == l <= N /\ Cur.ev = "distrust" /\ Distrust(Cur.r, Cur.p) /\ Step /\ UNCHANGED <<quiet, began>>
\* Consensus.AddPeer(p) called on r: what the open join handshake does to the component
TAddPeer  == l <= N /\ Cur.ev = "addpeer"  /\ JoinHandshake(Cur.r, Cur.p) /\ Step /\ UNCHANGED <<quiet, began>>
\* a raw gossipsub message naming Cur.as as author, carrying the heads of Cur.of, unsigned
\* ("none") or with a signature that cannot verify ("bad"), was sent to the replicas
TForge    == l <= N /\ Cur.ev = "forge" /\ Forge(Cur.as, Cur.of, Cur.sig) /\ Step /\ UNCHANGED <<quiet, began>>
\* setup() of a replica that was down begins (SetClient)
TSetup    == l <= N /\ Cur.ev = "setup" /\ ~st[Cur.r].run /\ began' = began \cup {Cur.r}
             /\ Step /\ UNCHANGED <<pvars, quiet>>
\* the driver saw go-ds-crdt read its heads: subscribed, crdt not running yet
TWindow   == l <= N /\ Cur.ev = "window" /\ st[Cur.r].sub /\ ~st[Cur.r].run
             /\ Step /\ UNCHANGED <<pvars, quiet, began>>
TReady    == l <= N /\ Cur.ev = "ready" /\ st[Cur.r].run /\ st[Cur.r].val /\ st[Cur.r].sub
             /\ Step /\ UNCHANGED <<pvars, quiet, began>>
TObserve  == /\ l <= N /\ Cur.ev = "observe"
             /\ dag[Cur.r] = {[s |-> u.s, n |-> u.n] : u \in Rng(Cur.pins)}
             /\ Step /\ UNCHANGED <<pvars, quiet, began>>
Silent    == /\ l <= N
             /\ \/ \E m \in msgs, r \in Reps : Deliver(m, r) \/ Receive(m, r)
                \/ \E r \in Reps : \E m \in buf[r] : Apply(m, r)
                \/ \E r \in Reps \ quiet : Rebroadcast(r)
                \/ \E r \in began, k \in {"val", "sub", "run"} : StartStep(r, k)
             /\ UNCHANGED <<l, quiet, began>>
Next == TReset \/ TPublish \/ TTrust \/ TDistrust \/ TAddPeer \/ TForge \/ TSetup \/ TWindow \/ TReady
        \/ TObserve \/ Silent
Spec == Init /\ [][Next]_tvars

\* violated exactly when every line has been explained
NotDone == l <= N
\* evaluated when the search ends without consuming everything
Report == PrintT(<<"TRACE-REJECT line", TLCGet(1) + 1>>)
=============================================================================
