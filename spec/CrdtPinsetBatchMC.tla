------------------------ MODULE CrdtPinsetBatchMC ------------------------
(* Exhaustive design check of the batching layer: every interleaving of    *)
(* submissions, worker steps, timer expiry and armed datastore failures    *)
(* within the bounds, for every configuration in Cfgs.                     *)
EXTENDS CrdtPinsetBatch

CONSTANTS MaxOps, MaxArm, MaxRArm, AgeReset, EmptySkip

VARIABLES nsub, narm, nrarm
mcvars == <<vars, nsub, narm, nrarm>>

Cfgs == {[batching |-> FALSE, maxsize |-> 0, maxq |-> 1, agereset |-> AgeReset, emptyskip |-> EmptySkip]} \cup
        {[batching |-> TRUE, maxsize |-> s, maxq |-> q, agereset |-> AgeReset, emptyskip |-> EmptySkip] : s \in 1..3, q \in 1..2}

Init == /\ \E c \in Cfgs : InitWith(c)
        /\ nsub = 0 /\ narm = 0 /\ nrarm = 0

Next == \/ /\ nsub < MaxOps /\ \E op \in Ops : Submit(op)
           /\ nsub' = nsub + 1 /\ UNCHANGED <<narm, nrarm>>
        \/ /\ narm < MaxArm /\ Arm(1) /\ narm' = narm + 1 /\ UNCHANGED <<nsub, nrarm>>
        \/ /\ nrarm < MaxRArm /\ RArm(1) /\ nrarm' = nrarm + 1 /\ UNCHANGED <<nsub, narm>>
        \/ Worker /\ UNCHANGED <<nsub, narm, nrarm>>

Spec == Init /\ [][Next]_mcvars

\* an operation is refused only when the queue is full, and then nothing changes
RefuseRule == [][res' = "full" /\ nsub' = nsub + 1 =>
                   Len(queue) = cfg.maxq /\ UNCHANGED <<pinset, queue, accepted, delta, tracked>>]_mcvars
=============================================================================
