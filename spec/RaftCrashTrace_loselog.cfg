\* classification of a rejected run only: accepted here = the observed states are prefixes of the
\* committed sequence but acknowledged operations are missing after a kill
CONSTANTS CIDS = {"c1", "c2", "c3"} MaxOps = 100000 KeepFsm = FALSE LoseLog = TRUE
INIT TraceInit
NEXT TraceNext
INVARIANTS TypeOK AtMostOnce
POSTCONDITION TraceAccepted
