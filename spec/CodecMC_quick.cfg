SPECIFICATION Spec
CONSTANT T = 2
INVARIANT InDomain
INVARIANT Idempotent
INVARIANT DocumentedLossOnly
INVARIANT ExportComposes
INVARIANT ProjAccepted
