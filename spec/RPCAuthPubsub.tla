--------------------------- MODULE RPCAuthPubsub ---------------------------
(* C07, CRDT clause: "pinset updates published by a peer are ignored by      *)
(* every peer that does not trust it; trust follows the configuration and    *)
(* later Trust/Distrust calls".                                              *)
(*                                                                           *)
(* Shaped after consensus/crdt/consensus.go + go-ds-crdt: every replica      *)
(* broadcasts its DAG heads on a pubsub topic (on every update and           *)
(* periodically); a receiver runs the topic validator on the SIGNER of the   *)
(* message (IsTrustedPeer at delivery time) and, if accepted, fetches and    *)
(* merges the whole DAG below the head - i.e. everything the signer had      *)
(* merged itself. Hence the exact meaning of "ignored": an update signed by  *)
(* s can be in r's pinset only if there is a chain of (at some time) trusted *)
(* peers from r to s.                                                        *)
EXTENDS Integers, Sequences, FiniteSets, TLC

CONSTANTS Reps,        \* replica names, e.g. {"a","b","c"}
          MaxPub,      \* total number of updates published (bound)
          MaxActs      \* total number of Trust/Distrust calls (bound)

VARIABLES trust,   \* trust[r] = [all |-> BOOLEAN, set |-> SUBSET Reps]   (validator state of r)
          ever,    \* ever[r]  = peers r has trusted at some time (history; property only)
          dag,     \* dag[r]   = updates merged by r; an update is [s |-> signer, n |-> k]
          msgs,    \* broadcast heads in flight (never lost, may be delivered late or repeatedly)
          npub, nact
pvars == <<trust, ever, dag, msgs, npub, nact>>

Updates == [s : Reps, n : 1..MaxPub]

\* ---- property layer (statement only)
RECURSIVE ReachFrom(_, _)
ReachFrom(ev, S) == LET S2 == S \cup UNION {ev[q] : q \in S}
                    IN IF S2 = S THEN S ELSE ReachFrom(ev, S2)
\* signers whose updates r may legitimately hold
Legit(ev, r) == ReachFrom(ev, {r})
PinsetOK(ev, r, pins) == \A u \in pins : u.s \in Legit(ev, r)
IgnoresUntrusted == \A r \in Reps : PinsetOK(ever, r, dag[r])

\* ---- transcription layer
Validator(r, signer) == trust[r].all \/ signer = r \/ signer \in trust[r].set    \* crdt IsTrustedPeer

TrustCfgs(r) == {[all |-> TRUE, set |-> {}]} \cup {[all |-> FALSE, set |-> s] : s \in SUBSET (Reps \ {r})}
EverOf(t) == [r \in Reps |-> IF t[r].all THEN Reps \ {r} ELSE t[r].set]

InitWith(t) ==
    /\ trust = t
    /\ ever = EverOf(t)
    /\ dag = [r \in Reps |-> {}]
    /\ msgs = {}
    /\ npub = 0 /\ nact = 0

Publish(r, u) ==
    /\ u.s = r /\ u \notin dag[r]
    /\ dag' = [dag EXCEPT ![r] = @ \cup {u}]
    /\ msgs' = msgs \cup {[from |-> r, content |-> dag'[r]]}
    /\ npub' = npub + 1
    /\ UNCHANGED <<trust, ever, nact>>

Rebroadcast(r) ==
    /\ dag[r] # {}
    /\ msgs' = msgs \cup {[from |-> r, content |-> dag[r]]}
    /\ UNCHANGED <<trust, ever, dag, npub, nact>>

Deliver(m, r) ==
    /\ m \in msgs /\ r # m.from
    /\ Validator(r, m.from)
    /\ ~(m.content \subseteq dag[r])
    /\ dag' = [dag EXCEPT ![r] = @ \cup m.content]
    /\ UNCHANGED <<trust, ever, msgs, npub, nact>>

Trust(r, p) ==
    /\ trust' = [trust EXCEPT ![r].set = @ \cup {p}]
    /\ ever' = [ever EXCEPT ![r] = @ \cup {p}]
    /\ nact' = nact + 1
    /\ UNCHANGED <<dag, msgs, npub>>

Distrust(r, p) ==
    /\ trust' = [trust EXCEPT ![r].set = @ \ {p}]
    /\ nact' = nact + 1
    /\ UNCHANGED <<ever, dag, msgs, npub>>
=============================================================================
