--------------------------- MODULE RPCAuthPubsub ---------------------------
(* C07, CRDT clause: "pinset updates published by a peer are ignored by      *)
(* every peer that does not trust it; trust follows the configuration and    *)
(* later Trust/Distrust calls".                                              *)
(*                                                                           *)
(* Shaped after consensus/crdt/consensus.go + go-ds-crdt: every replica      *)
(* broadcasts its DAG heads on a pubsub topic (on every update and           *)
(* periodically); a receiver runs the topic validator on the SIGNER of the   *)
(* message (IsTrustedPeer at delivery time) and, if accepted, fetches and    *)
(* merges the whole DAG below the head - i.e. everything the signer had      *)
(* merged itself. Hence the exact meaning of "ignored": an update signed by  *)
(* s can be in r's pinset only if there is a chain of (at some time) trusted *)
(* peers from r to s.                                                        *)
EXTENDS Integers, Sequences, FiniteSets, TLC

CONSTANTS Reps,        \* replica names, e.g. {"a","b","c"}
          MaxPub,      \* total number of updates published (bound)
          MaxActs,     \* total number of Trust/Distrust/handshake/forgery steps (bound)
          StartOrder,  \* order of the start-up steps of crdt setup(): a permutation of
                       \* <<"val","sub","run">> (register topic validator, subscribe to the
                       \* topic, start go-ds-crdt). As coded: <<"val","sub","run">>.
          SignPolicy,  \* pubsub signature policy of the cluster host (clusterhost.go newPubSub):
                       \* "strict" as coded; "lax" = unsigned messages are let through
          JoinTrusts   \* does the consensus-level effect of the open join handshake
                       \* (Cluster.PeerAdd -> Consensus.AddPeer) touch the trusted set? FALSE as coded

VARIABLES trust,   \* trust[r] = [all |-> BOOLEAN, set |-> SUBSET Reps]   (validator state of r)
          ever,    \* ever[r]  = peers r has trusted at some time by configuration or a Trust call
                   \*            (history; property only)
          dag,     \* dag[r]   = updates merged by r; an update is [s |-> author, n |-> k]
          msgs,    \* broadcast heads on the wire (never lost, may arrive late or repeatedly):
                   \*   [from |-> claimed author, sig |-> "ok"|"none"|"bad", content |-> updates below the head]
          st,      \* st[r] = [val, sub, run : BOOLEAN] start-up steps done
          buf,     \* buf[r] = heads sitting in r's subscription, not yet handed to go-ds-crdt
          npub, nact
pvars == <<trust, ever, dag, msgs, st, buf, npub, nact>>

OrderAsCoded       == <<"val", "sub", "run">>     \* consensus/crdt/consensus.go setup()
OrderValidatorLast == <<"sub", "run", "val">>     \* a deviation used by the negative configuration

Updates == [s : Reps, n : 1..MaxPub]

\* ---- property layer (statement only)
RECURSIVE ReachFrom(_, _)
ReachFrom(ev, S) == LET S2 == S \cup UNION {ev[q] : q \in S}
                    IN IF S2 = S THEN S ELSE ReachFrom(ev, S2)
\* authors whose updates r may legitimately hold
Legit(ev, r) == ReachFrom(ev, {r})
PinsetOK(ev, r, pins) == \A u \in pins : u.s \in Legit(ev, r)
\* ... at every moment, whatever the start-up position, whoever called the open
\* endpoints, whatever was put on the wire without a valid signature
IgnoresUntrusted == \A r \in Reps : PinsetOK(ever, r, dag[r])

\* ---- transcription layer
Validator(r, author) == trust[r].all \/ author = r \/ author \in trust[r].set    \* crdt IsTrustedPeer
\* gossipsub: StrictSign drops unsigned messages and verifies signatures; LaxSign verifies a
\* signature only if there is one
SigOK(m) == m.sig = "ok" \/ (SignPolicy = "lax" /\ m.sig = "none")

TrustCfgs(r) == {[all |-> TRUE, set |-> {}]} \cup {[all |-> FALSE, set |-> s] : s \in SUBSET (Reps \ {r})}
EverOf(t) == [r \in Reps |-> IF t[r].all THEN Reps \ {r} ELSE t[r].set]
Up   == [val |-> TRUE, sub |-> TRUE, run |-> TRUE]
Down == [val |-> FALSE, sub |-> FALSE, run |-> FALSE]

\* replicas in `down` have not run setup() yet; the others are up
InitWith(t, down) ==
    /\ trust = t
    /\ ever = EverOf(t)
    /\ dag = [r \in Reps |-> {}]
    /\ msgs = {}
    /\ st = [r \in Reps |-> IF r \in down THEN Down ELSE Up]
    /\ buf = [r \in Reps |-> {}]
    /\ npub = 0 /\ nact = 0

\* one step of setup(), in the order StartOrder
StartStep(r, k) ==
    /\ ~st[r][k]
    /\ \E i \in 1..Len(StartOrder) : StartOrder[i] = k /\ \A j \in 1..(i - 1) : st[r][StartOrder[j]]
    /\ st' = [st EXCEPT ![r][k] = TRUE]
    /\ UNCHANGED <<trust, ever, dag, msgs, buf, npub, nact>>

Publish(r, u) ==
    /\ st[r].run
    /\ u.s = r /\ u \notin dag[r]
    /\ dag' = [dag EXCEPT ![r] = @ \cup {u}]
    /\ msgs' = msgs \cup {[from |-> r, sig |-> "ok", content |-> dag'[r]]}
    /\ npub' = npub + 1
    /\ UNCHANGED <<trust, ever, st, buf, nact>>

Rebroadcast(r) ==
    /\ st[r].run /\ dag[r] # {}
    /\ msgs' = msgs \cup {[from |-> r, sig |-> "ok", content |-> dag[r]]}
    /\ UNCHANGED <<trust, ever, dag, st, buf, npub, nact>>

\* anybody can put on the wire the heads of replica `of` under the name of `as`,
\* unsigned or with a signature that does not verify
Forge(as, of, sig) ==
    /\ sig \in {"none", "bad"} /\ as # of /\ dag[of] # {}
    /\ msgs' = msgs \cup {[from |-> as, sig |-> sig, content |-> dag[of]]}
    /\ nact' = nact + 1
    /\ UNCHANGED <<trust, ever, dag, st, buf, npub>>

\* what lets a head into r's subscription: r is subscribed, the signature policy,
\* and the topic validator IF it is registered already
Admit(m, r) ==
    /\ m \in msgs /\ r # m.from
    /\ st[r].sub
    /\ SigOK(m)
    /\ st[r].val => Validator(r, m.from)

\* a head reaches a replica whose go-ds-crdt is not running yet: it waits in the subscription
Receive(m, r) ==
    /\ Admit(m, r) /\ ~st[r].run /\ m \notin buf[r]
    /\ buf' = [buf EXCEPT ![r] = @ \cup {m}]
    /\ UNCHANGED <<trust, ever, dag, msgs, st, npub, nact>>

\* go-ds-crdt (running) takes a buffered head and merges the DAG below it
Apply(m, r) ==
    /\ st[r].run /\ m \in buf[r]
    /\ dag' = [dag EXCEPT ![r] = @ \cup m.content]
    /\ buf' = [buf EXCEPT ![r] = @ \ {m}]
    /\ UNCHANGED <<trust, ever, msgs, st, npub, nact>>

\* running replica: admission and merge in one step
Deliver(m, r) ==
    /\ Admit(m, r) /\ st[r].run
    /\ ~(m.content \subseteq dag[r])
    /\ dag' = [dag EXCEPT ![r] = @ \cup m.content]
    /\ UNCHANGED <<trust, ever, msgs, st, buf, npub, nact>>

Trust(r, p) ==
    /\ trust' = [trust EXCEPT ![r].set = @ \cup {p}]
    /\ ever' = [ever EXCEPT ![r] = @ \cup {p}]
    /\ nact' = nact + 1
    /\ UNCHANGED <<dag, msgs, st, buf, npub>>

Distrust(r, p) ==
    /\ trust' = [trust EXCEPT ![r].set = @ \ {p}]
    /\ nact' = nact + 1
    /\ UNCHANGED <<ever, dag, msgs, st, buf, npub>>

\* p performs the join handshake with r (open endpoint Cluster.PeerAdd ->
\* Consensus.AddPeer(p)): not a Trust call, `ever` does not move
JoinHandshake(r, p) ==
    /\ trust' = IF JoinTrusts THEN [trust EXCEPT ![r].set = @ \cup {p}] ELSE trust
    /\ nact' = nact + 1
    /\ UNCHANGED <<ever, dag, msgs, st, buf, npub>>
=============================================================================
