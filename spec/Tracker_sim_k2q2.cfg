SPECIFICATION Spec
CONSTANTS
  CIDS = {"c1","c2","c3"}
  K = 2
  Q = 2
  MaxInstr = 10
  MaxFail = 2
  GatedFinish = FALSE
  Eager = TRUE
  RecoverUsesStatePin = TRUE
  StatusAllListsDirect = TRUE
  DirOverRecStuck = TRUE
