SPECIFICATION Spec
CONSTANT NPEERS = 5
