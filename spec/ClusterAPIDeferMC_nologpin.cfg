SPECIFICATION Spec
CONSTANT NPEERS = 3
CONSTANT Tier = "quick"
CONSTANT EqualsMode = "fixed"
CONSTANT UpdateGuard = TRUE
CONSTANT RepinRedirect = FALSE
CONSTANT MaxLen = 4
CONSTANT EmitLens = {3, 4}
CONSTANT SkipSameOptsLogPin = TRUE
INVARIANT PropertyHolds
INVARIANT FinalHolds
