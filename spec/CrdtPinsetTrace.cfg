SPECIFICATION TraceSpec
CONSTANTS
  CIDS = {"c1", "c2", "c3"}
  VALS = {"A", "B", "C"}
CONSTRAINT Mark
POSTCONDITION Finish
