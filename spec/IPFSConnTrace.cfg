SPECIFICATION TSpec
CONSTANTS
  CheckTrailer = TRUE
  UpdateWatchdog = FALSE
  Bound = 10
INVARIANT Explained
