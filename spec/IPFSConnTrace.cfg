SPECIFICATION TSpec
CONSTANTS
  CheckTrailer = TRUE
  UpdateWatchdog = FALSE
  WaitOrigins = FALSE
  CallerCtx = TRUE
  Bound = 10
INVARIANT Explained
