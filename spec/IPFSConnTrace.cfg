SPECIFICATION TSpec
CONSTANTS
  CheckTrailer = TRUE
  UpdateWatchdog = FALSE
  WaitOrigins = FALSE
  Bound = 10
INVARIANT Explained
