SPECIFICATION MCSpec
CONSTANTS
  REPS = {"r0", "r1"}
  CIDS = {"c1"}
  VALS = {"A", "B", "C"}
  VOrder <- MCVOrder
  MaxDeltas = 2
  MaxOps = 2
  WithBatch = TRUE
VIEW View
INVARIANT ValueConvergenceNoRemove
