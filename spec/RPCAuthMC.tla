----------------------------- MODULE RPCAuthMC -----------------------------
(* Exhaustive design check of RPCAuth: every configuration x every set of    *)
(* missing policy entries from HoleChoices x every Trust/Distrust history up *)
(* to MaxActs x (inside the invariants) every endpoint x every caller.       *)
(* With GraphMode = TRUE the history is dropped from the state (VIEW) and    *)
(* holes = {}: the resulting 9-node graph (-dump dot) is what the replay     *)
(* scripts are generated from (transition coverage of Trust/Distrust).       *)
EXTENDS RPCAuth

CONSTANTS MaxActs, HoleMode     \* HoleMode: "none" | "each" (none, every single entry, all entries)

HoleChoices == IF HoleMode = "none" THEN {{}}
               ELSE {{}} \cup {{e} : e \in Endpoints} \cup {Endpoints}

Init == InitWith(HoleChoices)
TrustB    == Len(hist) < MaxActs /\ Trust("b")
TrustC    == Len(hist) < MaxActs /\ Trust("c")
DistrustB == Len(hist) < MaxActs /\ Distrust("b")
DistrustC == Len(hist) < MaxActs /\ Distrust("c")
Next == TrustB \/ TrustC \/ DistrustB \/ DistrustC
Spec == Init /\ [][Next]_vars

GraphView == <<cfg.mode, cfg.all, ts>>
=============================================================================
