----------------------------- MODULE RPCAuthMC -----------------------------
(* Exhaustive design check of RPCAuth: every configuration x every set of    *)
(* missing policy entries from HoleChoices x every Trust/Distrust history up *)
(* to MaxActs x (inside the invariants) every endpoint x every caller.       *)
(* With GraphMode = TRUE the history is dropped from the state (VIEW) and    *)
(* holes = {}: the resulting 9-node graph (-dump dot) is what the replay     *)
(* scripts are generated from (transition coverage of Trust/Distrust).       *)
EXTENDS RPCAuth

CONSTANTS MaxActs, HoleMode     \* HoleMode: "none" | "each" (none, every single entry, all entries)

HoleChoices == IF HoleMode = "none" THEN {{}}
               ELSE {{}} \cup {{e} : e \in Endpoints} \cup {Endpoints}

Init == InitWith(HoleChoices)
TrustB    == Len(hist) < MaxActs /\ Trust("b")
TrustC    == Len(hist) < MaxActs /\ Trust("c")
DistrustB == Len(hist) < MaxActs /\ Distrust("b")
DistrustC == Len(hist) < MaxActs /\ Distrust("c")
\* named per peer so that the state graph dump labels every edge with its script step
CallIDB      == Len(hist) < MaxActs /\ OpenCall("Cluster.ID", "b")
CallIDC      == Len(hist) < MaxActs /\ OpenCall("Cluster.ID", "c")
CallVersionB == Len(hist) < MaxActs /\ OpenCall("Cluster.Version", "b")
CallVersionC == Len(hist) < MaxActs /\ OpenCall("Cluster.Version", "c")
CallPeerAddB == Len(hist) < MaxActs /\ OpenCall("Cluster.PeerAdd", "b")
CallPeerAddC == Len(hist) < MaxActs /\ OpenCall("Cluster.PeerAdd", "c")
Next == TrustB \/ TrustC \/ DistrustB \/ DistrustC
        \/ CallIDB \/ CallIDC \/ CallVersionB \/ CallVersionC \/ CallPeerAddB \/ CallPeerAddC
Spec == Init /\ [][Next]_vars

GraphView == <<cfg.mode, cfg.all, ts>>
=============================================================================
