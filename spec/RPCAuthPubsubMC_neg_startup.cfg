SPECIFICATION Spec
CONSTANT Reps = {"a", "b", "c"}
CONSTANT Starters = {"a"}
CONSTANT MaxPub = 1
CONSTANT MaxActs = 0
CONSTANT StartOrder <- OrderValidatorLast
CONSTANT SignPolicy = "strict"
CONSTANT JoinTrusts = FALSE
INVARIANT IgnoresUntrusted
INVARIANT LonerKeepsOwn
