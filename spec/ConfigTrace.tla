---------------------------- MODULE ConfigTrace ----------------------------
(* V: evaluates the laws of Config.tla on the facts recorded from the real *)
(* component configurations (NDJSON, IOEnv.TRACE_FILE) and writes the      *)
(* numbers of the facts that break a law to IOEnv.VERDICT_FILE.            *)
EXTENDS Config, Json, IOUtils

Facts == ndJsonDeserialize(IOEnv.TRACE_FILE)
Of(kind) == {i \in 1..Len(Facts) : Facts[i].fact = kind}

BadDefault == {i \in Of("default") : ~DefaultValid(Facts[i])}
BadLoad    == {[i |-> i, laws |-> BrokenLoadLaws(Facts[i])] : i \in {j \in Of("load") : BrokenLoadLaws(Facts[j]) # {}}}
BadReject  == {i \in Of("reject") : ~RejectedAtLoad(Facts[i])}
BadHidden  == {i \in Of("hidden") : ~Hidden(Facts[i])}
BadSubset  == {i \in Of("subset") : ~Preserved(Facts[i])}
BadHistory == {i \in Of("history") : ~OrderIndependent(Facts[i])}
BadSave    == {i \in Of("save") : ~SaveOutcomeOK(Facts[i])}
Secrets    == {i \in Of("hidden") : IsSecret(Facts[i])}
UnknownClass == {i \in Of("load") : Facts[i].class \notin Classes[Facts[i].vkind]}

ASSUME ndJsonSerialize(IOEnv.VERDICT_FILE,
    <<[n |-> Len(Facts), baddefault |-> BadDefault, badload |-> BadLoad, badreject |-> BadReject, badhidden |-> BadHidden,
       badsubset |-> BadSubset, badhistory |-> BadHistory, badsave |-> BadSave, secrets |-> Secrets, unknownclass |-> UnknownClass]>>)
VARIABLE x
Init == x = 0
Next == UNCHANGED x
Spec == Init /\ [][Next]_x
=============================================================================
