SPECIFICATION LiveSpec
CONSTANTS
  PEERS = {"p1","p2"}
  CIDS = {"c1"}
  MaxOps = 2
  MaxOut = 1
  HandoffOrdered = TRUE
INVARIANTS E2EInv ErrorKept
PROPERTIES EventuallyAgrees
