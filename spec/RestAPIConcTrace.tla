-------------------------- MODULE RestAPIConcTrace --------------------------
(* Judges the outcomes recorded from concurrent requests against a real     *)
(* rest.API with basic-auth credentials (NDJSON env TRACE_FILE, one record  *)
(* per request: cred, status, reached) with the predicates of RestAPIConc.  *)
EXTENDS RestAPI, Json, IOUtils, SequencesExt

\* the property predicates only (the model's constants are not needed here)
BadAccepted(cred, status, reached) == cred \notin CredRight /\ (reached \/ status # 401)
GoodRefused(cred, status, reached) == cred \in CredRight /\ (~reached \/ status = 401)

Recs == ndJsonDeserialize(IOEnv.TRACE_FILE)
Idx  == 1..Len(Recs)
SetSeq(S) == SetToSortSeq(S, LAMBDA a, b : a < b)

\* status -1: the connection was dropped without an answer; such a request is judged on "reached" only
Answered(i) == Recs[i].status >= 0
BadIdx  == {i \in Idx : /\ Recs[i].cred \notin CredRight
                        /\ (Recs[i].reached > 0 \/ (Answered(i) /\ BadAccepted(Recs[i].cred, Recs[i].status, FALSE)))}
GoodIdx == {i \in Idx : Answered(i) /\ GoodRefused(Recs[i].cred, Recs[i].status, Recs[i].reached > 0)}
Lost    == {i \in Idx : ~Answered(i)}
\* an operation performed more than once for one request is not "exactly the operation"
Dup  == {i \in Idx : Recs[i].reached > 1}
Unknown == {i \in Idx : Recs[i].cred \notin Creds}

ASSUME ndJsonSerialize(IOEnv.VERDICT_FILE,
        <<[n |-> Len(Recs), badaccepted |-> SetSeq(BadIdx), goodrefused |-> SetSeq(GoodIdx), dup |-> SetSeq(Dup),
           unknown |-> SetSeq(Unknown), lost |-> SetSeq(Lost)]>>)

VARIABLE x
Init == x = 0
Next == UNCHANGED x
Spec == Init /\ [][Next]_x
=============================================================================
