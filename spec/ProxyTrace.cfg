SPECIFICATION Spec
