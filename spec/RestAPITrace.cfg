SPECIFICATION Spec
