SPECIFICATION Spec
CONSTANTS
  NAMES = {"n1"}
  PEERS = {"p1", "p2"}
  Thr = 1
  CheckMode = "once"
  ForgetMode = "name"
  RenewMode = "restart"
  W = 2
  AccN = 6
  MaxArr = 3
  MaxT = 2
  REPS = {1}
  Garbage = FALSE
  Staged = FALSE
  PsFree = FALSE
  InitSets = {{"p1"}, {"p1", "p2"}}
VIEW View
INVARIANTS InvAtMostOne InvIsLatest InvValidUnexpiredMember InvNoFalseAlarm InvAlertOnce InvReported InvForgotten InvUsed InvObserverSane
