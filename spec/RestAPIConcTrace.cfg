SPECIFICATION Spec
