SPECIFICATION Spec
CONSTANTS
  PEERS = {"p1"}
  CIDS = {"c1"}
  MaxOps = 0
  MaxOut = 0
