SPECIFICATION Spec
