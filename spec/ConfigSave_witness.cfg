SPECIFICATION Spec
CONSTANT Savers = {"a", "b"}
CONSTANT MaxChanges = 2
CONSTANT SerialiseInLock = FALSE
INVARIANT NoLostUpdate
INVARIANT MutualExclusion
