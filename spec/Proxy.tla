------------------------------ MODULE Proxy ------------------------------
(***************************************************************************)
(* C12 - the IPFS proxy intercepts exactly the pinning endpoints and       *)
(* relays the rest.                                                        *)
(*                                                                         *)
(* One request at a time travels  client -> proxy -> {cluster RPC, daemon}.*)
(* A request is an abstract record (all fields strings, "-" = absent); an  *)
(* observation `obs` is what the harness recorded around the real          *)
(* ipfsproxy.Server for that request: the response, the RPC calls received *)
(* by the recording Cluster service (in order, with their outcome), the    *)
(* pinset before and afterwards and the calls received by the recording    *)
(* IPFS daemon.                                                            *)
(*                                                                         *)
(* Two things are specified and deliberately kept apart:                   *)
(*                                                                         *)
(*  * Exp(req, P) / Conforms(req, obs): the transcription of               *)
(*    api/ipfsproxy/ipfsproxy.go (router of New, slashHandler,             *)
(*    pinOpHandler, pinLsHandler, pinUpdateHandler, addHandler,            *)
(*    repoStatHandler, repoGCHandler) against the harness cluster.         *)
(*                                                                         *)
(*  * Good(req, obs) = HijackExact, NeverLeaks, ErrorMeansNoOp, Faithful,  *)
(*    RelayIdentity: what the property statement promises, written from    *)
(*    the statement.  A pinning endpoint is recognised on the DECODED path *)
(*    (percent-encoded spellings are the same endpoint).  Where the        *)
(*    statement is silent (GET/PUT/HEAD/... on a                           *)
(*    pinning endpoint, unknown `type` values, invalid add options) both   *)
(*    behaviours are accepted.                                             *)
(*                                                                         *)
(* ProxyMC checks  Conforms => Good  for every request class, ProxySeq for *)
(* every request from every reachable pinset; ProxyTrace evaluates both on *)
(* the tuples recorded from the real proxy.                                *)
(***************************************************************************)
EXTENDS Integers, Sequences, FiniteSets, SequencesExt, TLC

NA == "-"

Methods   == {"POST", "GET", "PUT", "HEAD", "OPTIONS", "DELETE", "PATCH"}
ArgRoutes == {"pin/add", "pin/rm", "pin/ls"}          \* have a /{arg} twin route
Routes    == ArgRoutes \cup {"pin/update", "add", "repo/stat", "repo/gc"}

\* Non-hijacked path classes (concretised by the driver, several per class)
PassKinds == {"nm-suffix", "nm-version", "nm-parent", "nm-trailing", "nm-deep", "nm-prefix",
              "nm-case", "nm-encoded", "api-other", "root", "escaped"}
\* "nm-encoded": percent-encoded spellings that DECODE to a near-miss (must be relayed, escaped path preserved)
QueryKinds == {"none", "simple", "arglike", "weird"}
BodyKinds  == {"none", "text", "bin", "mp", "large", "chunked"}

(***************************************************************************)
(* The world: the harness cluster before every request.                    *)
(*   bare CIDs cP, cU;  paths pR -> cR, pQ -> cQ resolve;  pN parses but   *)
(*   does not resolve, "bad" does not parse, "none" = no arg.  In world w0 *)
(*   cP, cQ are pinned, in w1 nothing, in w2 cP, cQ (direct), cU, cR.      *)
(* Every operator below takes the pinset before the request as P.          *)
(***************************************************************************)
PinRec(c, m, n, r) == [cid |-> c, mode |-> m, name |-> n, repl |-> r]
\* the pinsets the driver installs before a request ("seq": whatever the previous request of a sequence left)
World(w) ==
    CASE w = "w0" -> {PinRec("cP", "recursive", "nP", NA), PinRec("cQ", "recursive", "nQ", NA)}
      [] w = "w1" -> {}
      [] w = "w2" -> {PinRec("cP", "direct", "nP", NA), PinRec("cQ", "direct", "nQ", NA),
                      PinRec("cU", "recursive", NA, NA), PinRec("cR", "recursive", "n1", NA)}
      [] w = "wr" -> {PinRec("cP", "recursive", "nP", NA), PinRec("cQ", "recursive", "nQ", NA),
                      PinRec("root", "recursive", "n0", NA)}     \* the content of the next add is pinned already
      [] OTHER    -> {}
Worlds == {"w0", "w1", "w2", "wr"}
Cids(ps)     == {p.cid : p \in ps}
PinOf(ps, c) == CHOOSE p \in ps : p.cid = c
Put(ps, rec) == {p \in ps : p.cid # rec.cid} \cup {rec}
Del(ps, c)   == {p \in ps : p.cid # c}

ArgClasses == {"cP", "cU", "pR", "pQ", "pN", "bad", "none"}
SlashArgs  == {"cP", "cU", "bad"}                     \* one path segment
ParseOK(a)    == a \in {"cP", "cU", "pR", "pQ", "pN"}
BareCid(a)    == a \in {"cP", "cU"}
Resolvable(a) == a \in {"cP", "cU", "pR", "pQ"}
Res(a) == CASE a = "cP" -> "cP" [] a = "cU" -> "cU" [] a = "pR" -> "cR" [] a = "pQ" -> "cQ" [] OTHER -> "?"

EmptyBody == "0:da39a3ee5e6b4b0d3255"      \* the driver's digest (length:sha1 prefix) of no bytes
StatTotal == <<123, 1230>>          \* sum over the three harness peers
\* cluster = "real3": three REAL Cluster peers (real RPC server and authorization policy, connected libp2p hosts);
\* the proxy talks to p1; every peer's IPFS connector is scripted with its own numbers <<RepoSize, StorageMax>>
RealPeers == {"p1", "p2", "p3"}
RealStat(p) == CASE p = "p1" -> <<7, 70>> [] p = "p2" -> <<500, 9000>> [] p = "p3" -> <<30000, 100000>>
RealTotal(F) == LET H == RealPeers \ F
                    Sz(p) == IF p \in H THEN RealStat(p)[1] ELSE 0
                    Mx(p) == IF p \in H THEN RealStat(p)[2] ELSE 0 IN
                <<Sz("p1") + Sz("p2") + Sz("p3"), Mx("p1") + Mx("p2") + Mx("p3")>>
FailSet(req) == IF req.peerfail = NA THEN {} ELSE {req.peerfail}
\* The IPFS daemon behind the proxy: "up", "slow" (answers after 3x the proxy's client-side timeouts),
\* "down" (connection refused), "reset" (accepts and resets the connection)
DaemonModes == {"up", "slow", "down", "reset"}
Reachable(req) == req.daemon \in {"up", "slow"}
GCKeys    == {"g1", "g2", "g3"}       \* harness RepoGC result: peer A collected g1, g2, peer B g3, peer C nothing
\* which keys the harness cluster reports as failed ("err-<key>"), every position: none, one, two, all
GCErrs    == {NA, "1", "2", "3", "12", "13", "23", "123"}
GCErrSet(x) == CASE x = "1" -> {"g1"} [] x = "2" -> {"g2"} [] x = "3" -> {"g3"} [] x = "12" -> {"g1", "g2"}
                 [] x = "13" -> {"g1", "g3"} [] x = "23" -> {"g2", "g3"} [] x = "123" -> GCKeys [] OTHER -> {}
GCErrOf(g)  == "err-" \o g
\* faults the harness cluster injects into the RPCs of the add path (the designated call fails, nothing changes)
Faults     == {"alloc", "put1", "putroot", "pin"}
\* where the client hangs up: right after the response headers / right after the last streamed entry
Hangups    == {"headers", "entry"}

(***************************************************************************)
(* Requests                                                                *)
(***************************************************************************)
Blank == [world |-> "w0", method |-> "POST", pathk |-> "route", route |-> NA, style |-> NA, arg |-> NA, arg2 |-> NA,
          type |-> NA, unpin |-> NA, body |-> NA, onlyhash |-> NA, pin |-> NA, layout |-> NA,
          trickle |-> NA, chunker |-> NA, cidv |-> NA, raw |-> NA, name |-> NA, repl |-> NA,
          streamerr |-> NA, qk |-> NA, bk |-> NA, enc |-> NA, fault |-> NA, hangup |-> NA, gcerr |-> NA,
          daemon |-> "up", cluster |-> NA, peerfail |-> NA, client |-> NA]
\* client: how the client behaves on its leg besides `hangup`: "upload" = the request body arrives in two halves
\* with a pause of 3x the proxy's read_header_timeout between them (read_timeout is not set).  Nothing in the
\* statement depends on how fast the body arrives: the predicates are those of the plain request.
\* enc: how the fixed part of a pinning endpoint's path is spelled on the wire: "-" plain, "letter" = one or
\* more letters percent-encoded (/api/v0/pin/%61dd), "slash" = one or more separating slashes as %2F
\* (/api/v0/pin%2Frm, /api/v0/pin/add%2F<cid>), "both".  The request is the same request: pathk = "route"
\* says what the path DECODES to, which is what go-ipfs's own router (and RFC 3986 for letters) sees.
Encodings == {"letter", "slash", "both"}

StyleOK(s, a) == s = "query" \/ a \in SlashArgs

PinAddRmReqs ==
    {[Blank EXCEPT !.method = m, !.route = r, !.style = s, !.arg = a, !.type = t] :
        m \in Methods, r \in {"pin/add", "pin/rm"}, s \in {"query", "slash"},
        a \in ArgClasses, t \in {NA, "recursive", "direct", "bogus"}}
PinLsReqs ==
    {[Blank EXCEPT !.method = m, !.route = "pin/ls", !.style = s, !.arg = a, !.type = t] :
        m \in Methods, s \in {"query", "slash"}, a \in {"none", "cP", "cU", "pR", "pQ", "bad"}, t \in {NA, "direct"}}
PinUpdateReqs ==
    {[Blank EXCEPT !.method = m, !.route = "pin/update", !.style = "query", !.arg = f, !.arg2 = t, !.unpin = u] :
        m \in Methods, f \in {"cP", "pQ", "cU", "pN", "bad", "none"}, t \in {"cU", "pR", "pN", "bad", "none"},
        u \in {NA, "true", "false"}}
AddFullReqs ==
    {[Blank EXCEPT !.method = "POST", !.route = "add", !.body = b, !.onlyhash = oh, !.pin = p, !.layout = l,
                   !.trickle = tr, !.chunker = ch, !.cidv = cv, !.raw = rw, !.name = n, !.repl = rp] :
        b \in {"mp"}, oh \in {NA, "true", "false"}, p \in {NA, "false", "true"},
        l \in {NA, "trickle", "balanced", "bogus"}, tr \in {NA, "true"}, ch \in {NA, "size-16", "bogus"},
        cv \in {NA, "0", "1", "x"}, rw \in {NA, "true", "false"}, n \in {NA, "n1"}, rp \in {NA, "1/2", "x"}}
AddLiteReqs ==
    {[Blank EXCEPT !.method = m, !.route = "add", !.body = b, !.onlyhash = oh, !.pin = p, !.chunker = ch] :
        m \in Methods, b \in {"mp", "raw"}, oh \in {NA, "true"}, p \in {NA, "false"}, ch \in {NA, "size-16"}}
RepoReqs ==
    {[Blank EXCEPT !.method = m, !.route = "repo/stat"] : m \in Methods} \cup
    {[Blank EXCEPT !.method = m, !.route = "repo/gc", !.streamerr = se, !.gcerr = ge] :
        m \in Methods, se \in {NA, "true"}, ge \in GCErrs}
\* add with one RPC of the add path failing, with and without the same root pinned before
AddFaultReqs ==
    {[Blank EXCEPT !.method = m, !.world = w, !.route = "add", !.body = "mp", !.pin = p, !.name = n, !.fault = f] :
        m \in {"POST", "PUT"}, w \in {"w0", "wr"}, p \in {NA, "false", "true"}, n \in {NA, "n1"}, f \in Faults}
\* add whose client hangs up early
AddHangupReqs ==
    {[Blank EXCEPT !.method = m, !.world = w, !.route = "add", !.body = "mp", !.pin = p, !.hangup = h] :
        m \in {"POST", "GET"}, w \in {"w0", "wr"}, p \in {NA, "false"}, h \in Hangups}
PassReqs(kinds) ==
    {[Blank EXCEPT !.method = m, !.pathk = k, !.qk = q, !.bk = b] :
        m \in Methods, k \in kinds, q \in QueryKinds, b \in BodyKinds}

HijackShaped ==
    {r \in PinAddRmReqs \cup PinLsReqs : StyleOK(r.style, r.arg)} \cup
    {r \in PinUpdateReqs : r.arg = "none" => r.arg2 = "none"} \cup
    AddFullReqs \cup AddLiteReqs \cup RepoReqs
FaultAndHangup == AddFaultReqs \cup AddHangupReqs \cup
    {[r EXCEPT !.world = "wr"] : r \in {x \in AddLiteReqs : x.method = "POST" /\ x.chunker = NA}}  \* (same root)
\* other pinsets before the request: the API verb on every pinning endpoint (add: reduced option set)
OtherWorlds ==
    {[r EXCEPT !.world = w] : w \in {"w1", "w2"},
        r \in {x \in HijackShaped : x.method = "POST" /\ (x.route = "add" => x \in AddLiteReqs) /\ x.gcerr = NA}}
\* percent-encoded spellings: every route, style, argument class and method (add: reduced option set)
EncodedSpellings ==
    {[r EXCEPT !.enc = e] : e \in Encodings,
        r \in {x \in HijackShaped : (x.route = "add" => x \in AddLiteReqs) /\ x.type # "bogus" /\ x.gcerr \in {NA, "2"}}}
\* daemon unreachable: every pinning endpoint (reduced options) and three pass-through classes
DaemonBase ==
    {x \in HijackShaped : /\ x.method \in {"POST", "GET", "OPTIONS", "HEAD"}
                          /\ (x.route = "add" => x \in AddLiteReqs /\ x.chunker = NA)
                          /\ x.type \in {NA, "direct"} /\ x.gcerr \in {NA, "2"} /\ x.unpin = NA} \cup
    PassReqs({"api-other", "nm-suffix", "root"})
DaemonDownReqs == {[r EXCEPT !.daemon = d] : d \in {"down", "reset"}, r \in DaemonBase}
DaemonSlowReqs ==
    {[Blank EXCEPT !.daemon = "slow", !.method = m, !.pathk = k, !.qk = q, !.bk = b] :
        m \in {"POST", "GET", "HEAD"}, k \in {"api-other", "nm-trailing"}, q \in {"none", "arglike"}, b \in {"none", "text"}} \cup
    {[Blank EXCEPT !.daemon = "slow", !.route = "pin/ls", !.style = "query", !.arg = "none"],
     [Blank EXCEPT !.daemon = "slow", !.route = "pin/add", !.style = "query", !.arg = "cU"],
     [Blank EXCEPT !.daemon = "slow", !.route = "repo/stat"]}
SlowUploadReqs ==
    {[Blank EXCEPT !.client = "upload", !.method = m, !.pathk = k, !.qk = q, !.bk = b] :
        m \in {"POST", "PUT"}, k \in {"api-other", "nm-deep"}, q \in {"none", "simple"}, b \in {"text", "bin", "mp", "large"}} \cup
    {[Blank EXCEPT !.client = "upload", !.route = "add", !.body = "mp", !.pin = p, !.chunker = ch] :
        p \in {NA, "false"}, ch \in {NA, "size-16"}}
RealClusterReqs ==
    {[Blank EXCEPT !.world = "w1", !.method = m, !.route = "repo/stat", !.cluster = "real3", !.peerfail = f] :
        m \in {"POST", "GET", "PUT"}, f \in {NA, "p2", "p3"}}
Requests == HijackShaped \cup OtherWorlds \cup EncodedSpellings \cup FaultAndHangup \cup PassReqs(PassKinds) \cup
            DaemonDownReqs \cup DaemonSlowReqs \cup RealClusterReqs \cup SlowUploadReqs
\* Paths that are not in canonical form ("//", "/./", "/../"): kept apart, see KNOWN finding.
UncleanRequests == PassReqs({"unclean"})

(***************************************************************************)
(* Transcription of the code                                               *)
(***************************************************************************)
CodedHijackMethods == {"POST", "GET", "PUT"}          \* hijackSubrouter.Methods(...)
Hijacked(req) == req.pathk = "route" /\ req.method \in CodedHijackMethods

Op(m, tgt, mode, upd, name, repl, ok) ==
    [m |-> m, tgt |-> tgt, mode |-> mode, upd |-> upd, name |-> name, repl |-> repl, ok |-> ok]
Op0(m, tgt, ok) == Op(m, tgt, NA, NA, NA, NA, ok)
Mutating == {"Cluster.PinPath", "Cluster.UnpinPath", "Cluster.Pin", "Cluster.Unpin", "Cluster.RepoGC"}

ErrWith(st, ops, P) == [err |-> TRUE, status |-> st, ops |-> ops, ps |-> P, pins |-> <<>>, keys |-> {}, stat |-> <<>>,
                        gc |-> {}, tkeys |-> {}]
OkWith(ops, ps, pins, keys, stat) ==
    [err |-> FALSE, status |-> 200, ops |-> ops, ps |-> ps, pins |-> pins, keys |-> keys, stat |-> stat,
     gc |-> {}, tkeys |-> {}]

ModeOf(t) == IF t = "direct" THEN "direct" ELSE "recursive"       \* api.PinModeFromString

ExpPinAdd(req, P) ==
    LET a == req.arg IN
    IF ~ParseOK(a) THEN ErrWith(500, <<>>, P)
    ELSE LET op == Op("Cluster.PinPath", a, ModeOf(req.type), NA, NA, NA, Resolvable(a)) IN
         IF Resolvable(a)
         THEN OkWith(<<op>>, Put(P, PinRec(Res(a), ModeOf(req.type), NA, NA)), <<Res(a)>>, {}, <<>>)
         ELSE ErrWith(500, <<op>>, P)

ExpPinRm(req, P) ==
    LET a == req.arg IN
    IF ~ParseOK(a) THEN ErrWith(500, <<>>, P)
    ELSE LET ok == Resolvable(a) /\ Res(a) \in Cids(P)
             op == Op0("Cluster.UnpinPath", a, ok) IN
         IF ok THEN OkWith(<<op>>, Del(P, Res(a)), <<Res(a)>>, {}, <<>>) ELSE ErrWith(500, <<op>>, P)

ExpPinLs(req, P) ==
    LET a == req.arg IN
    IF a = "none" THEN OkWith(<<Op0("Cluster.Pins", NA, TRUE)>>, P, <<>>, Cids(P), <<>>)
    ELSE IF BareCid(a) THEN
        LET ok == a \in Cids(P)
            op == Op0("Cluster.PinGet", a, ok) IN
        IF ok THEN OkWith(<<op>>, P, <<>>, {a}, <<>>) ELSE ErrWith(500, <<op>>, P)
    ELSE ErrWith(500, <<>>, P)                           \* cid.Decode fails on paths

ExpPinUpdate(req, P) ==
    LET f == req.arg
        t == req.arg2
        unpin == req.unpin # "false" IN
    IF f = "none" \/ t = "none" THEN ErrWith(400, <<>>, P)
    ELSE IF ~ParseOK(f) \/ ~ParseOK(t) THEN ErrWith(500, <<>>, P)
    ELSE LET opR == Op0("IPFS.Resolve", f, Resolvable(f)) IN
    IF ~Resolvable(f) THEN ErrWith(500, <<opR>>, P)
    ELSE LET okP == Resolvable(t) /\ Res(f) \in Cids(P)
             opP == Op("Cluster.PinPath", t, "recursive", Res(f), NA, NA, okP) IN
    IF ~okP THEN ErrWith(500, <<opR, opP>>, P)
    ELSE LET new == [PinOf(P, Res(f)) EXCEPT !.cid = Res(t)]
             opU == Op0("Cluster.Unpin", Res(f), TRUE) IN
         OkWith(<<opR, opP>> \o (IF unpin THEN <<opU>> ELSE <<>>),
                IF unpin THEN Del(Put(P, new), Res(f)) ELSE Put(P, new),
                <<Res(f), Res(t)>>, {}, <<>>)

\* parameters the cluster adder runs with (api.AddParamsFromQuery + the trickle flag)
AddP(req) ==
    LET cv == IF req.cidv = "1" THEN "1" ELSE "0" IN
    [layout  |-> IF req.trickle = "true" \/ req.layout = "trickle" THEN "trickle" ELSE "balanced",
     chunker |-> IF req.chunker = NA THEN "default" ELSE req.chunker,
     cidv    |-> cv,
     raw     |-> IF req.raw # NA THEN req.raw ELSE IF cv = "1" THEN "true" ELSE "false"]

ExpAdd(req, P) ==
    IF req.body # "mp" THEN ErrWith(500, <<>>, P)                                 \* r.MultipartReader()
    ELSE IF req.onlyhash = "true" THEN ErrWith(500, <<>>, P)                      \* "only-hash is not supported"
    ELSE IF req.repl = "x" \/ req.layout = "bogus" \/ req.cidv = "x" THEN ErrWith(500, <<>>, P)
    ELSE IF req.chunker = "bogus" THEN ErrWith(200, <<>>, P)          \* 200 + X-Stream-Error trailer
    ELSE LET opA == Op0("Cluster.BlockAllocate", NA, req.fault # "alloc")
             opP == Op("Cluster.Pin", "root", "recursive", NA, req.name, req.repl, req.fault # "pin")
             opU == Op0("Cluster.Unpin", "root", TRUE)
             rec == PinRec("root", "recursive", req.name, req.repl) IN
         \* a failing RPC ends the add: 200 was sent already, the error goes to the X-Stream-Error trailer,
         \* and the handler returns before the unpin
         IF req.fault = "alloc" THEN ErrWith(200, <<opA>>, P)
         ELSE IF req.fault \in {"put1", "putroot"} THEN ErrWith(200, <<opA>>, P)
         ELSE IF req.fault = "pin" THEN [ErrWith(200, <<opA, opP>>, P) EXCEPT !.pins = <<"root">>]
         ELSE IF req.pin = "false"
         THEN OkWith(<<opA, opP, opU>>, Del(P, "root"), <<"root">>, {}, <<>>)   \* pinned, then unpinned
         ELSE OkWith(<<opA, opP>>, Put(P, rec), <<"root">>, {}, <<>>)

ExpRepoStat(req, P) ==
    LET s == Op0("IPFS.RepoStat", NA, TRUE)
        f == Op0("IPFS.RepoStat", NA, FALSE) IN
    \* real cluster: only the connectors' calls are visible (ok ones listed first); a failing peer is logged and skipped
    IF req.cluster = "real3"
    THEN OkWith(IF req.peerfail = NA THEN <<s, s, s>> ELSE <<s, s, f>>, P, <<>>, {}, RealTotal(FailSet(req)))
    ELSE OkWith(<<Op0("Consensus.Peers", NA, TRUE), s, s, s>>, P, <<>>, {}, StatTotal)

\* repoGCHandler: one entry per collected key; a key's error travels in its own entry when stream-errors=true,
\* otherwise all of them are joined into the X-Stream-Error trailer
ExpRepoGC(req, P) ==
    LET E == GCErrSet(req.gcerr)
        inline == req.streamerr = "true" IN
    [OkWith(<<Op0("Cluster.RepoGC", NA, TRUE)>>, P, <<>>, GCKeys, <<>>) EXCEPT
        !.err   = ~inline /\ E # {},
        !.gc    = {[key |-> g, error |-> IF inline /\ g \in E THEN GCErrOf(g) ELSE NA] : g \in GCKeys},
        !.tkeys = IF inline THEN {} ELSE E]

Exp(req, P) ==
    CASE req.route = "pin/add"    -> ExpPinAdd(req, P)
      [] req.route = "pin/rm"     -> ExpPinRm(req, P)
      [] req.route = "pin/ls"     -> ExpPinLs(req, P)
      [] req.route = "pin/update" -> ExpPinUpdate(req, P)
      [] req.route = "add"        -> ExpAdd(req, P)
      [] req.route = "repo/stat"  -> ExpRepoStat(req, P)
      [] req.route = "repo/gc"    -> ExpRepoGC(req, P)

AddSucceeds(req, P) == req.route = "add" /\ ~Exp(req, P).err

(***************************************************************************)
(* ObsOf: the observation the transcription predicts for request r sent    *)
(* when the pinset is P (used by the design checks ProxyMC / ProxySeq;     *)
(* the concrete strings of the relayed request/response are placeholders). *)
(***************************************************************************)
ObsOf(r, P) ==
    LET sent  == [method |-> r.method, uri |-> "u", body |-> "b", hdrs |-> "h"]
        dresp == [status |-> 200, body |-> "d", hdrs |-> "dh"] IN
    IF Hijacked(r) THEN
        LET e == Exp(r, P) IN
        [dropped |-> FALSE, ps0 |-> SetToSeq(P), self |-> TRUE, err |-> e.err, status |-> e.status, ops |-> e.ops, ps |-> SetToSeq(e.ps),
         pins |-> e.pins, keys |-> SetToSeq(e.keys), stat |-> e.stat, addp |-> <<AddP(r)>>, nblocks |-> 1,
         gc |-> SetToSeq(e.gc), tkeys |-> SetToSeq(e.tkeys),
         dcalls |-> IF Reachable(r)
                    THEN <<[method |-> "OPTIONS", uri |-> "u", body |-> EmptyBody, hdrs |-> "", pclass |-> r.route]>>
                    ELSE <<>>,
         sent |-> sent, resp |-> [status |-> e.status, body |-> "p", hdrs |-> "ph"],
         dresp |-> [status |-> 0, body |-> "", hdrs |-> ""]]
    ELSE IF ~Reachable(r) THEN       \* ReverseProxy's error handler: 502 Bad Gateway
        [dropped |-> FALSE, ps0 |-> SetToSeq(P), self |-> TRUE, err |-> TRUE, status |-> 502, ops |-> <<>>, ps |-> SetToSeq(P),
         pins |-> <<>>, keys |-> <<>>, stat |-> <<>>, addp |-> <<>>, nblocks |-> 0, gc |-> <<>>, tkeys |-> <<>>,
         dcalls |-> <<>>, sent |-> sent, resp |-> [status |-> 502, body |-> EmptyBody, hdrs |-> ""],
         dresp |-> [status |-> 0, body |-> "", hdrs |-> ""]]
    ELSE
        [dropped |-> FALSE, ps0 |-> SetToSeq(P), self |-> FALSE, err |-> FALSE, status |-> 200, ops |-> <<>>, ps |-> SetToSeq(P),
         pins |-> <<>>, keys |-> <<>>, stat |-> <<>>, addp |-> <<>>, nblocks |-> 0, gc |-> <<>>, tkeys |-> <<>>,
         dcalls |-> <<[method |-> r.method, uri |-> "u", body |-> "b", hdrs |-> "h", pclass |-> "other"]>>,
         sent |-> sent, resp |-> dresp, dresp |-> dresp]

\* what the answer lists is only checked when the method lets the answer carry a body
Shows(req) == req.method # "HEAD"

Before(obs) == Range(obs.ps0)      \* the pinset the harness cluster held when the request was sent

(***************************************************************************)
(* RelayIdentity (statement): the daemon received exactly one request, the *)
(* one the client sent (method, request-target = escaped path + raw query, *)
(* body bytes, end-to-end headers); the client received the daemon's       *)
(* response; the cluster was not touched.                                  *)
(***************************************************************************)
Relayed(req, obs) ==
    /\ ~obs.self
    /\ Len(obs.dcalls) = 1
    /\ LET d == obs.dcalls[1] IN
        /\ d.method = obs.sent.method
        /\ d.uri    = obs.sent.uri
        /\ d.body   = obs.sent.body
        /\ d.hdrs   = obs.sent.hdrs
    /\ obs.resp = obs.dresp
    /\ obs.ops = <<>>
    /\ Range(obs.ps) = Before(obs)

\* The daemon cannot be reached: a relayed request is answered with a proper 5xx (never a dropped connection),
\* nothing reaches the daemon as a request and the cluster is not touched.
RelayDown(req, obs) ==
    /\ ~obs.dropped
    /\ obs.status >= 500 /\ obs.status <= 599
    /\ obs.dcalls = <<>>
    /\ obs.ops = <<>>
    /\ Range(obs.ps) = Before(obs)

(***************************************************************************)
(* Conforms: the recorded tuple is what the transcription predicts.        *)
(***************************************************************************)
\* setHeaders: one OPTIONS pre-flight to the same path, at most one POST to ExtractHeadersPath
DCallsCoded(req, obs) ==
    IF ~Reachable(req) THEN obs.dcalls = <<>> ELSE      \* the pre-flight fails, the handler goes on (best effort)
    /\ \A i \in DOMAIN obs.dcalls :
        \/ obs.dcalls[i].method = "OPTIONS" /\ obs.dcalls[i].pclass = req.route /\ obs.dcalls[i].body = EmptyBody
        \/ obs.dcalls[i].method = "POST" /\ obs.dcalls[i].pclass = "extract" /\ obs.dcalls[i].body = EmptyBody
    /\ Cardinality({i \in DOMAIN obs.dcalls : obs.dcalls[i].method = "OPTIONS"}) = 1
    /\ Len(obs.dcalls) <= 2

\* (not compared when the client hung up early: how far the handler got before noticing is not determined)
ConformsAnswer(req, obs, e) ==
    /\ obs.err = e.err
    /\ obs.status = e.status
    /\ obs.ops = e.ops
    /\ Range(obs.ps) = e.ps
    /\ req.fault \in {NA, "pin"} => obs.pins = e.pins       \* (an entry may or may not precede a failing block put)
    /\ Range(obs.keys) = e.keys
    /\ obs.stat = e.stat
    /\ Shows(req) => Range(obs.gc) = e.gc /\ Len(obs.gc) = Cardinality(e.gc) /\ Range(obs.tkeys) = e.tkeys

ConformsHij(req, obs) ==
    LET e == Exp(req, Before(obs)) IN
    /\ obs.self
    /\ req.world # "seq" => Before(obs) = World(req.world)
    /\ req.hangup # NA \/ ConformsAnswer(req, obs, e)
    /\ AddSucceeds(req, Before(obs)) /\ req.hangup = NA => AddP(req) \in Range(obs.addp)
    /\ DCallsCoded(req, obs)

Conforms(req, obs) ==
    /\ ~obs.dropped
    /\ IF Hijacked(req) THEN ConformsHij(req, obs)
       ELSE IF Reachable(req) THEN Relayed(req, obs)
       ELSE RelayDown(req, obs) /\ obs.status = 502

(***************************************************************************)
(* The property statement                                                  *)
(***************************************************************************)
HijackPath(req) == req.pathk = "route"
MustHijack(req) == HijackPath(req) /\ req.method = "POST"      \* the IPFS API verb
MustRelay(req)  == ~HijackPath(req)

\* HijackExact: pinning endpoints are answered by the proxy, everything else by the daemon
\* (with the daemon unreachable nothing carries the daemon's mark; a relay then shows as RelayDown)
HijackExact(req, obs) ==
    IF Reachable(req) THEN (MustRelay(req) => ~obs.self) /\ (MustHijack(req) => obs.self)
    ELSE MustRelay(req) => RelayDown(req, obs)
\* the hijack predicates apply: the proxy answered itself
\* (daemon unreachable: always for the API verb, otherwise unless the answer is that of a failed relay)
ByProxy(req, obs) ==
    IF Reachable(req) THEN obs.self ELSE HijackPath(req) /\ (MustHijack(req) \/ ~RelayDown(req, obs))

\* NeverLeaks: the daemon never sees the call that the proxy replaces
NeverLeaks(req, obs) ==
    \A i \in DOMAIN obs.dcalls : obs.dcalls[i].method = "OPTIONS" \/ obs.dcalls[i].pclass # req.route

SuccMut(obs) == SelectSeq(obs.ops, LAMBDA o : o.m \in Mutating /\ o.ok)

\* ErrorMeansNoOp: an error answer => no cluster operation was performed
\* (status >= 400 or an X-Stream-Error trailer; for repo/gc the trailer reports per-key failures of a collection
\*  that was performed, which is the faithful answer and not an "error answer": there only the status counts)
AnsweredError(req, obs) == IF req.route = "repo/gc" THEN obs.status >= 400 ELSE obs.err
ErrorMeansNoOp(req, obs) == AnsweredError(req, obs) => (SuccMut(obs) = <<>> /\ Range(obs.ps) = Before(obs))

Unchanged(obs) == Range(obs.ps) = Before(obs) /\ SuccMut(obs) = <<>>
OthersKept(obs, ps, touched) == \A p \in Before(obs) : p.cid \notin touched => p \in ps

FaithfulPinAdd(req, obs) ==
    LET a == req.arg  ps == Range(obs.ps) IN
    IF Resolvable(a) THEN
        /\ ~obs.err
        /\ Cids(ps) = Cids(Before(obs)) \cup {Res(a)} /\ OthersKept(obs, ps, {Res(a)})
        /\ req.type \in {NA, "recursive"} => PinOf(ps, Res(a)).mode = "recursive"
        /\ req.type = "direct" => PinOf(ps, Res(a)).mode = "direct"
        /\ Len(SuccMut(obs)) = 1 /\ SuccMut(obs)[1].m = "Cluster.PinPath" /\ SuccMut(obs)[1].tgt = a
        /\ Shows(req) => obs.pins = <<Res(a)>>
    ELSE obs.err

FaithfulPinRm(req, obs) ==
    LET a == req.arg IN
    IF Resolvable(a) /\ Res(a) \in Cids(Before(obs)) THEN
        /\ ~obs.err
        /\ Range(obs.ps) = Del(Before(obs), Res(a))
        /\ Len(SuccMut(obs)) = 1 /\ SuccMut(obs)[1].m = "Cluster.UnpinPath" /\ SuccMut(obs)[1].tgt = a
    ELSE IF ~ParseOK(a) THEN obs.err
    ELSE Unchanged(obs)

FaithfulPinLs(req, obs) ==
    LET a == req.arg
        truth == IF a = "none" THEN Cids(Before(obs))
                 ELSE IF Resolvable(a) /\ Res(a) \in Cids(Before(obs)) THEN {Res(a)} ELSE {} IN
    /\ Unchanged(obs)
    /\ ~obs.err /\ Shows(req) => Range(obs.keys) = truth
    /\ a = "none" \/ (BareCid(a) /\ a \in Cids(Before(obs))) => ~obs.err

FaithfulPinUpdate(req, obs) ==
    LET f == req.arg  t == req.arg2  ps == Range(obs.ps)
        valid == Resolvable(f) /\ Resolvable(t) /\ Res(f) \in Cids(Before(obs)) IN
    IF valid /\ Res(f) = Res(t) THEN TRUE     \* updating a pin to itself: the statement does not say
    ELSE IF valid THEN
        /\ ~obs.err
        /\ Res(t) \in Cids(ps)
        /\ req.unpin # "false" => Res(f) \notin Cids(ps)
        /\ req.unpin = "false" => PinOf(Before(obs), Res(f)) \in ps
        /\ OthersKept(obs, ps, {Res(f), Res(t)})
        /\ Cids(ps) \subseteq Cids(Before(obs)) \cup {Res(t)}
        /\ \E i \in DOMAIN obs.ops : LET o == obs.ops[i] IN
              o.m = "Cluster.PinPath" /\ o.ok /\ o.tgt = t /\ o.upd = Res(f)
    ELSE obs.err

\* options whose meaning the statement fixes (ipfs add semantics)
AddOptionsValid(req) == req.layout # "bogus" /\ req.cidv # "x" /\ req.repl # "x" /\ req.chunker # "bogus"
ReqParamsOK(req, p) ==
    /\ (req.layout = "trickle" \/ req.trickle = "true") /\ req.layout # "balanced" => p.layout = "trickle"
    /\ req.layout \in {NA, "balanced"} /\ req.trickle = NA => p.layout = "balanced"
    /\ p.chunker = (IF req.chunker = NA THEN "default" ELSE req.chunker)
    /\ p.cidv = (IF req.cidv = "1" THEN "1" ELSE "0")
    /\ req.raw # NA => p.raw = req.raw
    /\ req.raw = NA => p.raw = (IF req.cidv = "1" THEN "true" ELSE "false")

PinnedRoot(obs) == \E i \in DOMAIN obs.ops : obs.ops[i].m = "Cluster.Pin" /\ obs.ops[i].ok /\ obs.ops[i].tgt = "root"
EffUnpins(obs)  == SelectSeq(obs.ops, LAMBDA o : o.m = "Cluster.Unpin" /\ o.ok /\ o.tgt = "root")
\* the pinset the options ask for once the root has been pinned
AddOutcome(req, obs) ==
    IF req.pin = "false"      \* not pinned afterwards (a pin of the same root from before may be gone too)
    THEN Del(Range(obs.ps), "root") = Del(Before(obs), "root") /\ "root" \notin Cids(Range(obs.ps))
    ELSE Range(obs.ps) = Put(Before(obs), PinRec("root", "recursive", req.name, req.repl))
AddDone(req, obs) ==
    /\ ~obs.err
    /\ obs.nblocks > 0
    /\ Shows(req) => obs.pins = <<"root">> /\ \E i \in DOMAIN obs.addp : ReqParamsOK(req, obs.addp[i])
    /\ AddOutcome(req, obs)

FaithfulAdd(req, obs) ==
    IF req.onlyhash = "true" THEN Unchanged(obs)          \* nothing may be stored as pinned
    ELSE IF req.body # "mp" THEN obs.err
    ELSE IF ~AddOptionsValid(req) THEN TRUE               \* (ErrorMeansNoOp still applies)
    ELSE IF req.hangup # NA THEN
        \* The client went away early.  The observation is taken once the handler is quiet (the driver waits
        \* >= 3 s for the unpin).  Whatever the proxy pinned for this request must still end up as the options
        \* ask, whenever the client disconnects: pin=false => exactly one effective Unpin(root).
        IF PinnedRoot(obs)
        THEN AddOutcome(req, obs) /\ Len(EffUnpins(obs)) = (IF req.pin = "false" THEN 1 ELSE 0)
        ELSE Unchanged(obs)
    ELSE IF req.fault # NA THEN obs.err \/ AddDone(req, obs)   \* (ErrorMeansNoOp says the rest)
    ELSE AddDone(req, obs)

\* the numbers are the sum over ALL peers' daemons.  When a peer's daemon fails the statement does not say how
\* that shows: an error answer or the sum over the healthy peers are both accepted (the code logs and skips).
FaithfulRepoStat(req, obs) ==
    /\ Unchanged(obs)
    /\ IF req.cluster = "real3"
       THEN IF req.peerfail = NA THEN ~obs.err /\ (Shows(req) => obs.stat = RealTotal({}))
            ELSE obs.err \/ (Shows(req) => obs.stat = RealTotal(FailSet(req)))
       ELSE ~obs.err /\ (Shows(req) => obs.stat = StatTotal)
\* the answer is the cluster's result, key by key: every collected key exactly once, an entry carries its own
\* key's error or none (never another key's), every failure is reported (in its entry or in the trailer), and no
\* failure is reported for a key that was collected fine
FaithfulRepoGC(req, obs) ==
    LET E == GCErrSet(req.gcerr) IN
    /\ obs.status < 400 /\ Range(obs.ps) = Before(obs)
    /\ Len(SuccMut(obs)) = 1 /\ SuccMut(obs)[1].m = "Cluster.RepoGC"
    /\ Shows(req) =>
        /\ Range(obs.keys) = GCKeys /\ Len(obs.gc) = Cardinality(GCKeys)
        /\ \A i \in DOMAIN obs.gc : LET en == obs.gc[i] IN
              en.error = NA \/ (en.key \in E /\ en.error = GCErrOf(en.key))
        /\ \A g \in E : g \in Range(obs.tkeys) \/ \E i \in DOMAIN obs.gc : obs.gc[i].key = g /\ obs.gc[i].error # NA
        /\ Range(obs.tkeys) \subseteq E

Faithful(req, obs) ==
    CASE req.route = "pin/add"    -> FaithfulPinAdd(req, obs)
      [] req.route = "pin/rm"     -> FaithfulPinRm(req, obs)
      [] req.route = "pin/ls"     -> FaithfulPinLs(req, obs)
      [] req.route = "pin/update" -> FaithfulPinUpdate(req, obs)
      [] req.route = "add"        -> FaithfulAdd(req, obs)
      [] req.route = "repo/stat"  -> FaithfulRepoStat(req, obs)
      [] req.route = "repo/gc"    -> FaithfulRepoGC(req, obs)

\* verdict classes (disjoint reasons; Good = none of them)
\* AnswersAlways: every request gets an HTTP answer (the connection is never just dropped), whatever the daemon does
BadDrop(req, obs)     == obs.dropped
BadExact(req, obs)    == ~obs.dropped /\ ~HijackExact(req, obs)
BadRelay(req, obs)    == ~obs.dropped /\ Reachable(req) /\ ~obs.self /\ ~Relayed(req, obs)
BadLeak(req, obs)     == ~obs.dropped /\ ByProxy(req, obs) /\ HijackPath(req) /\ ~NeverLeaks(req, obs)
BadErrNoOp(req, obs)  == ~obs.dropped /\ ByProxy(req, obs) /\ HijackPath(req) /\ ~ErrorMeansNoOp(req, obs)
BadFaithful(req, obs) == ~obs.dropped /\ ByProxy(req, obs) /\ HijackPath(req) /\ ~Faithful(req, obs)

Good(req, obs) ==
    ~(BadDrop(req, obs) \/ BadExact(req, obs) \/ BadRelay(req, obs) \/ BadLeak(req, obs) \/ BadErrNoOp(req, obs) \/ BadFaithful(req, obs))
=============================================================================
