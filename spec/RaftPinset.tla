----------------------------- MODULE RaftPinset -----------------------------
(***************************************************************************)
(* C01 - Raft: every replica's pinset equals the committed pin/unpin       *)
(* sequence.                                                               *)
(*                                                                         *)
(* hashicorp/raft is a dependency and is abstracted to its contract: one   *)
(* growing sequence `log` of committed entries that every live peer        *)
(* applies in order, local snapshots, snapshot installation on a peer that *)
(* lags behind the snapshot, restart = restore own snapshot then replay.   *)
(* What is transcribed from ipfs-cluster is the state machine raft drives: *)
(*   ApplyNext       = libp2p-raft FSM.Apply -> raft.LogOp.ApplyTo         *)
(*                     (state.Add / state.Rm, then async Track / Untrack)  *)
(*   TakeSnapshot    = FSM.Snapshot + Persist (dsstate.Marshal)            *)
(*   InstallSnapshot = FSM.Restore (dsstate.Unmarshal) on a live replica   *)
(*   Shutdown        = raftWrapper.Shutdown (snapshotOnShutdown)           *)
(*   Kill            = process death (no snapshot)                         *)
(*   Restart         = NewConsensus on the same data folder, in-memory     *)
(*                     pinset store: Restore(own snapshot), replay         *)
(* Restore is parameterised: "merge" = Put every snapshot entry, delete    *)
(* nothing (dsstate.Unmarshal at the pinned commit); "replace" = what the  *)
(* libp2p-raft Marshable contract requires.                                *)
(*                                                                         *)
(* The property predicates (PrefixInv, CaughtUp, SnapFaithful, AckDurable, *)
(* TrackerFaithful, Monotonic) are written against ApplyPrefix, i.e.       *)
(* independently of the transcription of Restore.                          *)
(***************************************************************************)
EXTENDS RaftPinsetOps

CONSTANTS MaxLog, MaxSnaps, MaxDowns, MaxInstalls,
          MaxFaults     \* how many applies may fail (datastore write error under dsstate)

VARIABLES log,      \* committed entries (Seq(Ops))
          up,       \* [Peers -> BOOLEAN]
          applied,  \* [Peers -> 0..MaxLog] index of the last entry applied to fsm
          fsm,      \* [Peers -> Pinsets] content of the peer's pinset store
          inited,   \* [Peers -> BOOLEAN] libp2p-raft FSM.initialized
          snap,     \* [Peers -> [idx, data]] latest local snapshot on disk
          acked,    \* set of log indices acknowledged to a caller
          broken,   \* [Peers -> BOOLEAN] libp2p-raft FSM.inconsistent: an apply failed, State() serves an error
          cnt,      \* bounds: [snaps, downs, installs, faults]
          last      \* the action just taken, with the tracker call it produced

vars == <<log, up, applied, fsm, inited, snap, acked, broken, cnt, last>>

ApplyPrefix(n) == ApplyPrefixOf(log, n)

Act(a, p, q, i, call) == [a |-> a, p |-> p, q |-> q, i |-> i, call |-> call]

-----------------------------------------------------------------------------
Init ==
    /\ log = <<>>
    /\ up = [p \in Peers |-> TRUE]
    /\ applied = [p \in Peers |-> 0]
    /\ fsm = [p \in Peers |-> EmptyPs]
    /\ inited = [p \in Peers |-> FALSE]
    /\ snap = [p \in Peers |-> NoSnap]
    /\ acked = {}
    /\ broken = [p \in Peers |-> FALSE]
    /\ cnt = [snaps |-> 0, downs |-> 0, installs |-> 0, faults |-> 0]
    /\ last = Act("init", NONE, NONE, 0, NoCall)

Quorum == 2 * Cardinality({p \in Peers : up[p]}) > NPEERS

(* consensus.commit -> CommitOp on the leader: the entry is committed.     *)
Commit(op) ==
    /\ Len(log) < MaxLog
    /\ Quorum
    /\ log' = Append(log, op)
    /\ last' = Act("commit", NONE, NONE, Len(log) + 1, NoCall)
    /\ UNCHANGED <<up, applied, fsm, inited, snap, acked, broken, cnt>>

(* LogPin/LogUnpin returns nil: the leader's ApplyFuture has completed, so  *)
(* some live peer (the leader) has applied entry i.                        *)
Ack(i) ==
    /\ i \in 1..Len(log) /\ i \notin acked
    /\ \E p \in Peers : up[p] /\ applied[p] >= i
    /\ acked' = acked \cup {i}
    /\ last' = Act("ack", NONE, NONE, i, NoCall)
    /\ UNCHANGED <<log, up, applied, fsm, inited, snap, broken, cnt>>

ApplyNext(p) ==
    /\ up[p] /\ applied[p] < Len(log)
    /\ LET i   == applied[p] + 1
           new == ApplyOp(fsm[p], log[i])
       IN /\ fsm' = [fsm EXCEPT ![p] = new]
          /\ applied' = [applied EXCEPT ![p] = i]
          /\ last' = Act("apply", p, NONE, i, CallFor(log[i], new))
    /\ inited' = [inited EXCEPT ![p] = TRUE]
    /\ UNCHANGED <<log, up, snap, acked, broken, cnt>>

(* LogOp.ApplyTo fails (state.Add / state.Rm returns an error: ROLLBACK      *)
(* path): nothing is written, nothing is handed to the tracker, FSM.Apply    *)
(* marks the state inconsistent; raft goes on with the next entries, which   *)
(* are applied to the store, but the state is no longer SERVED (getState     *)
(* returns an error) until a snapshot is restored or the peer restarts.      *)
ApplyFails(p) ==
    /\ up[p] /\ applied[p] < Len(log)
    /\ cnt.faults < MaxFaults
    /\ applied' = [applied EXCEPT ![p] = @ + 1]
    /\ broken' = [broken EXCEPT ![p] = TRUE]
    /\ cnt' = [cnt EXCEPT !.faults = @ + 1]
    /\ last' = Act("applyfail", p, NONE, applied[p] + 1, NoCall)
    /\ UNCHANGED <<log, up, fsm, inited, snap, acked>>

TakeSnapshot(p) ==
    /\ up[p] /\ inited[p] /\ ~broken[p] /\ applied[p] > snap[p].idx
    /\ cnt.snaps < MaxSnaps
    /\ snap' = [snap EXCEPT ![p] = [idx |-> applied[p], data |-> fsm[p]]]
    /\ cnt' = [cnt EXCEPT !.snaps = @ + 1]
    /\ last' = Act("snapshot", p, NONE, applied[p], NoCall)
    /\ UNCHANGED <<log, up, applied, fsm, inited, acked, broken>>

(* The leader q has compacted its log past p's position and ships its      *)
(* snapshot; raft stores it locally at p and calls FSM.Restore on the live *)
(* (possibly non-empty) replica.                                           *)
InstallSnapshot(p, q) ==
    /\ p # q /\ up[p] /\ up[q]
    /\ snap[q].idx > applied[p]
    /\ cnt.installs < MaxInstalls
    /\ fsm' = [fsm EXCEPT ![p] = Restore(fsm[p], snap[q].data)]
    /\ applied' = [applied EXCEPT ![p] = snap[q].idx]
    /\ inited' = [inited EXCEPT ![p] = TRUE]
    /\ snap' = [snap EXCEPT ![p] = snap[q]]
    /\ cnt' = [cnt EXCEPT !.installs = @ + 1]
    /\ last' = Act("install", p, q, snap[q].idx, NoCall)
    /\ broken' = [broken EXCEPT ![p] = FALSE]         \* FSM.Restore: inconsistent = false
    /\ UNCHANGED <<log, up, acked>>

Down(p, graceful) ==
    /\ up[p]
    /\ cnt.downs < MaxDowns
    /\ up' = [up EXCEPT ![p] = FALSE]
    /\ snap' = IF graceful /\ inited[p] /\ ~broken[p] /\ applied[p] > snap[p].idx
               THEN [snap EXCEPT ![p] = [idx |-> applied[p], data |-> fsm[p]]]
               ELSE snap
    /\ fsm' = [fsm EXCEPT ![p] = EmptyPs]       \* in-memory pinset store
    /\ applied' = [applied EXCEPT ![p] = 0]
    /\ inited' = [inited EXCEPT ![p] = FALSE]
    /\ cnt' = [cnt EXCEPT !.downs = @ + 1]
    /\ last' = Act(IF graceful THEN "shutdown" ELSE "kill", p, NONE, applied[p], NoCall)
    /\ broken' = [broken EXCEPT ![p] = FALSE]
    /\ UNCHANGED <<log, acked>>

Shutdown(p) == Down(p, TRUE)
Kill(p)     == Down(p, FALSE)

Restart(p) ==
    /\ ~up[p]
    /\ up' = [up EXCEPT ![p] = TRUE]
    /\ IF snap[p].idx > 0
       THEN /\ fsm' = [fsm EXCEPT ![p] = Restore(fsm[p], snap[p].data)]
            /\ applied' = [applied EXCEPT ![p] = snap[p].idx]
            /\ inited' = [inited EXCEPT ![p] = TRUE]
       ELSE UNCHANGED <<fsm, applied, inited>>
    /\ last' = Act("restart", p, NONE, snap[p].idx, NoCall)
    /\ UNCHANGED <<log, snap, acked, broken, cnt>>

Next ==
    \/ \E op \in Ops : Commit(op)
    \/ \E i \in 1..MaxLog : Ack(i)
    \/ \E p \in Peers : ApplyNext(p) \/ ApplyFails(p) \/ TakeSnapshot(p) \/ Shutdown(p) \/ Kill(p) \/ Restart(p)
    \/ \E p, q \in Peers : InstallSnapshot(p, q)

Spec == Init /\ [][Next]_vars

-----------------------------------------------------------------------------
(* Property predicates (the statement of C01).                             *)

(* raft.OfflineState: the latest snapshot loaded into a fresh store.       *)
Offline(p) == Restore(EmptyPs, snap[p].data)

TypeOK ==
    /\ log \in Seq(Ops) /\ Len(log) <= MaxLog
    /\ up \in [Peers -> BOOLEAN] /\ inited \in [Peers -> BOOLEAN]
    /\ applied \in [Peers -> 0..MaxLog]
    /\ fsm \in [Peers -> Pinsets]
    /\ \A p \in Peers : snap[p].idx \in 0..MaxLog /\ snap[p].data \in Pinsets
    /\ acked \subseteq 1..MaxLog
    /\ broken \in [Peers -> BOOLEAN]

(* every live replica holds the result of a prefix of the committed sequence *)
(* what Consensus.State() serves: an error once an apply failed, else the store *)
(* (an FSM that never applied anything successfully is "not initialised": the empty pinset is served) *)
Served(p) == IF ~inited[p] THEN EmptyPs ELSE IF broken[p] THEN "error" ELSE fsm[p]
PrefixInv == \A p \in Peers : up[p] => broken[p] \/ fsm[p] = ApplyPrefix(applied[p])   \* Served(p) is an error or a prefix result

(* a caught-up replica holds the result of the whole sequence *)
CaughtUp == \A p \in Peers : up[p] /\ applied[p] = Len(log) => broken[p] \/ fsm[p] = ApplyPrefix(Len(log))

(* snapshots (hence restarts from disk and OfflineState) are prefix results too *)
SnapFaithful == \A p \in Peers : Offline(p) = ApplyPrefix(snap[p].idx)

(* an acknowledged operation is part of the sequence, it has been applied   *)
(* by a peer when acknowledged, and no restart makes a replica skip it      *)
AckDurable ==
    /\ \A i \in acked : i <= Len(log)
    /\ last.a = "ack" => \E p \in Peers : up[p] /\ applied[p] >= last.i
                                          /\ (broken[p] \/ fsm[p] = ApplyPrefix(applied[p]))

(* the tracker is handed what was stored *)
TrackerFaithful ==
    last.a = "apply" =>
        LET op == log[last.i] IN
        /\ last.call.cid = op.cid
        /\ op.k = "pin" => last.call.k = "track" /\ last.call.v = ApplyPrefix(last.i)[op.cid]
        /\ op.k = "unpin" => last.call.k = "untrack"

(* a live replica never moves backwards *)
Monotonic == [][\A p \in Peers : (up[p] /\ up'[p]) => applied'[p] >= applied[p]]_vars

=============================================================================
