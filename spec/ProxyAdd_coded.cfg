SPECIFICATION Spec
CONSTANT UnpinCtx = "proxy"
CONSTANT UnpinAfterPinError = FALSE
INVARIANT PinFalseHonoured
INVARIANT PinTrueHonoured
INVARIANT ErrorMeansNoOp
