SPECIFICATION LifeSpec
CONSTANTS
  MaxAlerts = 2
  NWrites = 0
  NReads = 0
  SizedOutsideLock = FALSE
  ShutdownInline = TRUE
  ClientGuarded = TRUE
  Part = "lifecycle"
INVARIANTS NoSelfWait
PROPERTIES EventuallyStopped
