SPECIFICATION LiveSpec
CONSTANTS
  CIDS = {"c1"}
  K = 1
  Q = 1
  MaxInstr = 3
  MaxFail = 1
  GatedFinish = FALSE
  Eager = FALSE
  RecoverUsesStatePin = TRUE
  StatusAllListsDirect = TRUE
  DirOverRecStuck = TRUE
PROPERTIES EventuallyQuiet
