---------------------------- MODULE ConfigSave ----------------------------
(***************************************************************************)
(* C15, "saves losslessly" under concurrency: config.Manager.SaveJSON.     *)
(*                                                                         *)
(* Savers (the API, the per-component watchSave goroutines) call SaveJSON  *)
(* while settings change.  Transcription of SaveJSON:                      *)
(*     lock saveMux ; bytes := ToJSON() ; WriteFile(bytes) ; unlock        *)
(* The constant SerialiseInLock says whether ToJSON() runs inside the      *)
(* critical section (as coded: TRUE).  With FALSE TLC finds the lost       *)
(* update: an older in-flight save overwrites a newer one.                 *)
(*                                                                         *)
(* Property (NoLostUpdate), written from the statement and not from the    *)
(* code: once every save has returned, if some save STARTED after the last *)
(* change of the configuration, the file holds the current configuration.  *)
(*                                                                         *)
(* hist records the events a driver can force or observe on the real       *)
(* Manager (start of a save, its snapshot taken, a change, its return); a  *)
(* TLC counterexample of the FALSE variant is replayed on the real code    *)
(* through a gate in a harness component's ToJSON.                         *)
(***************************************************************************)
EXTENDS Config

CONSTANTS Savers, MaxChanges, SerialiseInLock

VARIABLES mem,       \* version of the configuration in memory
          file,      \* version on disk (-1: nothing written)
          pc, snap, startver, lock, hist
vars == <<mem, file, pc, snap, startver, lock, hist>>

Init == /\ mem = 0 /\ file = -1 /\ lock = "free" /\ hist = <<>>
        /\ pc = [s \in Savers |-> "idle"]
        /\ snap = [s \in Savers |-> -1]
        /\ startver = [s \in Savers |-> -1]

Change == /\ mem < MaxChanges
          /\ mem' = mem + 1
          /\ hist' = Append(hist, <<"change", "">>)
          /\ UNCHANGED <<file, pc, snap, startver, lock>>

Start(s) == /\ pc[s] = "idle"
            /\ pc' = [pc EXCEPT ![s] = IF SerialiseInLock THEN "lock" ELSE "ser"]
            /\ startver' = [startver EXCEPT ![s] = mem]
            /\ hist' = Append(hist, <<"start", s>>)
            /\ UNCHANGED <<mem, file, snap, lock>>

Lock(s) == /\ pc[s] = "lock" /\ lock = "free"
           /\ lock' = s
           /\ pc' = [pc EXCEPT ![s] = IF SerialiseInLock THEN "ser" ELSE "write"]
           /\ UNCHANGED <<mem, file, snap, startver, hist>>

Serialise(s) == /\ pc[s] = "ser"
                /\ SerialiseInLock => lock = s
                /\ snap' = [snap EXCEPT ![s] = mem]
                /\ pc' = [pc EXCEPT ![s] = IF SerialiseInLock THEN "write" ELSE "lock"]
                /\ hist' = Append(hist, <<"snap", s>>)
                /\ UNCHANGED <<mem, file, startver, lock>>

Write(s) == /\ pc[s] = "write" /\ lock = s
            /\ file' = snap[s]
            /\ pc' = [pc EXCEPT ![s] = "unlock"]
            /\ UNCHANGED <<mem, snap, startver, lock, hist>>

Unlock(s) == /\ pc[s] = "unlock" /\ lock = s
             /\ lock' = "free"
             /\ pc' = [pc EXCEPT ![s] = "done"]
             /\ hist' = Append(hist, <<"return", s>>)
             /\ UNCHANGED <<mem, file, snap, startver>>

Next == Change \/ \E s \in Savers : Start(s) \/ Lock(s) \/ Serialise(s) \/ Write(s) \/ Unlock(s)
Spec == Init /\ [][Next]_vars

\* the state as the fact a driver records; the property is Config!SaveOutcomeOK, the predicate ConfigTrace
\* evaluates on outcomes observed on the real Manager
AsFact == [mem |-> mem, file |-> file,
           savers |-> [s \in Savers |-> [startver |-> startver[s], returned |-> pc[s] = "done"]]]
NoLostUpdate == SaveOutcomeOK(AsFact)
MutualExclusion == Cardinality({s \in Savers : pc[s] \in {"write", "unlock"}}) <= 1

=============================================================================
