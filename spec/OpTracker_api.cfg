\* exhaustive, quick: any client of the optracker package (every exported method, any argument)
CONSTANTS CIDS = {"c1"} MaxOps = 2 K0 = 1 Q0 = 1 Level0 = "api" Strict = TRUE Lag = FALSE
INIT Init
NEXT ApiNext
INVARIANTS TypeOK TableCid ReplacedIsCancelled CleanOnlyOwn
