SPECIFICATION Spec
CONSTANTS
  NAMES = {"n1"}
  PEERS = {"p1", "p2"}
  Thr = 1
  CheckMode = "once"
  ForgetMode = "name"
  RenewMode = "restart"
  W = 2
  AccN = 6
  MaxArr = 2
  MaxT = 1
  REPS = {1}
  Garbage = TRUE
  Staged = FALSE
  PsFree = FALSE
  InitSets = {{"p1", "p2"}}
VIEW View
INVARIANTS InvAtMostOne InvIsLatest InvValidUnexpiredMember InvNoFalseAlarm InvAlertOnce InvReported InvForgotten InvUsed InvObserverSane
