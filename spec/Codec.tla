------------------------------ MODULE Codec ------------------------------
(***************************************************************************)
(* C08 - records survive every encoding boundary.                          *)
(*                                                                         *)
(* Encoders and decoders are byte-level programs; the bytes never appear   *)
(* here.  What the specification contributes is                            *)
(*   (i)   the abstract VALUE SPACE of every record exchanged between      *)
(*         peers and clients (one small domain per field, Dom(rec)),       *)
(*   (ii)  per format the value the statement promises to get back:        *)
(*         Proj(rec, fmt, v) - the identity except for the documented      *)
(*         lossy fields,                                                   *)
(*   (iii) what "equal" means (Norm: nil = empty, peer lists as sets,      *)
(*         time.Time{} = Unix(0,0) = "never expires"),                     *)
(*   (iv)  the enumeration of cases (pairwise / three-wise complete over   *)
(*         several base values) - TLC is the enumerator, and               *)
(*   (v)   the verdict: BadFields(r) for a record r = (rec, fmt, v, got)   *)
(*         observed on the real encoder/decoder pair (CodecTrace).         *)
(*                                                                         *)
(* All field values are strings or sequences of strings so that they       *)
(* travel through JSON unchanged.  The Go driver owns the concretisation   *)
(* (class -> seeded concrete value) and the abstraction back; it has no    *)
(* notion of "expected".                                                   *)
(***************************************************************************)
EXTENDS Integers, Sequences, FiniteSets, TLC

Range(s) == {s[i] : i \in DOMAIN s}

(***************************************************************************)
(* Formats.                                                                *)
(*   pb      : api.Pin.ProtoMarshal/ProtoUnmarshal through state/dsstate   *)
(*             (Add, Get) and a dsstate snapshot Marshal/Unmarshal         *)
(*   msgpack : ugorji MsgpackHandle{} as go-libp2p-gorpc configures it     *)
(*   raftlog : consensus/raft LogOp, encoded/decoded as go-libp2p-raft     *)
(*             does (decode with ErrorIfNoField)                           *)
(*   pubsub  : monitor/pubsubmon msgpack handle (metrics only)             *)
(*   json    : encoding/json (REST API)                                    *)
(*   export  : state export/import = pb ; json ; pb                        *)
(*   query   : PinOptions.ToQuery / FromQuery                              *)
(***************************************************************************)
PinFormats == {"pb", "msgpack", "raftlog", "json", "export", "query"}
RpcFormats == {"msgpack", "json"}

(***************************************************************************)
(* Value spaces.                                                           *)
(***************************************************************************)
Statuses == {"undefined", "cluster_error", "pin_error", "unpin_error", "pinned", "pinning", "unpinning",
             "unpinned", "remote", "pin_queued", "unpin_queued", "sharded", "unexpectedly_unpinned"}
Names    == {"", "ascii", "unicode"}
Times    == {"zero", "whole", "subsec"}
PeerSeqs == {<<>>, <<"p1">>, <<"p1", "p2">>, <<"p2", "p1">>}
AddrSeqs == {<<>>, <<"a1">>, <<"a1", "a2">>, <<"a2", "a1">>}

PinDom == [
    cid     |-> {"v0", "v1"},
    type    |-> {"data", "meta", "clusterdag", "shard"},
    depth   |-> {"-1", "0", "1", "2"},
    mode    |-> {"recursive", "direct"},
    rmin    |-> {"0", "-1", "1", "2"},
    rmax    |-> {"0", "-1", "1", "3", "2147483647"},
    name    |-> Names,
    shard   |-> {"0", "typ", "max"},
    allocs  |-> PeerSeqs,
    ualloc  |-> PeerSeqs,
    expire  |-> {"zero", "unix0", "whole", "subsec"},
    \* ex: {"": x}  ae: {a: ""}  two: {a: x, b: y};  mk-*: keys that interfere with the "meta-" prefix of the query
    \* form or with escaping: inner {"x-meta-y"}, start {"meta-meta-a"}, word {"meta"}, dash {"meta-"},
    \* collide {"meta-a", "a"} (equal once a prefix is stripped twice), long (2000 characters),
    \* special {"%+ =&;#?/ unicode"}
    meta    |-> {"none", "empty", "ax", "ex", "ae", "two", "mk-inner", "mk-start", "mk-word", "mk-dash", "mk-collide",
                 "mk-long", "mk-special"},
    update  |-> {"none", "v0", "v1"},
    origins |-> {<<>>, <<"o1">>, <<"o1", "o2">>, <<"o2", "o1">>},
    ref     |-> {"nil", "v0", "v1"} ]

PinInfoDom == [
    cid |-> {"v0", "v1"}, name |-> Names, peer |-> {"p1", "p2"}, peername |-> Names,
    status |-> Statuses, ts |-> Times, error |-> Names ]

\* GlobalPinInfo: the peer map holds one PinInfoShort per peer of pm, all of the same classes
GlobalPinInfoDom == [
    cid |-> {"v0", "v1"}, name |-> Names, pm |-> PeerSeqs, peername |-> Names,
    status |-> Statuses, ts |-> Times, error |-> Names ]

IDDom == [
    id |-> {"p1", "p2"}, addrs |-> AddrSeqs, cpeers |-> PeerSeqs, cpaddrs |-> AddrSeqs,
    version |-> Names, commit |-> Names, rpcproto |-> {"", "ascii"}, error |-> Names,
    ipfs |-> {"nil", "up", "up-noaddrs", "down"},          \* down: no ID, an error message
    peername |-> Names ]

MetricDom == [
    name |-> Names, peer |-> {"p1", "p2"}, value |-> {"", "ascii", "unicode", "number"},
    expire |-> {"0", "typ", "max", "neg"}, valid |-> {"true", "false"}, received |-> {"0", "typ", "max"} ]

AlertDom == [
    name |-> Names, peer |-> {"p1", "p2"}, value |-> {"", "ascii", "unicode", "number"},
    expire |-> {"0", "typ", "max", "neg"}, valid |-> {"true", "false"}, received |-> {"0", "typ", "max"},
    trig |-> Times ]

AddedOutputDom == [
    name |-> Names, cid |-> {"v0", "v1"}, bytes |-> {"0", "typ", "max"}, size |-> {"0", "typ", "max"} ]

\* RepoGC keys: k = a collected CID, e = an error entry without CID
RepoGCDom == [
    peer |-> {"p1", "p2"}, peername |-> Names,
    keys |-> {<<>>, <<"k0">>, <<"k1">>, <<"k0", "k1">>, <<"e">>, <<"k0", "e">>},
    error |-> Names ]

Recs == {"Pin", "PinInfo", "GlobalPinInfo", "ID", "Metric", "Alert", "AddedOutput", "RepoGC"}

Dom(rec) ==
    CASE rec = "Pin" -> PinDom
      [] rec = "PinInfo" -> PinInfoDom
      [] rec = "GlobalPinInfo" -> GlobalPinInfoDom
      [] rec = "ID" -> IDDom
      [] rec = "Metric" -> MetricDom
      [] rec = "Alert" -> AlertDom
      [] rec = "AddedOutput" -> AddedOutputDom
      [] rec = "RepoGC" -> RepoGCDom

Formats(rec) ==
    CASE rec = "Pin" -> PinFormats
      [] rec = "Metric" -> RpcFormats \cup {"pubsub"}
      [] OTHER -> RpcFormats

(***************************************************************************)
(* Base values around which cases are built.  Bases never carry origins    *)
(* (a decoder that fails on a field would hide every other field).         *)
(***************************************************************************)
PinBases == {
    [cid |-> "v0", type |-> "data", depth |-> "-1", mode |-> "recursive", rmin |-> "0", rmax |-> "0", name |-> "",
     shard |-> "0", allocs |-> <<>>, ualloc |-> <<>>, expire |-> "zero", meta |-> "none", update |-> "none",
     origins |-> <<>>, ref |-> "nil"],
    [cid |-> "v1", type |-> "shard", depth |-> "1", mode |-> "recursive", rmin |-> "1", rmax |-> "3", name |-> "unicode",
     shard |-> "typ", allocs |-> <<"p1", "p2">>, ualloc |-> <<"p1">>, expire |-> "subsec", meta |-> "two", update |-> "v1",
     origins |-> <<>>, ref |-> "v0"],
    [cid |-> "v1", type |-> "data", depth |-> "0", mode |-> "direct", rmin |-> "-1", rmax |-> "-1", name |-> "ascii",
     shard |-> "max", allocs |-> <<"p2", "p1">>, ualloc |-> <<"p2", "p1">>, expire |-> "whole", meta |-> "ex", update |-> "v0",
     origins |-> <<>>, ref |-> "v1"] }

Bases(rec) ==
    CASE rec = "Pin" -> PinBases
      [] rec = "PinInfo" -> {
            [cid |-> "v0", name |-> "", peer |-> "p1", peername |-> "", status |-> "undefined", ts |-> "zero", error |-> ""],
            [cid |-> "v1", name |-> "unicode", peer |-> "p2", peername |-> "ascii", status |-> "pin_error", ts |-> "subsec",
             error |-> "unicode"]}
      [] rec = "GlobalPinInfo" -> {
            [cid |-> "v0", name |-> "", pm |-> <<>>, peername |-> "", status |-> "undefined", ts |-> "zero", error |-> ""],
            [cid |-> "v1", name |-> "unicode", pm |-> <<"p1", "p2">>, peername |-> "ascii", status |-> "pinned", ts |-> "subsec",
             error |-> "unicode"]}
      [] rec = "ID" -> {
            [id |-> "p1", addrs |-> <<>>, cpeers |-> <<>>, cpaddrs |-> <<>>, version |-> "", commit |-> "", rpcproto |-> "",
             error |-> "", ipfs |-> "nil", peername |-> ""],
            [id |-> "p2", addrs |-> <<"a1", "a2">>, cpeers |-> <<"p1", "p2">>, cpaddrs |-> <<"a2", "a1">>, version |-> "ascii",
             commit |-> "ascii", rpcproto |-> "ascii", error |-> "unicode", ipfs |-> "up", peername |-> "unicode"]}
      [] rec = "Metric" -> {
            [name |-> "", peer |-> "p1", value |-> "", expire |-> "0", valid |-> "false", received |-> "0"],
            [name |-> "ascii", peer |-> "p2", value |-> "number", expire |-> "typ", valid |-> "true", received |-> "typ"]}
      [] rec = "Alert" -> {
            [name |-> "", peer |-> "p1", value |-> "", expire |-> "0", valid |-> "false", received |-> "0", trig |-> "zero"],
            [name |-> "ascii", peer |-> "p2", value |-> "number", expire |-> "typ", valid |-> "true", received |-> "typ",
             trig |-> "subsec"]}
      [] rec = "AddedOutput" -> {
            [name |-> "", cid |-> "v0", bytes |-> "0", size |-> "0"],
            [name |-> "unicode", cid |-> "v1", bytes |-> "typ", size |-> "max"]}
      [] rec = "RepoGC" -> {
            [peer |-> "p1", peername |-> "", keys |-> <<>>, error |-> ""],
            [peer |-> "p2", peername |-> "unicode", keys |-> <<"k0", "k1">>, error |-> "ascii"]}

\* the minimal base of a record type (every field at its zero-most class)
MinBase(rec) == CHOOSE b \in Bases(rec) : IF "name" \in DOMAIN b THEN b.name = "" ELSE b.peername = ""

(***************************************************************************)
(* t-wise complete case sets over a base value b of domain D.              *)
(***************************************************************************)
Singles(D, b) == UNION {{[b EXCEPT ![f] = a] : a \in D[f]} : f \in DOMAIN D}
Pairs(D, b)   == UNION {Singles(D, c) : c \in Singles(D, b)}
Triples(D, b) == UNION {Singles(D, c) : c \in Pairs(D, b)}

Values(rec, t) ==
    UNION {(CASE t = 1 -> Singles(Dom(rec), b) [] t = 2 -> Pairs(Dom(rec), b) [] OTHER -> Triples(Dom(rec), b)) :
            b \in Bases(rec)}

\* every (record type, format, value) the check executes at strength t
Cases(rec, t) == {[rec |-> rec, fmt |-> fmt, v |-> v] : fmt \in Formats(rec), v \in Values(rec, t)}

(***************************************************************************)
(* The documented lossy projections (api/types.go):                        *)
(*  pb     "UserAllocations: transient, not protobuffed"; "ExpireAt" is    *)
(*         stored as whole Unix seconds and only when non-zero; "we do not *)
(*         store the PinMode option but we can derive it from MaxDepth".   *)
(*  query  is the form of the pin *options* only; ToQuery and FromQuery    *)
(*         both skip the empty metadata key.                               *)
(*  everything else comes back as it went in.                              *)
(***************************************************************************)
DepthToMode(d) == IF d = "0" THEN "direct" ELSE "recursive"
TruncSeconds(e) == CASE e = "subsec" -> "whole" [] e = "unix0" -> "zero" [] OTHER -> e
DropEmptyKey(m) == IF m = "ex" THEN "empty" ELSE m

PinProjPb(v) == [v EXCEPT !.ualloc = <<>>, !.expire = TruncSeconds(v.expire), !.mode = DepthToMode(v.depth)]

PinProj(fmt, v) ==
    CASE fmt \in {"pb", "export"} -> PinProjPb(v)
      [] fmt = "query" -> [v EXCEPT !.meta = DropEmptyKey(v.meta)]
      [] OTHER -> v

Proj(rec, fmt, v) == IF rec = "Pin" THEN PinProj(fmt, v) ELSE v

\* fields on which a format is judged (the query form carries only the options)
PinOptionFields == {"mode", "rmin", "rmax", "name", "shard", "ualloc", "expire", "meta", "update", "origins"}
\* (an empty peer map of a GlobalPinInfo has no entries whose fields could be observed)
CmpFields(rec, fmt, v) ==
    IF rec = "Pin" /\ fmt = "query" THEN PinOptionFields
    ELSE IF rec = "GlobalPinInfo" /\ v.pm = <<>> THEN {"cid", "name", "pm"}
    ELSE IF rec = "Metric" /\ fmt = "pubsub-live" THEN DOMAIN MetricDom \ {"received"}
    ELSE DOMAIN Dom(rec)

\* the fields a format may change at all (everything else is the identity)
Lossy(rec, fmt) ==
    IF rec # "Pin" THEN {}
    ELSE CASE fmt \in {"pb", "export"} -> {"ualloc", "expire", "mode"}
           [] fmt = "query" -> {"meta"}
           [] OTHER -> {}

(***************************************************************************)
(* Equality of abstract field values ("an equal value").                   *)
(***************************************************************************)
SetLike  == {"allocs", "ualloc", "origins", "addrs", "cpeers", "cpaddrs", "pm"}
TimeLike == {"expire"}

Norm(f, x) ==
    IF f \in SetLike THEN <<Range(x), Len(x)>>                     \* order is not part of the value
    ELSE IF f = "meta" THEN (IF x = "none" THEN "empty" ELSE x)     \* nil map = empty map
    ELSE IF f \in TimeLike THEN (IF x = "unix0" THEN "zero" ELSE x)  \* both mean "never" (Pin.ExpiredAt)
    ELSE x

SameField(f, x, y) == Norm(f, x) = Norm(f, y)

(***************************************************************************)
(* Verdict on one observation r = [rec, fmt, v, ok, got].                  *)
(* ok = FALSE: the encoder or decoder refused a well-formed value (or      *)
(* crashed) - never allowed.                                               *)
(***************************************************************************)
BadFields(r) ==
    IF ~r.ok THEN {"<error>"}
    ELSE LET e == Proj(r.rec, r.fmt, r.v) IN
         {f \in CmpFields(r.rec, r.fmt, r.v) : ~SameField(f, r.got[f], e[f])}

(***************************************************************************)
(* Several values through one encoder/decoder instance.                    *)
(* The boundaries never carry one value at a time: a state snapshot or an  *)
(* export holds the whole pinset, RPC and REST answers are lists.  A       *)
(* sequence case is  [rec, fmt, items, pre]:                               *)
(*   rec = "Pin", fmt = "snapshot-fresh"    items stored under distinct    *)
(*         CIDs (slot i), dsstate Marshal -> Unmarshal into a fresh        *)
(*         sync-wrapped MapDatastore (what consensus/raft restores into);  *)
(*         fmt = "snapshot-nonempty"  the target already holds pre[i]      *)
(*         under the CID of slot i (a stale pinset: every slot is          *)
(*         overwritten; what a merge leaves behind is C01/C14's business); *)
(*         fmt = "export"  List -> JSON lines -> Decode -> Add;            *)
(*         fmt = "export-real"  the cmdutils state manager of a Raft peer: *)
(*         ExportState of one peer's snapshot, ImportState into another    *)
(*         peer's (empty) data folder, offline read of the result;         *)
(*         fmt = "raftlog-fsm"  DECODE INTO A REUSED TARGET: the items are  *)
(*         committed one after the other as msgpack LogOps through the     *)
(*         real go-libp2p-raft FSM that consensus/raft builds, which       *)
(*         decodes every entry into the same LogOp object (ApplyTo has to  *)
(*         detach the pin); one FSM lives for the whole run, every case    *)
(*         ends by unpinning its items, so each decode happens on top of   *)
(*         whatever the previous entries left.  Judged: the pin stored in  *)
(*         the state (pb after msgpack = pb) and, as "raftlog-fsm-track",  *)
(*         the pin handed to the tracker (msgpack).  The decoded value     *)
(*         depends only on the bytes.                                      *)
(*   rec = "Metric", fmt = "pubsub-live"  THE BYTES IN FLIGHT: the items    *)
(*         are published back to back with the real pubsubmon.Monitor on   *)
(*         a real two-peer gossipsub; judged is what the remote monitor    *)
(*         and (as "pubsub-live-self") the publisher's own monitor hold    *)
(*         afterwards: every published metric arrives (generous deadline,  *)
(*         path re-probed before a loss counts) equal to what was          *)
(*         published, whatever is published next.  The receiving store     *)
(*         stamps the reception time, which is therefore not compared.     *)
(*   any rec, fmt = msgpack | json: the list []*rec as one RPC reply /     *)
(*         one REST body.                                                  *)
(* Observation: ok (the whole restore/decode succeeded), got[i] = [ok,     *)
(* got] for slot/index i (ok = FALSE: missing or undecodable), extra =     *)
(* number of restored values that belong to no slot.  Every item is judged *)
(* like a single value, against Proj of the item stored in ITS slot.       *)
(***************************************************************************)
StateFormats == {"snapshot-fresh", "snapshot-nonempty", "export", "export-real", "raftlog-fsm"}
ItemFmt(fmt) == CASE fmt \in {"snapshot-fresh", "snapshot-nonempty", "raftlog-fsm"} -> "pb" [] fmt = "export-real" -> "export"
                  [] fmt = "raftlog-fsm-track" -> "msgpack" [] fmt = "pubsub-live-self" -> "pubsub-live" [] OTHER -> fmt
SeqFormats(rec) == CASE rec = "Pin" -> StateFormats \cup RpcFormats
                     [] rec = "Metric" -> RpcFormats \cup {"pubsub-live"}
                     [] OTHER -> RpcFormats

\* the stale content of a non-empty target: slot i holds the value of the next slot
Stale(items) == [i \in 1..Len(items) |-> items[(i % Len(items)) + 1]]

\* values sequences are drawn from: single-field variations of every base; a decoder that refuses origins
\* outright (known) would hide everything else in a JSON stream, so origins only travel in snapshots
\* metrics that a live monitor publishes and keeps: valid and not expired
LiveMetrics == [name: MetricDom.name, peer: MetricDom.peer, value: MetricDom.value, expire: {"max"}, valid: {"true"},
                received: MetricDom.received]
SeqPool(rec, fmt) == IF rec = "Metric" /\ fmt = "pubsub-live" THEN LiveMetrics ELSE {v \in Values(rec, 1) : (rec = "Pin" /\ fmt \in {"export", "export-real", "raftlog-fsm", "msgpack", "json"}) => v.origins = <<>>}
\* all ordered pairs (equal values = equal encoded size; one-field variations = same or nearly same size;
\* different bases = different sizes) over the variations of the minimal base and all bases
PairPool(rec, fmt) == {v \in Singles(Dom(rec), MinBase(rec)) \cup Bases(rec) : v \in SeqPool(rec, fmt)}

\* the real export/import writes two Raft snapshots per case: pairs only over the values that differ from the
\* minimal base in what a stream decoder could carry over from one pin to the next
RealPool(rec) == {v \in PairPool(rec, "export-real") :
                    v \in Bases(rec) \/ \E f \in {"meta", "name", "expire", "update", "ref", "allocs"} : v[f] # MinBase(rec)[f]}
PairsFor(rec, fmt) == CASE fmt = "export-real" -> RealPool(rec) [] fmt = "pubsub-live" -> {} [] OTHER -> PairPool(rec, fmt)

SeqCase(rec, fmt, items) ==
    [rec |-> rec, fmt |-> fmt, items |-> items, pre |-> IF fmt = "snapshot-nonempty" THEN Stale(items) ELSE <<>>]

BadItems(r) ==
    IF ~r.ok THEN {[i |-> 0, fields |-> {"<error>"}]}
    ELSE (IF Len(r.got) # Len(r.items) THEN {[i |-> 0, fields |-> {"<count>"}]} ELSE {})
         \cup (IF r.extra # 0 THEN {[i |-> 0, fields |-> {"<extra>"}]} ELSE {})
         \cup {[i |-> i, fields |-> BadFields([rec |-> r.rec, fmt |-> ItemFmt(r.fmt), v |-> r.items[i],
                                               ok |-> r.got[i].ok, got |-> r.got[i].got])] :
                 i \in {j \in 1..(IF Len(r.got) < Len(r.items) THEN Len(r.got) ELSE Len(r.items)) :
                            BadFields([rec |-> r.rec, fmt |-> ItemFmt(r.fmt), v |-> r.items[j],
                                       ok |-> r.got[j].ok, got |-> r.got[j].got]) # {}}}

(***************************************************************************)
(* Decoder totality: the only outcomes allowed for arbitrary bytes.        *)
(***************************************************************************)
AllowedOutcomes == {"error", "value"}      \* value = decoded and re-encodable
BadOutcome(o) == o \notin AllowedOutcomes

\* the structural malformations every decoder has to be shown (the driver applies them to real encodings at
\* every offset / field); a run that exercises fewer classes is an infrastructure failure, not a pass
CorruptionClasses == {"truncate", "byte", "oversize-or-insert", "field-wrong-type", "invalid-cid-peer-multiaddr-utf8",
                      "enum-out-of-range", "non-utf8", "deep-nesting", "random-bytes", "random-mutation"}

(***************************************************************************)
(* Laws of the projection itself (checked exhaustively by CodecMC).        *)
(***************************************************************************)
ProjInDomain(rec, fmt, v)    == \A f \in DOMAIN Dom(rec) : Proj(rec, fmt, v)[f] \in Dom(rec)[f]
ProjIdempotent(rec, fmt, v)  == LET p == Proj(rec, fmt, v) IN
                                 \A f \in DOMAIN Dom(rec) : SameField(f, Proj(rec, fmt, p)[f], p[f])
OnlyDocumentedLoss(rec, fmt, v) == \A f \in DOMAIN Dom(rec) \ Lossy(rec, fmt) : SameField(f, Proj(rec, fmt, v)[f], v[f])
\* the statement's list: user allocations, sub-second expiry (+ mode, which is a function of depth)
LossIsBenign(rec, fmt, v) ==
    LET p == Proj(rec, fmt, v) IN
    /\ (rec = "Pin" /\ ~SameField("expire", p.expire, v.expire)) => (v.expire = "subsec" /\ p.expire = "whole")
    /\ (rec = "Pin" /\ p.mode # v.mode) => v.mode # DepthToMode(v.depth)       \* only inconsistent pairs change
\* state export/import adds nothing to what the store already loses
ExportIsComposition(v) == \A f \in DOMAIN PinDom :
    SameField(f, PinProj("export", v)[f], PinProj("pb", PinProj("json", PinProj("pb", v)))[f])
=============================================================================
