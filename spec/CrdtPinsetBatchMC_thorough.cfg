SPECIFICATION Spec
CONSTANTS
  CIDS = {"c1", "c2"}
  VALS = {"A", "B"}
  MaxOps = 5
  MaxArm = 2
  MaxRArm = 1
  EmptySkip = TRUE
  AgeReset = TRUE
INVARIANT EffectIsPrefix
INVARIANT HooksCover
INVARIANT CommitRule
INVARIANT NotStranded
INVARIANT NoHang
INVARIANT NoCrash
INVARIANT NothingLost
PROPERTY RefuseRule
