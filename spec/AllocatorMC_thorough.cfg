SPECIFICATION Spec
CONSTANT NPEERS = 4
INVARIANT PropertyHolds
INVARIANT Transcription
