--------------------------- MODULE TrackerCover ---------------------------
(* Branch-coverage witness generation for Tracker.tla: run with            *)
(*   -workers 1 -continue   and INVARIANT CoverNew                          *)
(* TLC prints one shortest behaviour per (action, branch tag) pair.         *)
EXTENDS Tracker
ASSUME CoverInit
=============================================================================
