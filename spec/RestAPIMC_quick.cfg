SPECIFICATION Spec
CONSTANT LEVEL = "quick"
INVARIANT DesignHolds
INVARIANT DeviationsFail
INVARIANT SelfConforms
INVARIANT ClientDesign
INVARIANT ConfigIndependent
