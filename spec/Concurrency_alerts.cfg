SPECIFICATION Spec
CONSTANTS
  MaxAlerts = 2
  NWrites = 5
  NReads = 2
  SizedOutsideLock = FALSE
  ShutdownInline = FALSE
  ClientGuarded = TRUE
  Part = "alerts"
INVARIANTS NoIndexPanic NoTear
