SPECIFICATION Spec
CONSTANTS
  MaxAlerts = 2
  NWrites = 5
  NReads = 2
  SizedOutsideLock = FALSE
  ClientGuarded = TRUE
  Part = "alerts"
INVARIANTS NoIndexPanic NoTear
