SPECIFICATION Spec
CONSTANTS
  NAMES = {"n1", "n2"}
  PEERS = {"p1", "p2"}
  Thr = 1
  CheckMode = "once"
  ForgetMode = "name"
  RenewMode = "restart"
  W = 3
  AccN = 6
  MaxArr = 6
  MaxT = 3
  REPS = {1, 2}
  Garbage = FALSE
  Staged = TRUE
  PsFree = TRUE
  InitSets = {{"p1"}, {"p1", "p2"}}
INVARIANTS InvAtMostOne InvIsLatest InvValidUnexpiredMember InvNoFalseAlarm InvAlertOnce InvReported InvForgotten InvUsed InvObserverSane
