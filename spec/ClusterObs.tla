----------------------------- MODULE ClusterObs -----------------------------
(* Judges final states recorded from end-to-end runs on real Cluster peers   *)
(* with the composition's promise (Cluster.tla, E2EOn) and the allocation    *)
(* sanity of the stored pins.                                                *)
EXTENDS Cluster, Json, IOUtils

Recs == ndJsonDeserialize(IOEnv.TRACE_FILE)
N == Len(Recs)
Rng(s) == {s[i] : i \in DOMAIN s}

PinOf(v) == [k |-> v.k, mode |-> v.mode, allocs |-> Rng(v.allocs), everywhere |-> v.everywhere, rmin |-> v.rmin, rmax |-> v.rmax, exp |-> v.exp]
PsOf(r) == [c \in DOMAIN r.ps |-> PinOf(r.ps[c])]

\* The repository's mock IPFS daemon (test/ipfs_mock.go) records every pin/add as recursive (it reads a
\* "type" parameter the connector does not send), so the end-to-end judgement is on pinned / not pinned;
\* modes are judged at the tracker (C05 replay) and connector (C16) levels.
\* Tolerated by design (C05 statement, Cluster.tla `left`): a pin that moved to other peers while this peer's
\* daemon was failing may stay pinned locally (the unpin of a remote pin is best effort and is not retried).
PinnedOnly(ps, ip, live, outage) ==
    \A p \in live : \A c \in DOMAIN ps :
        \/ (ip[p][c] # "none") <=> (AssignedMode(ps[c], p) # "none")
        \/ (p \in outage /\ ps[c].k = "pin" /\ AssignedMode(ps[c], p) = "none")
BadE2E == {i \in 1..N : Recs[i].settled /\ ~PinnedOnly(PsOf(Recs[i]), Recs[i].ipfs, Rng(Recs[i].up), Rng(Recs[i].outage))}
\* stored allocations are never empty for a non-everywhere pin and hold at most max LIVE peers
\* (C03 counts healthy holders: a dead holder may stay listed while the minimum is still met)
BadAlloc == {i \in 1..N : \E c \in DOMAIN Recs[i].ps :
                LET pin == PinOf(Recs[i].ps[c]) IN
                pin.k = "pin" /\ ~pin.everywhere /\
                ~(Cardinality(pin.allocs) >= 1 /\ Cardinality(pin.allocs \cap Rng(Recs[i].up)) <= pin.rmax)}
Stuck == {}
\* every run ends with a StateSync round on all live peers: no expired pin is left, and each
\* expired pin was unpinned by exactly one peer (the driver counts the unpin calls per CID)
BadExpiry == {i \in 1..N : ~NoExpiredOn(PsOf(Recs[i])) \/ \E c \in DOMAIN Recs[i].expunpins : Recs[i].expunpins[c] # 1}

ASSUME ndJsonSerialize(IOEnv.VERDICT_FILE, <<[n |-> N, e2e |-> BadE2E, alloc |-> BadAlloc, stuck |-> Stuck, expiry |-> BadExpiry]>>)
=============================================================================
