SPECIFICATION Spec
CONSTANT NPEERS = 3
INVARIANT PropertyHolds
INVARIANT Transcription
