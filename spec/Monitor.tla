------------------------------ MODULE Monitor ------------------------------
(* C09 - peer monitor: metric windows, LatestMetrics, failure checker.      *)
(*                                                                          *)
(* Part 1 is a literal transcription of monitor/metrics/{store,window,      *)
(* checker}.go and pubsubmon.LatestMetrics as pure operators on a state     *)
(* record (so that MonitorMC explores them and MonitorTrace folds them over *)
(* executions recorded from the real code).  Part 2 is the property         *)
(* statement, written on an *observer* that sees only the inputs (arrivals, *)
(* removals, peerset changes, ticks, which check ran) and the observable    *)
(* outputs (LatestMetrics, delivered alerts, what the store still holds).   *)
(* A mismatch with part 1 alone is transcription drift; only a part 2       *)
(* predicate that is false on observed outputs is a violation.              *)
EXTENDS Integers, Sequences, FiniteSets, FiniteSetsExt, TLC

CONSTANTS NAMES,        \* metric names
          PEERS,        \* peer ids
          Thr,          \* metrics.MaxAlertThreshold (code: 1)
          CheckMode,    \* "per_metric": CheckPeers calls alert() once per stored metric (checker.go as found)
                        \* "once": every (peer, name) is evaluated once per check (as coded after fix 5970698)
          ForgetMode,   \* "name": reaching the threshold drops the alert record of that (peer, name) only (as coded)
                        \* "peer": it drops the peer's whole record, i.e. the counters of its other names too
          RenewMode     \* "sticky": the alert counter survives a renewal (checker.go as found)
                        \* "restart": a newer latest metric restarts the alert cycle (as coded after fix af6d3bd)

FAR  == 1000000
NONE == [id |-> 0, valid |-> FALSE, exp |-> -1]
Last(q) == q[Len(q)]
Pairs == PEERS \X NAMES                       \* <<peer, name>>
Total(c) == FoldSet(LAMBDA pr, a : a + c[pr[2]][pr[1]], 0, Pairs)

Expired(now, m) == now > m.exp                \* api.Metric.Expired: time.Now().After(expire)

-----------------------------------------------------------------------------
(* Part 1: transcription.  State record:                                    *)
(*   now, cnt[name][peer] (arrivals so far = id of the pair's newest        *)
(*   metric; ids are per (name, peer)), w (window cap),                     *)
(*   accn (accrualMetricsNum), win[name][peer] (oldest first, <<>> = no     *)
(*   window), failed[peer][name] = [c, mid] (failedPeers counter; mid = id  *)
(*   of the metric last alerted on, only read in RenewMode "restart"),      *)
(*   ps = [kind, set] (peers function: "nil" none, "err" fails, "set").     *)

InitState(w, accn, ps) ==
    [now |-> 0, cnt |-> [nm \in NAMES |-> [p \in PEERS |-> 0]], w |-> w, accn |-> accn,
     win |-> [nm \in NAMES |-> [p \in PEERS |-> <<>>]],
     failed |-> [p \in PEERS |-> [nm \in NAMES |-> [c |-> 0, mid |-> 0]]],
     ps |-> ps]

ExpOf(now, class) == CASE class = "past"  -> -1           \* already expired on arrival (now >= 0)
                       [] class = "short" -> now          \* expires at the next Tick
                       [] OTHER           -> FAR

\* Store.Add + Window.Add: ring of capacity w, the oldest entry is overwritten
Arrive1(s, nm, p, valid, class) ==
    LET m   == [id |-> s.cnt[nm][p] + 1, valid |-> valid, exp |-> ExpOf(s.now, class)]
        old == s.win[nm][p]
        new == IF Len(old) < s.w THEN Append(old, m) ELSE Append(Tail(old), m)
    IN [s EXCEPT !.cnt[nm][p] = @ + 1, !.win[nm][p] = new]

RECURSIVE ArriveN(_, _, _, _, _, _)
ArriveN(s, nm, p, valid, class, reps) ==
    IF reps = 0 THEN s ELSE ArriveN(Arrive1(s, nm, p, valid, class), nm, p, valid, class, reps - 1)

\* Store.RemovePeer
RemovePeer(s, p) == [s EXCEPT !.win = [nm \in NAMES |-> [@[nm] EXCEPT ![p] = <<>>]]]

\* Checker.failed: no metric -> failed; latest unexpired -> not failed; fewer than
\* accn metrics -> failed; otherwise the accrual detector decides (acc: free)
Failed(s, q, acc) ==
    IF q = <<>> THEN TRUE
    ELSE IF ~Expired(s.now, Last(q)) THEN FALSE
    ELSE IF Len(q) < s.accn THEN TRUE
    ELSE acc

\* Checker.alert on the local view st = [q window, c counter, mid, out alerts]
AlertOne(st, p, nm) ==
    LET lid   == IF st.q = <<>> THEN 0 ELSE Last(st.q).id
        stale == RenewMode = "restart" /\ st.c > 0 /\ st.mid # lid
        c0    == IF stale THEN 0 ELSE st.c
    IN IF c0 >= Thr
       THEN [st EXCEPT !.q = <<>>, !.c = 0, !.mid = 0, !.fg = TRUE] \* RemovePeerMetrics + delete counter
       ELSE [st EXCEPT !.c = c0 + 1, !.mid = lid,
                       !.out = Append(@, [peer |-> p, name |-> nm, mid |-> lid])]

RECURSIVE EvalPair(_, _, _, _, _, _)
EvalPair(s, st, p, nm, iters, acc) ==
    IF iters = 0 THEN st
    ELSE EvalPair(s, IF Failed(s, st.q, acc) THEN AlertOne(st, p, nm) ELSE st, p, nm, iters - 1, acc)

\* CheckPeers: "for each name, for each peer, for each metric in PeerMetricAll(name, peer)":
\* the slice is taken once, FailedMetric/alert are re-evaluated in every iteration.
ItersPeers(q) == IF CheckMode = "per_metric" THEN Len(q) ELSE IF q = <<>> THEN 0 ELSE 1
\* CheckAll: one iteration per window whose latest metric has Valid set (Store.AllMetrics)
ItersAll(q)   == IF q # <<>> /\ Last(q).valid THEN 1 ELSE 0

\* kind = "peers" (scope = S \X NAMES) or "all"; acc[<<p, nm>>] = accrual verdict where it applies
\* The pairs are evaluated one after the other on the shared failedPeers table (iteration order of
\* the names is Go map order: any fixed order is one of the allowed ones; with ForgetMode "name" the
\* pairs do not interact and the order is irrelevant).
Check(s, kind, S, acc) ==
    LET scope == IF kind = "peers" THEN S \X NAMES ELSE Pairs
        it(q) == IF kind = "peers" THEN ItersPeers(q) ELSE ItersAll(q)
        one(pr, a) ==
            LET p == pr[1] nm == pr[2] q == a.s.win[nm][p] f == a.s.failed[p][nm]
                r == EvalPair(a.s, [q |-> q, c |-> f.c, mid |-> f.mid, out |-> <<>>, fg |-> FALSE], p, nm, it(q), acc[pr])
                fl == IF ForgetMode = "peer" /\ r.fg
                      THEN [a.s.failed EXCEPT ![p] = [x \in NAMES |-> [c |-> 0, mid |-> 0]]]
                      ELSE a.s.failed
            IN [s |-> [a.s EXCEPT !.win[nm][p] = r.q,
                                  !.failed = [fl EXCEPT ![p][nm] = [c |-> r.c, mid |-> r.mid]]],
                alerts |-> a.alerts \o r.out]
    IN FoldSet(one, [s |-> s, alerts |-> <<>>], scope)

\* One iteration of Checker.Watch as started by pubsubmon (peersF = the monitor's peers function):
\* no peers function -> CheckAll; peers function fails -> skip this tick; else CheckPeers(peers)
WatchCheck(s, acc) ==
    CASE s.ps.kind = "nil" -> Check(s, "all", {}, acc)
      [] s.ps.kind = "err" -> [s |-> s, alerts |-> <<>>]
      [] OTHER             -> Check(s, "peers", s.ps.set, acc)

\* Store.LatestValid + pubsubmon.LatestMetrics (PeersetFilter)
LatestValid(s, nm) ==
    {[peer |-> p, mid |-> Last(s.win[nm][p]).id] :
        p \in {x \in PEERS : LET q == s.win[nm][x]
                             IN q # <<>> /\ Last(q).valid /\ ~Expired(s.now, Last(q))}}
LatestMetrics(s, nm) ==
    CASE s.ps.kind = "nil" -> LatestValid(s, nm)
      [] s.ps.kind = "err" -> {}
      [] OTHER             -> {e \in LatestValid(s, nm) : e.peer \in s.ps.set}

\* what a driver can observe after a step
ObsOf(s, alerts) ==
    [alerts |-> alerts,
     latest |-> [nm \in NAMES |-> LatestMetrics(s, nm)],
     stored |-> [nm \in NAMES |-> [p \in PEERS |-> IF s.win[nm][p] = <<>> THEN 0 ELSE Last(s.win[nm][p]).id]],
     n      |-> [nm \in NAMES |-> [p \in PEERS |-> Len(s.win[nm][p])]]]

\* One step.  act = [a, name, peer, valid, exp, reps, kind, set]
Apply(s, act, acc) ==
    CASE act.a = "arrive"     -> [s |-> ArriveN(s, act.name, act.peer, act.valid, act.exp, act.reps), alerts |-> <<>>]
      [] act.a = "remove"     -> [s |-> RemovePeer(s, act.peer), alerts |-> <<>>]
      [] act.a = "peerset"    -> [s |-> [s EXCEPT !.ps = [kind |-> act.kind, set |-> act.set]], alerts |-> <<>>]
      [] act.a = "tick"       -> [s |-> [s EXCEPT !.now = @ + 1], alerts |-> <<>>]
      [] act.a = "checkpeers" -> Check(s, "peers", act.set, acc)
      [] act.a = "checkall"   -> Check(s, "all", {}, acc)
      [] act.a = "watch"      -> WatchCheck(s, acc)
      \* an undecodable message on the metrics topic (act.kind: random / truncated / empty / wrongtype) is
      \* dropped and nothing else changes - in particular later metrics are received as before
      [] act.a = "garbage"    -> [s |-> s, alerts |-> <<>>]

-----------------------------------------------------------------------------
(* Part 2: the property statement, on an observer fed with inputs only.     *)
(*   last[name][peer]  most recently received metric since the peer was     *)
(*                     removed (NONE if none)                               *)
(*   since[peer][name] alerts delivered since the last arrival for the pair *)
(*   pre               since before the last step                           *)
(*   scope             pairs the last step had to evaluate ({} if no check) *)
(*   pn                stored window lengths observed before the last step  *)
(*                     (only to know whether the accrual detector applies)  *)

ObsInit(accn, ps) ==
    [now |-> 0, cnt |-> [nm \in NAMES |-> [p \in PEERS |-> 0]], accn |-> accn, ps |-> ps,
     last  |-> [nm \in NAMES |-> [p \in PEERS |-> NONE]],
     since |-> [p \in PEERS |-> [nm \in NAMES |-> 0]],
     pre   |-> [p \in PEERS |-> [nm \in NAMES |-> 0]],
     scope |-> {},
     pn    |-> [nm \in NAMES |-> [p \in PEERS |-> 0]]]

CountAlerts(alerts, p, nm) == Cardinality({i \in 1..Len(alerts) : alerts[i].peer = p /\ alerts[i].name = nm})

\* o: observer before the step; nBefore: observed window lengths before the step;
\* alerts: alerts observed during the step
ObsStep(o, act, nBefore, alerts) ==
    LET o1 == [o EXCEPT !.pre = o.since, !.pn = nBefore, !.scope = {}]
        o2 == CASE act.a = "arrive" ->
                     [o1 EXCEPT !.cnt[act.name][act.peer] = @ + act.reps,
                                !.last[act.name][act.peer] =
                                    [id |-> o.cnt[act.name][act.peer] + act.reps, valid |-> act.valid, exp |-> ExpOf(o.now, act.exp)],
                                !.since[act.peer][act.name] = 0,
                                !.pre[act.peer][act.name] = 0]
                [] act.a = "remove" ->
                     [o1 EXCEPT !.last = [nm \in NAMES |-> [@[nm] EXCEPT ![act.peer] = NONE]]]
                [] act.a = "peerset" -> [o1 EXCEPT !.ps = [kind |-> act.kind, set |-> act.set]]
                [] act.a = "tick" -> [o1 EXCEPT !.now = @ + 1]
                [] act.a = "checkpeers" -> [o1 EXCEPT !.scope = act.set \X NAMES]
                [] act.a = "checkall" ->
                     [o1 EXCEPT !.scope = {pr \in Pairs : o.last[pr[2]][pr[1]] # NONE /\ o.last[pr[2]][pr[1]].valid}]
                [] act.a = "garbage" -> o1
                [] act.a = "watch" ->       \* one Watch tick: what it has to cover follows from the peerset
                     [o1 EXCEPT !.scope =
                         CASE o.ps.kind = "nil" -> {pr \in Pairs : o.last[pr[2]][pr[1]] # NONE /\ o.last[pr[2]][pr[1]].valid}
                           [] o.ps.kind = "err" -> {}
                           [] OTHER             -> o.ps.set \X NAMES]
    IN [o2 EXCEPT !.since = [p \in PEERS |-> [nm \in NAMES |-> @[p][nm] + CountAlerts(alerts, p, nm)]]]

\* o: observer after the step, obs: observation after the step
AtMostOne(obs) ==
    \A nm \in NAMES : \A e1, e2 \in obs.latest[nm] : e1.peer = e2.peer => e1 = e2
IsLatest(o, obs) ==
    \A nm \in NAMES : \A e \in obs.latest[nm] :
        e.peer \in PEERS /\ o.last[nm][e.peer] # NONE /\ e.mid = o.last[nm][e.peer].id
ValidUnexpiredMember(o, obs) ==
    \A nm \in NAMES : \A e \in obs.latest[nm] :
        e.peer \in PEERS =>
            LET m == o.last[nm][e.peer]
            IN /\ m.valid /\ ~Expired(o.now, m)
               /\ (o.ps.kind = "set" => e.peer \in o.ps.set)   \* "when the peerset is known"
\* a peer whose latest metric is unexpired is never reported as failed
NoFalseAlarm(o, obs) ==
    \A i \in 1..Len(obs.alerts) :
        LET a == obs.alerts[i]
        IN a.peer \in PEERS /\ a.name \in NAMES =>
             LET m == o.last[a.name][a.peer] IN m = NONE \/ Expired(o.now, m)
\* ... is reported once, not repeatedly
AlertOnce(o) == \A p \in PEERS, nm \in NAMES : o.since[p][nm] <= Thr
\* a peer whose latest metric expired without renewal is reported (when the check covers it
\* and the plain expiry rule decides, i.e. fewer than accn metrics are stored)
Owed(o, pr) ==
    LET m == o.last[pr[2]][pr[1]]
    IN m # NONE /\ Expired(o.now, m) /\ o.pn[pr[2]][pr[1]] < o.accn
Reported(o)  == \A pr \in o.scope : Owed(o, pr) => o.since[pr[1]][pr[2]] >= 1
\* ... after which its stale metric is forgotten (the check after the alert drops it)
Forgotten(o, obs) ==
    \A pr \in o.scope : (Owed(o, pr) /\ o.pre[pr[1]][pr[2]] >= Thr) => obs.stored[pr[2]][pr[1]] = 0

\* fresh metrics from members ARE used: the most recently received metric of a peer is reported
\* whenever it is valid, unexpired and (peerset known) from a member
Used(o, obs) ==
    \A nm \in NAMES, p \in PEERS :
        LET m == o.last[nm][p]
        IN (m # NONE /\ m.valid /\ ~Expired(o.now, m) /\ o.ps.kind # "err" /\ (o.ps.kind = "set" => p \in o.ps.set))
             => \E e \in obs.latest[nm] : e.peer = p

PropNames == <<"AtMostOne", "IsLatest", "ValidUnexpiredMember", "NoFalseAlarm", "AlertOnce", "Reported", "Forgotten", "Used">>
PropHolds(k, o, obs) ==
    CASE k = 1 -> AtMostOne(obs)
      [] k = 2 -> IsLatest(o, obs)
      [] k = 3 -> ValidUnexpiredMember(o, obs)
      [] k = 4 -> NoFalseAlarm(o, obs)
      [] k = 5 -> AlertOnce(o)
      [] k = 6 -> Reported(o)
      [] k = 7 -> Forgotten(o, obs)
      [] k = 8 -> Used(o, obs)
\* the (peer, name) pairs a broken alert-cycle predicate is about (for reporting)
Offenders(k, o, obs) ==
    CASE k = 5 -> {pr \in Pairs : o.since[pr[1]][pr[2]] > Thr}
      [] k = 6 -> {pr \in o.scope : Owed(o, pr) /\ o.since[pr[1]][pr[2]] < 1}
      [] k = 7 -> {pr \in o.scope : Owed(o, pr) /\ o.pre[pr[1]][pr[2]] >= Thr /\ obs.stored[pr[2]][pr[1]] # 0}
      [] OTHER -> {}
BrokenProps(o, obs) == {k \in 1..8 : ~PropHolds(k, o, obs)}
=============================================================================
