SPECIFICATION Spec
CONSTANT Reps = {"a", "b", "c"}
CONSTANT Starters = {"a"}
CONSTANT MaxPub = 2
CONSTANT MaxActs = 0
CONSTANT StartOrder <- OrderAsCoded
CONSTANT SignPolicy = "strict"
CONSTANT JoinTrusts = FALSE
INVARIANT IgnoresUntrusted
INVARIANT LonerKeepsOwn
