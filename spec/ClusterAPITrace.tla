------------------------- MODULE ClusterAPITrace -------------------------
(* C04: evaluates the property predicate EffectOK and the transcription   *)
(* predicate StepOK on (environment, pinset before, call, observation)    *)
(* tuples recorded from the real Cluster (NDJSON file named by env        *)
(* TRACE_FILE); writes the failing record numbers to env VERDICT_FILE.    *)
EXTENDS ClusterAPI, Json, IOUtils

Recs == ndJsonDeserialize(IOEnv.TRACE_FILE)

ObsOf(r) == [ok |-> r.obs.ok, ps2 |-> Range(r.obs.ps2), ret |-> r.obs.ret, log |-> r.obs.log, failed |-> r.obs.failed, win |-> r.obs.win]
Bad   == {i \in 1..Len(Recs) : ~EffectOK(Recs[i].env, Range(Recs[i].ps), Recs[i].call, ObsOf(Recs[i]))}
Drift == {i \in 1..Len(Recs) : ~StepOK(Recs[i].env, Range(Recs[i].ps), Recs[i].call, ObsOf(Recs[i]))}

ASSUME ndJsonSerialize(IOEnv.VERDICT_FILE, <<[n |-> Len(Recs), bad |-> Bad, drift |-> Drift]>>)

VARIABLE x
Init == x = 0
Next == UNCHANGED x
Spec == Init /\ [][Next]_x
=============================================================================
