----------------------------- MODULE PersistMC -----------------------------
(* Model-checking instances of Persist: constant values that the cfg syntax *)
(* cannot express (sets containing the empty set).                          *)
EXTENDS Persist

AddrSetsFull  == {{}, {"ip4"}, {"ip4", "ip6"}, {"dns4"}, {"ip4", "dns4"}}
AddrSetsSmall == {{}, {"ip4", "ip6"}, {"ip4", "dns4"}}
AddrSetsWide  == {{}, {"ip4"}, {"ip4", "ip4b", "ip6"}, {"dns4", "dns6"}, {"ip4", "dns4", "dns6"}}
EmptyInit  == {{}}
AllInits   == SUBSET (0..MAXIDX)
\* two-digit indices: full runs around N = 10..12, gaps in front of a two-digit folder, two-digit only
WideInits  == {{}, 0..8, 0..9, 0..10, 0..11, 0..12, {0, 1, 10}, {0, 1, 10, 11}, {10}, {10, 11, 12},
               (0..11) \ {2}, (0..12) \ {10}, (0..9) \cup {11}, 1..11}
PriosOne   == {1}
PriosFull  == {-1, 0, 1}
PriosSmall == {-1, 1}
PriosWide  == {-1, 0, 1, 2}
=============================================================================
