----------------------------- MODULE PersistMC -----------------------------
(* Model-checking instances of Persist: constant values that the cfg syntax *)
(* cannot express (sets containing the empty set).                          *)
EXTENDS Persist

AddrSetsFull  == {{}, {"ip4"}, {"ip4", "ip6"}, {"dns4"}, {"ip4", "dns4"}}
AddrSetsSmall == {{}, {"ip4", "ip6"}, {"ip4", "dns4"}}
AddrSetsWide  == {{}, {"ip4"}, {"ip4", "ip4b", "ip6"}, {"dns4", "dns6"}, {"ip4", "dns4", "dns6"}}
PriosOne   == {1}
PriosFull  == {-1, 0, 1}
PriosSmall == {-1, 1}
PriosWide  == {-1, 0, 1, 2}
=============================================================================
