----------------------------- MODULE RestAPIMC -----------------------------
(* Design check for C11: for every enumerated request, what the transcribed *)
(* handlers do (Expected) satisfies the property statement (Good) - except  *)
(* for the declared as-coded deviations, which must indeed break it.        *)
EXTENDS RestAPIGen

CONSTANT LEVEL
VARIABLES seed, req, obs, stage

Seeds == {[k |-> "route", n |-> r.name] : r \in Routes} \cup {[k |-> "pat", n |-> p] : p \in Pats}

CasesOf(s) ==
    IF s.k = "route" THEN RouteCases(CHOOSE r \in Routes : r.name = s.n, LEVEL)
    ELSE PatCases(s.n, LEVEL)

Init == stage = 0 /\ seed \in Seeds /\ req = Canon("id", "GET") /\ obs = [status |-> 0, ops |-> <<>>, docs |-> 0]
Next == /\ stage = 0 /\ stage' = 1 /\ UNCHANGED seed
        /\ req' \in CasesOf(seed)
        /\ obs' \in LET e == Expected(req') IN {[status |-> s, ops |-> e.ops, docs |-> e.docs] : s \in e.st}
Spec == Init /\ [][Next]_<<seed, req, obs, stage>>

DesignHolds    == stage = 1 /\ ~Deviates(req) => Good(req, obs)
DeviationsFail == stage = 1 /\ Deviates(req) => ~Good(req, obs) /\ Broken(req, obs) = {"FailClosed"}
\* the answers do not depend on the configuration variant
ConfigIndependent == stage = 1 => Expected(req) = Expected([req EXCEPT !.tr = "plain"])
SelfConforms   == stage = 1 => Conforms(req, obs)
\* the client sends what the server-side route expects
\* (except where "unspecified" exists only in the HTTP form: raw-leaves left out with cid-version > 0)
ClientDesign   == stage = 1 /\ Match(req) # {} /\ Authorized(req) /\ AllValid(req, RouteOf(req))
                  /\ ~(req.a["rawleaves"] = "absent" /\ req.a["cidv"] = "one") =>
                    ClientExpectedOps([req EXCEPT !.via = "client"]) = obs.ops
=============================================================================
