SPECIFICATION Spec
VIEW View
INVARIANT WellFormed
PROPERTY ErrKeeps
