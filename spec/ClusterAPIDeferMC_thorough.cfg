SPECIFICATION Spec
CONSTANT NPEERS = 3
CONSTANT Tier = "thorough"
CONSTANT EqualsMode = "fixed"
CONSTANT UpdateGuard = TRUE
CONSTANT RepinRedirect = FALSE
CONSTANT MaxLen = 5
CONSTANT EmitLens = {3, 4}
CONSTANT SkipSameOptsLogPin = FALSE
INVARIANT PropertyHolds
INVARIANT FinalHolds
INVARIANT Emit
