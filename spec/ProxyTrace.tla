---------------------------- MODULE ProxyTrace ----------------------------
(* Evaluates the property predicates and the transcription predicate of   *)
(* Proxy.tla on (request, observation) tuples recorded around the real    *)
(* ipfsproxy.Server (NDJSON file named by env TRACE_FILE) and writes the  *)
(* failing record numbers, per predicate, to env VERDICT_FILE.            *)
EXTENDS Proxy, Json, IOUtils

Recs == ndJsonDeserialize(IOEnv.TRACE_FILE)
Idx  == 1..Len(Recs)

Dropped  == {i \in Idx : BadDrop(Recs[i].req, Recs[i].obs)}
Exact    == {i \in Idx : BadExact(Recs[i].req, Recs[i].obs)}
Relay    == {i \in Idx : BadRelay(Recs[i].req, Recs[i].obs)}
Leak     == {i \in Idx : BadLeak(Recs[i].req, Recs[i].obs)}
ErrNoOp  == {i \in Idx : BadErrNoOp(Recs[i].req, Recs[i].obs)}
Unfaith  == {i \in Idx : BadFaithful(Recs[i].req, Recs[i].obs)}
Bad      == Dropped \cup Exact \cup Relay \cup Leak \cup ErrNoOp \cup Unfaith
Drift    == {i \in Idx \ Bad : ~Conforms(Recs[i].req, Recs[i].obs)}

ASSUME ndJsonSerialize(IOEnv.VERDICT_FILE,
        <<[n |-> Len(Recs), dropped |-> Dropped, exact |-> Exact, relay |-> Relay, leak |-> Leak, errnoop |-> ErrNoOp,
           unfaithful |-> Unfaith, drift |-> Drift]>>)

VARIABLE x
Init == x = 0
Next == UNCHANGED x
Spec == Init /\ [][Next]_x
=============================================================================
