SPECIFICATION Spec
INVARIANT WellFormed
