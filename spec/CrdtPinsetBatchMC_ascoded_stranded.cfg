SPECIFICATION Spec
CONSTANTS
  CIDS = {"c1"}
  VALS = {"A"}
  MaxOps = 4
  MaxArm = 1
  MaxRArm = 0
  EmptySkip = TRUE
  AgeReset = FALSE
INVARIANT NotStranded
