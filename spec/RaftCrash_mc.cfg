\* exhaustive small model, production store choice (fsm lost on kill, log durable)
CONSTANTS CIDS = {"c1", "c2"} MaxOps = 3 KeepFsm = FALSE LoseLog = FALSE
INIT Init
NEXT Next
INVARIANTS TypeOK AckDurable PrefixInv AtMostOnce
