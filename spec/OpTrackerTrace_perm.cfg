\* classification of a rejected trace: the recorded outcomes are applied as they are (transcription guards off)
CONSTANTS CIDS = {"c1", "c2", "c3", "c4", "c5", "c6", "c7", "c8", "c9", "c10", "c11", "c12", "c13", "c14", "c15", "c16", "c17", "c18", "c19", "c20", "c21", "c22", "c23", "c24", "c25", "c26", "c27", "c28", "c29", "c30", "c31", "c32", "c33", "c34", "c35", "c36", "c37", "c38", "c39", "c40", "c41", "c42", "c43", "c44", "c45", "c46", "c47", "c48", "c49", "c50", "c51", "c52", "c53", "c54", "c55", "c56", "c57", "c58", "c59", "c60"}
          MaxOps = 100000 K0 = 0 Q0 = 0 Level0 = "api" Strict = FALSE Lag = TRUE
INIT TraceInit
NEXT TraceNext
INVARIANTS TraceNotStuck TypeOK TableCid CleanOnlyOwn CleanOnlyDone ReplacedIsCancelled ErrorSticky PhaseForward OneLivePerCid LiveIsTracked FullQueueIsError FullQueueShowsError QueueBound WorkerBound
POSTCONDITION TraceAccepted
