\* classification of a rejected trace: the recorded outcomes are applied as they are (transcription guards off)
CONSTANTS CIDS = {"c1", "c2", "c3", "c4", "c5", "c6", "c7", "c8", "c9", "c10", "c11", "c12", "c13", "c14", "c15", "c16", "c17", "c18", "c19", "c20"}
          MaxOps = 100000 K0 = 0 Q0 = 0 Level0 = "api" Strict = FALSE Lag = TRUE
INIT TraceInit
NEXT TraceNext
INVARIANTS TraceNotStuck TypeOK TableCid CleanOnlyOwn CleanOnlyDone ReplacedIsCancelled ErrorSticky PhaseForward OneLivePerCid LiveIsTracked FullQueueIsError FullQueueShowsError QueueBound WorkerBound
POSTCONDITION TraceAccepted
