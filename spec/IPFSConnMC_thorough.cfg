SPECIFICATION Spec
CONSTANTS
  CheckTrailer = TRUE
  UpdateWatchdog = FALSE
  WaitOrigins = FALSE
  CallerCtx = TRUE
  Bound = 2
  NOrigs = {0, 1, 2, 3}
  Intfs = {"keep", "none", "direct", "recursive"}
  Gen = FALSE
INVARIANTS TypeOK InvSuccessSound InvFailureReported InvNoRedundant InvLsTruthful InvUnpinIdempotent
  InvStallGivesUpAdd InvOriginsBestEffort InvCallReturns InvCancelPropagates InvUpdateOnlyIfRecursive InvSourceKept
