---------------------------- MODULE IPFSConnHist ----------------------------
(* Call HISTORIES on one Connector instance and one daemon (C16).  The      *)
(* connector as coded keeps nothing between calls, so a history is the      *)
(* composition of single calls of IPFSConn in which every call starts from  *)
(* the daemon table the previous ones left.  A plan pins three different    *)
(* CIDs with three different depth classes (recursive, direct, depth 1,     *)
(* depth 2) in every order, optionally with an unpin or a pin/ls of an      *)
(* earlier CID in between.  All property predicates are checked at the end  *)
(* of every call; Gen prints the histories as replay scripts.               *)
EXTENDS IPFSConn

CONSTANT Gen

VARIABLES world,  \* daemon table over the concrete CIDs  [Pool -> [st, held]]
          plan,   \* calls still to make (the head is the one in progress)
          past    \* finished calls

hvars == <<world, plan, past>>

Pool == {"A", "B", "C"}
Src(t) == CASE t = "A" -> "B" [] t = "B" -> "C" [] OTHER -> "A"
Classes == {[mode |-> "recursive", d |-> ""], [mode |-> "direct", d |-> ""],
            [mode |-> "depth", d |-> "1"], [mode |-> "depth", d |-> "2"]}
Call(op, k, t) == [op |-> op, mode |-> k.mode, d |-> k.d, t |-> t]

InputOf(c, w) ==
    [op |-> c.op, mode |-> c.mode, d |-> c.d, upd |-> FALSE, norig |-> 0, ohang |-> FALSE, cancel |-> FALSE,
     prior |-> [c1 |-> w[c.t].st, c2 |-> w[Src(c.t)].st],
     pheld |-> [c1 |-> w[c.t].held, c2 |-> w[Src(c.t)].held], intf |-> "keep"]

Triples == {p \in [1..3 -> Classes] : p[1] # p[2] /\ p[1] # p[3] /\ p[2] # p[3]}
Base(p) == <<Call("pin", p[1], "A"), Call("pin", p[2], "B"), Call("pin", p[3], "C")>>
Rcl == [mode |-> "recursive", d |-> ""]
\* an unpin or a look-up (in the mode the CID was pinned with) of an earlier CID
Extra(p, i, o) == IF o = "unpin" THEN Call("unpin", Rcl, Base(p)[i].t) ELSE Call("lscid", p[i], Base(p)[i].t)
InsertAt(s, k, x) == SubSeq(s, 1, k) \o <<x>> \o SubSeq(s, k + 1, Len(s))
Plans == {Base(p) : p \in Triples}
         \cup {InsertAt(Base(p), k, Extra(p, i, o)) : p \in Triples, k \in 1..3, i \in 1..3, o \in {"unpin", "lscid"}}

HistBehs == {"ok", "progOk"}

HInit == \E pl \in {q \in Plans : \A k \in 1..Len(q) : q[k].op = "pin" \/ \E j \in 1..(k - 1) : q[j].t = q[k].t} :
            LET w0 == [x \in Pool |-> [st |-> "none", held |-> ""]] IN
            /\ plan = pl /\ world = w0 /\ past = <<>>
            /\ InitWith(InputOf(pl[1], w0), Free)

Behs == [j \in DOMAIN reqs |-> reqs[j].beh]
ThisCall == [inp |-> inp, behs |-> Behs, t |-> plan[1].t]

NextCall ==
    /\ pc = "done" /\ Len(plan) > 1
    /\ LET c  == plan[1]
           w2 == [world EXCEPT ![c.t] = [st |-> pins.c1, held |-> held.c1],
                               ![Src(c.t)] = [st |-> pins.c2, held |-> held.c2]]
       IN /\ world' = w2 /\ plan' = Tail(plan) /\ past' = Append(past, ThisCall)
          /\ LoadCall(InputOf(plan[2], w2), Free)

HNext == \/ /\ Next
            /\ Len(reqs') > Len(reqs) => reqs'[Len(reqs')].beh \in HistBehs
            /\ UNCHANGED hvars
         \/ NextCall
HSpec == HInit /\ [][HNext]_<<vars, hvars>>

GenHist == (Gen /\ pc = "done" /\ Len(plan) = 1) => PrintT(<<"HIST", Append(past, ThisCall)>>)
=============================================================================
