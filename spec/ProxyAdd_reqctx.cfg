SPECIFICATION Spec
CONSTANT UnpinCtx = "request"
CONSTANT UnpinAfterPinError = FALSE
INVARIANT PinFalseHonoured
INVARIANT PinTrueHonoured
INVARIANT ErrorMeansNoOp
