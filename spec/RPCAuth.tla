------------------------------ MODULE RPCAuth ------------------------------
(* C07 - Untrusted peers cannot alter the pinset, drive IPFS or read closed  *)
(* endpoints.                                                                *)
(*                                                                           *)
(* Two layers, kept apart on purpose:                                        *)
(*  (1) the PROPERTY layer, written from the statement only: which endpoints *)
(*      an untrusted peer may invoke (OpenAllowed), which endpoints touch    *)
(*      the pinset / tracker / IPFS daemon / consensus (Sensitive), which    *)
(*      are meant for local use (LocalOnly), who must (not) be trusted given *)
(*      the configuration and the Trust/Distrust calls made so far           *)
(*      (MustTrust / MustNotTrust), and the verdict predicates P1..P4 and    *)
(*      TrustBad over an observation "caller p invoked endpoint e and was    *)
(*      (not) authorized";                                                   *)
(*  (2) the TRANSCRIPTION layer: rpc_policy.go (Policy), the authorization   *)
(*      function of rpc_api.go:newRPCServer + gorpc's local short-cut        *)
(*      (Allowed), crdt/raft IsTrustedPeer, Trust and Distrust as coded.     *)
(* TLC checks that (2) satisfies (1) in every state of the trust state       *)
(* machine, for every endpoint, caller and set of missing policy entries.    *)
(* RPCAuthTrace evaluates (1) and (2) on observations recorded from a real   *)
(* Cluster: a breach of (1) is a violation, a mere difference with (2) is    *)
(* transcription drift.                                                      *)
EXTENDS Integers, Sequences, FiniteSets, TLC

CONSTANT Remote           \* names of the remote peers, e.g. {"b", "c"}
Self  == "a"
Peers == Remote \cup {Self}

Svc(s, ms) == {s \o "." \o m : m \in ms}

---------------------------------------------------------------------------
(* The 50 endpoints registered by newRPCServer (Service.Method).            *)
ClusterEPs == Svc("Cluster",
    {"ID", "Pin", "Unpin", "PinPath", "UnpinPath", "Pins", "PinGet", "Version", "Peers", "PeerAdd",
     "ConnectGraph", "PeerRemove", "Join", "StatusAll", "StatusAllLocal", "Status", "StatusLocal",
     "RecoverAll", "RecoverAllLocal", "Recover", "RecoverLocal", "BlockAllocate", "RepoGC",
     "RepoGCLocal", "SendInformerMetric", "SendInformersMetrics", "Alerts"})
TrackerEPs == Svc("PinTracker", {"Track", "Untrack", "StatusAll", "Status", "RecoverAll", "Recover"})
IPFSEPs    == Svc("IPFSConnector",
    {"Pin", "Unpin", "PinLsCid", "PinLs", "ConfigKey", "RepoStat", "SwarmPeers", "BlockPut", "BlockGet", "Resolve"})
ConsEPs    == Svc("Consensus", {"LogPin", "LogUnpin", "AddPeer", "RmPeer", "Peers"})
MonEPs     == Svc("PeerMonitor", {"LatestMetrics", "MetricNames"})
Endpoints  == ClusterEPs \cup TrackerEPs \cup IPFSEPs \cup ConsEPs \cup MonEPs

---------------------------------------------------------------------------
(* PROPERTY layer: golden classification, from the statement.                *)

\* "identity, version and join-handshake endpoints"
OpenAllowed == {"Cluster.ID", "Cluster.Version", "Cluster.PeerAdd"}

\* what each endpoint does (read off the bodies in rpc_api.go)
ModifiesPinset == Svc("Cluster", {"Pin", "Unpin", "PinPath", "UnpinPath", "PeerRemove"})
                  \cup Svc("Consensus", {"LogPin", "LogUnpin"})
ReadsPinset    == Svc("Cluster", {"Pins", "PinGet", "StatusAll", "StatusAllLocal", "Status", "StatusLocal",
                                  "BlockAllocate"})
                  \cup Svc("PinTracker", {"StatusAll", "Status"})
DrivesTracker  == Svc("Cluster", {"RecoverAll", "RecoverAllLocal", "Recover", "RecoverLocal"}) \cup TrackerEPs
DrivesIPFS     == Svc("Cluster", {"RepoGC", "RepoGCLocal", "ConnectGraph"}) \cup IPFSEPs
DrivesCons     == Svc("Cluster", {"PeerRemove", "Join"}) \cup ConsEPs
Sensitive      == ModifiesPinset \cup ReadsPinset \cup DrivesTracker \cup DrivesIPFS \cup DrivesCons

\* "endpoints meant for local use": the closed set of the pinned commit is
\* the semantic baseline (DESIGN.md section 4, C07).
LocalOnly ==
    Svc("Cluster", {"BlockAllocate", "ConnectGraph", "Join", "Pin", "PinGet", "PinPath", "Pins", "Recover",
                    "RecoverAll", "RepoGC", "SendInformerMetric", "SendInformersMetrics", "Alerts", "Status",
                    "StatusAll", "StatusAllLocal", "StatusLocal", "Unpin", "UnpinPath"})
    \cup Svc("PinTracker", {"RecoverAll", "Track", "Untrack"})
    \cup Svc("IPFSConnector", {"BlockGet", "ConfigKey", "Pin", "PinLs", "PinLsCid", "Resolve", "Unpin"})
    \cup Svc("Consensus", {"Peers"})
    \cup MonEPs

\* Trust as the statement defines it.  cfg = [mode, all, list]; h = sequence
\* of [a |-> "trust"|"distrust", p |-> peer] calls made so far.
MaxOf(S) == CHOOSE x \in S : \A y \in S : y <= x
\* h = sequence of [a, p]: a = "trust" | "distrust" (Trust/Distrust called on the component for
\* peer p) or "call:<endpoint>" (remote peer p invoked an open endpoint). Only Trust/Distrust
\* calls move trust: whatever an untrusted peer does with the endpoints open to it, it stays
\* untrusted.
LastAct(h, p) ==
    LET idx == {i \in 1..Len(h) : h[i].p = p /\ h[i].a \in {"trust", "distrust"}}
    IN IF idx = {} THEN "none" ELSE h[MaxOf(idx)].a
ByConfig(cfg, p) == cfg.mode = "raft" \/ cfg.all \/ p \in cfg.list
\* The statement leaves open what Distrust means where everyone is trusted by
\* configuration (Raft, '*'): there neither verdict is imposed.
MustTrust(cfg, h, p) ==
    /\ p # Self
    /\ CASE LastAct(h, p) = "trust"    -> TRUE
         [] LastAct(h, p) = "distrust" -> FALSE
         [] OTHER                      -> ByConfig(cfg, p)
MustNotTrust(cfg, h, p) ==
    /\ p # Self
    /\ cfg.mode = "crdt" /\ ~cfg.all
    /\ \/ LastAct(h, p) = "distrust"
       \/ LastAct(h, p) = "none" /\ p \notin cfg.list

\* An observation: o = [e, p, local, auth] (auth = the call was not refused
\* with an authorization error).  Verdict predicates of the statement:
\* P1: an untrusted remote caller gets through only on the open endpoints
\*     (this covers endpoints without policy entry and endpoints the
\*      specification has never heard of: P4, default deny)
P1Bad(cfg, h, o) == ~o.local /\ o.auth /\ MustNotTrust(cfg, h, o.p) /\ o.e \notin OpenAllowed
\* P2: ... in particular nothing that touches pinset, tracker, IPFS, consensus
P2Bad(cfg, h, o) == P1Bad(cfg, h, o) /\ o.e \in Sensitive
\* P3: local-use endpoints are refused to every remote caller
P3Bad(cfg, h, o) == ~o.local /\ o.auth /\ o.e \in LocalOnly
ObsBad(cfg, h, o) == P1Bad(cfg, h, o) \/ P3Bad(cfg, h, o)
\* Trust follows configuration and Trust/Distrust: t = [p, trusted]
TrustBad(cfg, h, t) == \/ MustTrust(cfg, h, t.p) /\ ~t.trusted
                       \/ MustNotTrust(cfg, h, t.p) /\ t.trusted

---------------------------------------------------------------------------
(* TRANSCRIPTION layer.                                                      *)

\* rpc_policy.go at the pinned commit
PolicyOpen    == {"Cluster.ID", "Cluster.PeerAdd", "Cluster.Version"}
PolicyTrusted ==
    Svc("Cluster", {"PeerRemove", "Peers", "RecoverAllLocal", "RecoverLocal", "RepoGCLocal"})
    \cup Svc("PinTracker", {"Recover", "Status", "StatusAll"})
    \cup Svc("IPFSConnector", {"BlockPut", "RepoStat", "SwarmPeers"})
    \cup Svc("Consensus", {"AddPeer", "LogPin", "LogUnpin", "RmPeer"})
PolicyClosed  == LocalOnly
Policy == [e \in Endpoints |-> IF e \in PolicyOpen THEN "open"
                               ELSE IF e \in PolicyTrusted THEN "trusted" ELSE "closed"]

\* trust state of the consensus component of peer a:
\*   ts = [mode, all, tset]  (tset = crdt trustedPeers map)
TrustInit(cfg) == [mode |-> cfg.mode, all |-> cfg.all,
                   tset |-> IF cfg.mode = "crdt" THEN cfg.list ELSE {}]   \* crdt setup(): Trust(p) for the list
DoTrust(ts, p)    == IF ts.mode = "crdt" THEN [ts EXCEPT !.tset = @ \cup {p}] ELSE ts   \* raft: no-op
DoDistrust(ts, p) == IF ts.mode = "crdt" THEN [ts EXCEPT !.tset = @ \ {p}] ELSE ts
\* as coded no open endpoint touches the trusted set: Cluster.ID and Cluster.Version only read,
\* Cluster.PeerAdd ends in Consensus.AddPeer (crdt: no-op; raft: membership, everybody trusted anyway)
DoOpenCall(ts, e, p) == ts
DoAct(ts, act)    == IF act.a = "trust" THEN DoTrust(ts, act.p)
                     ELSE IF act.a = "distrust" THEN DoDistrust(ts, act.p)
                     ELSE ts
RECURSIVE Fold(_, _)
Fold(ts, h) == IF h = <<>> THEN ts ELSE Fold(DoAct(ts, Head(h)), Tail(h))
\* raft: true; crdt: TrustAll, self, map
IsTrusted(ts, p) == ts.mode = "raft" \/ ts.all \/ p = Self \/ p \in ts.tset

\* gorpc: a local call (dest "" or own ID) bypasses the authorization
\* function; remote: authF = policy lookup, missing entry => false.
Allowed(ts, holes, e, p, local) ==
    IF local THEN TRUE
    ELSE IF e \notin Endpoints \/ e \in holes THEN FALSE
    ELSE CASE Policy[e] = "open"    -> TRUE
           [] Policy[e] = "trusted" -> IsTrusted(ts, p)
           [] OTHER                 -> FALSE

---------------------------------------------------------------------------
(* State machine: configuration, then Trust/Distrust calls.                  *)
VARIABLES cfg, holes, ts, hist
vars == <<cfg, holes, ts, hist>>

Configs == {[mode |-> "raft", all |-> FALSE, list |-> {}], [mode |-> "crdt", all |-> TRUE, list |-> {}]}
           \cup {[mode |-> "crdt", all |-> FALSE, list |-> l] : l \in SUBSET Remote}

InitWith(HoleChoices) ==
    /\ cfg \in Configs
    /\ holes \in HoleChoices
    /\ ts = TrustInit(cfg)
    /\ hist = <<>>
Trust(p)    == /\ ts' = DoTrust(ts, p)    /\ hist' = Append(hist, [a |-> "trust", p |-> p])
               /\ UNCHANGED <<cfg, holes>>
Distrust(p) == /\ ts' = DoDistrust(ts, p) /\ hist' = Append(hist, [a |-> "distrust", p |-> p])
               /\ UNCHANGED <<cfg, holes>>

\* remote peer p invokes the open endpoint e (join handshake, identity, version)
OpenCall(e, p) == /\ e \in PolicyOpen /\ e \notin holes
                  /\ ts' = DoOpenCall(ts, e, p) /\ hist' = Append(hist, [a |-> "call:" \o e, p |-> p])
                  /\ UNCHANGED <<cfg, holes>>

\* every observation the transcribed code can produce in this state
Callers == {[p |-> Self, local |-> TRUE]} \cup {[p |-> q, local |-> FALSE] : q \in Remote}
ObsHere == {[e |-> e, p |-> c.p, local |-> c.local, auth |-> Allowed(ts, holes, e, c.p, c.local)] :
                e \in Endpoints, c \in Callers}
TrustHere == {[p |-> q, trusted |-> IsTrusted(ts, q)] : q \in Remote}

\* invariants: the code as transcribed satisfies the statement
UntrustedOnlyOpen   == \A o \in ObsHere : ~P1Bad(cfg, hist, o)
SensitiveRefused    == \A o \in ObsHere : ~P2Bad(cfg, hist, o)
LocalOnlyRefused    == \A o \in ObsHere : ~P3Bad(cfg, hist, o)
DefaultDeny         == \A o \in ObsHere : (o.e \in holes /\ ~o.local) => ~o.auth
TrustFollowsConfig  == \A t \in TrustHere : ~TrustBad(cfg, hist, t)
FoldAgrees          == ts = Fold(TrustInit(cfg), hist)
\* sanity of the golden tables themselves
TablesSane ==
    /\ OpenAllowed \cup Sensitive \cup LocalOnly \cup PolicyTrusted = Endpoints
    /\ OpenAllowed \cap Sensitive = {}
    /\ OpenAllowed \cap LocalOnly = {}
    /\ PolicyOpen \cap PolicyTrusted = {} /\ PolicyOpen \cap PolicyClosed = {} /\ PolicyTrusted \cap PolicyClosed = {}
    /\ PolicyOpen \cup PolicyTrusted \cup PolicyClosed = Endpoints
    /\ Cardinality(Endpoints) = 50
    \* the trusted class is usable by trusted peers (Raft redirects, broadcasts)
    /\ \A o \in ObsHere : (o.e \in PolicyTrusted \ holes /\ MustTrust(cfg, hist, o.p)) => o.auth
=============================================================================
