SPECIFICATION Spec
CONSTANTS
  MaxAlerts = 2
  NWrites = 0
  NReads = 0
  SizedOutsideLock = TRUE
  ShutdownInline = FALSE
  ClientGuarded = FALSE
  Part = "informer"
INVARIANTS NoNilUse
