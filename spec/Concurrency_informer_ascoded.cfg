SPECIFICATION Spec
CONSTANTS
  MaxAlerts = 2
  NWrites = 0
  NReads = 0
  SizedOutsideLock = TRUE
  ClientGuarded = FALSE
  Part = "informer"
INVARIANTS NoNilUse
