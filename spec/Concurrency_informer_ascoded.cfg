SPECIFICATION Spec
CONSTANTS
  MaxAlerts = 2
  NWrites = 0
  NReads = 0
  SizedOutsideLock = TRUE
  ShutdownInline = FALSE
  PeersErrInline = FALSE
  ClientGuarded = FALSE
  NInformers = 0
  LoopVarShared = FALSE
  NCheckers = 0
  NChecks = 0
  MaxVer = 1
  DistShared = FALSE
  NEntries = 0
  NestedRead = FALSE
  Part = "informer"
INVARIANTS NoNilUse
