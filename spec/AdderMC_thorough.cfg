SPECIFICATION Spec
CONSTANTS
  DepthRule = "fixed"
  MaxBlocks = 4
  Sizes = {1, 2}
  Limits = {3, 4, 5}
  MaxLinksC = 2
  FaultAt = {1, 2, 3, 4, 5}
  NFaults = 1
  PinFailAt = {0, 1, 2, 3, 4}
INVARIANT SafeAlways
INVARIANT GoodAtEnd
INVARIANT RunAgrees
