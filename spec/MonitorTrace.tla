---------------------------- MODULE MonitorTrace ----------------------------
(* C09 binding: folds Monitor.tla over executions recorded from the real    *)
(* pubsubmon.Monitor / metrics.Store / metrics.Checker.                     *)
(* Input  (env TRACE_FILE): one JSON record per replayed script             *)
(*   {id, w, accn, ps:{kind,set}, steps:[{act:{...}, obs:{alerts,latest,stored,n}}]} *)
(* Output (env VERDICT_FILE): per record                                    *)
(*   drift = first step whose observation differs from the transcription    *)
(*           (Monitor!Apply, as-coded switches) or 0,                       *)
(*   bad   = {[step, k, pairs]}: property predicate k (Monitor!PropNames) false  *)
(*           on the observed outputs at that step.                          *)
EXTENDS Monitor, Json, IOUtils

Recs == ndJsonDeserialize(IOEnv.TRACE_FILE)

ToSet(q) == {q[i] : i \in 1..Len(q)}

NormAct(a) == [a |-> a.a, name |-> a.name, peer |-> a.peer, valid |-> a.valid, exp |-> a.exp,
               reps |-> a.reps, kind |-> a.kind, set |-> ToSet(a.set)]
NormObs(r) ==
    [alerts |-> r.alerts,
     latest |-> [nm \in NAMES |-> ToSet(r.latest[nm])],
     stored |-> [nm \in NAMES |-> [p \in PEERS |-> r.stored[nm][p]]],
     n      |-> [nm \in NAMES |-> [p \in PEERS |-> r.n[nm][p]]]]
HasDup(r) == \E nm \in NAMES : Len(r.latest[nm]) # Cardinality(ToSet(r.latest[nm]))

SameBag(a, b) ==
    /\ Len(a) = Len(b)
    /\ \A x \in ToSet(a) \cup ToSet(b) :
          Cardinality({i \in 1..Len(a) : a[i] = x}) = Cardinality({i \in 1..Len(b) : b[i] = x})
Conforms(exp, ob) ==
    /\ SameBag(exp.alerts, ob.alerts)
    /\ exp.latest = ob.latest
    /\ exp.stored = ob.stored
    /\ exp.n = ob.n

Run(rec) ==
    LET steps == rec.steps
        ps0   == [kind |-> rec.ps.kind, set |-> ToSet(rec.ps.set)]
        zero  == [nm \in NAMES |-> [p \in PEERS |-> 0]]
        F[i \in 0..Len(steps)] ==
            IF i = 0
            THEN [s |-> InitState(rec.w, rec.accn, ps0), o |-> ObsInit(rec.accn, ps0), n |-> zero,
                  drift |-> 0, bad |-> {}]
            ELSE LET pv  == F[i - 1]
                     a   == NormAct(steps[i].act)
                     ob  == NormObs(steps[i].obs)
                     \* where the accrual detector decides, its verdict is read off the observation
                     acc == [pr \in Pairs |-> CountAlerts(ob.alerts, pr[1], pr[2]) > 0 \/ ob.n[pr[2]][pr[1]] = 0]
                     r   == Apply(pv.s, a, acc)
                     o2  == ObsStep(pv.o, a, pv.n, ob.alerts)
                     brk == BrokenProps(o2, ob) \cup (IF HasDup(steps[i].obs) THEN {1} ELSE {})
                 IN [s |-> r.s, o |-> o2, n |-> ob.n,
                     drift |-> IF pv.drift = 0 /\ ~Conforms(ObsOf(r.s, r.alerts), ob) THEN i ELSE pv.drift,
                     bad |-> pv.bad \cup {[step |-> i, k |-> k, pairs |-> Offenders(k, o2, ob)] : k \in brk}]
        fin == F[Len(steps)]
    IN [id |-> rec.id, n |-> Len(steps), drift |-> fin.drift, bad |-> fin.bad]

ASSUME ndJsonSerialize(IOEnv.VERDICT_FILE, [i \in 1..Len(Recs) |-> Run(Recs[i])])

VARIABLE x
Init == x = 0
Next == UNCHANGED x
Spec == Init /\ [][Next]_x
=============================================================================
