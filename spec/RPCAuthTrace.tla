---------------------------- MODULE RPCAuthTrace ----------------------------
(* Judges observations recorded from a real Cluster (NDJSON, env TRACE_FILE) *)
(* one record per script step:                                               *)
(*   [cfg, holes, hist, calls: <<[e,p,local,auth]>>, trust: <<[p,trusted]>>] *)
(* with the statement's predicates (P1/P2/P3/TrustBad => violation) and with *)
(* the transcription (Allowed / IsTrusted => drift). Writes the verdict to   *)
(* env VERDICT_FILE.                                                         *)
EXTENDS RPCAuth, Json, IOUtils

Recs == ndJsonDeserialize(IOEnv.TRACE_FILE)

Rng(s)   == {s[i] : i \in 1..Len(s)}
CfgOf(r) == [mode |-> r.cfg.mode, all |-> r.cfg.all, list |-> Rng(r.cfg.list)]
TsOf(r)  == Fold(TrustInit(CfgOf(r)), r.hist)

CallIdx  == UNION {{<<i, j>> : j \in 1..Len(Recs[i].calls)} : i \in 1..Len(Recs)}
TrustIdx == UNION {{<<i, j>> : j \in 1..Len(Recs[i].trust)} : i \in 1..Len(Recs)}
C(x) == Recs[x[1]].calls[x[2]]
T(x) == Recs[x[1]].trust[x[2]]
R(x) == Recs[x[1]]

P1 == {x \in CallIdx : P1Bad(CfgOf(R(x)), R(x).hist, C(x))}
P2 == {x \in CallIdx : P2Bad(CfgOf(R(x)), R(x).hist, C(x))}
P3 == {x \in CallIdx : P3Bad(CfgOf(R(x)), R(x).hist, C(x))}
TB == {x \in TrustIdx : TrustBad(CfgOf(R(x)), R(x).hist, T(x))}
Drift == {x \in CallIdx :
            C(x).auth # Allowed(TsOf(R(x)), Rng(R(x).holes), C(x).e, C(x).p, C(x).local)}
TrustDrift == {x \in TrustIdx : T(x).trusted # IsTrusted(TsOf(R(x)), T(x).p)}
\* endpoints registered by the code that the specification does not know
Unknown == {C(x).e : x \in {y \in CallIdx : C(y).e \notin Endpoints}}
\* endpoints of the specification that were never exercised
Seen    == {C(x).e : x \in CallIdx}

ASSUME ndJsonSerialize(IOEnv.VERDICT_FILE,
        <<[nrecs |-> Len(Recs), ncalls |-> Cardinality(CallIdx), ntrust |-> Cardinality(TrustIdx),
           p1 |-> P1, p2 |-> P2, p3 |-> P3, trustbad |-> TB, drift |-> Drift, trustdrift |-> TrustDrift,
           unknown |-> Unknown, unseen |-> Endpoints \ Seen]>>)

VARIABLE x
\* nothing to explore: the verdict is computed by the ASSUME above
Init == x = 0 /\ cfg = [mode |-> "raft", all |-> FALSE, list |-> {}] /\ holes = {} /\ hist = <<>>
        /\ ts = TrustInit(cfg)
Next == UNCHANGED <<x, vars>>
Spec == Init /\ [][Next]_<<x, vars>>
=============================================================================
