----------------------------- MODULE CodecMC -----------------------------
(* Exhaustive check of the laws of the projection over the case space of  *)
(* strength T (2 = pairwise, 3 = three-wise) - the same Cases the driver  *)
(* executes on the real encoders/decoders.                                *)
EXTENDS Codec, Json

CONSTANT T
VARIABLES stage, c

Init == /\ stage = 0
        /\ c \in {[rec |-> rec, fmt |-> fmt, v |-> b] : rec \in Recs, fmt \in PinFormats \cup {"pubsub"}, b \in UNION {Bases(r) : r \in Recs}}
        /\ c.fmt \in Formats(c.rec) /\ c.v \in Bases(c.rec)
Next == /\ stage = 0 /\ stage' = 1
        /\ c' \in {[c EXCEPT !.v = w] :
                    w \in (CASE T = 1 -> Singles(Dom(c.rec), c.v) [] T = 2 -> Pairs(Dom(c.rec), c.v)
                             [] OTHER -> Triples(Dom(c.rec), c.v))}
Spec == Init /\ [][Next]_<<stage, c>>

InDomain     == ProjInDomain(c.rec, c.fmt, c.v)
Idempotent   == ProjIdempotent(c.rec, c.fmt, c.v)
DocumentedLossOnly == OnlyDocumentedLoss(c.rec, c.fmt, c.v) /\ LossIsBenign(c.rec, c.fmt, c.v)
ExportComposes == c.rec = "Pin" => ExportIsComposition(c.v)
\* a value that went through a format is a fixed point of the round trip: nothing is "bad" about Proj itself
\* thorough GEN: every state of this model is a case; the (parallel) model checker prints them
Emit == stage = 1 => PrintT(ToJson([rec |-> c.rec, fmt |-> c.fmt, v |-> c.v]))
ProjAccepted == BadFields([rec |-> c.rec, fmt |-> c.fmt, v |-> c.v, ok |-> TRUE, got |-> Proj(c.rec, c.fmt, c.v)]) = {}
=============================================================================
