---------------------------- MODULE RestAPIConc ----------------------------
(***************************************************************************)
(* C11, concurrent clause: the basic-auth wrapper decides every request on  *)
(* that request's own credentials, whatever other requests are in flight.   *)
(*                                                                         *)
(* Transcription of basicAuthHandler's wrap function (api/rest/restapi.go), *)
(* one action per statement that touches the decision state:                *)
(*   Read     username, password, ok = r.BasicAuth()                        *)
(*   CheckOk  if !ok { 401; return }                                        *)
(*   Reset    authorized = false                                            *)
(*   Compare  for u, p := range credentials { if match { authorized = true }}*)
(*   Decide   if !authorized { 401; return }; h.ServeHTTP(w, r)             *)
(* for N requests running concurrently (net/http: one goroutine each).      *)
(*                                                                         *)
(* AuthStateShared = FALSE: as coded - username/password/ok/authorized are  *)
(* locals of the per-request closure.  TRUE: the same variables declared    *)
(* once outside the closure and shared by all in-flight requests.           *)
(*                                                                         *)
(* Property (written from the statement, also used on recorded outcomes by  *)
(* RestAPIConcTrace): Isolated(cred, status, reached).                      *)
(***************************************************************************)
EXTENDS RestAPI

CONSTANTS N, AuthStateShared, CredPool

Reqs == 1..N

\* r.BasicAuth() reports ok only for a well-formed Basic header
HasBasic(c) == c \notin {"missing", "malformed", "bearer", "digest", "nocolon"}
Matches(c)  == c \in CredRight

(***************************************************************************)
(* The property predicate on one finished request.                         *)
(*   cred    : the credentials class the request itself carried             *)
(*   status  : the HTTP status it was answered                              *)
(*   reached : whether its operation reached the RPC layer                  *)
(***************************************************************************)
BadAccepted(cred, status, reached) == cred \notin CredRight /\ (reached \/ status # 401)
GoodRefused(cred, status, reached) == cred \in CredRight /\ (~reached \/ status = 401)
Isolated(cred, status, reached) == ~BadAccepted(cred, status, reached) /\ ~GoodRefused(cred, status, reached)

VARIABLES cred,     \* request -> credentials class it carries (fixed)
          pc,       \* request -> next statement
          hdr,      \* slot -> credentials class last read into username/password ("none" before)
          okv,      \* slot -> the ok flag
          authv,    \* slot -> the authorized flag
          status,   \* request -> answered status (0: not yet)
          reached   \* request -> operation handed to the next handler

vars == <<cred, pc, hdr, okv, authv, status, reached>>

\* the variables a request works on: its own, or the single shared set
Slot(i) == IF AuthStateShared THEN 0 ELSE i
Slots   == IF AuthStateShared THEN {0} ELSE Reqs

Init == /\ cred \in [Reqs -> CredPool]
        /\ pc = [i \in Reqs |-> "read"]
        /\ hdr = [s \in Slots |-> "none"] /\ okv = [s \in Slots |-> FALSE] /\ authv = [s \in Slots |-> FALSE]
        /\ status = [i \in Reqs |-> 0] /\ reached = [i \in Reqs |-> FALSE]

Deny(i) == status' = [status EXCEPT ![i] = 401] /\ pc' = [pc EXCEPT ![i] = "done"] /\ UNCHANGED reached

Read(i) == /\ pc[i] = "read"
           /\ hdr' = [hdr EXCEPT ![Slot(i)] = cred[i]]
           /\ okv' = [okv EXCEPT ![Slot(i)] = HasBasic(cred[i])]
           /\ pc' = [pc EXCEPT ![i] = "checkok"]
           /\ UNCHANGED <<cred, authv, status, reached>>

CheckOk(i) == /\ pc[i] = "checkok"
              /\ IF ~okv[Slot(i)] THEN Deny(i)
                 ELSE pc' = [pc EXCEPT ![i] = "reset"] /\ UNCHANGED <<status, reached>>
              /\ UNCHANGED <<cred, hdr, okv, authv>>

Reset(i) == /\ pc[i] = "reset"
            /\ authv' = [authv EXCEPT ![Slot(i)] = FALSE]
            /\ pc' = [pc EXCEPT ![i] = "compare"]
            /\ UNCHANGED <<cred, hdr, okv, status, reached>>

\* the loop only ever sets the flag
Compare(i) == /\ pc[i] = "compare"
              /\ authv' = [authv EXCEPT ![Slot(i)] = @ \/ Matches(hdr[Slot(i)])]
              /\ pc' = [pc EXCEPT ![i] = "decide"]
              /\ UNCHANGED <<cred, hdr, okv, status, reached>>

Decide(i) == /\ pc[i] = "decide"
             /\ IF ~authv[Slot(i)] THEN Deny(i)
                ELSE /\ reached' = [reached EXCEPT ![i] = TRUE]
                     /\ status' = [status EXCEPT ![i] = 200]
                     /\ pc' = [pc EXCEPT ![i] = "done"]
             /\ UNCHANGED <<cred, hdr, okv, authv>>

Next == \E i \in Reqs : Read(i) \/ CheckOk(i) \/ Reset(i) \/ Compare(i) \/ Decide(i)
Spec == Init /\ [][Next]_vars

\* "a request whose own credentials are wrong or absent is answered 401 and its operation never reaches the RPC
\* layer, whatever other requests are in flight" and the mirror for right credentials
NoBadAccepted == \A i \in Reqs : cred[i] \notin CredRight => ~reached[i]
NoGoodRefused == \A i \in Reqs : pc[i] = "done" /\ cred[i] \in CredRight => reached[i] /\ status[i] # 401
Isolation == \A i \in Reqs : /\ (cred[i] \notin CredRight => ~reached[i])
                             /\ (pc[i] = "done" => Isolated(cred[i], status[i], reached[i]))
=============================================================================
