SPECIFICATION GenSpec
CONSTANTS
  CIDS = {"c1", "c2"}
  VALS = {"A", "B", "C"}
  MaxOps = 9
  MaxArm = 2
  MaxRArm = 0
  EmptySkip = TRUE
  AgeReset = TRUE
CONSTRAINT Emit
