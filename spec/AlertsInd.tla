---------------------------- MODULE AlertsInd ----------------------------
(***************************************************************************)
(* C18, part A of Concurrency.tla (Cluster.Alerts against alertsHandler),  *)
(* without the bounds TLC needs: any number of reads and writes.  The same *)
(* steps, no counters and no history variables, typed for Apalache, with   *)
(* an inductive invariant:                                                 *)
(*                                                                         *)
(*   apalache-mc check --init=IndInit --inv=IndInv --length=1 (induction)  *)
(*   apalache-mc check --init=Init    --inv=IndInv --length=0 (base)       *)
(*   IndInv => Safe is checked as  --init=IndInit --inv=Safe --length=0    *)
(*                                                                         *)
(* With SizedOutsideLock = FALSE (the repaired code: the result is sized   *)
(* under alertsMux) the three obligations hold, so no interleaving of any  *)
(* number of Alerts() calls and alert deliveries indexes out of range or   *)
(* returns a result with unset entries.  With SizedOutsideLock = TRUE (the *)
(* pinned commit) the induction step fails, which is the defect fixed by   *)
(* commit "fix: size the Alerts() result under alertsMux".                 *)
(* The list is bounded by the code itself (reset above MaxAlerts).         *)
(***************************************************************************)
EXTENDS Integers, Sequences, Apalache

CONSTANTS
    \* @type: Int;
    MaxAlerts,
    \* @type: Bool;
    SizedOutsideLock

VARIABLES
    \* @type: Seq(Int);
    alerts,
    \* @type: Str;
    lock,
    \* @type: Str;
    rpc,
    \* @type: Int;
    rn,
    \* @type: Str;
    wpc

vars == <<alerts, lock, rpc, rn, wpc>>

CInitFixed == MaxAlerts = 3 /\ SizedOutsideLock = FALSE
CInitAsCoded == MaxAlerts = 3 /\ SizedOutsideLock = TRUE

Init ==
    /\ alerts = <<>> /\ lock = "free"
    /\ rpc = "idle" /\ rn = 0 /\ wpc = "idle"

RSize ==
    /\ SizedOutsideLock /\ rpc = "idle"
    /\ rpc' = "sized" /\ rn' = Len(alerts)
    /\ UNCHANGED <<alerts, lock, wpc>>

RLock ==
    /\ lock = "free"
    /\ \/ (SizedOutsideLock /\ rpc = "sized" /\ rn' = rn)
       \/ (~SizedOutsideLock /\ rpc = "idle" /\ rn' = Len(alerts))
    /\ rpc' = "locked" /\ lock' = "rd"
    /\ UNCHANGED <<alerts, wpc>>

RCopyUnlock ==
    /\ rpc = "locked"
    /\ lock' = "free" /\ rpc' = "idle" /\ rn' = 0
    /\ UNCHANGED <<alerts, wpc>>

WLock ==
    /\ wpc = "idle" /\ lock = "free"
    /\ lock' = "wr" /\ wpc' = "locked"
    /\ UNCHANGED <<alerts, rpc, rn>>

WAppendUnlock ==
    /\ wpc = "locked"
    /\ alerts' = Append(IF Len(alerts) > MaxAlerts THEN <<>> ELSE alerts, 1)
    /\ lock' = "free" /\ wpc' = "idle"
    /\ UNCHANGED <<rpc, rn>>

Next == RSize \/ RLock \/ RCopyUnlock \/ WLock \/ WAppendUnlock

\* the copy loop `for i, a := range c.alerts { out[total-1-i] = a }` is in range, and fills every entry
Safe == rpc = "locked" => Len(alerts) = rn

TypeOK ==
    /\ lock \in {"free", "rd", "wr"}
    /\ rpc \in {"idle", "sized", "locked"}
    /\ wpc \in {"idle", "locked"}
    /\ rn \in 0..(MaxAlerts + 1)
    /\ Len(alerts) <= MaxAlerts + 1
    /\ \A i \in DOMAIN alerts : alerts[i] = 1

IndInv ==
    /\ TypeOK
    /\ (lock = "rd") <=> (rpc = "locked")
    /\ (lock = "wr") <=> (wpc = "locked")
    /\ Safe

\* an arbitrary state satisfying the invariant (Apalache needs a bounded generator for the sequence)
IndInit ==
    /\ alerts = Gen(5)
    /\ lock \in {"free", "rd", "wr"}
    /\ rpc \in {"idle", "sized", "locked"}
    /\ wpc \in {"idle", "locked"}
    /\ rn \in 0..4
    /\ IndInv
=============================================================================
