---------------------------- MODULE CrdtPinset ----------------------------
(***************************************************************************)
(* C02, second half - the replicated pinset: go-ds-crdt v0.1.21 as used by *)
(* consensus/crdt (set.go: Add / Rmv / Merge = putTombs then putElems /    *)
(* setValue / Element / InSet; crdt.go: addDAGNode, processNode).          *)
(*                                                                         *)
(* Transcribed as coded:                                                   *)
(*  * a delta carries elements (key,value), tombstones (key, id of the     *)
(*    delta that added the element) and a priority = height in the DAG;    *)
(*  * Merge(delta): all tombstones are stored first (deleteHook once per   *)
(*    key), then every element is stored under (key, delta id) and         *)
(*    setValue runs: skipped when (key, id) is already tombstoned, else    *)
(*    the (value, priority) register of the key is overwritten when the    *)
(*    delta's priority is higher, or equal with greater value bytes        *)
(*    (putHook fires exactly then).  Reads go to the store while writes go *)
(*    to a datastore batch, so every element of one delta is compared with *)
(*    the register as it was BEFORE the delta;                             *)
(*  * the register is never recomputed when an element is tombstoned;      *)
(*  * InSet(key) = some element of the key is not tombstoned; the value    *)
(*    returned for a key in the set is whatever the register holds.        *)
(* Delivery: a replica processes any delta it has not seen that some       *)
(* replica of its connected component has (this over-approximates the      *)
(* newest-first DAG walks and live oldest-first broadcasts of the code).   *)
(* Local operations are issued by a replica that is not behind its         *)
(* component (script discipline of the driver; Limit).                     *)
(*                                                                         *)
(* Property predicates: MembershipConvergence, ValueConvergence,           *)
(* HooksCoverStep, LocalEffect.                                            *)
(***************************************************************************)
EXTENDS Integers, Sequences, FiniteSets, TLC

CONSTANTS REPS, CIDS, VALS,
          VOrder        \* cid -> sequence of VALS, ascending by serialized bytes

Absent == "-"
Range(s) == {s[j] : j \in DOMAIN s}
Max(S) == CHOOSE x \in S : \A y \in S : y <= x

VRank(c, v) == IF v = Absent THEN 0 ELSE CHOOSE j \in DOMAIN VOrder[c] : VOrder[c][j] = v

VARIABLES
    deltas,   \* sequence; id = index: [elems, tombs, prio, parents]
    seen,     \* replica -> set of delta ids merged there
    elemsR,   \* replica -> set of [c, id]   (/s/<key>/<id>)
    tombsR,   \* replica -> set of [c, id]   (/t/<key>/<id>)
    reg,      \* replica -> cid -> [v, p]    (/k/<key>/v , /k/<key>/p)
    conn,     \* set of {r, s}
    fired,    \* hooks fired by the last step: sequence of [r, ev, c, v]
    last      \* the last step: [k, r, c, v]

vars == <<deltas, seen, elemsR, tombsR, reg, conn, fired, last>>

InSet(r, c) == \E e \in elemsR[r] : e.c = c /\ e \notin tombsR[r]
Pinset(r) == [c \in CIDS |-> IF InSet(r, c) THEN reg[r][c].v ELSE Absent]

Heads(r) == {d \in seen[r] : ~\E e \in seen[r] : d \in deltas[e].parents}
Height(r) == IF seen[r] = {} THEN 0 ELSE Max({deltas[d].prio : d \in seen[r]})

Adj(r) == {s \in REPS : {r, s} \in conn}
Grow(S) == S \cup UNION {Adj(x) : x \in S}
Comp(r) == Grow(Grow(Grow({r})))
Avail(r) == UNION {seen[s] : s \in Comp(r)}
Idle(r) == seen[r] = Avail(r)

-----------------------------------------------------------------------------
(* set.Merge(delta, id) at replica r; returns the new per-replica pieces *)

PassFrom(r, tombs1, d, id, e) ==
    /\ [c |-> e.c, id |-> id] \notin tombs1
    /\ \/ d.prio > reg[r][e.c].p
       \/ d.prio = reg[r][e.c].p /\ VRank(e.c, e.v) > VRank(e.c, reg[r][e.c].v)

MergeResult(r, d, id) ==
    LET tombs1 == tombsR[r] \cup d.tombs
        elems1 == elemsR[r] \cup {[c |-> d.elems[j].c, id |-> id] : j \in DOMAIN d.elems}
        passing == SelectSeq(d.elems, LAMBDA e : PassFrom(r, tombs1, d, id, e))
        lastFor(c) == LET js == {j \in DOMAIN passing : passing[j].c = c}
                      IN IF js = {} THEN reg[r][c] ELSE [v |-> passing[Max(js)].v, p |-> d.prio]
        tkeys == {t.c : t \in d.tombs}
        \* deleteHook once per tombstoned key (order among keys is the delta's; irrelevant here)
        dels == LET RECURSIVE S2Q(_)
                    S2Q(S) == IF S = {} THEN <<>> ELSE LET x == CHOOSE x \in S : TRUE
                                                       IN <<[r |-> r, ev |-> "untrack", c |-> x, v |-> Absent]>> \o S2Q(S \ {x})
                IN S2Q(tkeys)
        puts == [j \in DOMAIN passing |-> [r |-> r, ev |-> "track", c |-> passing[j].c, v |-> passing[j].v]]
    IN [tombs |-> tombs1, elems |-> elems1, reg |-> [c \in CIDS |-> lastFor(c)], hooks |-> dels \o puts]

ApplyMerge(r, d, id) ==
    LET m == MergeResult(r, d, id) IN
    /\ tombsR' = [tombsR EXCEPT ![r] = m.tombs]
    /\ elemsR' = [elemsR EXCEPT ![r] = m.elems]
    /\ reg' = [reg EXCEPT ![r] = m.reg]
    /\ seen' = [seen EXCEPT ![r] = @ \cup {id}]
    /\ fired' = m.hooks

-----------------------------------------------------------------------------
Init ==
    /\ deltas = <<>>
    /\ seen = [r \in REPS |-> {}]
    /\ elemsR = [r \in REPS |-> {}] /\ tombsR = [r \in REPS |-> {}]
    /\ reg = [r \in REPS |-> [c \in CIDS |-> [v |-> Absent, p |-> 0]]]
    /\ conn = {} /\ fired = <<>> /\ last = [k |-> "init"]

NewDelta(r, es, ts) == [elems |-> es, tombs |-> ts, prio |-> Height(r) + 1, parents |-> Heads(r)]

\* A delta is a content-addressed DAG node: two replicas that build the same delta (same elements,
\* tombstones, priority and parents - e.g. the same first pin on two fresh replicas) build the SAME
\* block, hence the same element id.
IdOf(d) == IF \E j \in DOMAIN deltas : deltas[j] = d THEN CHOOSE j \in DOMAIN deltas : deltas[j] = d
           ELSE Len(deltas) + 1
Publish(r, d) == /\ deltas' = IF IdOf(d) <= Len(deltas) THEN deltas ELSE Append(deltas, d)
                 /\ ApplyMerge(r, d, IdOf(d))

(* LogPin without batching: Datastore.Put -> set.Add -> publish -> addDAGNode -> processNode *)
LocalPin(r, c, v) ==
    /\ Idle(r)
    /\ Publish(r, NewDelta(r, <<[c |-> c, v |-> v]>>, {}))
    /\ last' = [k |-> "pin", r |-> r, c |-> c, v |-> v]
    /\ UNCHANGED conn

(* LogUnpin: Datastore.Delete -> set.Rmv (tombstones for the elements the store holds
   that are not tombstoned yet); nothing is published when there are none *)
LocalUnpin(r, c) ==
    /\ Idle(r)
    /\ LET ts == {e \in elemsR[r] : e.c = c /\ e \notin tombsR[r]} IN
         IF ts = {} THEN UNCHANGED <<deltas, seen, elemsR, tombsR, reg>> /\ fired' = <<>>
         ELSE Publish(r, NewDelta(r, <<>>, ts))
    /\ last' = [k |-> "unpin", r |-> r, c |-> c, v |-> Absent]
    /\ UNCHANGED conn

(* one datastore batch committed as ONE delta (batching enabled): ops = sequence of [k,c,v];
   Put appends an element, Delete drops the key's elements from the delta and
   tombstones what the store holds (crdt.go updateDeltaWithRemove) *)
RECURSIVE BatchDelta(_, _, _, _)
BatchDelta(r, ops, es, ts) ==
    IF ops = <<>> THEN [elems |-> es, tombs |-> ts]
    ELSE LET o == Head(ops) IN
         IF o.k = "pin" THEN BatchDelta(r, Tail(ops), Append(es, [c |-> o.c, v |-> o.v]), ts)
         ELSE BatchDelta(r, Tail(ops), SelectSeq(es, LAMBDA e : e.c # o.c),
                         ts \cup {e \in elemsR[r] : e.c = o.c /\ e \notin tombsR[r]})
LocalBatch(r, ops) ==
    /\ Idle(r)
    /\ LET b == BatchDelta(r, ops, <<>>, {}) IN Publish(r, NewDelta(r, b.elems, b.tombs))
    /\ last' = [k |-> "batch", r |-> r, ops |-> ops]
    /\ UNCHANGED conn

(* a replica merges a delta it has not seen and that its component has *)
Process(r, id) ==
    /\ id \in Avail(r) \ seen[r]
    /\ ApplyMerge(r, deltas[id], id)
    /\ last' = [k |-> "proc", r |-> r, id |-> id]
    /\ UNCHANGED <<deltas, conn>>

Connect(r, s) ==
    /\ r # s /\ {r, s} \notin conn
    /\ conn' = conn \cup {{r, s}}
    /\ fired' = <<>> /\ last' = [k |-> "connect", r |-> r, s |-> s]
    /\ UNCHANGED <<deltas, seen, elemsR, tombsR, reg>>

-----------------------------------------------------------------------------
(* Property predicates *)

\* replicas that have merged the same updates hold the same pinset ...
MembershipConvergence == \A r, s \in REPS : seen[r] = seen[s] => \A c \in CIDS : InSet(r, c) = InSet(s, c)
\* ... including the stored pin (options, allocations)
ValueConvergence == \A r, s \in REPS : seen[r] = seen[s] => Pinset(r) = Pinset(s)

\* every change that lands in a replica's pinset is handed to its tracker in the same step
HookFor(r, c, new) == \E j \in DOMAIN fired' :
                         /\ fired'[j].r = r /\ fired'[j].c = c
                         /\ IF new = Absent THEN fired'[j].ev = "untrack"
                                            ELSE fired'[j].ev = "track" /\ fired'[j].v = new
HooksCoverStep == [][\A r \in REPS, c \in CIDS :
                        Pinset(r)'[c] # Pinset(r)[c] => HookFor(r, c, Pinset(r)'[c])]_vars

\* a replica's own operation takes effect on that replica (last describes the step that led here)
LocalEffect == /\ (last.k = "pin" => Pinset(last.r)[last.c] = last.v)
               /\ (last.k = "unpin" => Pinset(last.r)[last.c] = Absent)
=============================================================================
