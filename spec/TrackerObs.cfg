SPECIFICATION Spec
CONSTANTS
  CIDS = {"c1"}
  K = 1
  Q = 1
  MaxInstr = 0
  MaxFail = 0
  GatedFinish = FALSE
  Eager = TRUE
  RecoverUsesStatePin = TRUE
  StatusAllListsDirect = TRUE
  DirOverRecStuck = TRUE
