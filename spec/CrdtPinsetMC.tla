--------------------------- MODULE CrdtPinsetMC ---------------------------
(* Exhaustive check of the replicated set: all operation histories, all    *)
(* connection orders and all delivery orders within the bounds.            *)
EXTENDS CrdtPinset

CONSTANTS MaxDeltas, MaxOps, WithBatch

VARIABLES nops, hist
mcvars == <<vars, nops, hist>>

MCVOrder == [c \in CIDS |-> <<"B", "A", "C">>]

Pairs == {<<"pin", c, v>> : c \in CIDS, v \in VALS} \cup {<<"unpin", c, Absent>> : c \in CIDS}
ToOp(p) == [k |-> p[1], c |-> p[2], v |-> p[3]]

MCInit == Init /\ nops = 0 /\ hist = <<>>

MCNext ==
    \/ /\ nops < MaxOps /\ Len(deltas) < MaxDeltas
       /\ \E r \in REPS :
            \/ \E c \in CIDS, v \in VALS : LocalPin(r, c, v)
            \/ \E c \in CIDS : LocalUnpin(r, c)
            \/ /\ WithBatch
               /\ \E p1, p2 \in Pairs : LocalBatch(r, <<ToOp(p1), ToOp(p2)>>)
       /\ nops' = nops + 1 /\ hist' = Append(hist, last')
    \/ /\ \E r, s \in REPS : Connect(r, s)
       /\ hist' = Append(hist, last') /\ UNCHANGED nops
    \/ /\ \E r \in REPS : \E id \in 1..Len(deltas) : Process(r, id)
       /\ hist' = Append(hist, last') /\ UNCHANGED nops

MCSpec == MCInit /\ [][MCNext]_mcvars

\* value convergence restricted to histories without any removal (no tombstone anywhere)
NoTombs == \A j \in DOMAIN deltas : deltas[j].tombs = {}
ValueConvergenceNoRemove == NoTombs => ValueConvergence

\* hist is only there to read scripts off counterexamples
View == <<vars, nops>>
=============================================================================
