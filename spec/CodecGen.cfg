SPECIFICATION Spec
