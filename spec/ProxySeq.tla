----------------------------- MODULE ProxySeq -----------------------------
(* Sequences of requests to the pinning endpoints: the pinset left by one *)
(* request is the pinset before the next.  Exhaustive run: every request  *)
(* of SeqRequests from every reachable pinset (VIEW = the pinset); the    *)
(* statement's predicates are asserted on every transition.  Simulation   *)
(* runs produce the scripts that the driver replays on the real proxy     *)
(* without resetting the harness cluster between the steps.               *)
EXTENDS Proxy

VARIABLES ps, last, init

S == [Blank EXCEPT !.world = "seq"]
SeqRequests ==
    {[S EXCEPT !.route = "pin/add", !.style = "query", !.arg = a, !.type = t] :
        a \in {"cP", "cU", "pR", "pQ", "pN"}, t \in {NA, "direct"}} \cup
    {[S EXCEPT !.route = r, !.style = "slash", !.arg = a] : r \in {"pin/add", "pin/rm", "pin/ls"}, a \in {"cP", "cU"}} \cup
    {[S EXCEPT !.route = "pin/rm", !.style = "query", !.arg = a] : a \in {"cP", "cU", "pR", "pQ"}} \cup
    {[S EXCEPT !.route = "pin/ls", !.style = "query", !.arg = a] : a \in {"none", "cP", "cU"}} \cup
    {[S EXCEPT !.route = "pin/update", !.style = "query", !.arg = f, !.arg2 = t, !.unpin = u] :
        f \in {"cP", "cU", "pQ"}, t \in {"cU", "pR", "pN"}, u \in {NA, "false"}} \cup
    {[S EXCEPT !.route = "add", !.body = "mp", !.pin = p, !.name = n, !.onlyhash = oh] :
        p \in {NA, "false"}, n \in {NA, "n1"}, oh \in {NA, "true"}} \cup
    {[S EXCEPT !.route = "add", !.body = "mp", !.pin = p, !.fault = f] : p \in {NA, "false"}, f \in {"pin", "put1"}} \cup
    {[S EXCEPT !.route = "repo/gc", !.streamerr = "true", !.gcerr = "2"]} \cup
    {[S EXCEPT !.route = "pin/add", !.style = "slash", !.arg = "cU", !.enc = "both"],
     [S EXCEPT !.route = "pin/rm", !.style = "query", !.arg = "cP", !.enc = "slash"],
     [S EXCEPT !.route = "pin/update", !.style = "query", !.arg = "cP", !.arg2 = "pR", !.enc = "letter"],
     [S EXCEPT !.route = "repo/gc"], [S EXCEPT !.method = "OPTIONS", !.route = "pin/rm", !.style = "query", !.arg = "cP"],
     [S EXCEPT !.method = "GET", !.pathk = "nm-suffix", !.qk = "arglike", !.bk = "none"]}

Init == \E w \in Worlds : init = w /\ ps = World(w) /\ last = S

Step(r) ==
    LET o == ObsOf(r, ps) IN
    /\ Assert(Good(r, o), <<"the transcription breaks the statement", r, ps>>)
    /\ Assert(Conforms(r, o), <<"ObsOf does not conform", r, ps>>)
    /\ ps' = (IF Hijacked(r) THEN Exp(r, ps).ps ELSE ps)
    /\ last' = r
    /\ UNCHANGED init

Next == \E r \in SeqRequests : Step(r)
Spec == Init /\ [][Next]_<<ps, last, init>>

View == ps

\* the pinset stays a function of the CID and only ever holds what was asked for
WellFormed == /\ \A p, q \in ps : p.cid = q.cid => p = q
              /\ Cids(ps) \subseteq {"cP", "cQ", "cU", "cR", "root"}
              /\ \A p \in ps : p.mode \in {"recursive", "direct"}
\* an error answer never changes the pinset (ErrorMeansNoOp over sequences), checked as an action property
ErrKeeps == [][\A r \in SeqRequests : (Hijacked(r) /\ Exp(r, ps).err /\ last' = r) => ps' = ps]_<<ps, last, init>>
=============================================================================
