SPECIFICATION Spec
CONSTANTS
  DepthRule = "fixed"
  MaxBlocks = 3
  Sizes = {1, 2}
  Limits = {3, 4}
  MaxLinksC = 2
  FaultAt = {1, 2, 3}
  NFaults = 1
  PinFailAt = {0, 1, 2, 3}
INVARIANT SafeAlways
INVARIANT GoodAtEnd
INVARIANT RunAgrees
