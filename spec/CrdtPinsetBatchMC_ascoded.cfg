SPECIFICATION Spec
CONSTANTS
  CIDS = {"c1", "c2"}
  VALS = {"A", "B"}
  MaxOps = 4
  MaxArm = 2
  MaxRArm = 0
  EmptySkip = TRUE
  AgeReset = FALSE
INVARIANT EffectIsPrefix
INVARIANT HooksCover
INVARIANT NothingLost
