----------------------------- MODULE Cluster -----------------------------
(***************************************************************************)
(* Composition: N peers, one shared pinset, per-peer hand-off to the pin   *)
(* tracker and the peer's IPFS daemon.  This is the user-level promise the *)
(* individual properties add up to:                                        *)
(*                                                                         *)
(*   when nothing is in flight and every daemon is healthy, each live      *)
(*   peer's IPFS daemon holds exactly the pins the shared pinset assigns   *)
(*   to it, in the recorded mode.                                          *)
(*                                                                         *)
(* The parts are abstractions of the detailed modules:                     *)
(*   Pin / Unpin / Update   ClusterAPI.tla (C04), allocation = any result  *)
(*                          Allocator.tla's Good allows (C03)              *)
(*   Apply(p)               consensus applies the next committed operation *)
(*                          on peer p and hands it to p's tracker          *)
(*                          (RaftPinset.tla / CrdtPinset.tla, C01 / C02)   *)
(*   TrackerStep(p)         the tracker + connector carry out the oldest   *)
(*                          pending instruction (Tracker.tla, C05; the     *)
(*                          daemon is healthy here, failures are C05's)    *)
(*   PeerFail(q)            monitor alert -> exactly one survivor re-homes *)
(*                          the under-replicated pins (ClusterAPI.tla C10, *)
(*                          Monitor.tla C09)                               *)
(*   IpfsDown(p)/IpfsHeal(p) p's IPFS daemon stops / resumes answering; an  *)
(*                          instruction carried out meanwhile fails and    *)
(*                          leaves an error entry in p's tracker           *)
(*   RecoverAll(p)          the operator's (or the periodic) recover: every *)
(*                          error entry is retried with the pin the shared *)
(*                          state holds now (Tracker.tla Recover, C05)     *)
(*                                                                         *)
(* The end-to-end driver (harness/c05_e2e) runs TLC-simulated behaviours   *)
(* of this module on real Cluster peers (real allocator, real stateless    *)
(* tracker, real ipfshttp connector, the repository's mock IPFS daemon)    *)
(* and ClusterObs.tla judges the final states.                             *)
(***************************************************************************)
EXTENDS Integers, Sequences, FiniteSets, TLC

CONSTANTS PEERS, CIDS, MaxOps,
          MaxOut,    \* how many daemon outages a behaviour may contain
          HandoffOrdered \* TRUE: a peer's tracker receives the applied entries in commit order (crdt put/delete
                     \* hooks are synchronous).  FALSE: as raft's LogOp.ApplyTo does it - one goroutine per applied
                     \* entry (rpcClient.GoContext), so two entries may reach the tracker in either order

VARIABLES
    log,      \* the committed sequence of pinset operations
    applied,  \* peer -> how many log entries it has applied
    todo,     \* peer -> sequence of tracker instructions not yet carried out
    ipfs,     \* peer -> cid -> "none" | "rec" | "dir"
    up,       \* live peers
    dok,      \* peers whose IPFS daemon answers
    failed,   \* peer -> cid -> "none" | "pin" | "unpin": the error entry p's tracker holds for the cid
    outs,     \* outages so far
    left,     \* peer -> CIDs whose best-effort local unpin (pin moved to other peers) failed: the tracker
              \* reports such a CID as "remote" and recover does not retry it (tolerated by design, C05)
    act

vars == <<log, applied, todo, ipfs, up, dok, failed, outs, left, act>>

NoPin == [k |-> "none", mode |-> "-", allocs |-> {}, everywhere |-> FALSE, rmin |-> 0, rmax |-> 0, exp |-> FALSE]

\* the pinset after the first n log entries
RECURSIVE PinsetAt(_)
PinsetAt(n) ==
    IF n = 0 THEN [c \in CIDS |-> NoPin]
    ELSE LET ps == PinsetAt(n - 1)  op == log[n] IN
         IF op.k = "pin" THEN [ps EXCEPT ![op.cid] = op.pin] ELSE [ps EXCEPT ![op.cid] = NoPin]

Pinset == PinsetAt(Len(log))

AssignedMode(pin, p) ==
    IF pin.k = "none" THEN "none"
    ELSE IF pin.everywhere \/ p \in pin.allocs THEN pin.mode ELSE "none"

Init ==
    /\ log = <<>>
    /\ applied = [p \in PEERS |-> 0]
    /\ todo = [p \in PEERS |-> <<>>]
    /\ ipfs = [p \in PEERS |-> [c \in CIDS |-> "none"]]
    /\ up = PEERS
    /\ dok = PEERS
    /\ failed = [p \in PEERS |-> [c \in CIDS |-> "none"]]
    /\ outs = 0
    /\ left = [p \in PEERS |-> {}]
    /\ act = [name |-> "Init"]

\* allocations a correct allocator may choose (C03): between rmin and rmax
\* live peers, keeping the live current holders when there are not too many
GoodAllocs(cur, rmin, rmax) ==
    {a \in SUBSET up :
        /\ Cardinality(a) >= rmin /\ Cardinality(a) <= rmax
        /\ (Cardinality(cur \cap up) <= rmax => (cur \cap up) \subseteq a)}

Pin(at, c, mode, rmin, rmax) ==
    /\ Len(log) < MaxOps /\ at \in up
    /\ LET old == Pinset[c] IN
        /\ ~(old.k = "pin" /\ old.mode = "rec" /\ mode = "dir")      \* refused (C04)
        /\ IF rmin = -1
             THEN log' = Append(log, [k |-> "pin", cid |-> c,
                         pin |-> [k |-> "pin", mode |-> mode, allocs |-> {}, everywhere |-> TRUE, rmin |-> -1, rmax |-> -1, exp |-> FALSE]])
             ELSE \E a \in GoodAllocs(old.allocs, rmin, rmax) :
                    log' = Append(log, [k |-> "pin", cid |-> c,
                         pin |-> [k |-> "pin", mode |-> mode, allocs |-> a, everywhere |-> FALSE, rmin |-> rmin, rmax |-> rmax, exp |-> FALSE]])
    /\ act' = [name |-> "Pin", at |-> at, cid |-> c, mode |-> mode, rmin |-> rmin, rmax |-> rmax]
    /\ UNCHANGED <<applied, todo, ipfs, up, dok, failed, outs, left>>

Unpin(at, c) ==
    /\ Len(log) < MaxOps /\ at \in up /\ Pinset[c].k = "pin"
    /\ log' = Append(log, [k |-> "unpin", cid |-> c, pin |-> NoPin])
    /\ act' = [name |-> "Unpin", at |-> at, cid |-> c]
    /\ UNCHANGED <<applied, todo, ipfs, up, dok, failed, outs, left>>

\* pin update (C04): the new CID gets the source's mode, factors and allocations; the source stays
PinUpdate(at, from, to) ==
    /\ Len(log) < MaxOps /\ at \in up /\ from # to
    /\ Pinset[from].k = "pin" /\ Pinset[to].k = "none"
    /\ log' = Append(log, [k |-> "pin", cid |-> to, pin |-> [Pinset[from] EXCEPT !.exp = FALSE]])
    /\ act' = [name |-> "PinUpdate", at |-> at, from |-> from, cid |-> to]
    /\ UNCHANGED <<applied, todo, ipfs, up, dok, failed, outs, left>>

\* a pin is given an expiry that has now passed (time is not modelled: the pin is re-logged as expired)
PinExpiring(at, c) ==
    /\ Len(log) < MaxOps /\ at \in up /\ Pinset[c].k = "pin" /\ ~Pinset[c].exp
    /\ log' = Append(log, [k |-> "pin", cid |-> c, pin |-> [Pinset[c] EXCEPT !.exp = TRUE]])
    /\ act' = [name |-> "PinExpiring", at |-> at, cid |-> c]
    /\ UNCHANGED <<applied, todo, ipfs, up, dok, failed, outs, left>>

\* StateSync on every live peer (C10): each expired pin is unpinned, by exactly one peer
StateSyncAll ==
    /\ LET ex == {c \in CIDS : Pinset[c].k = "pin" /\ Pinset[c].exp}
           sq == CHOOSE s \in [1..Cardinality(ex) -> ex] : \A i, j \in DOMAIN s : i # j => s[i] # s[j]
       IN /\ ex # {}
          /\ log' = log \o [i \in 1..Cardinality(ex) |-> [k |-> "unpin", cid |-> sq[i], pin |-> NoPin]]
    /\ act' = [name |-> "StateSyncAll"]
    /\ UNCHANGED <<applied, todo, ipfs, up, dok, failed, outs, left>>

\* consensus applies the next entry on p and hands it to the tracker
InsertAt(sq, i, e) == SubSeq(sq, 1, i) \o <<e>> \o SubSeq(sq, i + 1, Len(sq))
Apply(p) ==
    /\ p \in up /\ applied[p] < Len(log)
    /\ applied' = [applied EXCEPT ![p] = @ + 1]
    /\ IF HandoffOrdered
         THEN todo' = [todo EXCEPT ![p] = Append(@, log[applied[p] + 1])]
         ELSE \E i \in 0..Len(todo[p]) : todo' = [todo EXCEPT ![p] = InsertAt(@, i, log[applied[p] + 1])]
    /\ act' = [name |-> "Apply", p |-> p]
    /\ UNCHANGED <<log, ipfs, up, dok, failed, outs, left>>

\* tracker + connector + daemon carry out the oldest instruction; with the daemon down (or a direct
\* pin over a recursive one, C05 finding) the call fails and the tracker keeps an error entry
TrackerStep(p) ==
    /\ p \in up /\ todo[p] # <<>>
    /\ LET op   == Head(todo[p])
           want == IF op.k = "unpin" THEN "none" ELSE AssignedMode(op.pin, p)
           refused == ipfs[p][op.cid] = "rec" /\ want = "dir"
           remote == op.k = "pin" /\ want = "none"       \* Track of a pin allocated elsewhere: synchronous, best-effort unpin
       IN IF p \in dok /\ ~refused
            THEN /\ ipfs' = [ipfs EXCEPT ![p][op.cid] = want]
                 /\ failed' = [failed EXCEPT ![p][op.cid] = "none"]
                 /\ left' = [left EXCEPT ![p] = @ \ {op.cid}]
            ELSE IF remote
            THEN /\ ipfs' = ipfs
                 /\ failed' = [failed EXCEPT ![p][op.cid] = "none"]      \* the operation is of type "remote": no error status
                 /\ left' = [left EXCEPT ![p] = IF ipfs[p][op.cid] # "none" THEN @ \cup {op.cid} ELSE @]
            ELSE /\ ipfs' = ipfs
                 /\ failed' = [failed EXCEPT ![p][op.cid] = IF want = "none" THEN "unpin" ELSE "pin"]
                 /\ left' = left
    /\ todo' = [todo EXCEPT ![p] = Tail(@)]
    /\ act' = [name |-> "TrackerStep", p |-> p]
    /\ UNCHANGED <<log, applied, up, dok, outs>>

IpfsDown(p) ==
    /\ p \in up /\ p \in dok /\ outs < MaxOut
    /\ dok' = dok \ {p} /\ outs' = outs + 1
    /\ act' = [name |-> "IpfsDown", p |-> p]
    /\ UNCHANGED <<log, applied, todo, ipfs, up, failed, left>>

IpfsHeal(p) ==
    /\ p \in up /\ p \notin dok
    /\ dok' = dok \cup {p}
    /\ act' = [name |-> "IpfsHeal", p |-> p]
    /\ UNCHANGED <<log, applied, todo, ipfs, up, failed, outs, left>>

\* RecoverAll on p (daemon answering, nothing else in flight on p): every error entry is retried, a
\* failed pin with the pin the shared state holds now, a failed unpin as an unpin
RecoverAll(p) ==
    /\ p \in up /\ p \in dok /\ applied[p] = Len(log) /\ todo[p] = <<>>
    /\ LET fs == {c \in CIDS : failed[p][c] # "none"}
           sq == CHOOSE s \in [1..Cardinality(fs) -> fs] : \A i, j \in DOMAIN s : i # j => s[i] # s[j]
       IN /\ fs # {}
          /\ todo' = [todo EXCEPT ![p] = [i \in 1..Cardinality(fs) |->
                        IF failed[p][sq[i]] = "pin" /\ Pinset[sq[i]].k = "pin"
                          THEN [k |-> "pin", cid |-> sq[i], pin |-> Pinset[sq[i]]]
                          ELSE [k |-> "unpin", cid |-> sq[i], pin |-> NoPin]]]
    /\ act' = [name |-> "RecoverAll", p |-> p]
    /\ UNCHANGED <<log, applied, ipfs, up, dok, failed, outs, left>>

\* q fails; exactly one survivor re-homes every pin that fell below its minimum
PeerFail(q) ==
    /\ q \in up /\ Cardinality(up) > 1
    /\ up' = up \ {q}
    /\ LET ps == Pinset
           hit == {c \in CIDS : ps[c].k = "pin" /\ ~ps[c].everywhere /\ q \in ps[c].allocs}
       IN \E newallocs \in [hit -> SUBSET (up \ {q})] :
            /\ \A c \in hit :
                 LET live == ps[c].allocs \cap (up \ {q}) IN
                 IF Cardinality(live) >= ps[c].rmin
                    THEN newallocs[c] = ps[c].allocs                 \* still meets its minimum: untouched (C10)
                    ELSE /\ live \subseteq newallocs[c]
                         /\ Cardinality(newallocs[c]) >= ps[c].rmin
                         /\ Cardinality(newallocs[c]) <= ps[c].rmax
            /\ LET chg == {c \in hit : newallocs[c] # ps[c].allocs}
                   seqc == CHOOSE s \in [1..Cardinality(chg) -> chg] : \A i, j \in DOMAIN s : i # j => s[i] # s[j]
               IN log' = log \o [i \in 1..Cardinality(chg) |->
                            [k |-> "pin", cid |-> seqc[i], pin |-> [ps[seqc[i]] EXCEPT !.allocs = newallocs[seqc[i]]]]]
    /\ act' = [name |-> "PeerFail", q |-> q]
    /\ UNCHANGED <<applied, todo, ipfs, dok, failed, outs, left>>

Next ==
    \/ \E at \in PEERS, c \in CIDS, m \in {"rec", "dir"} :
          Pin(at, c, m, 1, 1) \/ Pin(at, c, m, 1, 2) \/ Pin(at, c, m, 2, 3) \/ Pin(at, c, m, -1, -1)
    \/ \E at \in PEERS, c \in CIDS : Unpin(at, c) \/ PinExpiring(at, c)
    \/ \E at \in PEERS, c, d \in CIDS : PinUpdate(at, c, d)
    \/ StateSyncAll
    \/ \E p \in PEERS : Apply(p) \/ TrackerStep(p) \/ PeerFail(p)
    \/ \E p \in PEERS : IpfsDown(p) \/ IpfsHeal(p) \/ RecoverAll(p)

Spec == Init /\ [][Next]_vars

Settled == \A p \in up : applied[p] = Len(log) /\ todo[p] = <<>>

\* no expired pin survives a StateSync round that follows its expiry (checked on real runs:
\* the driver always ends with a StateSync round)
NoExpiredOn(ps) == \A c \in DOMAIN ps : ~(ps[c].k = "pin" /\ ps[c].exp)

\* the end-to-end promise (the tolerated class of C05: a direct pin of a CID the
\* daemon still holds recursively)
E2EOn(ps, ip, live, lft) ==
    \A p \in live : \A c \in DOMAIN ps :
        \/ ip[p][c] = AssignedMode(ps[c], p)
        \/ (ip[p][c] = "rec" /\ AssignedMode(ps[c], p) = "dir")
        \* a pin that moved to other peers while the local daemon was failing stays pinned locally (best effort)
        \/ (c \in lft[p] /\ ps[c].k = "pin" /\ AssignedMode(ps[c], p) = "none")

NoFailed == \A p \in up : \A c \in CIDS : failed[p][c] = "none" \/ (failed[p][c] = "pin" /\ ipfs[p][c] = "rec" /\ AssignedMode(Pinset[c], p) = "dir")
E2EInv == (Settled /\ NoFailed) => E2EOn(Pinset, ipfs, up, left)

\* an error entry is never silently lost: while a live peer's daemon differs from its assignment and
\* nothing is in flight, the tracker holds an error entry for that CID (so that recover can repair it)
ErrorKept == Settled => \A p \in up : \A c \in CIDS :
    (ipfs[p][c] # AssignedMode(Pinset[c], p)) => (failed[p][c] # "none" \/ c \in left[p])

\* liveness: with fairness on the internal steps, healing and recovering, the cluster always gets
\* back to agreement between daemons and pinset
Fair == /\ \A p \in PEERS : WF_vars(Apply(p)) /\ WF_vars(TrackerStep(p)) /\ WF_vars(IpfsHeal(p)) /\ SF_vars(RecoverAll(p))
LiveSpec == Spec /\ Fair
Agreement == Settled /\ E2EOn(Pinset, ipfs, up, left)
EventuallyAgrees == []<>Agreement

\* allocations name live peers at the time they are made and respect the factors
AllocInv == \A c \in CIDS :
    LET pin == Pinset[c] IN
    (pin.k = "pin" /\ ~pin.everywhere) => (Cardinality(pin.allocs) >= 1 /\ Cardinality(pin.allocs \cap up) <= pin.rmax)
=============================================================================
