SPECIFICATION MCSpec
CONSTANT NPEERS = 2
CONSTANT NCIDS = 2
CONSTANT Variants = {"a","b"}
CONSTANT RestoreMode = "merge"
CONSTANT MaxLog = 4
CONSTANT MaxSnaps = 1
CONSTANT MaxDowns = 0
CONSTANT MaxFaults = 0
CONSTANT MaxInstalls = 1
VIEW View
INVARIANT PrefixInv
