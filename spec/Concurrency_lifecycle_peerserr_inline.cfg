SPECIFICATION LifeSpec
CONSTANTS
  MaxAlerts = 2
  NWrites = 0
  NReads = 0
  SizedOutsideLock = FALSE
  ShutdownInline = FALSE
  PeersErrInline = TRUE
  ClientGuarded = TRUE
  NInformers = 0
  LoopVarShared = FALSE
  NCheckers = 0
  NChecks = 0
  MaxVer = 1
  DistShared = FALSE
  NEntries = 0
  NestedRead = FALSE
  Part = "lifecycle"
INVARIANTS NoSelfWait
PROPERTIES EventuallyStopped UserShutdownReturns
