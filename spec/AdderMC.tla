------------------------------ MODULE AdderMC ------------------------------
(* Exhaustive design check for C13: for every small input (block stream,    *)
(* parameters, allocation / block-put / pin fault script) the transcribed   *)
(* DAG services are run call by call; the safety part of the property is    *)
(* evaluated after every DAGService call and the whole property at the end. *)
EXTENDS Adder

CONSTANTS MaxBlocks,     \* distinct blocks per stream: 1..MaxBlocks
          Sizes,         \* set of block sizes
          Limits,        \* set of shard size limits
          MaxLinksC,     \* MaxLinks (code: 5984)
          FaultAt,       \* put-call indexes (per destination) at which a fault may be placed
          NFaults,       \* 1 or 2 simultaneous faults
          PinFailAt      \* indexes of the Cluster.Pin call that may fail (0 = none)

VARIABLES in, s, i, stage
vars == <<in, s, i, stage>>

Bid(k) == "b" \o ToString(k)

\* block tables: n blocks; kind "none": no links; "root": the last block links to all others
Blocks(n, sz, kind) ==
    [k \in 1..n |-> [id |-> Bid(k), size |-> sz[k],
                     links |-> IF kind = "root" /\ k = n THEN [j \in 1..(n - 1) |-> Bid(j)] ELSE <<>>]]

\* streams: 1..n in order, optionally block 1 handed in a second time after position d
Streams(n) == {[k \in 1..n |-> k]} \cup
              {[k \in 1..(n + 1) |-> IF k <= d THEN k ELSE IF k = d + 1 THEN 1 ELSE k - 1] : d \in 1..n}

AllocOK(ps) == [ok |-> TRUE, peers |-> ps]
AllocErr    == [ok |-> FALSE, peers |-> <<>>]
AllocScripts ==
    {<<AllocOK(<<"p1">>)>>, <<AllocOK(<<"p1", "p2">>)>>, <<AllocOK(<<"p2", "p3">>)>>,
     <<AllocOK(<<"p1", "p2">>), AllocOK(<<"p2", "p3">>)>>,       \* a different set for later shards
     <<AllocErr>>, <<AllocOK(<<"p2", "p3">>), AllocErr>>}

\* fault scripts: the local peer cannot fail at the RPC level
Fault == {f \in [d : {"p1", "p2", "p3"}, k : FaultAt, r : {"app", "rpc"}] : ~(f.d = "p1" /\ f.r = "rpc")}
FaultSets == {F \in SUBSET Fault : Cardinality(F) <= NFaults /\
                                   \A f, g \in F : (f.d = g.d /\ f.k = g.k) => f = g}
MaxK == IF FaultAt = {} THEN 0 ELSE MaxOf(FaultAt)
OutScript(F) ==
    [d \in {"p1", "p2", "p3"} |->
        [k \in 1..MaxK |-> IF \E f \in F : f.d = d /\ f.k = k
                           THEN (CHOOSE f \in F : f.d = d /\ f.k = k).r ELSE "ok"]]

PinScripts == {[j \in 1..k |-> j # k] : k \in PinFailAt}

Seeds == {[n |-> n, sz |-> sz, shard |-> sh] : n \in 1..MaxBlocks, sz \in UNION {[1..m -> Sizes] : m \in 1..MaxBlocks},
                                              sh \in BOOLEAN}

CasesFor(sd) ==
    {[blk |-> Blocks(sd.n, sd.sz, kind), stream |-> st, root |-> Bid(sd.n),
      shard |-> sd.shard, shardSize |-> lim, maxLinks |-> MaxLinksC,
      rmin |-> f[1], rmax |-> f[2], local |-> loc, name |-> "n",
      alloc |-> al, out |-> OutScript(F), pinres |-> pr] :
        kind \in {"none", "root"}, st \in Streams(sd.n),
        lim \in (IF sd.shard THEN Limits ELSE {MaxOf(Limits)}),
        f \in {<<1, 2>>, <<-1, -1>>}, loc \in (IF sd.shard THEN {FALSE} ELSE BOOLEAN),
        al \in AllocScripts, F \in FaultSets, pr \in PinScripts}

\* the graph an observer decodes from the delivered bytes
ObsGraph(st) ==
    LET del == DeliveredSet([evs |-> st.evs])
    IN [x \in del |->
          IF \E k \in DOMAIN in.blk : in.blk[k].id = x
          THEN LET k == CHOOSE k \in DOMAIN in.blk : in.blk[k].id = x
               IN [links |-> in.blk[k].links, size |-> in.blk[k].size]
          ELSE [links |-> (CHOOSE m \in st.meta : m.id = x).links, size |-> 1]]
Obs(st) == [ok |-> st.ok, root |-> st.root, evs |-> st.evs, graph |-> ObsGraph(st)]

Init == /\ stage = 0 /\ i = 0 /\ s = [done |-> FALSE]
        /\ in \in {[seed |-> sd] : sd \in {x \in Seeds : DOMAIN x.sz = 1..x.n}}
Next ==
    \/ /\ stage = 0 /\ stage' = 1 /\ i' = 1
       /\ in' \in CasesFor(in.seed)
       /\ s' = Start(in')
    \/ /\ stage = 1 /\ ~s.done /\ i <= Len(in.stream)
       /\ s' = Add(in, s, in.stream[i]) /\ i' = i + 1 /\ UNCHANGED <<in, stage>>
    \/ /\ stage = 1 /\ ~s.done /\ i > Len(in.stream)
       /\ s' = Finalize(in, s) /\ UNCHANGED <<in, i, stage>>
Spec == Init /\ [][Next]_vars

\* after every DAGService call: nothing pinned that the statement forbids so far
SafeAlways ==
    stage = 1 =>
        LET o == [Obs(s) EXCEPT !.ok = s.done /\ s.ok]
        IN UnderLimit(in, o) /\ DepthCovers(in, o) /\ FailureNoRootPin(in, o)
\* at the end: the whole property
GoodAtEnd == (stage = 1 /\ s.done) => Good(in, Obs(s))
\* the step-wise execution and the closed form agree (Run is what AdderTrace uses)
RunAgrees == (stage = 1 /\ s.done) => Events(Run(in)) = Events(s)
=============================================================================
