------------------------------ MODULE RestAPI ------------------------------
(***************************************************************************)
(* C11 - the REST API is fail-closed, authenticated and faithful.          *)
(*                                                                         *)
(* Kept apart on purpose (as in Allocator.tla):                            *)
(*                                                                         *)
(*  * the ROUTE TABLE and Expected(req): the transcription of              *)
(*    api/rest/restapi.go (basicAuthHandler > cors > gorilla router >      *)
(*    handler > parseCidOrError / parsePinPathOrError / parsePidOrError >  *)
(*    PinOptions.FromQuery / AddParamsFromQuery > one RPC > sendResponse): *)
(*    which statuses, which RPC calls with which argument projection, how  *)
(*    many JSON documents.  Conforms(req, obs) compares an observation     *)
(*    with it.                                                             *)
(*                                                                         *)
(*  * the PROPERTY predicates SingleDoc, AuthFirst, NoRouteNoOp,           *)
(*    FailClosed, Faithful (and ClientFaithful for the bundled client),    *)
(*    written from the statement.  Good(req, obs) is their conjunction.    *)
(*                                                                         *)
(* RestAPIMC checks  Good(req, Expected(req))  for every enumerated        *)
(* request (except the declared as-coded deviations, which must fail);     *)
(* RestAPITrace evaluates Good and Conforms on (request, observation)      *)
(* pairs recorded from the real rest.API / rest client.                    *)
(*                                                                         *)
(* All values are strings / integers / sequences so they travel by JSON.   *)
(***************************************************************************)
EXTENDS Integers, Sequences, FiniteSets, TLC

(***************************************************************************)
(* Route table.                                                            *)
(*   pat    : URL shape (see PatKnown); gorilla patterns                   *)
(*   args   : argument kinds the handler decodes                           *)
(*   svc/m  : the RPC the route names; mloc when ?local=true               *)
(*   arg    : projection of the RPC argument                               *)
(*   okst   : status when the cluster answers without error                *)
(*   nf     : status when the cluster answers "not found"                  *)
(*   errst  : status when the cluster answers another error                *)
(***************************************************************************)
Rt(name, method, pat, args, svc, m, mloc, arg, okst, nf, errst) ==
    [name |-> name, method |-> method, pat |-> pat, args |-> args, svc |-> svc,
     m |-> m, mloc |-> mloc, arg |-> arg, okst |-> okst, nf |-> nf, errst |-> errst]

Routes == {
  Rt("ID",          "GET",    "id",                {},                         "Cluster", "ID", "ID", "none", 200, 500, 500),
  Rt("Version",     "GET",    "version",           {},                         "Cluster", "Version", "Version", "none", 200, 500, 500),
  Rt("Peers",       "GET",    "peers",             {},                         "Cluster", "Peers", "Peers", "none", 200, 500, 500),
  Rt("PeerAdd",     "POST",   "peers",             {"body"},                   "Cluster", "PeerAdd", "PeerAdd", "bodypeer", 200, 500, 500),
  Rt("PeerRemove",  "DELETE", "peers_peer",        {"peer"},                   "Cluster", "PeerRemove", "PeerRemove", "peer", 204, 500, 500),
  Rt("Add",         "POST",   "add",               {"multipart", "opts", "addopts"}, "Cluster", "Pin", "Pin", "addpin", 200, 200, 200),
  Rt("Allocations", "GET",    "allocations",       {"filter"},                 "Cluster", "Pins", "Pins", "none", 200, 500, 500),
  Rt("Allocation",  "GET",    "allocations_hash",  {"cid", "opts"},            "Cluster", "PinGet", "PinGet", "cid", 200, 404, 404),
  Rt("StatusAll",   "GET",    "pins",              {"filter", "local"},        "Cluster", "StatusAll", "StatusAllLocal", "filter", 200, 500, 500),
  Rt("Recover",     "POST",   "pins_hash_recover", {"cid", "opts", "local"},   "Cluster", "Recover", "RecoverLocal", "cid", 200, 500, 500),
  Rt("RecoverAll",  "POST",   "pins_recover",      {"local"},                  "Cluster", "RecoverAll", "RecoverAllLocal", "none", 200, 500, 500),
  Rt("Status",      "GET",    "pins_hash",         {"cid", "opts", "local"},   "Cluster", "Status", "StatusLocal", "cid", 200, 500, 500),
  Rt("Pin",         "POST",   "pins_hash",         {"cid", "opts"},            "Cluster", "Pin", "Pin", "pin", 200, 500, 500),
  Rt("PinPath",     "POST",   "pins_path",         {"path", "opts"},           "Cluster", "PinPath", "PinPath", "pinpath", 200, 500, 500),
  Rt("Unpin",       "DELETE", "pins_hash",         {"cid", "opts"},            "Cluster", "Unpin", "Unpin", "pin", 200, 404, 500),
  Rt("UnpinPath",   "DELETE", "pins_path",         {"path", "opts"},           "Cluster", "UnpinPath", "UnpinPath", "pinpath", 200, 404, 500),
  Rt("RepoGC",      "POST",   "ipfs_gc",           {"local"},                  "Cluster", "RepoGC", "RepoGCLocal", "none", 200, 500, 500),
  Rt("ConnectionGraph", "GET", "health_graph",     {},                         "Cluster", "ConnectGraph", "ConnectGraph", "none", 200, 500, 500),
  Rt("Alerts",      "GET",    "health_alerts",     {},                         "Cluster", "Alerts", "Alerts", "none", 200, 500, 500),
  Rt("Metrics",     "GET",    "monitor_metrics_name", {"mname"},               "PeerMonitor", "LatestMetrics", "LatestMetrics", "str", 200, 500, 500),
  Rt("MetricNames", "GET",    "monitor_metrics",   {},                         "PeerMonitor", "MetricNames", "MetricNames", "none", 200, 500, 500)
}

KnownPats   == {r.pat : r \in Routes}
UnknownPats == {"root", "unknown1", "unknown2"}    \* "/", "/nonexistent", "/api/v0/pin/add"
Pats        == KnownPats \cup UnknownPats
Methods     == {"GET", "POST", "DELETE", "PUT", "PATCH", "OPTIONS", "HEAD"}

(***************************************************************************)
(* Argument validity classes.                                              *)
(***************************************************************************)
CidValid    == {"v0", "v1", "v1b58"}                 \* v1b58: the v1 CID in another multibase
CidInvalid  == {"garbage", "trunc", "v1trunc", "space"}
PathValid   == {"ipfs", "ipfssub", "ipns", "ipnssub", "ipld", "space", "qmark", "hash", "pct", "unicode", "plus", "amp"}
PathInvalid == {"badcid", "badcidsub"}
PeerValid   == {"valid", "qm", "cidform"}            \* ed25519 id, sha256 ("Qm..") id, CID-encoded id
PeerInvalid == {"garbage", "trunc"}
BodyValid   == {"valid", "extra"}
BodyInvalid == {"badjson", "wrongfield", "badpeer", "empty", "wrongtype", "array", "null"}
MpartValid   == {"file"}
MpartInvalid == {"notmultipart"}
MnameValid  == {"ping", "special"}
LocalVals   == {"absent", "true", "false"}
\* as coded only the literal "true" means local; "TRUE", "1", "maybe" silently mean "not local"
LocalLenient == {"upper", "one", "garbage"}
FilterValid   == {"absent", "valid", "multi", "composite", "dup"}
FilterInvalid == {"invalid", "undefined"}
\* a list mixing a known and an unknown name: the unknown name is ignored as coded
FilterLenient == {"mixed"}

\* --- pin options (query parameters read by PinOptions.FromQuery) ---
OptNames == {"name", "mode", "rmin", "rmax", "repl", "shard", "ualloc", "expire", "meta", "update", "origins"}

\* values the statement calls valid
OptValid(n) ==
    CASE n = "name"    -> {"absent", "plain", "special", "ws"}
      [] n = "mode"    -> {"absent", "recursive", "direct"}
      [] n = "rmin"    -> {"absent", "two", "neg", "zero", "plus", "negtwo"}
      [] n = "rmax"    -> {"absent", "three", "neg", "zero"}
      [] n = "repl"    -> {"absent", "one", "neg", "zero"}
      [] n = "shard"   -> {"absent", "k1024", "zero", "big"}
      [] n = "ualloc"  -> {"absent", "one", "two", "qm", "dup"}
      [] n = "expire"  -> {"absent", "at", "atfrac", "atpast", "in1h", "in90m", "in1s"}
      [] n = "meta"    -> {"absent", "one", "two", "prefixy", "special", "emptykey"}
      [] n = "update"  -> {"absent", "v0", "v1"}
      [] n = "origins" -> {"absent", "one", "two", "onlyp2p"}

\* undecodable values the code refuses
OptRefused(n) ==
    CASE n = "rmin"    -> {"garbage", "float", "spacey", "huge"}
      [] n = "rmax"    -> {"garbage", "huge"}
      [] n = "repl"    -> {"garbage"}
      [] n = "shard"   -> {"garbage", "negative", "float", "plus"}
      [] n = "expire"  -> {"atgarbage", "atdate", "inshort", "ingarbage", "inneg", "innounit"}
      [] n = "update"  -> {"garbage"}
      [] n = "origins" -> {"nopeer", "garbage", "spaced"}
      [] OTHER         -> {}

\* undecodable values the code accepts by substituting a default
\* (PinModeFromString: unknown -> recursive; StringsToPeers: drops what does
\* not decode).  As coded these are translated; the statement wants them refused.
OptLenient(n) ==
    CASE n = "mode"   -> {"garbage", "upper"}
      [] n = "ualloc" -> {"garbage", "mixed", "spaced"}
      [] OTHER        -> {}

OptInvalid(n) == OptRefused(n) \cup OptLenient(n)
OptClasses(n) == OptValid(n) \cup OptInvalid(n)

\* replication=N overrides replication-min / replication-max (FromQuery)
Shadowed(o, n) == n \in {"rmin", "rmax"} /\ o["repl"] # "absent"

\* --- add options (AddParamsFromQuery), on top of the pin options ---
AddOptNames == {"layout", "format", "recursive", "hidden", "wrap", "shardflag", "progress",
                "cidv", "rawleaves", "stream", "nocopy", "chunker", "hash", "alocal"}
AddOptValid(n) ==
    CASE n = "layout"  -> {"absent", "trickle", "balanced"}
      [] n = "format"  -> {"absent", "unixfs"}
      [] n = "cidv"    -> {"absent", "zero", "one"}
      [] n = "chunker" -> {"absent", "size1024"}
      [] n = "hash"    -> {"absent", "sha2256"}
      [] n = "shardflag" -> {"absent", "false"}
      [] n = "stream"  -> {"absent", "true", "false"}
      \* wrap-with-directory / progress make the body a stream of several documents by design and
      \* nocopy needs server-side file paths: only their "off" values are exercised
      [] n \in {"wrap", "progress", "nocopy"} -> {"absent", "false"}
      [] OTHER         -> {"absent", "true", "false"}
AddOptRefused(n) ==
    CASE n \in {"chunker", "hash"} -> {}      \* free strings, decided inside the adder (C13)
      [] OTHER -> {"garbage"}
\* values that decode as a parameter but are rejected while adding (inside the adder): the add fails
\* after the response has started (streaming) or is answered 500 (stream-channels=false)
AddOptDeferred(n) == IF n = "chunker" THEN {"bogus"} ELSE {}
AddOptClasses(n) == AddOptValid(n) \cup AddOptRefused(n) \cup AddOptDeferred(n)

\* scripted cluster answers.  ok / err / notfound for the single-RPC routes; for POST /add the point of the
\* add pipeline at which the cluster fails: err_alloc (BlockAllocate), err_put (BlockPut), err_pin (final Pin)
AddAnswers == {"ok", "err_alloc", "err_put", "err_pin"}

(***************************************************************************)
(* Requests.  req =                                                        *)
(*  [via, cfg, cred, method, pat, pre, cid, path, peer, body, mname,       *)
(*   local, filter, ans, o : OptNames -> class, a : AddOptNames -> class]  *)
(***************************************************************************)
\* right / right2: the two configured users; rightlower: "basic" scheme in lower case (RFC 7617: case-insensitive)
\* Configuration variants of the API (req.tr): "plain" defaults; "tracing" = Config.Tracing (daemon --tracing: the
\* handler chain gets the opencensus wrapper); "cors" = restrictive CORS settings + extra configured headers;
\* "tracingcors" both.  Crossed with the credentials configuration (req.cfg).  Expected(req) and every property
\* predicate ignore req.tr on purpose: the statement holds for every configuration and the answers do not depend
\* on it (RestAPIMC!ConfigIndependent).
ConfigVariants == {"plain", "tracing", "cors", "tracingcors"}

CredRight == {"right", "right2", "rightlower"}
\* every way of not presenting a configured (user, password) pair:
\*   missing       no Authorization header
\*   wronguser     unknown user + a configured password      wrongpass    configured user + wrong password
\*   swapped       user1 + user2's password                  user2pass1   user2 + user1's password
\*   emptypass     configured user + empty password          unknownempty unknown user + empty password
\*   emptyempty    empty user + empty password (":")         emptyuser    empty user + a configured password
\*   userpassswap  password as user and user as password    caseuser     configured user in another case
\*   passspace     right password + trailing space           passprefix   right password minus its last character
\*   nocolon       base64 of a user name without colon       malformed    not base64
\*   bearer/digest other schemes carrying a configured password
CredWrong == {"missing", "wronguser", "wrongpass", "swapped", "user2pass1", "emptypass", "unknownempty", "emptyempty",
              "emptyuser", "userpassswap", "caseuser", "passspace", "passprefix", "nocolon", "malformed", "bearer", "digest"}
Creds     == CredRight \cup CredWrong

Authorized(req) == req.cfg = "open" \/ req.cred \in CredRight

\* gorilla overlap: /pins/recover is also /pins/{hash} with hash = "recover"
Overlap(req) == req.pat = "pins_recover" /\ req.method \in {"GET", "DELETE"}
EffPat(req)  == IF Overlap(req) THEN "pins_hash" ELSE req.pat
EffCid(req)  == IF Overlap(req) THEN "garbage" ELSE req.cid

Match(req) == {r \in Routes : r.pat = EffPat(req) /\ r.method = req.method}
RouteOf(req) == CHOOSE r \in Match(req) : TRUE
\* pre: "no" | "origin" (cross-origin request: Origin header only) | "yes" (CORS preflight asking for POST)
\*      | "yesput" (preflight asking for a method the CORS configuration does not allow)
Preflight(req) == req.method = "OPTIONS" /\ req.pre \in {"yes", "yesput"}

\* options that become part of the RPC argument of a route
UsedOpts(r) ==
    CASE r.arg \in {"pin", "pinpath"} -> OptNames
      [] r.arg = "addpin" -> OptNames \ {"mode", "update"}   \* single.New forces recursive; add.go clears PinUpdate
      [] OTHER -> {}

\* --- which components of a request are malformed -------------------------
PosInvalid(req, r) ==
    \/ "cid" \in r.args /\ EffCid(req) \in CidInvalid
    \/ "path" \in r.args /\ req.path \in PathInvalid
    \/ "peer" \in r.args /\ req.peer \in PeerInvalid
    \/ "body" \in r.args /\ req.body \in BodyInvalid
    \/ "multipart" \in r.args /\ req.body \in MpartInvalid
    \/ "filter" \in r.args /\ req.filter \in FilterInvalid
    \/ "addopts" \in r.args /\ \E n \in AddOptNames : req.a[n] \in AddOptRefused(n)

\* undecodable positional / query values that are accepted as coded
PosLenient(req, r) ==
    \/ "local" \in r.args /\ req.local \in LocalLenient
    \/ "filter" \in r.args /\ req.filter \in FilterLenient

\* an add parameter the adder rejects while adding
Deferred(req, r) == "addopts" \in r.args /\ \E n \in AddOptNames : req.a[n] \in AddOptDeferred(n)

\* malformed in a component the route carries: the statement demands a refusal
RelevantInvalid(req, r) ==
    \/ PosInvalid(req, r)
    \/ PosLenient(req, r)
    \/ \E n \in UsedOpts(r) : ~Shadowed(req.o, n) /\ req.o[n] \in OptInvalid(n)

\* nothing malformed anywhere in the request
AllValid(req, r) ==
    /\ ~Deferred(req, r)
    /\ ~PosInvalid(req, r)
    /\ ~PosLenient(req, r)
    /\ \A n \in OptNames : req.o[n] \in OptValid(n)

(***************************************************************************)
(* Argument projections (what the recorder is expected to have received).  *)
(***************************************************************************)
CidTok(c)  == CASE c = "v0" -> "c1" [] c \in {"v1", "v1b58"} -> "c2" [] OTHER -> "?"
PeerTok(c) == CASE c = "qm" -> "p4" [] OTHER -> "p3"
NumTok(c)  == CASE c = "absent" -> 0 [] c = "zero" -> 0 [] c = "one" -> 1 [] c = "two" -> 2 [] c = "plus" -> 2
                [] c = "three" -> 3 [] c = "neg" -> -1 [] c = "negtwo" -> -2 [] OTHER -> 0
Rmin(o)    == IF o["repl"] \in {"one", "neg", "zero"} THEN NumTok(o["repl"]) ELSE NumTok(o["rmin"])
Rmax(o)    == IF o["repl"] \in {"one", "neg", "zero"} THEN NumTok(o["repl"]) ELSE NumTok(o["rmax"])
ModeTok(c) == IF c = "direct" THEN "direct" ELSE "recursive"     \* as coded: garbage -> recursive
UallocTok(c) == CASE c = "one" -> <<"p1">> [] c = "two" -> <<"p1", "p2">> [] c = "qm" -> <<"p4">>
                  [] c = "dup" -> <<"p1", "p1">>
                  [] c \in {"mixed", "spaced"} -> <<"p1">>       \* as coded: what does not decode is dropped
                  [] OTHER -> <<>>
ExpireTok(c) == CASE c = "at" -> "T1" [] c = "atfrac" -> "T2" [] c = "atpast" -> "T0"
                  [] c \in {"in1h", "in90m", "in1s"} -> c [] OTHER -> "none"
\* metadata: (key, value) pairs in key order, compared field by field.  The keys
\* of "prefixy" begin with each character of the "meta-" prefix; "special" has
\* URL syntax, an empty value and non-ASCII text (rendered U+XXXX by the driver);
\* "emptykey" adds meta-=x, which FromQuery and ToQuery both document as skipped.
MetaTok(c)   == CASE c = "one" -> << <<"k1", "v1">> >>
                  [] c = "two" -> << <<"k1", "v1">>, <<"k2", "v 2&x">> >>
                  [] c = "prefixy" -> << <<"-x", "4">>, <<"a", "3">>, <<"e", "6">>, <<"meta", "1">>, <<"mm", "7">>,
                                         <<"team", "5">>, <<"type", "2">> >>
                  [] c = "special" -> << <<"a=b", "1">>, <<"c&d", "2">>, <<"empty-val", "">>, <<"kU+00E9", "U+4E2D">>,
                                         <<"meta-inner", "5">>, <<"sp ace", "4">> >>
                  [] c = "emptykey" -> << <<"k1", "v1">> >>
                  [] OTHER -> <<>>
OriginsTok(c) == CASE c = "one" -> <<"o1">> [] c = "two" -> <<"o1", "o2">> [] c = "onlyp2p" -> <<"o3">> [] OTHER -> <<>>
NameTok(c)   == IF c = "absent" THEN "" ELSE c
\* decimal strings: shard sizes are uint64
ShardTok(c)  == CASE c = "k1024" -> "1024" [] c = "big" -> "9223372036854775813" [] OTHER -> "0"
UpdateTok(c) == CASE c = "v0" -> "c9" [] c = "v1" -> "c8" [] OTHER -> "none"

OptArg(o) ==
    [name |-> NameTok(o["name"]), mode |-> ModeTok(o["mode"]), rmin |-> Rmin(o), rmax |-> Rmax(o),
     shard |-> ShardTok(o["shard"]), ualloc |-> UallocTok(o["ualloc"]), expire |-> ExpireTok(o["expire"]),
     meta |-> MetaTok(o["meta"]), update |-> UpdateTok(o["update"]), origins |-> OriginsTok(o["origins"])]

PinArg(req)     == [k |-> "pin", cid |-> CidTok(req.cid), maxdepth |-> -1, opts |-> OptArg(req.o)]
PinPathArg(req) == [k |-> "pinpath", path |-> req.path, opts |-> OptArg(req.o)]
\* add: mode forced to recursive, pin-update cleared
AddOpts(req)    == [OptArg(req.o) EXCEPT !.mode = "recursive", !.update = "none"]
AddArg(req, c)  == [k |-> "addpin", cid |-> c, opts |-> AddOpts(req)]

FilterTok(f) == CASE f \in {"valid", "dup", "mixed"} -> "pinned"          \* as coded: unknown names ignored
                  [] f = "multi" -> "pinned,pin_error" [] f = "composite" -> "error" [] OTHER -> "undefined"

ArgOf(r, req) ==
    CASE r.arg = "none"     -> [k |-> "none"]
      [] r.arg = "pin"      -> PinArg(req)
      [] r.arg = "pinpath"  -> PinPathArg(req)
      [] r.arg = "cid"      -> [k |-> "cid", cid |-> CidTok(req.cid)]
      [] r.arg = "peer"     -> [k |-> "peer", peer |-> PeerTok(req.peer)]
      [] r.arg = "bodypeer" -> [k |-> "peer", peer |-> "p3"]
      [] r.arg = "filter"   -> [k |-> "filter", f |-> FilterTok(req.filter)]
      [] r.arg = "str"      -> [k |-> "str", s |-> req.mname]
      [] OTHER              -> [k |-> "none"]

(***************************************************************************)
(* The add parameters that shape the imported DAG, as the caller states    *)
(* them, and what the RPC side can see of them: the blocks put and the     *)
(* pinned root.  (The adder runs inside the API process: api.AddParams is   *)
(* never an RPC argument, its effect on the blocks is.)                     *)
(*   chunker     -> number of leaves of the 3600-byte test file             *)
(*   raw-leaves  -> leaves are raw-codec blocks                             *)
(*   cid-version -> CID version of the dag-pb nodes                         *)
(* Caller-visible defaulting rule: raw leaves are on exactly when the       *)
(* caller said so, or - only in the hand-written HTTP form, where "not      *)
(* specified" exists - when the caller left them unspecified and asked for  *)
(* cid-version > 0.  Through the client library the caller always specifies *)
(* them (api.AddParams.RawLeaves is a bool): what it passed is what counts. *)
(***************************************************************************)
Chunks(req)  == IF req.a["chunker"] = "size1024" THEN 4 ELSE 1
WantsRaw(req) ==
    IF req.a["rawleaves"] \in {"true", "false"} THEN req.a["rawleaves"] = "true"
    ELSE req.via # "client" /\ req.a["cidv"] = "one"
\* as the adder builds it: the leaves, the file node above them (none for a single raw leaf; the trickle layout
\* keeps one even above a single leaf) and the directory node the multipart upload is wrapped in (always put;
\* wrap-with-directory only decides whether it becomes the root)
BlockShape(req) ==
    LET c   == Chunks(req)
        raw == WantsRaw(req)
        tr  == IF req.a["layout"] = "trickle" /\ c = 1 THEN 1 ELSE 0
        pb  == (IF c = 1 THEN (IF raw THEN 0 ELSE 1) ELSE (IF raw THEN 1 ELSE c + 1)) + tr + 1    \* dag-pb nodes
        nr  == IF raw THEN c ELSE 0                                                               \* raw blocks
    IN [k |-> "block", n |-> pb + nr, raw |-> nr, pbv |-> IF req.a["cidv"] = "one" THEN 1 ELSE 0]

\* how far the add pipeline gets for a scripted answer
AddReach(ans) == CASE ans = "err_alloc" -> 1 [] ans = "err_put" -> 2 [] OTHER -> 3
AddFailed(req, r) == Deferred(req, r) \/ req.ans # "ok"
Streaming(req) == req.a["stream"] # "false"
\* "root": the pinned CID is the one the caller was told.  A failed add tells no root CID, except that a streaming
\* add has already sent the file's entry when only the final pin fails.
AddRoot(req) == IF req.ans = "ok" \/ (req.ans = "err_pin" /\ Streaming(req)) THEN "root" ELSE "notold"

OpsOf(r, req) ==
    IF r.name = "Add" THEN
        IF Deferred(req, r) THEN <<>> ELSE
        SubSeq(<<[svc |-> "Cluster", m |-> "BlockAllocate", arg |-> AddArg(req, "undef")],
                 [svc |-> "IPFSConnector", m |-> "BlockPut",
                  arg |-> IF AddReach(req.ans) = 3 THEN BlockShape(req) ELSE [k |-> "block"]],
                 [svc |-> "Cluster", m |-> "Pin", arg |-> AddArg(req, AddRoot(req))]>>, 1, AddReach(req.ans))
    ELSE
        <<[svc |-> r.svc, m |-> (IF "local" \in r.args /\ req.local = "true" THEN r.mloc ELSE r.m),
           arg |-> ArgOf(r, req)]>>

(***************************************************************************)
(* Expected(req): the code path, outcome by outcome.                       *)
(* [st : set of allowed statuses, ops, docs]                               *)
(***************************************************************************)
\* what the handlers check before calling the cluster (all answer 400)
CodeRefuses(req, r) ==
    \/ PosInvalid(req, r)
    \/ "opts" \in r.args /\ \E n \in OptNames : ~Shadowed(req.o, n) /\ req.o[n] \in OptRefused(n)

StatusFor(r, ans) == CASE ans = "ok" -> r.okst [] ans = "notfound" -> r.nf [] OTHER -> r.errst
BodyDocs(req, st) == IF req.method = "HEAD" \/ st \in {204, 405} THEN 0 ELSE 1

Expected(req) ==
    IF ~Authorized(req) THEN
        [st |-> {401}, ops |-> <<>>, docs |-> BodyDocs(req, 401)]
    ELSE IF Preflight(req) THEN                       \* answered by the CORS layer
        [st |-> {200, 204}, ops |-> <<>>, docs |-> 0]
    ELSE IF Match(req) = {} THEN
        IF EffPat(req) \in KnownPats
            THEN [st |-> {405}, ops |-> <<>>, docs |-> 0]
            ELSE [st |-> {404}, ops |-> <<>>, docs |-> BodyDocs(req, 404)]
    ELSE LET r == RouteOf(req) IN
        IF CodeRefuses(req, r) THEN
            [st |-> {400}, ops |-> <<>>, docs |-> 1]
        ELSE IF r.name = "Add" THEN
            \* AddMultipartHTTPHandler: streaming (default) has already answered 200 when the add fails and
            \* reports the error in the X-Stream-Error trailer; stream-channels=false buffers and answers 500 + error
            LET streaming == Streaming(req)
                failed == AddFailed(req, r) IN
            [st |-> {IF ~streaming /\ failed THEN 500 ELSE 200}, ops |-> OpsOf(r, req),
             docs |-> IF streaming /\ failed /\ ~(req.ans = "err_pin" /\ ~Deferred(req, r)) THEN 0 ELSE 1]
        ELSE LET s == StatusFor(r, req.ans) IN
            [st |-> {s}, ops |-> OpsOf(r, req), docs |-> BodyDocs(req, s)]

Conforms(req, obs) ==
    LET e == Expected(req) IN
    /\ obs.status \in e.st
    /\ obs.ops = e.ops
    /\ obs.docs = e.docs

(***************************************************************************)
(* The property statement.                                                 *)
(***************************************************************************)
Is4xx(s) == 400 <= s /\ s <= 499
Is2xx(s) == 200 <= s /\ s <= 299

\* "the response body is a single JSON document" (an empty body - 204, HEAD,
\* preflight - carries none)
SingleDoc(obs) == obs.docs <= 1

\* "when credentials are configured, no route - known or unknown, any method -
\* performs anything for a request without valid credentials"
AuthFirst(req, obs) == ~Authorized(req) => obs.ops = <<>>

\* a request no route names cannot be translated into anything
NoRouteNoOp(req, obs) == Authorized(req) /\ Match(req) = {} => obs.ops = <<>>

Refused(obs) == Is4xx(obs.status) /\ obs.ops = <<>>
Translated(req, r, obs) ==
    /\ obs.ops = OpsOf(r, req)
    /\ (req.ans = "ok" => Is2xx(obs.status))

\* "either refused as malformed with a 4xx status and performs no cluster
\* operation ..."
FailClosed(req, obs) ==
    Authorized(req) /\ Match(req) # {} /\ RelevantInvalid(req, RouteOf(req)) => Refused(obs)

\* "... or translated into exactly the cluster operation its route names with
\* exactly the CID or path and the options it carried"
Faithful(req, obs) ==
    Authorized(req) /\ Match(req) # {} /\ ~RelevantInvalid(req, RouteOf(req)) =>
        LET r == RouteOf(req) IN
        \* rejected while adding: nothing is performed, and a buffered (stream-channels=false) answer does not claim success
        IF Deferred(req, r) THEN obs.ops = <<>> /\ (~Streaming(req) => ~Is2xx(obs.status))
        ELSE IF AllValid(req, r) THEN Translated(req, r, obs)
        ELSE Refused(obs) \/ Translated(req, r, obs)   \* malformed only in a parameter the route does not carry

Good(req, obs) ==
    /\ SingleDoc(obs)
    /\ AuthFirst(req, obs)
    /\ NoRouteNoOp(req, obs)
    /\ FailClosed(req, obs)
    /\ Faithful(req, obs)

\* names of the clauses an observation breaks (for reports)
Broken(req, obs) ==
    (IF SingleDoc(obs) THEN {} ELSE {"SingleDoc"}) \cup
    (IF AuthFirst(req, obs) THEN {} ELSE {"AuthFirst"}) \cup
    (IF NoRouteNoOp(req, obs) THEN {} ELSE {"NoRouteNoOp"}) \cup
    (IF FailClosed(req, obs) THEN {} ELSE {"FailClosed"}) \cup
    (IF Faithful(req, obs) THEN {} ELSE {"Faithful"})

\* as-coded deviations from the statement: undecodable option values that are
\* translated with a default instead of being refused
Deviates(req) ==
    /\ Authorized(req) /\ ~Preflight(req) /\ Match(req) # {}
    /\ LET r == RouteOf(req) IN
        /\ ~CodeRefuses(req, r)
        /\ \/ \E n \in UsedOpts(r) : ~Shadowed(req.o, n) /\ req.o[n] \in OptLenient(n)
           \/ PosLenient(req, r)

(***************************************************************************)
(* Client clause: "a call made through the bundled client library arrives  *)
(* with the arguments it was given and returns what the server answered".  *)
(* obs = [ops, reterr, ret, ans] : ret / ans are projections of the value   *)
(* returned by the client and of the value the recorder answered.          *)
(***************************************************************************)
\* client-side refusals: nothing can be sent
ClientSideRefusal(req) == Match(req) # {} /\ "path" \in RouteOf(req).args /\ req.path \in PathInvalid

ClientExpectedOps(req) ==
    IF ~Authorized(req) \/ ClientSideRefusal(req) THEN <<>>
    ELSE Expected(req).ops              \* <<>> when the server refuses (400) what the client let through

\* the status the server answers for the call, as the client must report it (api.Error.Code); 0: no answer at all
ClientErrCodes(req) ==
    IF ClientSideRefusal(req) THEN {0}
    ELSE IF Authorized(req) /\ RouteOf(req).name = "Add" /\ 200 \in Expected(req).st THEN {500}  \* stream error trailer
    ELSE Expected(req).st

ClientMustFail(req) ==
    \/ ~Authorized(req) \/ ClientSideRefusal(req)
    \/ LET r == RouteOf(req) IN CodeRefuses(req, r) \/ Deferred(req, r) \/ req.ans # "ok"

ClientFaithful(req, obs) ==
    /\ obs.ops = ClientExpectedOps(req)
    /\ obs.reterr = ClientMustFail(req)                \* error / non-error as the server answered
    /\ IF ClientMustFail(req) THEN obs.errcode \in ClientErrCodes(req)
       ELSE obs.ret = obs.answered                      \* the value the server answered

=============================================================================
