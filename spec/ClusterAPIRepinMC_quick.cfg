SPECIFICATION Spec
CONSTANT NPEERS = 3
CONSTANT MinN = 3
CONSTANT EqualsMode = "fixed"
CONSTANT UpdateGuard = TRUE
CONSTANT RepinRedirect = FALSE
INVARIANT PropertyHolds
