SPECIFICATION Spec
CONSTANT NPEERS = 3
CONSTANT EqualsMode = "fixed"
CONSTANT UpdateGuard = TRUE
CONSTANT RepinRedirect = FALSE
