\* CONTROL: a kill loses log entries -> AckDurable must be refuted
CONSTANTS CIDS = {"c1", "c2"} MaxOps = 2 KeepFsm = FALSE LoseLog = TRUE
INIT Init
NEXT Next
INVARIANTS AckDurable
