--------------------------- MODULE MonitorCadence ---------------------------
(* C09, cadence clause: "a running peer republishes each of its metrics     *)
(* (informer metrics and the ping) before the previous one expires".        *)
(*                                                                          *)
(* Transcription of cluster.go pushInformerMetrics / pushPingMetrics as     *)
(* arithmetic over the TTL: the informer loop re-arms its timer with        *)
(* GetTTL()/HalfDiv after a successful publish and GetTTL()/QuarterDiv      *)
(* after a publish error; the ping loop fires every interval with           *)
(* TTL = PingMul x interval and ignores publish errors.                     *)
(* State: d = time left, at the moment of the next attempt, until the last  *)
(* successfully published metric expires.  Cadence: at every attempt that   *)
(* follows at most MaxErr consecutive errors, d > 0.                        *)
EXTENDS Integers, Sequences, FiniteSets

CONSTANTS TTLS,         \* informer TTLs explored (multiples of 4)
          INTERVALS,    \* ping intervals explored
          HalfDiv,      \* code: 2
          QuarterDiv,   \* code: 4
          PingMul,      \* code: 2
          MaxErrInf,    \* consecutive informer publish errors tolerated by the clause (1)
          MaxErrPing,   \* consecutive ping publish errors tolerated (0: after one lost ping the next one is
                        \* sent exactly at the expiry instant of the previous - the code has no margin there)
          MaxBurst      \* longest burst of consecutive informer publish errors explored (code: retryWarnMod + 1)

VARIABLES kind, ttl, d, errs, gap     \* gap: time from this attempt to the next one
vars == <<kind, ttl, d, errs, gap>>

Init == \/ /\ kind = "informer" /\ ttl \in TTLS      /\ d = ttl - ttl \div HalfDiv /\ errs = 0 /\ gap = ttl \div HalfDiv
        \/ /\ kind = "ping"     /\ ttl \in INTERVALS /\ d = PingMul * ttl - ttl    /\ errs = 0 /\ gap = ttl

PublishOK ==
    /\ errs' = 0
    /\ gap' = IF kind = "informer" THEN ttl \div HalfDiv ELSE ttl
    /\ d' = IF kind = "informer" THEN ttl - gap' ELSE PingMul * ttl - gap'
    /\ UNCHANGED <<kind, ttl>>
\* the error branch re-arms the timer on EVERY error (the warning is what is rate limited by retryWarnMod)
PublishErr ==
    /\ errs < (IF kind = "informer" THEN MaxBurst ELSE MaxErrPing)
    /\ errs' = errs + 1
    /\ gap' = IF kind = "informer" THEN ttl \div QuarterDiv ELSE ttl
    /\ d' = d - gap'
    /\ UNCHANGED <<kind, ttl>>
Next == PublishOK \/ PublishErr
Spec == Init /\ [][Next]_vars

\* the previous good metric is still unexpired at every attempt that follows at most MaxErr consecutive errors
Cadence == errs <= (IF kind = "informer" THEN MaxErrInf ELSE MaxErrPing) => d > 0
\* whatever the burst of errors, the loop keeps trying: publishing resumes well within one TTL after the errors stop
Resume  == gap > 0 /\ (kind = "informer" => gap * HalfDiv <= ttl)

-----------------------------------------------------------------------------
(* The same clause on publish events recorded from a real Cluster:          *)
(* ev = sequence of [name, kind, t, exp, ok] in time order (microseconds).  *)
OfName(ev, nm) == SelectSeq(ev, LAMBDA e : e.name = nm)
\* index of the last successful publish before i (0 if none)
PrevOK(q, i) == IF \E j \in 1..(i - 1) : q[j].ok THEN CHOOSE j \in 1..(i - 1) : q[j].ok /\ \A k \in (j + 1)..(i - 1) : ~q[k].ok ELSE 0
ErrsBetween(q, j, i) == Cardinality({k \in (j + 1)..(i - 1) : ~q[k].ok})
\* attempts (successful or not) made after the previous good metric had already expired
Misses(q, maxErr) ==
    {i \in 2..Len(q) : LET j == PrevOK(q, i)
                       IN j # 0 /\ ErrsBetween(q, j, i) <= maxErr /\ q[i].t >= q[j].exp}
\* the recording ended (peer still running) after the last good metric had expired: it was not renewed
TailMiss(q, maxErr, end) ==
    LET j == PrevOK(q, Len(q) + 1)
    IN j # 0 /\ ErrsBetween(q, j, Len(q) + 1) <= maxErr /\ q[j].exp <= end
\* a failed attempt after which the loop did not try again before that metric's own TTL had passed
Stalls(q, end) ==
    {i \in 1..Len(q) : ~q[i].ok /\ (IF i < Len(q) THEN q[i + 1].t ELSE end) >= q[i].exp}
\* attempts that came later than the transcription says, beyond the slack (scheduling delay, or a changed divisor)
Nominal(q, i, ivl) ==
    IF q[i].kind = "ping" THEN ivl
    ELSE IF q[i - 1].ok THEN (q[i - 1].exp - q[i - 1].t) \div HalfDiv ELSE (q[i - 1].exp - q[i - 1].t) \div QuarterDiv
Late(q, ivl, slackPct) ==
    {i \in 2..Len(q) : (q[i].t - q[i - 1].t) * 100 > Nominal(q, i, ivl) * (100 + slackPct)}
Early(q, ivl, slackPct) ==
    {i \in 2..Len(q) : (q[i].t - q[i - 1].t) * 100 < Nominal(q, i, ivl) * (100 - slackPct)}
=============================================================================
