-------------------------- MODULE AllocatorMC --------------------------
(* Exhaustive design check for C03: every output the transcribed code can *)
(* produce satisfies the property statement, for every input.             *)
EXTENDS Allocator, SequencesExt

VARIABLES in, out, stage

PeerOf(i) == "p" \o ToString(i)
CanonSeq(S) ==
    LET idx == {i \in 1..NPEERS : PeerOf(i) \in S}
        s   == SetToSortSeq(idx, LAMBDA a, b : a < b)
    IN [i \in 1..Len(s) |-> PeerOf(s[i])]
Small(S, k) == {T \in SUBSET S : Cardinality(T) <= k}

Factors == {<<1, 1>>, <<1, 2>>, <<2, 2>>, <<2, 3>>, <<1, 3>>, <<3, 3>>, <<-1, -1>>}

\* Inputs are produced in two steps so that TLC's workers share the work:
\* the initial states fix the metric table, one Next step picks the rest.
InputsFor(m) ==
    {[ms |-> m, cur |-> CanonSeq(c), bl |-> CanonSeq(b), prio |-> CanonSeq(pr),
      rmin |-> f[1], rmax |-> f[2], strat |-> st] :
        c \in SUBSET Peers, b \in Small(Peers, 1),
        pr \in Small(Peers, 2), f \in Factors, st \in {"asc", "desc"}}

Init == stage = 0 /\ in \in {[ms |-> m] : m \in [Peers -> Health]} /\ out = [ok |-> FALSE, allocs |-> <<>>]
Next == /\ stage = 0 /\ stage' = 1
        /\ in' \in InputsFor(in.ms)
        /\ out' \in Outs(in')
Spec == Init /\ [][Next]_<<in, out, stage>>

PropertyHolds == stage = 1 => Good(in, out)
Transcription == stage = 1 => Conforms(in, out)
=============================================================================
