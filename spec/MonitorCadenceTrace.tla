------------------------ MODULE MonitorCadenceTrace ------------------------
(* Evaluates the Cadence clause of MonitorCadence on publish events         *)
(* recorded from a real Cluster (env TRACE_FILE, one run per line:          *)
(* {id, errors, ttl, ping, events:[{name, kind, t, exp, ok}]}); writes per  *)
(* run the missed deadlines and the late / early attempts (env VERDICT_FILE). *)
EXTENDS MonitorCadence, Json, IOUtils

Runs == ndJsonDeserialize(IOEnv.TRACE_FILE)
Names(ev) == {ev[i].name : i \in 1..Len(ev)}
Verdict(r) ==
    LET per == [nm \in Names(r.events) |->
                  LET q == OfName(r.events, nm)
                      mx == IF q[1].kind = "ping" THEN MaxErrPing ELSE MaxErrInf
                  IN [n |-> Len(q), miss |-> Misses(q, mx), late |-> Late(q, r.ping, 25), early |-> Early(q, r.ping, 25)]]
    IN [id |-> r.id, errors |-> r.errors,
        names  |-> Cardinality(Names(r.events)),
        n      |-> Len(r.events),
        misses |-> {<<nm, i>> \in Names(r.events) \X (1..Len(r.events)) : i \in per[nm].miss},
        late   |-> {<<nm, i>> \in Names(r.events) \X (1..Len(r.events)) : i \in per[nm].late},
        early  |-> {<<nm, i>> \in Names(r.events) \X (1..Len(r.events)) : i \in per[nm].early}]

ASSUME ndJsonSerialize(IOEnv.VERDICT_FILE, [i \in 1..Len(Runs) |-> Verdict(Runs[i])])
=============================================================================
