------------------------ MODULE MonitorCadenceTrace ------------------------
(* Evaluates the Cadence clause of MonitorCadence on publish events         *)
(* recorded from a real Cluster (env TRACE_FILE, one run per line:          *)
(* {id, errors, ttl, ping, end, expect, events:[{name, kind, t, exp, ok}]}); writes per *)
(* run the missed deadlines and the late / early attempts (env VERDICT_FILE). *)
EXTENDS MonitorCadence, Json, IOUtils

Runs == ndJsonDeserialize(IOEnv.TRACE_FILE)
Names(ev) == {ev[i].name : i \in 1..Len(ev)}
ToSet(q) == {q[i] : i \in 1..Len(q)}
Verdict(r) ==
    LET per == [nm \in Names(r.events) |->
                  LET q == OfName(r.events, nm)
                      mx == IF q[1].kind = "ping" THEN MaxErrPing ELSE MaxErrInf
                  IN [n |-> Len(q), miss |-> Misses(q, mx), tail |-> TailMiss(q, mx, r.end), stall |-> Stalls(q, r.end),
                      late |-> Late(q, r.ping, 25), early |-> Early(q, r.ping, 25)]]
        idx == 1..Len(r.events)
    IN [id |-> r.id, errors |-> r.errors,
        names  |-> Cardinality(Names(r.events)),
        n      |-> Len(r.events),
        \* "each of its metrics": a metric that is never published, or whose last good publish had
        \* expired when the recording was taken, is a missed deadline as well
        absent |-> ToSet(r.expect) \ Names(r.events),
        tail   |-> {nm \in Names(r.events) : per[nm].tail},
        misses |-> {<<nm, i>> \in Names(r.events) \X idx : i \in per[nm].miss},
        stalls |-> {<<nm, i>> \in Names(r.events) \X idx : i \in per[nm].stall},
        bursts |-> [nm \in Names(r.events) |->
                      LET q == OfName(r.events, nm)
                      IN {k \in 1..Len(q) : \E i \in 1..(Len(q) - k + 1) : \A j \in i..(i + k - 1) : ~q[j].ok}],
        late   |-> {<<nm, i>> \in Names(r.events) \X idx : i \in per[nm].late},
        early  |-> {<<nm, i>> \in Names(r.events) \X idx : i \in per[nm].early}]

ASSUME ndJsonSerialize(IOEnv.VERDICT_FILE, [i \in 1..Len(Runs) |-> Verdict(Runs[i])])
=============================================================================
