SPECIFICATION Spec
CONSTANT LEVEL = "thorough"
INVARIANT DesignHolds
INVARIANT DeviationsFail
INVARIANT SelfConforms
INVARIANT ClientDesign
INVARIANT ConfigIndependent
