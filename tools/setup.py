#!/usr/bin/env python3
import json, os, subprocess, sys, tempfile, shutil
HERE = os.path.dirname(os.path.abspath(__file__))
VERIF = os.path.dirname(HERE)
sys.path.insert(0, HERE)
import tla

def main():
    rc = 0
    # 1. SANY on all specs (scratch copy: the tools litter)
    d = tla.scratch_spec_dir(os.path.join(VERIF, "spec"))
    try:
        mods = sorted(f for f in os.listdir(d) if f.endswith(".tla"))
        for m in mods:
            if "Apalache" in open(os.path.join(d, m)).read().split("EXTENDS", 1)[-1].split("\n", 1)[0]:
                # typed for Apalache (its standard module is not on SANY's path): parse and type-check with apalache-mc
                try:
                    cp = subprocess.run(["apalache-mc", "typecheck", "--out-dir=" + os.path.join(d, "apa-out"), m], cwd=d,
                                        stdout=subprocess.PIPE, stderr=subprocess.STDOUT, timeout=300)
                    if cp.returncode != 0:
                        print("APALACHE TYPECHECK FAILED:", m)
                        print(cp.stdout.decode()[-2000:])
                        rc = 1
                except (OSError, subprocess.TimeoutExpired) as e:
                    print("note: apalache-mc typecheck of %s not run (%s)" % (m, type(e).__name__))
                continue
            cp = subprocess.run(["java", "-cp", tla._classpath(), "tla2sany.SANY", m], cwd=d,
                                stdout=subprocess.PIPE, stderr=subprocess.STDOUT, timeout=120)
            out = cp.stdout.decode()
            if cp.returncode != 0 or "Semantic errors" in out or "***Parse Error***" in out or "Fatal errors" in out:
                print("SANY FAILED:", m)
                print(out[-2000:])
                rc = 1
        print("sany: %d modules parsed" % len(mods))
    finally:
        shutil.rmtree(d, ignore_errors=True)
    # 2. warm the build cache: compile the test binaries of all driver packages
    man = json.load(open(os.path.join(VERIF, "MANIFEST.json")))
    pkgs = sorted({e["path"] for e in man.get("engines", []) if e.get("path", "").startswith("harness/")})
    env = dict(os.environ)
    env.update({"GOFLAGS": "-mod=mod", "GOPROXY": "off", "GOSUMDB": "off", "GOTOOLCHAIN": "local"})
    work = tempfile.mkdtemp(prefix="verif-setup-")
    try:
        src = open(os.path.join(VERIF, "harness", "go.mod")).read()
        src = src.replace("=> ./stubs/quic", "=> " + os.path.join(VERIF, "harness", "stubs", "quic"))
        open(os.path.join(work, "go.mod"), "w").write(src)
        shutil.copy("/repo/go.sum", os.path.join(work, "go.sum"))
        for p in pkgs:
            rel = "./" + p[len("harness/"):] + "/"
            cp = subprocess.run(["go", "test", "-modfile=" + os.path.join(work, "go.mod"), "-tags", "verif", "-vet=off",
                                 "-count=1", "-run", "^$", rel], cwd=os.path.join(VERIF, "harness"), env=env,
                                stdout=subprocess.PIPE, stderr=subprocess.STDOUT, timeout=3000)
            print("build %s: rc=%d" % (rel, cp.returncode))
            if cp.returncode != 0:
                print(cp.stdout.decode()[-3000:])
                rc = 1
    finally:
        shutil.rmtree(work, ignore_errors=True)
    return rc

if __name__ == "__main__":
    sys.exit(main())
