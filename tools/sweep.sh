#!/bin/sh
# usage: tools/sweep.sh "<seeds>" "<props>" [tier]   -- runs checks sequentially, prints one line per run
T=${3:-quick}
for s in $1; do
  for p in $2; do
    t0=$(date +%s)
    VERIF_SEED=$s ./bin/check $p $T > /tmp/sweep-$p-$s.log 2>&1
    rc=$?
    t1=$(date +%s)
    echo "seed=$s prop=$p tier=$T rc=$rc wall=$((t1-t0))s $(grep -c '^VIOLATION' /tmp/sweep-$p-$s.log) violations $(grep -c '^SPEC-DRIFT' /tmp/sweep-$p-$s.log) drift $(grep '^INFRA' /tmp/sweep-$p-$s.log | head -1 | cut -c1-150)"
  done
done
