#!/bin/sh
# usage: waitbatch.sh "<batch>"  -- waits until no other mutant batch is running, then runs tools/mutbatch.sh
while pgrep -f "tools/mutbatch.s[h]" >/dev/null; do sleep 20; done
cd /verif && exec ./tools/mutbatch.sh "$1"
