"""C07 - untrusted peers cannot alter the pinset, drive IPFS or read closed endpoints.

SPEC  RPCAuthMC: the transcribed policy table + authorization function + crdt/raft trust satisfy the
      statement's predicates (P1 untrusted => only open, P2 sensitive refused, P3 local-only refused to all
      remote callers, P4 default deny, trust follows configuration and Trust/Distrust) for every endpoint x
      caller x configuration x set of missing policy entries x Trust/Distrust history (bounded).
      RPCAuthPubsubMC: the signer-validated head broadcast never lets a replica hold an update of a peer
      outside its (transitive, historical) trust.
GEN   the state graph of the trust machine (TLC -dump dot) is covered transition by transition by
      Trust/Distrust scripts; hole scripts remove policy entries.
R     every script is executed on a real Cluster with a real crdt/raft consensus; after every step every
      endpoint (by reflection) is called from a (local), b and c; IsTrustedPeer is probed.
V     TLC (RPCAuthTrace) judges every recorded observation with the statement's predicates (violation) and
      the transcription (drift). Real crdt replicas publish pins under Trust/Distrust scripts; TLC
      (RPCAuthPubsubTrace) searches a behaviour of RPCAuthPubsub explaining each recorded trace and
      evaluates the statement's predicate on every observed pinset.
"""
import json
import os
import random

import tla
import vcheck

ACT = {"TrustB": ("trust", "b"), "TrustC": ("trust", "c"), "DistrustB": ("distrust", "b"),
       "DistrustC": ("distrust", "c"),
       # a remote peer invokes an endpoint that is open to everybody (join handshake, identity, version)
       "CallIDB": ("call:Cluster.ID", "b"), "CallIDC": ("call:Cluster.ID", "c"),
       "CallVersionB": ("call:Cluster.Version", "b"), "CallVersionC": ("call:Cluster.Version", "c"),
       "CallPeerAddB": ("call:Cluster.PeerAdd", "b"), "CallPeerAddC": ("call:Cluster.PeerAdd", "c")}
ACTS = sorted(set(a for a, _ in ACT.values()))


def rand_act(rng):
    a = rng.choice(["trust", "distrust", "trust", "distrust", "call:Cluster.PeerAdd", rng.choice(ACTS)])
    return {"a": a, "p": rng.choice(["b", "c"])}

CONFIGS = [
    {"mode": "raft", "all": False, "list": []},
    {"mode": "crdt", "all": True, "list": []},
    {"mode": "crdt", "all": False, "list": ["b"]},
    {"mode": "crdt", "all": False, "list": []},
    {"mode": "crdt", "all": False, "list": ["c"]},
    {"mode": "crdt", "all": False, "list": ["b", "c"]},
]


# ----------------------------------------------------------------------------- GEN

def rpc_scripts(ctx, rng):
    dot = os.path.join(ctx.specdir(), "rpcauth_graph.dot")
    ctx.tlc("RPCAuthMC.tla", "RPCAuthMC_graph.cfg", workers=1, timeout=600, dump_dot=dot)
    g = tla.read_dot(dot)
    nedges = sum(len(v) for v in g.edges.values())
    if len(g.init) != 6 or nedges != 90:
        raise vcheck.Infra("unexpected trust state graph: %d initial states, %d edges" % (len(g.init), nedges))
    tours = tla.edge_tours(g, max_len=10 if ctx.quick() else 12, rng=rng)
    scripts = []
    covered = set()
    for t in tours:
        st = g.state(t[0][1])
        cfg = {"mode": st["cfg"]["mode"], "all": st["cfg"]["all"], "list": sorted(st["cfg"]["list"])}
        acts = []
        cur = t[0][1]
        for lab, dst in t[1:]:
            a, p = ACT[lab]
            acts.append({"a": a, "p": p})
            covered.add((cur, lab))
            cur = dst
        scripts.append({"cfg": cfg, "holes": [], "acts": acts})
    if len(covered) != nedges:
        raise vcheck.Infra("edge tours cover %d of %d transitions" % (len(covered), nedges))
    ctx.extra["trust_graph"] = {"states": len(g._raw), "transitions": nedges, "tours": len(tours)}
    # policy holes: every entry missing (all configurations), single entries missing (seeded choice)
    for cfg in CONFIGS if not ctx.quick() else CONFIGS[:4]:
        scripts.append({"cfg": cfg, "holes": ["*"], "acts": []})
    eps = spec_endpoints()
    k = 6 if ctx.quick() else 20
    for _ in range(k):
        cfg = rng.choice(CONFIGS)
        hs = sorted(rng.sample(eps, rng.choice([1, 2, 5])))
        acts = [rand_act(rng) for _ in range(rng.choice([0, 1, 2]))]
        scripts.append({"cfg": cfg, "holes": hs, "acts": acts})
    if not ctx.quick():
        # longer seeded Trust/Distrust histories
        for _ in range(60):
            cfg = rng.choice(CONFIGS)
            acts = [rand_act(rng) for _ in range(rng.randint(3, 8))]
            scripts.append({"cfg": cfg, "holes": [], "acts": acts})
        # every single policy entry missing once (configuration by seed)
        for e in eps:
            scripts.append({"cfg": rng.choice(CONFIGS), "holes": [e], "acts": []})
    for i, s in enumerate(scripts):
        s["id"] = i + 1
        # cluster.Config.Tracing selects the second rpc.NewServer call in newRPCServer
        s["tracing"] = (i % 2 == 1)
    return scripts


_EPS = None


def spec_endpoints():
    """Endpoint names as the specification spells them (parsed from RPCAuth.tla; only used to pick holes)."""
    global _EPS
    if _EPS is None:
        import re
        src = open(os.path.join(vcheck.VERIF, "spec", "RPCAuth.tla")).read()
        out = []
        for name, svc in (("ClusterEPs", "Cluster"), ("TrackerEPs", "PinTracker"), ("IPFSEPs", "IPFSConnector"),
                          ("ConsEPs", "Consensus"), ("MonEPs", "PeerMonitor")):
            m = re.search(name + r'\s*==\s*Svc\("' + svc + r'",\s*\{([^}]*)\}', src, re.S)
            out += [svc + "." + x for x in re.findall(r'"(\w+)"', m.group(1))]
        if len(out) != 50:
            raise vcheck.Infra("could not read the endpoint list from RPCAuth.tla")
        _EPS = sorted(out)
    return _EPS


def T(all_=False, *s):
    return {"all": all_, "set": list(s)}


def pubsub_scripts(ctx, rng):
    P = lambda r: {"ev": "publish", "r": r}
    TR = lambda r, p: {"ev": "trust", "r": r, "p": p}
    DI = lambda r, p: {"ev": "distrust", "r": r, "p": p}
    scripts = [
        # b trusted by a, c not (d trusts everybody: witness that c's broadcasts do travel)
        {"trust": {"a": T(False, "b"), "b": T(False, "a"), "c": T(False, "a"), "d": T(True)},
         "events": [P("c"), P("b"), DI("a", "b"), P("b"), P("c"), TR("a", "c"), P("c")]},
        # empty list: nobody is trusted; then Trust(b)
        {"trust": {"a": T(False), "b": T(True), "c": T(True), "d": T(False, "c")},
         "events": [P("b"), P("c"), TR("a", "b"), P("b"), DI("d", "c"), P("c")]},
        # '*': everybody is trusted
        {"trust": {"a": T(True), "b": T(False), "c": T(False, "b"), "d": T(False, "a")},
         "events": [P("c"), P("b"), P("a"), TR("b", "c"), P("c")]},
    ]
    AP = lambda r, p: {"ev": "addpeer", "r": r, "p": p}
    # Start-up window: a (trusts only b) runs setup() while the untrusted c is connected and
    # publishing; a is held inside crdt.New (datastore gate) between "subscribed" and "running".
    # Nothing c published at any point may be in a's pinset. d trusts everybody: witness that c's
    # broadcasts travel. b does not trust c, so nothing of c can reach a through b.
    scripts.append({"trust": {"a": T(False, "b"), "b": T(False, "a"), "c": T(True), "d": T(True)}, "down": ["a"],
                    "events": [{"ev": "startup", "r": "a"}, P("c"), {"ev": "release", "r": "a"}, P("b"), P("c")],
                    "complete": True, "must_see": [{"r": "d", "s": "c"}]})
    # Join handshake: the consensus-level effect of the open endpoint Cluster.PeerAdd called by the
    # untrusted c (Consensus.AddPeer(c)) must not make c's updates acceptable (the RPC scripts do
    # the same through the real endpoint and sweep every other endpoint afterwards).
    scripts.append({"trust": {"a": T(False), "b": T(False, "a"), "c": T(True), "d": T(True)},
                    "events": [AP("a", "c"), P("c"), AP("b", "c"), P("c"), P("a")],
                    "complete": True, "must_see": [{"r": "d", "s": "c"}]})
    # Forged author: a third host sends a raw gossipsub messages naming the trusted b as author and
    # carrying c's heads (captured by the relay d): unsigned, with a random signature, with a valid
    # signature by the sender's own key. a must stay without c's update.
    FG = lambda sig: {"ev": "forge", "r": "a", "as": "b", "of": "c", "sig": sig}
    scripts.append({"trust": {"a": T(False, "b"), "b": T(False, "a"), "c": T(True), "d": T(False)}, "relay": ["d"],
                    "events": [P("b"), P("c"), FG("none"), FG("bad"), FG("other")], "complete": True})
    # Relayed delivery, chain c - b - a; a and c can never connect (connection gaters), so whatever c
    # signs reaches a forwarded by b. b is a real replica that accepts c (so gossipsub forwards) and is
    # "quiet": its own heads go out only when it publishes. The validator must judge the SIGNER:
    # (1) a trusts only b: c's head forwarded by trusted b must be refused; a learns c's update only
    #     inside the head b signs when b publishes itself.
    scripts.append({"trust": {"a": T(False, "b"), "b": T(False, "c"), "c": T(True)},
                    "links": [["c", "b"], ["b", "a"]], "block": [["a", "c"]], "quiet": ["b"],
                    "events": [P("c"), P("b")], "complete": True,
                    "must_see": [{"r": "b", "s": "c"}]})
    # (2) symmetric: a trusts only c: c's head forwarded by the untrusted b must be accepted.
    scripts.append({"trust": {"a": T(False, "c"), "b": T(True), "c": T(True)},
                    "links": [["c", "b"], ["b", "a"]], "block": [["a", "c"]], "quiet": ["b", "c"],
                    "events": [P("c"), P("b")], "complete": True,
                    "must_see": [{"r": "b", "s": "c"}]})
    reps = ["a", "b", "c", "d"]
    for _ in range(1 if ctx.quick() else 14):
        tr = {}
        for r in reps:
            if rng.random() < 0.2:
                tr[r] = T(True)
            else:
                tr[r] = T(False, *sorted(x for x in reps if x != r and rng.random() < 0.35))
        evs = []
        for _ in range(rng.randint(5, 7)):
            x = rng.random()
            r = rng.choice(reps)
            p = rng.choice([q for q in reps if q != r])
            evs.append(P(r) if x < 0.6 else (TR(r, p) if x < 0.8 else DI(r, p)))
        if not any(e["ev"] == "publish" for e in evs):
            evs.append(P(rng.choice(reps)))
        scripts.append({"trust": tr, "events": evs})
    for i, s in enumerate(scripts):
        s["id"] = i + 1
    return scripts


# ----------------------------------------------------------------------------- stages

def write_ndjson(path, items):
    with open(path, "w") as f:
        for x in items:
            f.write(json.dumps(x) + "\n")


def caller_class(rec, p):
    if p == "a":
        return "self"
    for t in rec["trust"]:
        if t["p"] == p:
            return "trusted-as-coded" if t["trusted"] else "untrusted-as-coded"
    return "?"


def rpc_stage(ctx, scripts, tag="rpc"):
    inp = os.path.join(ctx.work, "c07_%s_scripts.ndjson" % tag)
    write_ndjson(inp, scripts)
    trace = os.path.join(ctx.work, "c07_%s_obs.ndjson" % tag)
    ctx.go_test("c07_auth", run="TestRPC$", infile=inp, env={"VERIF_TRACE": trace}, timeout=1800)
    recs = [json.loads(l) for l in open(trace)]
    want = sum(len(s["acts"]) + 1 for s in scripts)
    if len(recs) != want:
        raise vcheck.Infra("driver recorded %d of %d steps" % (len(recs), want))
    verdict = os.path.join(ctx.work, "c07_%s_verdict.ndjson" % tag)
    r = tla.run_tlc(ctx.specdir(), "RPCAuthTrace.tla", "RPCAuthTrace.cfg", workers=1, timeout=1800, heap="4g",
                    env_extra={"TRACE_FILE": trace, "VERDICT_FILE": verdict})
    ctx.log("tlc RPCAuthTrace: rc=%s %.1fs" % (r.rc, r.wall))
    if r.rc != 0 or not os.path.exists(verdict):
        print(r.out[-3000:])
        raise vcheck.Infra("RPCAuthTrace failed (rc=%s)" % r.rc)
    v = json.loads(open(verdict).readline())
    if v["nrecs"] != len(recs) or v["ncalls"] != sum(len(x["calls"]) for x in recs):
        raise vcheck.Infra("verdict covers %d/%d records" % (v["nrecs"], len(recs)))
    by_id = {s["id"]: s for s in scripts}
    badsteps = set()

    def case(i, extra):
        rec = recs[i - 1]
        return dict({"kind": "rpc", "script": by_id[rec["script"]], "step": rec["step"], "cfg": rec["cfg"],
                     "holes": rec["holes"] if len(rec["holes"]) < 50 else ["*"], "hist": rec["hist"]}, **extra)

    p2 = {tuple(x) for x in v["p2"]}
    for (i, j) in v["p1"]:
        c = recs[i - 1]["calls"][j - 1]
        badsteps.add(i)
        kind = "P2" if (i, j) in p2 else "P1"
        what = ("untrusted remote peer %s was authorized on %s (%s)" % (
            c["p"], c["e"], "reads/modifies the pinset or drives tracker/IPFS/consensus" if kind == "P2"
            else "not an identity/version/join-handshake endpoint"))
        ctx.violation("C07:%s:%s" % (kind, c["e"]), what, case(i, {"call": c}))
    for (i, j) in v["p3"]:
        c = recs[i - 1]["calls"][j - 1]
        badsteps.add(i)
        ctx.violation("C07:P3:%s" % c["e"], "remote peer %s (%s) was authorized on the local-use endpoint %s" % (
            c["p"], caller_class(recs[i - 1], c["p"]), c["e"]), case(i, {"call": c}))
    for (i, j) in v["trustbad"]:
        t = recs[i - 1]["trust"][j - 1]
        badsteps.add(i)
        ctx.violation("C07:trust:%s:%s" % (recs[i - 1]["cfg"]["mode"], "over" if t["trusted"] else "under"),
                      "IsTrustedPeer(%s)=%s contradicts configuration %s and calls %s" % (
                          t["p"], t["trusted"], json.dumps(recs[i - 1]["cfg"]), json.dumps(recs[i - 1]["hist"])),
                      case(i, {"probe": t}))
    drift = []
    for (i, j) in v["drift"]:
        if i not in badsteps:
            c = recs[i - 1]["calls"][j - 1]
            drift.append("%s from %s (%s) %s under %s after %s" % (
                c["e"], c["p"], caller_class(recs[i - 1], c["p"]), "authorized" if c["auth"] else "refused",
                json.dumps(recs[i - 1]["cfg"]), json.dumps(recs[i - 1]["hist"])))
    for (i, j) in v["trustdrift"]:
        if i not in badsteps:
            t = recs[i - 1]["trust"][j - 1]
            drift.append("IsTrustedPeer(%s)=%s under %s after %s" % (t["p"], t["trusted"], json.dumps(recs[i - 1]["cfg"]),
                                                                   json.dumps(recs[i - 1]["hist"])))
    if v["unknown"]:
        drift.append("endpoints registered by the code but unknown to the specification: %s" % v["unknown"])
    if v["unseen"]:
        drift.append("endpoints of the specification not registered by the code: %s" % v["unseen"])
    driftsteps = {i for (i, j) in v["drift"]} | {i for (i, j) in v["trustdrift"]}
    ctx.traces_validated += len(recs) - len(badsteps | driftsteps)
    ctx.extra["rpc_observations_judged_by_tlc"] = ctx.extra.get("rpc_observations_judged_by_tlc", 0) + v["ncalls"]
    ctx.extra["trust_probes_judged_by_tlc"] = ctx.extra.get("trust_probes_judged_by_tlc", 0) + v["ntrust"]
    return drift


def pubsub_stage(ctx, scripts, tag="ps"):
    inp = os.path.join(ctx.work, "c07_%s_scripts.ndjson" % tag)
    write_ndjson(inp, scripts)
    trace = os.path.join(ctx.work, "c07_%s_trace.ndjson" % tag)
    ctx.go_test("c07_auth", run="TestPubsub$", infile=inp, env={"VERIF_TRACE": trace}, timeout=2400)
    lines = [json.loads(l) for l in open(trace)]
    verdict = os.path.join(ctx.work, "c07_%s_verdict.ndjson" % tag)
    r = tla.run_tlc(ctx.specdir(), "RPCAuthPubsubTrace.tla", "RPCAuthPubsubTrace.cfg", workers=1, timeout=2400,
                    heap="6g", env_extra={"TRACE_FILE": trace, "VERDICT_FILE": verdict})
    ctx.log("tlc RPCAuthPubsubTrace: rc=%s distinct=%d %.1fs %s" % (r.rc, r.distinct, r.wall, r.violation or ""))
    if r.timed_out or not os.path.exists(verdict) or (r.error and not r.violation):
        print(r.out[-3000:])
        raise vcheck.Infra("RPCAuthPubsubTrace failed (rc=%s %s)" % (r.rc, r.error))
    v = json.loads(open(verdict).readline())
    if v["n"] != len(lines) or v["traces"] != len(scripts):
        raise vcheck.Infra("pubsub verdict covers %d/%d lines, %d/%d traces" % (v["n"], len(lines), v["traces"], len(scripts)))
    # which script does a line belong to
    owner = []
    cur = None
    for l in lines:
        if l["ev"] == "init":
            cur = l["script"]
        owner.append(cur)
    by_id = {s["id"]: s for s in scripts}
    for i in v["bad"]:
        l = lines[i - 1]
        ctx.violation("C07:pubsub:untrusted-update-applied",
                      "replica %s holds pins %s although some signer is outside its (transitive) trust" % (
                          l["r"], json.dumps(l["pins"])),
                      {"kind": "pubsub", "script": by_id[owner[i - 1]], "line": i, "observed": l})
    for i in v["badsigner"]:
        if i in v["bad"]:
            continue
        l = lines[i - 1]
        ctx.violation("C07:pubsub:update-accepted-from-untrusted-signer",
                      "replica %s holds pins %s, more than the heads signed by peers it trusted can have carried" % (
                          l["r"], json.dumps(l["pins"])),
                      {"kind": "pubsub", "script": by_id[owner[i - 1]], "line": i, "observed": l})
    anybad = bool(v["bad"] or v["badsigner"])
    # per-script expectations: relayed delivery really happened (else vacuous), final pinsets complete (else drift)
    obs_of = {}
    for i, l in enumerate(lines):
        if l["ev"] == "observe":
            obs_of.setdefault(owner[i], []).append((i + 1, l))
    short = set(v["short"])
    incomplete = []
    for sc in scripts:
        obs = obs_of.get(sc["id"], [])
        for ms in sc.get("must_see", []):
            # "after": k = in the observation round that follows the k-th event (rounds are delimited by
            # the non-observe lines of the trace); without it: at any time
            if not any(l["r"] == ms["r"] and any(u["s"] == ms["s"] for u in l["pins"]) for _, l in obs):
                raise vcheck.Infra("vacuous scenario (script %d): %s never received the update of %s" % (
                    sc["id"], ms["r"], ms["s"]))
        if sc.get("complete"):
            final = {}
            for i, l in obs:
                final[l["r"]] = (i, l)
            if not final:
                raise vcheck.Infra("script %d recorded no observation" % sc["id"])
            for i, l in final.values():
                if i in short and i not in v["badsigner"]:
                    incomplete.append("script %d: final pinset of %s is %s, complete delivery under the "
                                      "signer-based validator gives more" % (sc["id"], l["r"], json.dumps(l["pins"])))
    accepted = bool(r.violation and "NotDone" in r.violation)
    drift = []
    if accepted:
        ctx.traces_validated += len(scripts)
        ctx.model_runs.append({"module": "RPCAuthPubsubTrace.tla", "cfg": "RPCAuthPubsubTrace.cfg",
                               "distinct": r.distinct, "generated": r.generated, "trace_lines": len(lines),
                               "wall_s": round(r.wall, 1)})
    elif not anybad:
        import re
        m = re.search(r'TRACE-REJECT line", (\d+)', r.out)
        ln = int(m.group(1)) if m else 0
        drift.append("pubsub trace not explained by RPCAuthPubsub at line %d: %s" % (
            ln, json.dumps(lines[ln - 1]) if 0 < ln <= len(lines) else "?"))
    drift += incomplete
    ctx.extra["pubsub_observations_judged_by_tlc"] = v["observes"]
    # vacuity guard: "untrusted updates are ignored" means nothing if no broadcast is ever accepted
    foreign = sum(1 for l in lines if l["ev"] == "observe" and any(u["s"] != l["r"] for u in l["pins"]))
    ctx.extra["pubsub_observations_with_foreign_updates"] = foreign
    if tag == "ps" and foreign == 0:
        raise vcheck.Infra("vacuous pubsub run: no replica ever accepted an update of another replica "
                           "(broadcasts of trusted peers do not arrive)")
    return drift


# ----------------------------------------------------------------------------- entry points

def setup(ctx):
    ctx.rule = ("one evaluation = one RPC endpoint invocation on a real Cluster classified as refused "
                "(authorization error) or not, one IsTrustedPeer probe, or one settled pinset observation of a real "
                "crdt replica; non-trivial = a (configuration, missing policy entries, Trust/Distrust history) step "
                "with its 100 remote + 50 local calls, or a pubsub script; distinct by abstract content")
    ctx.assumptions = [
        "the closed set of the pinned commit's policy is the meaning of 'endpoints meant for local use'",
        "the effect of Distrust where the configuration trusts everybody (Raft, '*') is left open by the statement",
        "'ignored' for pubsub updates means: not reachable through a chain of (at some time) trusted signers, since an "
        "accepted head carries the signer's whole DAG",
        "authorization outcome is observed as gorpc authorization error vs anything else at the remote client",
        "libp2p transport security, gossipsub signature verification and go-ds-crdt are trusted",
    ]


def finish_drift(ctx, drift):
    if drift:
        print("SPEC-DRIFT: %d observations satisfy the statement but differ from the transcription "
              "(rpc_policy.go / authorization function / IsTrustedPeer / crdt broadcast); first: %s" % (
                  len(drift), drift[0]), flush=True)
        for d in drift[1:8]:
            print("  drift: " + d, flush=True)
        if not ctx.violations:
            raise vcheck.Infra("specification out of date with respect to the code (SPEC-DRIFT), no property "
                               "violation observed")


def run(ctx):
    rng = random.Random(ctx.seed)
    setup(ctx)
    # SPEC
    ctx.tlc("RPCAuthMC.tla", "RPCAuthMC_quick.cfg" if ctx.quick() else "RPCAuthMC_thorough.cfg", workers=8, timeout=1800)
    for c in (["quick", "quick2"] if ctx.quick() else ["quick", "quick2", "thorough"]):
        ctx.tlc("RPCAuthPubsubMC.tla", "RPCAuthPubsubMC_%s.cfg" % c, workers=8, timeout=2400)
    # the invariant must see each modelled deviation (validator registered last, lax signature policy,
    # join handshake storing into the trusted set): these runs must end in a violation of the MODEL
    for c in ("neg_startup", "neg_lax", "neg_join"):
        r = ctx.tlc("RPCAuthPubsubMC.tla", "RPCAuthPubsubMC_%s.cfg" % c, workers=4, timeout=1200,
                    expect_violation=True, count=False)
        if not (r.violation and "IgnoresUntrusted" in r.violation):
            raise vcheck.Infra("RPCAuthPubsubMC_%s.cfg does not violate IgnoresUntrusted: the invariant is blind to "
                               "that deviation" % c)
    ctx.exhaustive = True
    # GEN + R + V, RPC
    scripts = rpc_scripts(ctx, rng)
    ctx.log("generated %d RPC scripts, %d steps" % (len(scripts), sum(len(s["acts"]) + 1 for s in scripts)))
    drift = rpc_stage(ctx, scripts)
    # pubsub
    ps = pubsub_scripts(ctx, rng)
    ctx.log("generated %d pubsub scripts" % len(ps))
    drift += pubsub_stage(ctx, ps)
    finish_drift(ctx, drift)


def replay(ctx, path):
    setup(ctx)
    j = json.load(open(path))
    case = j.get("case") or {}
    sc = case.get("script")
    if not sc:
        raise vcheck.Infra("replay file has no script")
    sc = dict(sc)
    sc["id"] = 1
    if case.get("kind") == "pubsub":
        drift = pubsub_stage(ctx, [sc], tag="replay")
    else:
        drift = rpc_stage(ctx, [sc], tag="replay")
    finish_drift(ctx, drift)
