"""C11 - the REST API is fail-closed, authenticated and faithful to the request.

SPEC  RestAPIMC: for every enumerated abstract request (route table x methods x credentials, positional argument
      classes, pin / add option classes one at a time, pairwise (thorough: triples) and against a full valid
      profile) what the transcribed handlers do (Expected) satisfies the statement (Good), except the declared
      as-coded deviations, which must break exactly FailClosed.
GEN   RestAPICases: TLC writes the same request sets as case files (HTTP cases and bundled-client calls);
      thorough adds seeded random points of the full option product.
R     harness/c11_rest sends every case to a real rest.API (HTTP on 127.0.0.1:0, with and without basic-auth
      credentials) whose RPC client is wired to recording Cluster / PeerMonitor / IPFSConnector services, and issues
      the client cases through api/rest/client against the same servers.
V     RestAPITrace: TLC evaluates Good / Conforms / ClientFaithful on every recorded (request, observation) pair.
CONC  RestAPIConc (auth wrapper statement by statement, N concurrent requests; shared-state variant refuted) and
      TestConcurrent under -race: per-request outcomes (credentials class, status, own operation reached) judged by TLC.
"""
import json
import os
import random

import tla
import vcheck

OPT_CLASSES = {
    "name": ["absent", "plain", "special", "ws"], "mode": ["absent", "recursive", "direct", "garbage", "upper"],
    "rmin": ["absent", "two", "neg", "zero", "plus", "negtwo", "garbage", "float", "spacey", "huge"],
    "rmax": ["absent", "three", "neg", "zero", "garbage", "huge"], "repl": ["absent", "one", "neg", "zero", "garbage"],
    "shard": ["absent", "k1024", "zero", "big", "garbage", "negative", "float", "plus"],
    "ualloc": ["absent", "one", "two", "qm", "dup", "garbage", "mixed", "spaced"],
    "expire": ["absent", "at", "atfrac", "atpast", "in1h", "in90m", "in1s", "atgarbage", "atdate", "inshort", "ingarbage",
               "inneg", "innounit"],
    "meta": ["absent", "one", "two", "prefixy", "special", "emptykey"], "update": ["absent", "v0", "v1", "garbage"],
    "origins": ["absent", "one", "two", "onlyp2p", "nopeer", "garbage", "spaced"],
}
# undecodable values accepted as coded (spec: OptLenient, LocalLenient, FilterLenient)
LENIENT = {"mode": {"garbage", "upper"}, "ualloc": {"garbage", "mixed", "spaced"},
           "local": {"upper", "one", "garbage"}, "filter": {"mixed"}}
REFUSED = {"rmin": {"garbage", "float", "spacey", "huge"}, "rmax": {"garbage", "huge"}, "repl": {"garbage"},
           "shard": {"garbage", "negative", "float", "plus"},
           "expire": {"atgarbage", "atdate", "inshort", "ingarbage", "inneg", "innounit"}, "update": {"garbage"},
           "origins": {"nopeer", "garbage", "spaced"}}
POS_INVALID = {"cid": {"garbage", "trunc", "v1trunc", "space"}, "path": {"badcid", "badcidsub"}, "peer": {"garbage", "trunc"},
               "body": {"badjson", "wrongfield", "badpeer", "empty", "wrongtype", "array", "null", "notmultipart"},
               "filter": {"invalid", "undefined"}}


def gen_cases(ctx, rng):
    cases = os.path.join(ctx.work, "c11_http.ndjson")
    client = os.path.join(ctx.work, "c11_client.ndjson")
    r = tla.run_tlc(ctx.specdir(), "RestAPICases.tla", "RestAPICases.cfg", workers=1, timeout=1800, heap="6g",
                    env_extra={"LEVEL": ctx.tier, "CASES_FILE": cases, "CLIENT_FILE": client})
    ctx.log("tlc RestAPICases: rc=%s %.1fs" % (r.rc, r.wall))
    if r.rc != 0 or not os.path.exists(cases) or not os.path.exists(client):
        print(r.out[-3000:])
        raise vcheck.Infra("RestAPICases did not produce the case files")
    reqs = [json.loads(l) for l in open(cases)] + [json.loads(l) for l in open(client)]
    if not ctx.quick():
        # seeded random points of the full pin-option product on the routes that carry options
        templ = {}
        for q in reqs:
            if q["via"] == "http" and q["cfg"] == "open" and (q["pat"], q["method"]) in (
                    ("pins_hash", "POST"), ("pins_path", "POST"), ("pins_hash", "DELETE"), ("pins_path", "DELETE"),
                    ("add", "POST")) and q["ans"] == "ok" and q["cid"] in ("v0", "na") and q["path"] in ("ipfs", "na") \
                    and q["body"] in ("file", "na"):
                templ.setdefault((q["pat"], q["method"]), q)
        keys = sorted(templ)
        for _ in range(60000):
            q = json.loads(json.dumps(templ[rng.choice(keys)]))
            # mostly valid values so that many points reach the cluster
            for n, cl in OPT_CLASSES.items():
                bad = LENIENT.get(n, set()) | REFUSED.get(n, set())
                good = [c for c in cl if c not in bad]
                q["o"][n] = rng.choice(good) if rng.random() < 0.93 else rng.choice(cl)
            if q["pat"] == "pins_hash":
                q["cid"] = rng.choice(["v0", "v1", "v1b58", "v0", "v1", "garbage", "v1trunc"])
            if q["pat"] == "pins_path":
                q["path"] = rng.choice(["ipfs", "ipfssub", "ipns", "ipnssub", "ipld", "space", "qmark", "hash", "pct",
                                        "unicode", "plus", "amp", "badcid"])
            reqs.append(q)
    rng.shuffle(reqs)
    for i, q in enumerate(reqs):
        q["id"] = i + 1
        q["nt"] = bool(q["via"] == "client" or q["cfg"] == "auth" or bad_components(q))
    inp = os.path.join(ctx.work, "c11_cases.ndjson")
    with open(inp, "w") as f:
        for q in reqs:
            f.write(json.dumps(q) + "\n")
    ctx.log("generated %d cases (%d through the bundled client)" % (len(reqs), sum(1 for q in reqs if q["via"] == "client")))
    return inp


def run(ctx):
    rng = random.Random(ctx.seed)
    ctx.rule = ("abstract requests = (credentials configuration x credentials sent, method, URL shape, CID / path / peer / "
                "body / filter / local class, one class per pin option and per add option, scripted cluster answer); "
                "enumerated by TLC: every route x every positional class, every option class alone, against a full valid "
                "profile and pairwise (thorough: triples over a core of boundary classes on every option-carrying route, add-option pairs, 60000 seeded points of the full "
                "product), POST /add with stream-channels x {ok, parameter rejected while adding, cluster failure at allocate / "
                "block put / final pin}, every URL shape x 7 methods x 22 credential situations; the same operations (with "
                "every answer class the API produces: 400 for an option the server rejects, 401, 404, 500, stream-error trailer) through the "
                "bundled client with 9 credential situations; non-trivial = credentials configured, or at least one "
                "malformed component, or issued through the client; distinct by abstract request")
    ctx.rule += ("; concurrent stage: 12 goroutines x 250 simultaneous rounds (thorough 16 x 1500) of pin/unpin/status on a "
                 "CID unique to each request, half with right and half with 15 kinds of wrong/absent credentials, under "
                 "the race detector")
    ctx.rule += ("; configuration variants {plain, Tracing=true, restrictive CORS + extra headers, both} x {open, basic-auth}: "
                 "quick runs every endpoint x method x {no, bad, good credentials} and every positional class under each "
                 "variant, thorough repeats every case under Tracing=true and the whole credentials matrix under each variant")
    ctx.assumptions = [
        "the recorder behind the API stands for the cluster: 'performs no cluster operation' is observed as 'no RPC reached "
        "the recording Cluster/PeerMonitor/IPFSConnector services'",
        "POST /add is exercised with one small file, non-sharded, without wrap-with-directory/progress (its streaming body "
        "is one document only then); chunker/hash values are not classified (decided inside the adder, C13)",
        "trailing-slash redirects (StrictSlash), encoded slashes and the libp2p-http endpoint are not covered",
        "option values the code documents as defaulted (mode, user-allocations, ?local= other than true/false, filter lists "
        "mixing known and unknown names) are counted as malformed, as the statement reads",
    ]
    # SPEC
    cfg = "RestAPIMC_quick.cfg" if ctx.quick() else "RestAPIMC_thorough.cfg"
    ctx.tlc("RestAPIMC.tla", cfg, workers=8, timeout=3000)
    ctx.exhaustive = False
    ctx.extra["exhaustive_over"] = ("the request sets of spec/RestAPIGen.tla (every class alone, pairwise, "
                                    "thorough: triples); the full option product is sampled, not exhausted")
    # GEN
    inp = gen_cases(ctx, rng)
    # R
    trace = os.path.join(ctx.work, "c11_io.ndjson")
    ctx.go_test("c11_rest", run="TestDriver", infile=inp, env={"VERIF_TRACE": trace}, timeout=3000)
    # V
    validate(ctx, trace)
    concurrent(ctx)


def concurrent(ctx):
    """Concurrent clause: the auth decision of a request depends on its own credentials only.

    SPEC RestAPIConc: the statements of basicAuthHandler for N concurrent requests; as coded (per-request state) the
    invariant holds, with AuthStateShared = TRUE TLC refutes it (design-level witness of what the stage looks for).
    R+V  K goroutines x M rounds against the real API under the race detector; TLC judges every recorded outcome."""
    ctx.tlc("RestAPIConc.tla", "RestAPIConc_coded.cfg", workers=4, timeout=900)
    r = ctx.tlc("RestAPIConc.tla", "RestAPIConc_shared.cfg", workers=1, timeout=900, expect_violation=True, count=False)
    if not r.violation:
        raise vcheck.Infra("RestAPIConc with shared auth state is expected to be refuted")
    trace = os.path.join(ctx.work, "c11_conc.ndjson")
    env = {"VERIF_TRACE": trace}
    if not ctx.quick():
        env.update({"C11_CONC_WORKERS": 16, "C11_CONC_ROUNDS": 1500})
    dr = ctx.go_test("c11_rest", run="TestConcurrent$", env=env, timeout=2400, race=True, count=False, allow_fail=True)
    races = race_reports(dr.stdout, ctx.repo)
    for key, text in races.items():
        ctx.violation("C11:auth:race" if "basicAuthHandler" in key else "C11:race:" + key,
                      "data race reported by the race detector in api/rest while serving concurrent requests: " + key,
                      {"report": text[:4000], "seed": ctx.seed})
    if dr.infra and not races:
        raise vcheck.Infra("concurrent stage: %s" % dr.infra[0])
    if dr.rc != 0 and not races:
        print(dr.stdout[-3000:])
        raise vcheck.Infra("concurrent driver failed (rc=%d)%s" % (
            dr.rc, ": race reported outside ipfs-cluster code (harness or dependency)" if "DATA RACE" in dr.stdout else ""))
    if not os.path.exists(trace):
        if races:
            return
        raise vcheck.Infra("concurrent stage wrote no trace")
    ctx.absorb(dr, "c11_rest", "TestConcurrent$")
    verdict = os.path.join(ctx.work, "c11_conc_verdict.ndjson")
    r = tla.run_tlc(ctx.specdir(), "RestAPIConcTrace.tla", "RestAPIConcTrace.cfg", workers=1, timeout=1200, heap="4g",
                    env_extra={"TRACE_FILE": trace, "VERDICT_FILE": verdict})
    ctx.log("tlc RestAPIConcTrace: rc=%s %.1fs" % (r.rc, r.wall))
    if not os.path.exists(verdict):
        print(r.out[-3000:])
        raise vcheck.Infra("RestAPIConcTrace produced no verdict")
    v = json.loads(open(verdict).readline())
    recs = [json.loads(l) for l in open(trace)]
    if v["n"] != len(recs) or v["unknown"]:
        raise vcheck.Infra("concurrent verdict covers %d of %d records, %d with unknown credential class" % (
            v["n"], len(recs), len(v["unknown"])))
    ctx.extra["concurrent_outcomes_checked_by_tlc"] = v["n"]
    bad = set(v["badaccepted"]) | set(v["goodrefused"]) | set(v["dup"])
    ctx.traces_validated += v["n"] - len(bad)
    for name, key, what in (("badaccepted", "C11:auth:concurrent:bad-creds-accepted",
                             "a request without valid credentials was let through while other requests were in flight"),
                            ("goodrefused", "C11:auth:concurrent:good-creds-refused",
                             "a request with valid credentials was refused (or not performed) while other requests were in flight"),
                            ("dup", "C11:auth:concurrent:operation-repeated",
                             "the operation of one request reached the RPC layer more than once")):
        for i in v[name][:5]:
            rec = recs[i - 1]
            ctx.violation(key, "%s: credentials %s, %s, status %s, operation reached the cluster %d time(s) "
                          "(%d of %d concurrent requests affected)" % (what, rec["cred"], rec["op"], rec["status"],
                                                                        rec["reached"], len(v[name]), v["n"]),
                          {"concurrent": rec, "seed": ctx.seed})
    if v["lost"] and not races and not bad:
        raise vcheck.Infra("%d of %d concurrent requests got no answer at all (first: %s)" % (
            len(v["lost"]), v["n"], recs[v["lost"][0] - 1].get("err", "")))


def race_reports(out, repo):
    """DATA RACE blocks with a racing access in ipfs-cluster source (not in the harness)."""
    import re
    found = {}
    for blk in re.findall(r'WARNING: DATA RACE\n(.*?)\n==================', out, re.S):
        tops = []
        for sec in re.split(r'\n\n', blk):
            if re.match(r'(Read|Write|Previous read|Previous write|Atomic)', sec.strip()):
                m = re.search(r'\n\s+(\S+)\(\)\n\s+(\S+):(\d+)', "\n" + sec)
                if m:
                    tops.append((m.group(1), m.group(2)))
        mine = [t for t in tops if (t[1].startswith(repo + "/") or "github.com/ipfs/ipfs-cluster" in t[0])
                and "verifharness" not in t[0]]
        if mine:
            key = "|".join(sorted({t[0].split("/")[-1] for t in mine}))
            found.setdefault(key, blk)
    return found


def replay(ctx, path):
    j = json.load(open(path))
    if str(j.get("key", "")).startswith(("C11:auth:", "C11:race:")):
        ctx.seed = int(j.get("seed", ctx.seed))
        concurrent(ctx)
        return
    req = (j.get("case") or {}).get("req")
    if not req:
        raise vcheck.Infra("replay file has no request")
    inp = os.path.join(ctx.work, "c11_cases.ndjson")
    with open(inp, "w") as f:
        f.write(json.dumps(req) + "\n")
    trace = os.path.join(ctx.work, "c11_io.ndjson")
    ctx.go_test("c11_rest", run="TestDriver", infile=inp, env={"VERIF_TRACE": trace}, timeout=600)
    validate(ctx, trace)
    for l in open(trace):
        print("replayed:", l.strip()[:1500])


def bad_components(req):
    """The malformed components of a request, as stable short names."""
    out = []
    for k in ("cid", "path", "peer", "body", "filter"):
        if req.get(k) in POS_INVALID[k]:
            out.append("%s=%s" % (k, req[k]))
    for k in ("local", "filter"):
        if req.get(k) in LENIENT[k]:
            out.append("%s=%s" % (k, req[k]))
    shadow = req["o"].get("repl") != "absent"
    for n in sorted(req["o"]):
        c = req["o"][n]
        if c in LENIENT.get(n, ()) or c in REFUSED.get(n, ()):
            out.append("%s=%s%s" % (n, c, "(shadowed)" if shadow and n in ("rmin", "rmax") else ""))
    for n in sorted(req["a"]):
        if req["a"][n] == "garbage":
            out.append("add-%s=garbage" % n)
    return out


def route_name(req):
    return "%s-%s" % (req["method"], req["pat"])


def key_http(rec, broken, conforms):
    req = rec["req"]
    bad = bad_components(req)
    live = [b for b in bad if not b.endswith("(shadowed)")]     # replication=N overrides min/max, whatever they hold
    lenient_only = live and all(b.split("=")[0] in LENIENT and b.split("=")[1] in LENIENT[b.split("=")[0]] for b in live)
    if broken == ["FailClosed"] and lenient_only and conforms:
        # an undecodable value was replaced by a default and the operation performed
        return ["C11:accepted-undecodable:%s" % n for n in sorted(set(b.split("=")[0] for b in live))]
    obs = rec["obs"]
    if obs["status"] == 400 and obs["docs"] == 2 and len(obs["ops"]) == 1 and live and \
            all(b.split("=")[0] in OPT_CLASSES for b in live):
        # the signature of a handler that answers 400 for an option and carries on
        return "C11:400-then-performed:%s" % route_name(req)
    if "AuthFirst" in broken:
        cfgv = req.get("tr", "plain")
        return "C11:unauthenticated%s:%s:%s" % ("" if cfgv == "plain" else "[config=%s]" % cfgv, route_name(req), req["cred"])
    return "C11:%s:%s:%s" % (route_name(req), "+".join(broken), ",".join(bad) or "valid")


def key_client(rec):
    req = rec["req"]
    obs = rec["obs"]
    used = ",".join(sorted(n for n, c in req["o"].items() if c != "absent"))
    if obs["ops"] != rec.get("_expops"):
        detail = []
        if req["pat"] == "pins_path":
            detail.append("path=" + req["path"])
        if req["filter"] != "absent":
            detail.append("filter=" + req["filter"])
        if used:
            detail.append("opts=" + used)
        return "C11:client:%s:args:%s" % (route_name(req), ",".join(detail))
    if obs["reterr"] and "Pin.origins" in obs.get("errtext", "") and req["o"].get("origins") != "absent":
        # the answer (a Pin with origins) cannot be decoded by the client: the JSON codec defect of C08
        return "C11:client:result:origins-undecodable"
    return "C11:client:%s:result:%s" % (route_name(req), used)


def validate(ctx, trace):
    verdict = os.path.join(ctx.work, "c11_verdict.ndjson")
    r = tla.run_tlc(ctx.specdir(), "RestAPITrace.tla", "RestAPITrace.cfg", workers=1, timeout=3000,
                    heap="8g", env_extra={"TRACE_FILE": trace, "VERDICT_FILE": verdict})
    ctx.log("tlc RestAPITrace: rc=%s %.1fs" % (r.rc, r.wall))
    if not os.path.exists(verdict):
        print(r.out[-3000:])
        raise vcheck.Infra("RestAPITrace produced no verdict")
    v = json.loads(open(verdict).readline())
    recs = [json.loads(l) for l in open(trace)]
    if v["n"] != len(recs):
        raise vcheck.Infra("verdict covers %d of %d records" % (v["n"], len(recs)))
    why = {w["i"]: w for w in v["why"]}
    cwhy = {w["i"]: w for w in v["cwhy"]}
    bad, drift, cbad = set(v["bad"]), set(v["drift"]), set(v["cbad"])
    ctx.traces_validated += v["n"] - len(bad | drift | cbad)
    ctx.extra["io_pairs_checked_by_tlc"] = v["n"]
    ctx.extra["client_calls_checked_by_tlc"] = sum(1 for x in recs if x["req"]["via"] == "client")
    ctx.extra["transcription_drift"] = len(drift - bad)
    ctx.extra["as_coded_deviations_exercised"] = len(v["dev"])
    for i in sorted(bad):
        rec = recs[i - 1]
        w = why.get(i, {})
        broken = sorted(w.get("broken", []))
        rec["expected_as_coded"] = w.get("exp")
        rec["broken"] = broken
        obs = rec["obs"]
        keys = key_http(rec, broken, i not in drift)
        for key in (keys if isinstance(keys, list) else [keys]):
            ctx.violation(key, "%s breaks %s: status %s, %d JSON document(s), operations performed: %s" % (
                rec.get("url", ""), "+".join(broken), obs["status"], obs["docs"],
                [o["svc"] + "." + o["m"] for o in obs["ops"]]), rec)
    for i in sorted(cbad):
        rec = recs[i - 1]
        rec["_expops"] = cwhy.get(i, {}).get("expops")
        obs = rec["obs"]
        ctx.violation(key_client(rec),
                      "client call %s (path class %s, options %s): recorder received %s; client error=%s %s; returned "
                      "%s; server answered %s" % (
                          route_name(rec["req"]), rec["req"]["path"],
                          {n: c for n, c in rec["req"]["o"].items() if c != "absent"},
                          json.dumps(obs["ops"])[:400], obs["reterr"], obs.get("errtext", "")[:200],
                          obs["ret"][:300], obs["answered"][:300]), rec)
    drift_only = sorted(drift - bad)
    if drift_only:
        first = recs[drift_only[0] - 1]
        first["expected_as_coded"] = why.get(drift_only[0], {}).get("exp")
        print("SPEC-DRIFT: %d recorded observations satisfy the property but not the transcription of restapi.go "
              "(first: %s)" % (len(drift_only), json.dumps(first)[:3000]), flush=True)
        known = ctx.known()
        unknown = [x for x in ctx.violations if (ctx.prop, x.get("key", "")) not in known]
        if not unknown:     # otherwise the violations are the verdict
            raise vcheck.Infra("transcription drift: the specification of the handlers is out of date "
                               "(%d observations; property predicates all hold on them)" % len(drift_only))
