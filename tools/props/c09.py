"""C09 - only fresh metrics from members are used; an expired peer alerts once.

SPEC   MonitorMC (exhaustive, small constants): the property predicates of spec/Monitor.tla hold on the
       transcription of store.go/window.go/checker.go/pubsubmon.LatestMetrics with the as-coded switches;
       MonitorCadence: the publish-loop arithmetic keeps every metric renewed before it expires.
REFUTE the same model with the switches of the code *as found* (per-metric loop, sticky alert counter)
       violates AlertOnce / Reported: the TLC counterexamples become targeted replay scripts.
GEN    TLC simulation (staged action kinds) on a 2x3 configuration with W=3 and one with the real W=25.
R      every script is executed on a real pubsubmon.Monitor (real Store, Checker, gossipsub), real time;
       "watch" steps let exactly one iteration of the real Checker.Watch loop run (the loop is parked
       inside the scripted peers function between steps, so no check is ever in flight unobserved).
V      TLC (MonitorTrace) folds the specification over the recorded executions: transcription drift vs
       property predicates on the observed LatestMetrics / alerts / store contents.
CAD    real Cluster with a recording monitor: publish events checked by TLC (MonitorCadenceTrace).
"""
import concurrent.futures
import json
import os
import random
import re

import tla
import vcheck

PROPS = ["AtMostOne", "IsLatest", "ValidUnexpiredMember", "NoFalseAlarm", "AlertOnce", "Reported", "Forgotten", "Used"]
ACCN = 6       # metrics.accrualMetricsNum (unexported): the recorded executions are folded with this value


# ----------------------------------------------------------------------------- scripts from TLC
def script_of(states, src):
    """states: list of parsed TLC states (dicts with s, act, ph)."""
    s0 = states[0]["s"]
    steps = []
    for st in states[1:]:
        if st.get("ph", "") != "":
            continue        # staged simulation: the step that only drew the action kind
        a = dict(st["act"])
        a["set"] = sorted(a.get("set") or [])
        steps.append(a)
    ps = {"kind": s0["ps"]["kind"], "set": sorted(s0["ps"]["set"] or [])}
    return {"w": s0["w"], "accn": s0["accn"], "ps": ps, "steps": steps, "src": src}


_STATE = re.compile(r'^State (\d+): <([^>]*)>\s*$', re.M)


def witness(out):
    """Counterexample printed by TLC on stdout -> list of state dicts."""
    ms = list(_STATE.finditer(out))
    res = []
    for j, m in enumerate(ms):
        end = ms[j + 1].start() if j + 1 < len(ms) else len(out)
        body = out[m.end():end]
        cut = re.search(r'^\s*$', body.strip("\n"), re.M)
        body = body.strip("\n")
        if cut:
            body = body[:cut.start()]
        res.append(tla.parse_state(body))
    return res


def simulate(ctx, cfg, num, depth, seed, src):
    d = ctx.specdir()
    prefix = "beh_%s" % src
    for f in os.listdir(d):
        if f.startswith(prefix + "_"):
            os.remove(os.path.join(d, f))
    workers = 4
    r = tla.run_tlc(d, "MonitorMC.tla", cfg, workers=workers, timeout=600, heap="2g",
                    simulate="file=%s/%s,num=%d" % (d, prefix, max(1, num // workers)), depth=depth, seed=seed)
    ctx.log("tlc simulate %s: rc=%s states=%d %.1fs %s" % (cfg, r.rc, r.generated, r.wall, r.violation or ""))
    if r.timed_out or r.error:
        print(r.out[-3000:])
        raise vcheck.Infra("TLC simulation failed on %s" % cfg)
    if r.violation:
        print(r.out[-6000:])
        raise vcheck.Infra("TLC simulation found a model-level violation on %s (%s): spec problem" % (cfg, r.violation))
    out = []
    for b in tla.read_behaviours(d, prefix):
        sc = script_of([x["state"] for x in b], src)
        if sc["steps"]:
            out.append(sc)
    return out


# ----------------------------------------------------------------------------- verdicts
def pair_history(rec, upto, pair):
    """'after-renewal' when, before step `upto`, the pair was alerted and then received a new metric or was removed."""
    p, nm = pair
    alerted = False
    renewed = False
    for st in rec["steps"][:upto - 1]:
        a = st["act"]
        if alerted and ((a["a"] == "arrive" and a["peer"] == p and a["name"] == nm) or (a["a"] == "remove" and a["peer"] == p)):
            renewed = True
        if any(x["peer"] == p and x["name"] == nm for x in st["obs"]["alerts"]):
            alerted = True
    return "after-renewal" if renewed else "first-cycle"


def classify(rec, b):
    name = PROPS[b["k"] - 1]
    act = rec["steps"][b["step"] - 1]["act"]["a"]
    if name == "Reported" and b["pairs"]:
        kinds = sorted({pair_history(rec, b["step"], tuple(pr)) for pr in b["pairs"]})
        return "C09:Reported:%s" % "+".join(kinds)
    if name in ("IsLatest", "Used") and act == "arrive" and any(
            s["act"]["a"] == "garbage" for s in rec["steps"][:b["step"] - 1]):
        return "C09:pubsub:garbage:later-metric-dropped"
    return "C09:%s:%s" % (name, act)


def validate(ctx, trace, nscripts):
    verdict = os.path.join(ctx.work, "c09_verdict.ndjson")
    if os.path.exists(verdict):
        os.remove(verdict)
    r = tla.run_tlc(ctx.specdir(), "MonitorTrace.tla", "MonitorTrace.cfg", workers=1, timeout=1800, heap="4g",
                    env_extra={"TRACE_FILE": trace, "VERDICT_FILE": verdict})
    ctx.log("tlc MonitorTrace: rc=%s %.1fs" % (r.rc, r.wall))
    if not os.path.exists(verdict):
        print(r.out[-3000:])
        raise vcheck.Infra("MonitorTrace produced no verdict")
    vs = [json.loads(l) for l in open(verdict) if l.strip()]
    recs = {}
    for l in open(trace):
        if l.strip():
            j = json.loads(l)
            recs[j["id"]] = j
    if len(vs) != len(recs) or len(recs) != nscripts:
        raise vcheck.Infra("verdicts %d, recorded executions %d, scripts %d" % (len(vs), len(recs), nscripts))
    drift = []
    nbad = 0
    steps = 0
    for v in vs:
        rec = recs[v["id"]]
        steps += v["n"]
        if v["bad"]:
            nbad += 1
            seen = set()
            for b in sorted(v["bad"], key=lambda x: (x["step"], x["k"])):
                if b["k"] in seen:
                    continue        # report the first step at which a predicate broke
                seen.add(b["k"])
                key = classify(rec, b)
                name = PROPS[b["k"] - 1]
                st = rec["steps"][b["step"] - 1]
                what = "%s broken at step %d (%s) of a replayed script: observed alerts=%s latest=%s stored=%s" % (
                    name, b["step"], st["act"]["a"], json.dumps(st["obs"]["alerts"]), json.dumps(st["obs"]["latest"]),
                    json.dumps(st["obs"]["stored"]))
                case = {"id": rec["id"], "w": rec["w"], "accn": rec["accn"], "ps": rec["ps"], "src": rec.get("src"),
                        "steps": [s["act"] for s in rec["steps"]], "failed_step": b["step"], "predicate": name,
                        "pairs": b["pairs"], "observed": st["obs"]}
                ctx.violation(key, what, case)
        elif v["drift"]:
            drift.append((v["id"], v["drift"]))
        else:
            ctx.traces_validated += 1
    ctx.extra["replayed_steps_checked_by_tlc"] = steps
    ctx.extra["scripts_with_property_breach"] = nbad
    ctx.extra["transcription_drift"] = len(drift)
    if drift:
        i, k = drift[0]
        rec = recs[i]
        print("SPEC-DRIFT: %d replayed scripts satisfy every property predicate but differ from the transcription "
              "(first: script %d step %d act=%s observed=%s)" % (len(drift), i, k, json.dumps(rec["steps"][k - 1]["act"]),
                                                                 json.dumps(rec["steps"][k - 1]["obs"])), flush=True)
        if nbad == 0:
            raise vcheck.Infra("specification out of date: %d scripts drift from the transcription while the property "
                               "predicates hold (see SPEC-DRIFT)" % len(drift))


# ----------------------------------------------------------------------------- cadence
def cadence_once(ctx, scale):
    trace = os.path.join(ctx.work, "c09_cadence_%d.ndjson" % scale)
    dr = ctx.go_test("c09_mon", run="TestCadence$", env={"VERIF_TRACE": trace, "VERIF_C09_SCALE": scale}, timeout=600,
                     count=False, allow_fail=True)
    if dr.rc != 0:
        fn = crash_site(dr.stdout)
        if fn and fn.startswith("github.com/ipfs/ipfs-cluster"):
            m = re.search(r'(panic: .*|fatal error: .*)', dr.stdout)
            short = fn.split("/")[-1]
            ctx.violation("C09:Cadence:panic:%s" % short,
                          "the peer process crashed in %s while publishing its metrics (with / without injected publish "
                          "errors): %s - a dead peer never republishes" % (fn, m.group(1) if m else "panic"),
                          {"cadence": True, "crash_site": fn, "output_head": dr.stdout[:4000]})
            return None, None
        print(dr.stdout[-3000:])
        raise vcheck.Infra("cadence driver failed (rc=%d)%s" % (dr.rc, ": crash outside ipfs-cluster code (%s)" % fn if fn else ""))
    if scale == 1:
        ctx.absorb(dr, "c09_mon", "TestCadence$")
    verdict = os.path.join(ctx.work, "c09_cadence_verdict_%d.ndjson" % scale)
    r = tla.run_tlc(ctx.specdir(), "MonitorCadenceTrace.tla", "MonitorCadenceTrace.cfg", workers=1, timeout=600,
                    heap="2g", env_extra={"TRACE_FILE": trace, "VERDICT_FILE": verdict})
    if not os.path.exists(verdict):
        print(r.out[-3000:])
        raise vcheck.Infra("MonitorCadenceTrace produced no verdict")
    vs = [json.loads(l) for l in open(verdict) if l.strip()]
    runs = [json.loads(l) for l in open(trace) if l.strip()]
    if len(vs) != len(runs) or not vs:
        raise vcheck.Infra("cadence verdicts %d for %d runs" % (len(vs), len(runs)))
    return vs, runs


def crash_site(out):
    """Top non-runtime frame of the panicking goroutine (the first goroutine printed after the panic line)."""
    i = out.find("panic: ")
    j = out.find("fatal error: ")
    if i < 0 or (0 <= j < i):
        i = j
    if i < 0:
        return None
    m = re.search(r'^goroutine \d+ \[[^\]]*\]:\n', out[i:], re.M)
    if not m:
        return None
    stack = out[i + m.end():].split("\n\n")[0]
    for line in stack.split("\n"):
        if not line or line[0] in " \t":
            continue        # file:line rows
        if line.startswith("created by"):
            break
        # full function text up to the argument list (methods contain parentheses: keep them)
        fn = re.sub(r'\([^()]*\)$', '', line.strip())
        if fn.startswith("runtime.") or fn.startswith("panic") or fn.startswith("runtime/") or fn.startswith("testing."):
            continue
        return fn
    return None


def cadence(ctx):
    history = []
    for attempt, scale in enumerate([1, 2, 4]):
        vs, runs = cadence_once(ctx, scale)
        if vs is None:
            return          # crash inside ipfs-cluster code: already a violation
        misses = sum(len(v["misses"]) + len(v["absent"]) + len(v["tail"]) + len(v["stalls"]) for v in vs)
        if misses == 0:
            # the scripted error bursts must really have happened (and been survived)
            for v in vs:
                if v["errors"] and not ({2, 3} <= set(v["bursts"].get("freespace", [])) and
                                        11 in v["bursts"].get("reposize", [])):
                    raise vcheck.Infra("cadence run did not produce the scripted error bursts: %s" % json.dumps(v["bursts"]))
        late = sum(len(v["late"]) for v in vs)
        early = sum(len(v["early"]) for v in vs)
        n = sum(v["n"] for v in vs)
        history.append({"scale": scale, "publishes": n, "misses": misses, "late": late, "early": early})
        ctx.log("cadence scale=%d publishes=%d misses=%d late=%d early=%d" % (scale, n, misses, late, early))
        if misses == 0:
            ctx.traces_validated += len(vs)
            ctx.extra["cadence_runs"] = history
            if late or early:
                ctx.notes.append("cadence: %d late / %d early attempts relative to the transcribed TTL/2, TTL/4, interval "
                                 "(25%% slack) without any missed deadline" % (late, early))
            return
    # a miss in three consecutive runs with doubled durations cannot be scheduling delay alone
    ctx.extra["cadence_runs"] = history
    v = [x for x in vs if x["misses"] or x["absent"] or x["tail"] or x["stalls"]][0]
    run = [x for x in runs if x["id"] == v["id"]][0]
    nm = (v["absent"] + v["tail"] + [m[0] for m in v["stalls"]] + [m[0] for m in v["misses"]])[0]
    ctx.violation("C09:Cadence:%s" % ("informer" if nm != "ping" else "ping"),
                  "metric %s not republished before the previous one expired (absent=%s, expired at end=%s, stalled after a publish "
                  "error=%s, late republications=%d), in 3 consecutive runs with doubled durations (%s)" % (
                      nm, v["absent"], v["tail"], v["stalls"], len(v["misses"]), json.dumps(history)),
                  {"cadence": True, "run": run, "verdict": v, "history": history})


# ----------------------------------------------------------------------------- main
def refute(ctx, cfg, inv, src):
    r = ctx.tlc("MonitorMC.tla", cfg, count=False, expect_violation=True, workers=4, timeout=900)
    if not r.violation or inv not in r.violation:
        raise vcheck.Infra("%s: TLC no longer refutes %s on the as-found switches (spec lost its sensitivity)" % (cfg, inv))
    st = witness(r.out)
    if len(st) < 3:
        raise vcheck.Infra("could not parse the TLC counterexample of %s" % cfg)
    return script_of(st, src)


def run(ctx):
    rng = random.Random(ctx.seed)
    ctx.rule = ("scripts = TLC behaviours of MonitorMC (arrivals of any name/peer/validity/expiry class incl. bursts larger "
                "than the window, removals, peerset changes, ticks, CheckPeers/CheckAll/Watch iterations) replayed on a real "
                "pubsubmon.Monitor; evaluations = replayed steps (+ recorded publishes in the cadence runs); non-trivial = "
                "scripts with at least one failure check after an arrival; distinct by abstract script")
    ctx.assumptions = [
        "time is real: 'past'/'far' are now -/+ 1h, 'short' is a 400 ms TTL whose tick is a sleep past the expiry; "
        "a script whose pre-tick steps eat 3/4 of the TTL is retried with a doubled TTL",
        "where >= 6 metrics are stored the accrual detector's verdict is read off the observation (not predicted)",
        "undecodable messages (random bytes, truncated metric, empty payload, msgpack string) are published raw by the "
        "harness from the monitor's own host (the monitor does not look at the sender); delivery of every pubsub message "
        "is witnessed by a second subscription owned by the harness",
        "ring window modelled as a bounded queue; alert order within one check is left free (map iteration)",
        "cadence: two informers (TTL 400 and 600 ms) and the ping; ping publish errors are not injected (pushPingMetrics has zero margin after a lost ping: "
        "MonitorCadence MaxErrPing = 0); informer publish errors are scripted by attempt number (isolated, bursts of 2, 3 and 11 consecutive failures); "
        "after more than one consecutive error the clause only demands that republishing resumes (Resume/Stalls)"]
    quick = ctx.quick()
    # SPEC
    skip_spec = bool(os.environ.get("VERIF_C09_SKIP_SPEC"))     # development aid (mutant runs); never set by bin/check
    mcs = [("MonitorMC_quick.cfg" if quick else "MonitorMC_thorough.cfg"),
           ("MonitorMC_names.cfg" if quick else "MonitorMC_names_thorough.cfg"), "MonitorMC_accrual.cfg",
           "MonitorMC_garbage.cfg"]
    if skip_spec:
        mcs = []
    ctx.specdir()
    with concurrent.futures.ThreadPoolExecutor(max_workers=4) as ex:
        futs = [ex.submit(ctx.tlc, "MonitorMC.tla", c, workers=4, timeout=900 if quick else 3400) for c in mcs]
        for f in futs:
            f.result()
    ctx.tlc("MonitorCadence.tla", "MonitorCadence.cfg", workers=2, timeout=300)
    ctx.exhaustive = True
    # REFUTE: the switches of the code as found break the property in the model; the witnesses are replayed
    scripts = [refute(ctx, "MonitorMC_refute.cfg", "InvAlertOnce", "witness:per_metric"),
               refute(ctx, "MonitorMC_refute2.cfg", "InvReported", "witness:sticky"),
               # per-peer instead of per-(peer, name) alert record: two expired names on one peer interact
               refute(ctx, "MonitorMC_refute3.cfg", "InvAlertOnce", "witness:forget_peer"),
               # reachability goals on the as-coded model: one peer, two expired names, full alert cycle of both
               refute(ctx, "MonitorMC_goal_cp.cfg", "NeverTwoNamesCycleCP", "goal:two_names:checkpeers"),
               refute(ctx, "MonitorMC_goal_all.cfg", "NeverTwoNamesCycleAll", "goal:two_names:checkall"),
               refute(ctx, "MonitorMC_goal_watch.cfg", "NeverTwoNamesCycleWatch", "goal:two_names:watch"),
               # a far-expiring metric superseded by an earlier-expiring one (direct and over pubsub)
               refute(ctx, "MonitorMC_goal_farpast.cfg", "NeverFarThenPastAlert", "goal:far_then_past"),
               refute(ctx, "MonitorMC_goal_farshort.cfg", "NeverFarThenShortAlert", "goal:far_then_short:publish")]
    # membership shrinks and grows back to back around a member's live metric: every read must follow at once
    scripts.append(refute(ctx, "MonitorMC_goal_shrinkgrow.cfg", "NeverShrinkThenGrow", "goal:peerset:shrink_then_grow"))
    # an undecodable message (4 kinds) on the metrics topic between two valid published metrics of one peer
    for k in ("Random", "Truncated", "Empty", "WrongType"):
        scripts.append(refute(ctx, "MonitorMC_goal_garbage_%s.cfg" % k.lower(), "NeverFreshAfter" + k,
                              "goal:garbage:%s:publish" % k.lower()))
    # GEN
    n_small, n_big = (160, 60) if quick else (2400, 600)
    scripts += simulate(ctx, "MonitorMC_sim.cfg", n_small, 28, ctx.seed, "sim:w3")
    scripts += simulate(ctx, "MonitorMC_simbig.cfg", n_big, 28, ctx.seed + 1000, "sim:w25")
    # 2 names x 2 peers: interactions between the metric names of one peer are frequent here
    scripts += simulate(ctx, "MonitorMC_simpair.cfg", 80 if quick else 1200, 28, ctx.seed + 2000, "sim:pair")
    # the same with undecodable messages interleaved (these scripts run over pubsub)
    scripts += simulate(ctx, "MonitorMC_simgarbage.cfg", 40 if quick else 600, 28, ctx.seed + 3000, "sim:garbage")
    for i, sc in enumerate(scripts):
        sc["id"] = i + 1
        sc["accn"] = ACCN
        sc["publish"] = True if (sc["src"].endswith(":publish") or any(a["a"] == "garbage" for a in sc["steps"])) \
            else rng.random() < 0.35
    inp = os.path.join(ctx.work, "c09_scripts.ndjson")
    with open(inp, "w") as f:
        for sc in scripts:
            f.write(json.dumps(sc) + "\n")
    ctx.log("generated %d scripts (%d steps)" % (len(scripts), sum(len(s["steps"]) for s in scripts)))
    # R
    trace = os.path.join(ctx.work, "c09_trace.ndjson")
    dr = ctx.go_test("c09_mon", run="TestReplay$", infile=inp, env={"VERIF_TRACE": trace}, timeout=3000,
                     count=False, allow_fail=True)
    if dr.rc != 0:
        fn = crash_site(dr.stdout)
        if fn and fn.startswith("github.com/ipfs/ipfs-cluster"):
            m = re.search(r'(panic: .*|fatal error: .*)', dr.stdout)
            ctx.violation("C09:panic:%s" % fn.split("/")[-1],
                          "the monitor crashed the process in %s while a generated history was replayed: %s" % (
                              fn, m.group(1) if m else "panic"), {"crash_site": fn, "output_head": dr.stdout[:4000]})
            return
        print(dr.stdout[-3000:])
        raise vcheck.Infra("replay driver failed (rc=%d)" % dr.rc)
    ctx.absorb(dr, "c09_mon", "TestReplay$")
    # V
    validate(ctx, trace, len(scripts))
    unresp = dr.extra.get("scripts_monitor_unresponsive", 0)
    if unresp:
        # the executed prefixes were judged; without a breach there is no verdict on the rest
        msg = "monitor did not answer within 20s in %d scripts (%s); their prefixes were judged" % (
            unresp, dr.extra.get("monitor_unresponsive_in"))
        ctx.log(msg)
        if not ctx.violations:
            raise vcheck.Infra(msg)
    # cadence
    cadence(ctx)


def replay(ctx, path):
    j = json.load(open(path))
    case = j.get("case") or {}
    if case.get("cadence"):
        cadence(ctx)
        return
    sc = {"id": 1, "w": case["w"], "accn": case.get("accn", ACCN), "ps": case["ps"], "steps": case["steps"],
          "src": "replay", "publish": False}
    inp = os.path.join(ctx.work, "c09_scripts.ndjson")
    open(inp, "w").write(json.dumps(sc) + "\n")
    trace = os.path.join(ctx.work, "c09_trace.ndjson")
    ctx.go_test("c09_mon", run="TestReplay$", infile=inp, env={"VERIF_TRACE": trace}, timeout=600)
    validate(ctx, trace, 1)
