"""C01 seam 3 - process-level crash points (extra stage of C01; call `c01crash.run(ctx)` at the end of c01.run).

SPEC   RaftCrash.tla: one raft.Consensus peer as a killable process: submitted sequence, durable committed log,
       acked set, up/ready, fsm, snapshot; Submit / Commit / Apply / Ack / Snapshot / Kill / Restart / BecomeReady.
       Production store choice (cmdutils/state.go raftStateManager.GetStore = inmem.New()): a kill LOSES the fsm
       (KeepFsm = FALSE), a restart = snapshot + log replay. Exhaustive TLC on a small model for AckDurable,
       PrefixInv, AtMostOnce; control cfg (a kill loses log entries) must refute AckDurable.
RECORD harness/c01_crash: the test binary re-executes itself as a child hosting one REAL single-peer raft.Consensus
       (real hashicorp raft, raft.db, file snapshots, in-memory pinset store as in production); the parent SIGKILLs
       it after acks / while an op is in flight, restarts it on the same data folder, records submit / ack / err /
       kill / restart / ready / obs.
V      RaftCrashTrace.tla: every run must be a behaviour of RaftCrash (TLC infers the unlogged commit points): the
       state observed after a restart must be ApplyAll(prefix of the committed sequence) for a prefix that holds
       every acknowledged op. A rejected run = VIOLATION (key by re-validation with RaftCrashTrace_loselog.cfg:
       accepted there = acked-op-lost, else not-a-prefix). Everything else (child does not start, timeout, ...)
       = vcheck.Infra.
"""
import json
import os
import re

import tla
import vcheck

MAX_REJECTED = 4


def spec_stage(ctx):
    ctx.tlc("RaftCrash.tla", "RaftCrash_mc.cfg", workers=8, timeout=600)
    ctx.tlc("RaftCrash.tla", "RaftCrash_keep.cfg", workers=8, timeout=600)
    r = ctx.tlc("RaftCrash.tla", "RaftCrash_loselog.cfg", workers=1, timeout=300, expect_violation=True, count=False)
    if not r.violation or "AckDurable" not in r.violation:
        raise vcheck.Infra("control run RaftCrash_loselog.cfg: a kill that loses log entries is expected to refute AckDurable")
    if not ctx.quick():
        ctx.tlc("RaftCrash.tla", "RaftCrash_mc4.cfg", workers=12, timeout=3000, heap="8g")


def read_runs(path):
    runs = []
    for ln in open(path):
        if not ln.strip():
            continue
        e = json.loads(ln)
        if e["ev"] == "reset":
            runs.append([])
        if not runs:
            raise vcheck.Infra("c01crash: trace file does not start with a reset record")
        runs[-1].append(e)
    return runs


def write_runs(path, runs):
    with open(path, "w") as f:
        for r in runs:
            for e in r:
                f.write(json.dumps(e) + "\n")


def tlc_trace(ctx, cfg, path, timeout=900):
    """-> (accepted, reject_line or None, TLCResult). Like ctx.validate_trace (ONE worker: the high-water mark of
    RaftCrashTrace lives in a TLC register), but RaftCrashTrace signals rejection by a false POSTCONDITION only."""
    r = tla.run_tlc(ctx.specdir(), "RaftCrashTrace.tla", cfg, workers=1, timeout=timeout,
                    heap=os.environ.get("VERIF_TLC_HEAP", "6g"), env_extra={"TRACE_FILE": path})
    m = re.search(r'TRACE-REJECT line=",\s*(\d+)', r.out)
    ctx.log("tlc trace RaftCrashTrace.tla/%s on %s: rc=%s states=%d %.1fs %s" % (
        cfg, os.path.basename(path), r.rc, r.distinct, r.wall, ("rejected at line %s" % m.group(1)) if m else (r.violation or "")))
    if r.timed_out:
        raise vcheck.Infra("c01crash: trace validation timed out")
    if m and "Postcondition TraceAccepted" in r.out and not r.violation:
        return False, int(m.group(1)), r
    if r.violation:
        # the invariants of RaftCrash hold on every reachable state of the trace spec by construction (exhaustive run);
        # one false here means the trace spec left the model: a spec problem
        print(r.out[-3000:])
        raise vcheck.Infra("c01crash: %s on a state of the trace specification (spec problem, not a verdict)" % r.violation)
    if r.error or r.rc != 0:
        print(r.out[-3000:])
        raise vcheck.Infra("c01crash: trace validation error: %s" % (r.error or r.rc))
    if "Model checking completed. No error has been found" not in r.out:
        print(r.out[-3000:])
        raise vcheck.Infra("c01crash: TLC did not complete the trace validation")
    return True, None, r


def locate(runs, line):
    n = 0
    for k, t in enumerate(runs):
        if line <= n + len(t):
            return k, line - n
        n += len(t)
    return len(runs) - 1, len(runs[-1])


def validate(ctx, runs):
    rejected = []
    remaining = list(runs)
    accepted = 0
    rnd = 0
    while remaining:
        rnd += 1
        p = os.path.join(ctx.work, "c01crash_%d.ndjson" % rnd)
        write_runs(p, remaining)
        ok, line, r = tlc_trace(ctx, "RaftCrashTrace.cfg", p)
        if ok:
            accepted += len(remaining)
            ctx.traces_validated += len(remaining)
            ctx.model_runs.append({"module": "RaftCrashTrace.tla", "cfg": "RaftCrashTrace.cfg", "distinct": r.distinct,
                                   "generated": r.generated, "trace_lines": sum(len(t) for t in remaining),
                                   "wall_s": round(r.wall, 1)})
            break
        k, pos = locate(remaining, line)
        bad = remaining[k]
        p1 = os.path.join(ctx.work, "c01crash_%d_one.ndjson" % rnd)
        write_runs(p1, [bad])
        ok1, line1, _ = tlc_trace(ctx, "RaftCrashTrace.cfg", p1)
        if ok1:
            raise vcheck.Infra("c01crash: a run rejected inside the concatenation is accepted alone (harness problem)")
        ok2, _, _ = tlc_trace(ctx, "RaftCrashTrace_loselog.cfg", p1)
        rejected.append({"kind": "acked-op-lost" if ok2 else "not-a-prefix", "position": line1, "at": bad[line1 - 1],
                         "run": bad})
        accepted += k
        ctx.traces_validated += k
        remaining = remaining[k + 1:]
        if len(rejected) >= MAX_REJECTED:
            ctx.log("c01crash: %d runs rejected, %d left unvalidated" % (len(rejected), len(remaining)))
            break
    return accepted, rejected


def selftest_binding(ctx, runs):
    """Drop an acknowledged op from one observed state: the copy must be rejected."""
    for t in runs:
        acked = set()
        sub = {}
        seen_kill = False
        for i, e in enumerate(t):
            if e["ev"] == "submit":
                sub[e["id"]] = e
            elif e["ev"] == "ack":
                acked.add(e["id"])
            elif e["ev"] == "kill":
                seen_kill = True
            elif e["ev"] == "obs" and seen_kill:
                hit = [c for c, v in e["state"].items() if v in acked and sub[v]["typ"] == "pin"]
                if hit:
                    c = [json.loads(json.dumps(x)) for x in t]
                    c[i]["state"][hit[0]] = 0
                    p = os.path.join(ctx.work, "c01crash_selftest.ndjson")
                    write_runs(p, [c])
                    ok, line, _ = tlc_trace(ctx, "RaftCrashTrace.cfg", p)
                    if ok:
                        raise vcheck.Infra("c01crash: binding self-test failed: an observed state without an acknowledged "
                                           "op was accepted")
                    ok2, _, _ = tlc_trace(ctx, "RaftCrashTrace_loselog.cfg", p)
                    ctx.extra["c01crash_binding_selftest"] = "acked op dropped from an observed state: rejected at line %s, " \
                        "classified %s" % (line, "acked-op-lost" if ok2 else "not-a-prefix")
                    return
    raise vcheck.Infra("c01crash: no run with an acknowledged pin visible after a restart to self-test the binding on")


def run(ctx, kills=None):
    ctx.assumptions.append("c01crash: SIGKILL of the process, not power loss: what the process wrote (write(2)) counts as "
                           "durable, fsync omissions are not visible; one voter; ops submitted one at a time")
    spec_stage(ctx)
    trace = os.path.join(ctx.work, "c01crash.ndjson")
    n = kills or int(os.environ.get("C01CRASH_KILLS", "12" if ctx.quick() else "150"))
    dr = ctx.go_test("c01_crash", run="TestDriver", env={"VERIF_TRACE": trace, "C01CRASH_KILLS": n},
                     timeout=300 if ctx.quick() else 2400)
    if not os.path.exists(trace) or os.path.getsize(trace) == 0:
        raise vcheck.Infra("c01crash: no trace recorded")
    runs = read_runs(trace)
    ctx.log("c01crash: %d runs, %d lines, kills after ack %s / in flight %s (ack raced the kill: %s), %s observations, "
            "runs with snapshots on disk %s" % (len(runs), sum(len(t) for t in runs), dr.extra.get("c01crash_kills_after_ack"),
                                                dr.extra.get("c01crash_kills_inflight"), dr.extra.get("c01crash_inflight_ack_raced_kill"),
                                                dr.extra.get("c01crash_observations"), dr.extra.get("c01crash_runs_with_snapshot_on_disk")))
    accepted, rejected = validate(ctx, runs)
    ctx.extra["c01crash_runs_accepted"] = accepted
    ctx.extra["c01crash_runs_total"] = len(runs)
    for d in rejected:
        what = {"acked-op-lost": "after SIGKILL + restart on the same data folder the peer's pinset lacks an operation whose "
                                 "LogPin/LogUnpin had returned nil",
                "not-a-prefix": "the pinset observed on the real raft.Consensus process is not the result of applying a prefix "
                                "of one committed sequence that holds every acknowledged operation"}[d["kind"]]
        ctx.violation("C01:crash:" + d["kind"], "%s [RaftCrashTrace.tla rejects the run at event %d: %s]" % (
            what, d["position"], json.dumps(d["at"])), {"run": d["run"], "position": d["position"]})
    if not rejected:
        selftest_binding(ctx, runs)
