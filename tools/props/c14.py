"""C14 - state export/import, snapshots, backups and the peerstore file round-trip.

SPEC  spec/Persist.tla, five machines (xfer, snap, rot, pstore, plock), each checked exhaustively by TLC:
      every transcribed step satisfies the property predicates written from the statement.
GEN   TLC dumps the state graph of the generation configs; paths covering every transition become
      replay scripts (tools/tla.py edge_tours).
R     harness/c14_persist executes the scripts on the real code (cmdutils state managers, raft
      SnapshotSave / OfflineState / CleanupRaft / Consensus, dsstate Marshal/Unmarshal, pstoremgr)
      in temp dirs and records inputs and projected states before/after every step.
V     spec/PersistTrace.tla: TLC evaluates Good (property) and Conf (transcription) on every record.
"""
import hashlib
import json
import os
import random

import tla
import vcheck

MOD = "PersistMC.tla"
KINDS = ["raft", "crdt-leveldb", "raft", "crdt-badger", "raft", "crdt-leveldb"]
SKINDS = ["crdt-leveldb", "raft", "raft", "crdt-badger", "crdt-leveldb"]


def _entries(lst):
    return sorted(({"c": e["c"], "v": e["v"]} for e in lst), key=lambda e: e["c"])


def _dirs(st):
    return {"data": st["dirs"]["data"], "old": list(st["dirs"]["old"])}


def scripts_from_graph(machine, g, tours):
    out = []
    for t in tours:
        s0 = g.state(t[0][1])
        labels = [lab for (lab, _) in t[1:]]
        if machine == "rot":
            steps = [{"act": lab, "exp": _dirs(g.state(dst)), "keep": g.state(dst)["keep"]} for (lab, dst) in t[1:]]
            if not steps:
                continue
            sc = {"m": "rot", "keep": s0["keep"], "old": list(s0["dirs"]["old"]), "steps": steps}
            nt = False
            cur = _dirs(s0)
            for st in steps:
                if st["act"] in ("RotClean", "RotSave") and cur["data"] not in ("absent", "nosnap") and \
                        cur["old"][0] != "absent":
                    nt = True
                cur = st["exp"]
            sc["nontrivial"] = nt
        elif machine == "snap":
            steps = []
            for lab in labels:
                if lab.startswith("SnapSave("):
                    steps.append({"act": "SnapSave", "ps": _entries(tla.parse_value(lab[len("SnapSave("):-1]))})
                else:
                    steps.append({"act": lab})
            if not steps:
                continue
            sc = {"m": "snap", "steps": steps,
                  "nontrivial": any(s["act"] == "StartPeer" for s in steps) and
                  any(s["act"] == "SnapSave" and s["ps"] for s in steps)}
        elif machine == "xfer":
            if not labels:
                continue
            if labels[0] == "Marshal":
                sc = {"m": "xfer", "path": "serial", "src": _entries(s0["src"]), "tgt0": _entries(s0["tgt0"]),
                      "fault": s0["fault"]}
                sc["nontrivial"] = (bool(sc["src"]) and bool(sc["tgt0"])) or 0 < sc["fault"] <= len(sc["src"])
            else:
                # export / import rounds, all imports and re-exports on ONE target manager
                steps = []
                for (lab, dst) in t[1:]:
                    if lab == "Export":
                        steps.append({"act": "Export", "ps": _entries(g.state(dst)["src"])})
                    elif lab in ("Import", "ReExport"):
                        steps.append({"act": lab})
                if steps and steps[-1]["act"] == "Export":
                    steps.append({"act": "Import"})      # an export alone exercises nothing new
                sc = {"m": "xfer", "path": "json", "src": _entries(s0["src"]), "tgt0": _entries(s0["tgt0"]),
                      "steps": steps}
                nimp = len([x for x in steps if x["act"] == "Import"])
                sc["rounds"] = nimp
                sc["nontrivial"] = (bool(sc["src"]) and bool(sc["tgt0"])) or nimp >= 2
        elif machine == "pstore":
            book = [{"p": p, "addrs": sorted(v["addrs"]), "prio": v["prio"]} for p, v in sorted(s0["book"].items())]
            junk = []
            prev = None
            for (lab, dst) in t[1:]:
                st = g.state(dst)
                if lab == "PCorrupt":
                    f0, f1 = prev["file"], st["file"]
                    pos = 0
                    while pos < len(f0) and f0[pos] == f1[pos]:
                        pos += 1
                    junk.append({"pos": pos, "kind": f1[pos]["t"]})
                prev = st
            if not labels:
                continue
            sc = {"m": "pstore", "book": book, "junk": junk}
            listed = [b for b in book if b["p"] != "p1" and b["addrs"]]
            sc["nontrivial"] = len(listed) >= 2 or bool(junk)
        else:
            raise vcheck.Infra("unknown machine " + machine)
        out.append(sc)
    return out


def dedupe(scripts):
    seen = set()
    out = []
    for s in scripts:
        h = hashlib.sha1(json.dumps(s, sort_keys=True).encode()).hexdigest()
        if h not in seen:
            seen.add(h)
            out.append(s)
    return out


def generate(ctx, rng):
    """TLC state graphs -> scripts."""
    q = ctx.quick()
    plan = [("rot", "Persist_rot_gen.cfg" if q else "Persist_rot_thorough.cfg", 10, 700 if q else None),
            # the retention value is edited between operations
            ("rot", "Persist_rot_rekeep_gen.cfg" if q else "Persist_rot_rekeep.cfg", 8, 150 if q else None),
            # two-digit backup indices: retention 10..12, pre-existing sets around the window (full runs, gaps
            # in front of .old.10, two-digit folders only), and a chain of 15 saves from nothing (>= N+1 cleans)
            ("rot", "Persist_rot_wide.cfg", 6, 120 if q else None),
            ("rot", "Persist_rot_long.cfg", 20, None),
            ("snap", "Persist_snap_gen.cfg" if q else "Persist_snap.cfg", 8, 40 if q else 500),
            ("xfer", "Persist_xfer_gen.cfg", 8, 170 if q else None),
            ("xfer", "Persist_xfer_rounds.cfg", 10, 40 if q else 600),
            ("pstore", "Persist_pstore_gen.cfg", 6, 500 if q else None),
            # files with a line longer than 64 KiB: as coded LoadLaw does not hold for them (design-level finding);
            # TLC reports that, keeps going (-continue), and the graph gives the scripts that reproduce it
            ("pstore", "Persist_pstore_long.cfg", 6, 40 if q else None)]
    scripts = []
    cover = {}
    for machine, cfg, maxlen, sample in plan:
        dot = os.path.join(ctx.work, "c14_%s.dot" % machine)
        # the pstore generation config is also that machine's exhaustive run in the quick tier
        count = cfg == "Persist_pstore_gen.cfg" and ctx.quick()
        if cfg == "Persist_pstore_long.cfg":
            w = ctx.tlc(MOD, cfg, count=False, dump_dot=dot, timeout=1500, expect_violation=True, extra=["-continue"])
            ctx.extra["design_witness_peerstore_overlong_line"] = bool(w.violation)
        else:
            ctx.tlc(MOD, cfg, count=count, dump_dot=dot, timeout=1500)
        g = tla.read_dot(dot)
        # vacuity guard: no behaviour may get stuck before its machine's last step
        final = {"xfer": lambda st: st["xst"] in ("imported", "reexported", "unmarshalled", "marshalfailed"),
                 "pstore": lambda st: st["pst"] == "imported",
                 "snap": lambda st: st["nsaved"] > 0, "rot": lambda st: st["nops"] > 0}[machine]
        stuck = [n for n in g._raw if not g.edges.get(n) and not final(g.state(n))]
        if stuck:
            raise vcheck.Infra("spec %s/%s: %d states have no successor before the final step (vacuous model), e.g. %s"
                               % (machine, cfg, len(stuck), g.state(stuck[0])))
        tours = tla.edge_tours(g, max_len=maxlen, rng=random.Random(ctx.seed))
        sc = dedupe(scripts_from_graph(machine, g, tours))
        nedges = sum(len(v) for v in g.edges.values())
        if sample is not None and len(sc) > sample:
            rng.shuffle(sc)
            if machine == "xfer":
                serial = [x for x in sc if x["path"] == "serial"]
                multi = [x for x in sc if x["path"] == "json" and x["rounds"] >= 2]
                single = [x for x in sc if x["path"] == "json" and x["rounds"] < 2]
                sc = serial[:max(sample, 200) if cfg == "Persist_xfer_gen.cfg" else 0] + multi[:sample * 2 // 3] + \
                    single[:sample // 3]
            else:
                sc = sc[:sample]
        cover[cfg.replace("Persist_", "").replace(".cfg", "")] = {"graph_states": len(g._raw), "graph_transitions": nedges, "tours": len(tours),
                          "scripts": len(sc)}
        ctx.log("gen %s: %d states, %d transitions, %d tours -> %d scripts" % (
            machine, len(g._raw), nedges, len(tours), len(sc)))
        os.remove(dot)
        scripts += sc
    if not ctx.quick():
        # wider peerstore configuration (more address kinds, priorities 0..2, two malformed lines): too large
        # to dump, so TLC samples behaviours of it (every invariant is checked along them)
        nsim = 700
        prefix = os.path.join(ctx.specdir(), "c14sim")
        ctx.tlc(MOD, "Persist_pstore_sim.cfg", count=False, simulate="file=%s,num=%d" % (prefix, nsim), depth=8,
                seed=ctx.seed, workers=8, timeout=1500)
        sims = []
        for b in tla.read_behaviours(ctx.specdir(), "c14sim"):
            s0 = b[0]["state"]
            book = [{"p": p, "addrs": sorted(v["addrs"]), "prio": v["prio"]} for p, v in sorted(s0["book"].items())]
            junk = []
            for i in range(1, len(b)):
                if b[i]["action"] == "PCorrupt":
                    f0, f1 = b[i - 1]["state"]["file"], b[i]["state"]["file"]
                    pos = 0
                    while pos < len(f0) and f0[pos] == f1[pos]:
                        pos += 1
                    junk.append({"pos": pos, "kind": f1[pos]["t"]})
            listed = [x for x in book if x["p"] != "p1" and x["addrs"]]
            sims.append({"m": "pstore", "book": book, "junk": junk, "nontrivial": len(listed) >= 2 or bool(junk)})
        sims = dedupe(sims)
        cover["pstore_sim"] = {"behaviours": len(sims)}
        ctx.log("gen pstore (simulation of the wide config): %d scripts" % len(sims))
        scripts += sims
    # the scenario of the refutation witness (Unmarshal onto a non-empty state holding other CIDs)
    # is part of the xfer scripts already (path "serial", tgt0 non-empty); make sure of it:
    if not any(s["m"] == "xfer" and s["path"] == "serial" and s["tgt0"] and
               set(e["c"] for e in s["tgt0"]) - set(e["c"] for e in s["src"]) for s in scripts):
        raise vcheck.Infra("generated scripts do not contain the Unmarshal-onto-non-empty-state witness")
    # concurrent SavePeerstore / LoadPeerstore on one Manager: a seeded stress stage (schedules cannot be
    # replayed without hooks); the design is model-checked (Persist_plock.cfg), the results are judged by TLC
    for j in range(2 if ctx.quick() else 6):
        scripts.append({"m": "plock", "iters": 60 if ctx.quick() else 200, "na": rng.randint(1500, 3000),
                        "nb": rng.randint(500, 1400), "nontrivial": True})
    k = 0
    for i, s in enumerate(scripts):
        s["id"] = i + 1
        if s["m"] == "xfer" and s["path"] == "json":
            s["kind"] = KINDS[k % len(KINDS)]
            s["skind"] = rng.choice(SKINDS)     # export from one kind of peer, import into another (or the same)
            k += 1
    ctx.extra["generation"] = cover
    return scripts


def run(ctx):
    rng = random.Random(ctx.seed)
    ctx.rule = ("scripts = paths through the TLC state graphs of the four Persist machines covering every transition "
                "(quick: seeded sample for rot/snap/pstore); non-trivial = xfer: source and target both non-empty; "
                "snap: a non-empty snapshot and a peer started on it; rot: a clean/save of a snapshot-holding folder "
                "with a backup already present; pstore: >= 2 peers written or a malformed line; distinct by abstract script")
    ctx.assumptions = [
        "pins are well-formed: Mode agrees with MaxDepth, no user allocations (neither is stored in the state), "
        "expiry at second granularity; pins with Origins are not generated (known C08 codec defect)",
        "/dnsaddr/ entries are not exercised (they need a resolver); DNS addresses are /dns4 and /dns6",
        "the order of datastore queries, of equal-priority peers and of a peer's DNS addresses is left free",
        "hashicorp/raft, go-ds-crdt, badger, leveldb and libp2p internals are trusted beyond what the replay observes",
    ]
    # SPEC: exhaustive, each machine
    ctx.tlc(MOD, "Persist_xfer.cfg", timeout=1500)
    ctx.tlc(MOD, "Persist_snap.cfg", timeout=1500)
    ctx.tlc(MOD, "Persist_rot.cfg", timeout=1500)
    ctx.tlc(MOD, "Persist_plock.cfg", timeout=1500)
    if not ctx.quick():
        ctx.tlc(MOD, "Persist_rot_thorough.cfg", timeout=1500)
        ctx.tlc(MOD, "Persist_rot_rekeep.cfg", timeout=1500)
        ctx.tlc(MOD, "Persist_pstore.cfg", timeout=3000, workers=12)
    # refutation witness: an Unmarshal that merges (the code before 2eb6568) violates SerialLawAny on a non-empty
    # target; the as-coded "replace" satisfies it (checked above) and the real code is held to it by PersistTrace
    w = ctx.tlc(MOD, "Persist_xfer_witness.cfg", count=False, expect_violation=True, timeout=600)
    if not w.violation:
        raise vcheck.Infra("the merge variant of Unmarshal no longer refutes SerialLawAny: the law has become vacuous")
    ctx.extra["refutation_witness_unmarshal_merge"] = True
    # likewise: a Marshal that logs a query error and goes on refutes MarshalLaw, and a SavePeerstore that
    # truncates the file before taking the lock refutes NoTornLoad
    for cfg, name in (("Persist_xfer_witness_marshal.cfg", "marshal_skips_query_error"),
                      ("Persist_plock_witness.cfg", "peerstore_truncate_outside_lock")):
        w = ctx.tlc(MOD, cfg, count=False, expect_violation=True, timeout=600)
        if not w.violation:
            raise vcheck.Infra("refutation witness %s no longer violates its law: the law has become vacuous" % cfg)
        ctx.extra["refutation_witness_" + name] = True
    ctx.exhaustive = True
    # GEN
    scripts = generate(ctx, rng)
    inp = os.path.join(ctx.work, "c14_scripts.ndjson")
    with open(inp, "w") as f:
        for s in scripts:
            f.write(json.dumps(s) + "\n")
    # R
    trace = os.path.join(ctx.work, "c14_trace.ndjson")
    ctx.go_test("c14_persist", run="TestDriver", infile=inp, env={"VERIF_TRACE": trace}, timeout=3000)
    # V
    judge(ctx, trace, {s["id"]: s for s in scripts})


def classify(rec):
    a = rec["act"]
    if a in ("RotClean", "RotSave"):
        old = rec["pre"]["old"]
        run = 0
        while run < min(rec["keep"], len(old)) and old[run] != "absent":
            run += 1
        cls = "nosnap" if rec["pre"]["data"] in ("absent", "nosnap") else ("full" if run >= rec["keep"] else "partial")
        return "C14:rot:%s:%s" % (a, cls)
    if a in ("RotMkLogs", "RotRekeep"):
        return "C14:rot:" + a
    if a == "Export":
        return "C14:export:%s%s" % (rec["skind"], ":reexport" if rec.get("reexport") else "")
    if a == "Marshal":
        return "C14:marshal:%s:%s" % (rec["via"], "query-error" if rec["fault"] else "no-fault")
    if a == "CLoad":
        return "C14:peerstore:concurrent:torn-load"
    if a == "CFinal":
        return "C14:peerstore:concurrent:final-file"
    if a == "Import":
        return "C14:import:%s%s%s" % (rec["kind"], "" if rec["stream"] else ":empty-stream",
                                      ":again" if rec.get("round", 1) > 1 else "")
    if a == "Reserialize":
        if rec.get("via") == "snapshot":
            return "C14:snapshot:offline:%s" % ("fresh-store" if rec["fresh"] else "nonempty-store")
        return "C14:unmarshal:%s" % ("fresh-target" if rec["fresh"] else "nonempty-target")
    if a == "SnapSave":
        return "C14:snapshot:save"
    if a == "Offline":
        return "C14:snapshot:offline"
    if a == "StartPeer":
        return "C14:snapshot:startpeer" + (":after-import" if rec.get("afterimport") else "") + \
            (":nonempty-store" if rec.get("dirty") else "")
    if a == "PSave":
        return "C14:peerstore:save"
    if a in ("PLoad", "PImport", "PRound"):
        if a == "PImport" and rec.get("fatal"):
            return "C14:peerstore:import:fatal"
        return "C14:peerstore:%s:%s" % ({"PLoad": "load", "PImport": "import", "PRound": "roundtrip"}[a], rec["jk"])
    return "C14:" + a


WHAT = {
    "RotClean": "cleaning Raft data broke the backup rotation (newest = old.0 with the cleaned snapshot, shift by one, "
                "only the oldest within N dropped)",
    "RotSave": "SnapshotSave lost the new snapshot or broke the backup rotation of the one it replaced",
    "Export": "the exported stream is not the source pinset",
    "Import": "export then import did not reproduce the pinset on the target",
    "Reserialize": "serialising then deserialising the state (Marshal/Unmarshal, or SnapshotSave/OfflineState) did not "
                   "reproduce the pinset",
    "SnapSave": "SnapshotSave failed",
    "Marshal": "a dump (Marshal / SnapshotSave / List) over a datastore with a failing query reported success without "
               "holding exactly the pinset",
    "CLoad": "LoadPeerstore running next to SavePeerstore returned a torn list (not one whole saved list)",
    "CFinal": "after concurrent SavePeerstore calls the file is not one of the saved lists",
    "Offline": "OfflineState does not read back the saved snapshot",
    "StartPeer": "a Raft peer started on the saved snapshot does not hold its pinset",
    "PSave": "the peerstore file is not the known peers' addresses in priority order",
    "PLoad": "LoadPeerstore does not return exactly the well-formed addresses of the file, in order",
    "PImport": "importing the loaded addresses is fatal or loses the file's priority order",
    "PRound": "peer addresses / priority order differ after saving and re-importing the peerstore file",
}


def judge(ctx, trace, scripts):
    verdict = os.path.join(ctx.work, "c14_verdict.ndjson")
    r = tla.run_tlc(ctx.specdir(), "PersistTrace.tla", "PersistTrace.cfg", workers=1, timeout=3000, heap="6g",
                    env_extra={"TRACE_FILE": trace, "VERDICT_FILE": verdict})
    ctx.log("tlc PersistTrace: rc=%s %.1fs" % (r.rc, r.wall))
    if r.rc != 0 or not os.path.exists(verdict):
        print(r.out[-3000:])
        raise vcheck.Infra("PersistTrace produced no verdict")
    v = json.loads(open(verdict).readline())
    recs = [json.loads(l) for l in open(trace)]
    if v["n"] != len(recs) or not recs:
        raise vcheck.Infra("verdict covers %d of %d records" % (v["n"], len(recs)))
    bad = set(v["bad"])
    drift = set(v["drift"]) - bad
    badsids = set(recs[i - 1]["sid"] for i in bad | drift)
    ctx.traces_validated += len(set(rec["sid"] for rec in recs) - badsids)
    ctx.extra["records_judged_by_tlc"] = v["n"]
    per = {}
    for rec in recs:
        per[rec["act"]] = per.get(rec["act"], 0) + 1
    ctx.extra["records_per_action"] = per
    ctx.extra["transcription_drift"] = len(drift)
    for i in sorted(bad):
        rec = recs[i - 1]
        what = WHAT.get(rec["act"], rec["act"])
        if rec.get("err"):
            what += " (error: %s)" % rec["err"]
        if rec.get("panic"):
            what += " (panic: %s)" % rec["panic"][:200]
        ctx.violation(classify(rec), what, {"script": scripts.get(rec["sid"]), "record": rec})
    if drift:
        first = recs[min(drift) - 1]
        print("SPEC-DRIFT: %d recorded steps satisfy the property but not the transcription in Persist.tla "
              "(first: %s)" % (len(drift), json.dumps(first)[:1500]), flush=True)


def replay(ctx, path):
    j = json.load(open(path))
    sc = (j.get("case") or {}).get("script")
    if not sc:
        raise vcheck.Infra("replay file has no script")
    inp = os.path.join(ctx.work, "c14_scripts.ndjson")
    with open(inp, "w") as f:
        f.write(json.dumps(sc) + "\n")
    ctx.seed = j.get("seed", ctx.seed)
    trace = os.path.join(ctx.work, "c14_trace.ndjson")
    ctx.go_test("c14_persist", run="TestDriver", infile=inp, env={"VERIF_TRACE": trace, "VERIF_SEED": ctx.seed},
                timeout=1200)
    judge(ctx, trace, {sc["id"]: sc})
