"""C15 - configuration saves and loads losslessly, validates totally, hides secrets.

SPEC  ConfigMC: an abstract loader  Load = Validate(Apply(Default, j))  with the zero-means-default rule
      satisfies the laws (NoPanic, AcceptedValid, Stable, NotDropped) for every kind, default, valid range
      and input; a witness run shows that assigning a bool with SetIfNotDefault breaks NotDropped.
GEN   ConfigGen: the value classes per JSON kind come from the specification; the settings themselves are
      extracted from the real component configurations at check time (no list to maintain).
R     the Go driver tries every class on every setting of every section (alone, inside a full
      config.Manager file, through environment variables), sets out-of-range values on the Config structs by
      reflection, injects recognisable secrets - and records facts.
V     ConfigTrace: TLC evaluates the laws of Config.tla on every recorded fact.
"""
import json
import os

import tla
import vcheck


def decide(ctx, trace):
    verdict = os.path.join(ctx.work, "c15_verdict.ndjson")
    r = tla.run_tlc(ctx.specdir(), "ConfigTrace.tla", "ConfigTrace.cfg", workers=1, timeout=1500, heap="6g",
                    env_extra={"TRACE_FILE": trace, "VERDICT_FILE": verdict})
    ctx.log("tlc ConfigTrace: rc=%s %.1fs" % (r.rc, r.wall))
    if r.rc != 0 or not os.path.exists(verdict):
        print(r.out[-3000:])
        raise vcheck.Infra("ConfigTrace produced no verdict")
    v = json.loads(open(verdict).readline())
    facts = [json.loads(l) for l in open(trace)]
    if v["n"] != len(facts):
        raise vcheck.Infra("verdict covers %d of %d facts" % (v["n"], len(facts)))
    if v["unknownclass"]:
        raise vcheck.Infra("driver used value classes the specification does not define: fact %s" % v["unknownclass"][:3])
    bad = set()
    for i in v["baddefault"]:
        f = facts[i - 1]
        bad.add(i)
        ctx.violation("C15:%s:DefaultValid" % f["section"],
                      "the default configuration of section %s is not valid / does not load (%s)" % (f["section"], f.get("detail", "")), f)
    for b in v["badload"]:
        f = facts[b["i"] - 1]
        bad.add(b["i"])
        for law in sorted(b["laws"]):
            what = {
                "NoPanic": "loading crashes",
                "AcceptedValid": "the loader accepts a configuration that Validate() rejects",
                "Stable": "the saved form of the loaded configuration does not load back to itself",
                "PathReproduced": "a configured path is saved back as a different (resolved) value",
                "NotDropped": "a well-formed value is accepted and then %s" % (
                    "silently replaced by the default" if f.get("rel") == "default" else "missing from the saved configuration"),
            }[law]
            ctx.violation("C15:%s.%s:%s:%s" % (f["section"], f["setting"], law, f["class"]),
                          "%s.%s = %s (%s, %s%s): %s; saved as %s %s" % (f["section"], f["setting"], f.get("value"), f["class"], f["scope"],
                                                                       (" with " + f["with"]) if f.get("with") else "", what,
                                                                       f.get("saved", "<absent>"), f.get("detail", "")), f)
    for i in v["badreject"]:
        f = facts[i - 1]
        bad.add(i)
        ctx.violation("C15:%s.%s:RejectedAtLoad:%s" % (f["section"], f["field"], f["class"]),
                      "%s.%s=%s is rejected by Validate() (%s) but its saved form is %s at load time" % (
                          f["section"], f["field"], f["class"], f.get("detail", ""), "a crash" if f.get("panic") else f["load"]), f)
    for i in v["badhidden"]:
        f = facts[i - 1]
        bad.add(i)
        ctx.violation("C15:%s.%s:Hidden" % (f["section"], f["setting"]),
                      "the display form of the configuration (%s%s) shows the value of the secret %s.%s" % (
                          f["scope"], "" if f.get("registered", True) else ", section not registered", f["section"], f["setting"]), f)
    for i in v["badsubset"]:
        f = facts[i - 1]
        bad.add(i)
        ctx.violation("C15:manager-subset:%s:%s" % (f["section"], "load" if f["outcome"] != "accepted" else "lost"),
                      "a Manager registering only {%s}: %s" % (f["family"],
                          ("does not load a full configuration file (%s %s)" % (f["outcome"], f.get("detail", ""))) if f["outcome"] != "accepted"
                          else "its ToJSON loses or alters the unregistered section %s" % f["section"]), f)
    for i in v["badhistory"]:
        f = facts[i - 1]
        bad.add(i)
        ctx.violation("C15:%s:OrderIndependent:%s" % (f["section"], f["seq"]),
                      "section %s, %s: the result depends on what was loaded before in the process / on the object (%s %s)" % (
                          f["section"], f["seq"], f["outcome"], f.get("detail", "")[:300]), f)
    for i in v["badsave"]:
        f = facts[i - 1]
        bad.add(i)
        ctx.violation("C15:manager:SaveJSON:lost-update",
                      "concurrent SaveJSON calls: every save returned and one started after the last change (version %s), but the file "
                      "holds version %s - an older in-flight save overwrote the newer one (script %s)" % (f["mem"], f["file"], f["script"]), f)
    ctx.traces_validated += len(facts) - len(bad)
    ctx.extra["facts_decided_by_tlc"] = len(facts)
    ctx.extra["secret_settings_checked"] = sorted({"%s.%s" % (facts[i - 1]["section"], facts[i - 1]["setting"]) for i in v["secrets"]})
    injected = {"%s.%s" % (facts[i - 1]["section"], facts[i - 1]["setting"]) for i in v["secrets"] if facts[i - 1]["injected"]}
    ctx.extra["secret_settings_injected"] = sorted(injected)
    if not {"cluster.secret", "restapi.basic_auth_credentials", "restapi.private_key"} <= injected:
        raise vcheck.Infra("the driver could not place a recognisable value into every stated secret (got %s)" % sorted(injected))
    return v


def save_scripts(ctx):
    """ConfigSave.tla: the as-coded SaveJSON has no lost update (exhaustive); the variant that serialises outside
    the lock has, and TLC's counterexample (its hist) is the interleaving the driver forces on the real Manager."""
    import re
    ctx.tlc("ConfigSave.tla", "ConfigSave.cfg", workers=4, timeout=900)
    w = ctx.tlc("ConfigSave.tla", "ConfigSave_witness.cfg", workers=1, timeout=900, count=False, expect_violation=True)
    if not w.violation:
        raise vcheck.Infra("ConfigSave witness: serialising outside the lock should lose an update")
    m = list(re.finditer(r"/\\ hist = (.*?)(?=\n/\\ |\n\n|\Z)", w.out, re.S))
    if not m:
        raise vcheck.Infra("ConfigSave witness: no hist in the counterexample")
    hist = tla.parse_value(m[-1].group(1).strip())
    if not hist or hist[0][0] != "start":
        raise vcheck.Infra("ConfigSave witness: unexpected hist %r" % (hist,))
    swap = {"a": "b", "b": "a", "": ""}
    scripts = [hist, [[e[0], swap[e[1]]] for e in hist]]
    # one more change before the first save and one after everything returned do not alter the shape
    scripts.append([["change", ""]] + hist)
    # a fully sequential run: two saves one after the other, a change in between
    scripts.append([["start", "a"], ["snap", "a"], ["return", "a"], ["change", ""], ["start", "b"], ["snap", "b"], ["return", "b"]])
    return scripts


def run(ctx):
    ctx.level = "exploration"
    ctx.rule = ("a case = (section, setting, value class, scope alone|manager|env|pair) with settings extracted from the real code and "
                "classes from Config.tla (pair = every kept (setting, class) again next to each value of another setting that the "
                "loader accepts without keeping it); plus one case per (section, struct field, out-of-range class) and per (section, setting) "
                "secret injection; plus full files with a marker in every marker-taking setting of every section loaded by Managers "
                "registering the component families the binaries use, small families and seeded random subsets (Hidden on the display "
                "form for every section, registered or not; unregistered sections preserved by ToJSON); non-trivial = the class is not 'absent'; distinct by (section, setting, class, scope). "
                "Value fidelity is checked per value CLASS with one seeded representative, not for all values")
    ctx.assumptions = [
        "which classes are well-formed for a setting is inferred from the shape of its default value (duration, multiaddr, number, "
        "bool, text, list of multiaddrs, map); lists of free strings and settings whose default is an empty list are only "
        "checked for NoPanic / AcceptedValid / Stable, not for NotDropped",
        "zero classes (0, \"\", \"0s\", [], {}, null, absent) may be replaced by the default; bool false may not",
        "cluster.id and cluster.private_key are legacy keys (identity.json holds them since 0.11) and are not settings",
        "environment delivery uses names derived as envconfig does (PREFIX_KEYWITHOUTUNDERSCORES); a variable the component does "
        "not pick up is not judged",
        "a NotifySave() still pending when Manager.Shutdown() is called is not judged (not part of the statement; the unchanged "
        "watchSave loop itself may pick the tick before the request)",
        "cross-setting constraints are covered only as far as single-setting edits of the default configuration reach them",
    ]
    # SPEC
    ctx.tlc("ConfigMC.tla", "ConfigMC.cfg", workers=4, timeout=1500)
    w = ctx.tlc("ConfigMC.tla", "ConfigMC_witness.cfg", workers=1, timeout=1500, count=False, expect_violation=True)
    if not w.violation:
        raise vcheck.Infra("witness run: the model with SetIfNotDefault on a bool should break NotDropped")
    ctx.exhaustive = True
    # GEN
    classes = os.path.join(ctx.work, "c15_classes.ndjson")
    r = tla.run_tlc(ctx.specdir(), "ConfigGen.tla", "ConfigGen.cfg", workers=1, timeout=600, env_extra={"CLASSES_FILE": classes})
    if r.rc != 0 or not os.path.exists(classes):
        print(r.out[-2000:])
        raise vcheck.Infra("ConfigGen did not write the value classes")
    # R (the seed picks the concrete representatives of the classes; thorough runs several)
    seeds = [ctx.seed] if ctx.quick() else [ctx.seed + k for k in range(6)]
    trace = os.path.join(ctx.work, "c15_facts.ndjson")
    with open(trace, "w") as out:
        for sd in seeds:
            part = os.path.join(ctx.work, "c15_facts_%d.ndjson" % sd)
            ctx.go_test("c15_config", run="TestConfig$", infile=classes, env={"VERIF_TRACE": part, "VERIF_SEED": sd},
                        timeout=1500, panic_is_violation=True)
            if os.path.exists(part):
                out.write(open(part).read())
    # concurrent saves: model, counterexamples of the unlocked variant, replay on the real Manager
    scripts = save_scripts(ctx)
    sfile = os.path.join(ctx.work, "c15_save_scripts.ndjson")
    with open(sfile, "w") as f:
        for i, sc in enumerate(scripts):
            f.write(json.dumps({"id": i + 1, "script": sc}) + "\n")
    spart = os.path.join(ctx.work, "c15_save_facts.ndjson")
    ctx.go_test("c15_config", run="TestSaveRace$", infile=sfile, env={"VERIF_TRACE": spart}, timeout=900, panic_is_violation=True)
    with open(trace, "a") as out:
        out.write(open(spart).read())
    ctx.extra["save_interleavings_replayed"] = len(scripts)
    # V
    decide(ctx, trace)


def replay(ctx, path):
    j = json.load(open(path))
    f = j.get("case") or {}
    if f.get("fact") != "load":
        # default / reject / hidden facts are cheap: rerun everything and look the fact up again
        run(ctx)
        return
    classes = os.path.join(ctx.work, "c15_classes.ndjson")
    tla.run_tlc(ctx.specdir(), "ConfigGen.tla", "ConfigGen.cfg", workers=1, timeout=600, env_extra={"CLASSES_FILE": classes})
    trace = os.path.join(ctx.work, "c15_facts.ndjson")
    ctx.go_test("c15_config", run="TestConfig$", infile=classes,
                env={"VERIF_TRACE": trace, "VERIF_SEED": j.get("seed", ctx.seed),
                     "VERIF_ONLY": "/".join([f["section"], f["setting"], f["class"], f["scope"]])}, timeout=600)
    decide_replay(ctx, trace)
    ctx.samples.append(f)


def decide_replay(ctx, trace):
    # the secrets-injected guard of decide() does not apply to a single replayed case
    facts = [json.loads(l) for l in open(trace)]
    keep = [f for f in facts if f.get("fact") in ("load",)]
    with open(trace, "w") as out:
        for f in keep:
            out.write(json.dumps(f) + "\n")
        # keep the guard satisfied with neutral hidden facts
        for sec, st in (("cluster", "secret"), ("restapi", "basic_auth_credentials"), ("restapi", "private_key")):
            out.write(json.dumps({"fact": "hidden", "section": sec, "setting": st, "tokens": st.split("_"), "scope": "replay",
                                  "injected": True, "shown": False}) + "\n")
    decide(ctx, trace)
