"""C06 - reported pin status is truthful and consistent between its two views."""
from props import tracker_common as tc


def run(ctx):
    ctx.rule = ("situations = stable states reached while replaying TLC-simulated behaviours of Tracker.tla on the real "
                "tracker (pinset view x daemon pins x operation table); at every quiescent one Status(c), StatusAll(all) "
                "and StatusAll(f) for each single status, the composite filters and seeded unions are recorded and "
                "judged by TLC (Agree, Truthful, FilterLaw); non-trivial = script with a replaced/failed/queue-full "
                "operation or a recover")
    ctx.assumptions = ["same daemon model as C05", "global (cluster-wide) view is checked by the c06 global driver"]
    tc.pipeline(ctx, ["agree", "truthful", "filter"])
    global_view(ctx)


def global_view(ctx):
    """cluster-wide view: GlobalStatus.tla exhaustive over 3 members, then seeded situations on 3 real Cluster peers"""
    import itertools, json, os, random
    import tla, vcheck
    ctx.tlc("GlobalStatusMC.tla", "GlobalStatusMC.cfg", workers=8, timeout=1200)
    rng = random.Random(ctx.seed)
    peers = ["p1", "p2", "p3"]
    sits = []
    def subsets(xs):
        return [list(c) for k in range(len(xs) + 1) for c in itertools.combinations(xs, k)]
    allsits = []
    for m in subsets(peers):
        if not m:
            continue
        for inp in (True, False):
            for ev in (True, False):
                # allocations may name peers that are no longer members (re-pinning disabled / not yet done)
                for a in subsets(peers):
                    if ev and a:
                        continue
                    if not ev and inp and not a:
                        continue
                    if not inp and (ev or a):
                        continue
                    for d in subsets(sorted(set(m) | set(a))):
                        if not (set(m) - set(d)):
                            continue        # some member must answer
                        allsits.append((m, d, inp, ev, a))
    rng.shuffle(allsits)
    departed = [x for x in allsits if set(x[4]) - set(x[0])]
    rest = [x for x in allsits if not (set(x[4]) - set(x[0]))]
    pick = allsits if not ctx.quick() else rest[:60] + departed[:30]
    for (m, d, inp, ev, a) in pick:
        sits.append({"members": m, "everywhere": ev, "allocs": a, "down": d, "inpinset": inp,
                     "report": {p: rng.choice(["pinned", "pin_error", "pinning"]) for p in peers}})
    inp = os.path.join(ctx.work, "global_sits.ndjson")
    with open(inp, "w") as f:
        for s in sits:
            f.write(json.dumps(s) + "\n")
    trace = os.path.join(ctx.work, "global_obs.ndjson")
    ctx.go_test("c06_global", run="TestDriver", infile=inp, env={"VERIF_TRACE": trace}, timeout=1800)
    verdict = os.path.join(ctx.work, "global_verdict.ndjson")
    r = tla.run_tlc(ctx.specdir(), "GlobalStatusObs.tla", "GlobalStatusObs.cfg", workers=1, timeout=1200,
                    env_extra={"TRACE_FILE": trace, "VERDICT_FILE": verdict})
    ctx.log("tlc GlobalStatusObs: rc=%s %.1fs" % (r.rc, r.wall))
    if not os.path.exists(verdict):
        print(r.out[-3000:])
        raise vcheck.Infra("GlobalStatusObs produced no verdict")
    v = json.loads(open(verdict).readline())
    recs = [json.loads(l) for l in open(trace)]
    ctx.extra["global_views_judged_by_tlc"] = v["n"]
    ctx.traces_validated += v["n"] - len(v["bad"]) - len(v["knowndev"])
    for i in v["bad"]:
        rec = recs[i - 1]
        ctx.violation("C06:global:%s:%s" % (rec["call"], "down" if rec["sit"]["down"] else "up"),
                      "cluster-wide view contradicts the statement: %s" % json.dumps(rec["view"]), rec)
    for i in v["knowndev"][:1]:
        ctx.violation("C06:global:statusall:unreachable-nonallocated-member-is-cluster_error",
                      "StatusAll reports an unreachable member that is not allocated as cluster_error instead of remote", recs[i - 1])
    for i in v.get("knowndev2", [])[:1]:
        ctx.violation("C06:global:statusall:allocated-peer-no-longer-member-is-missing",
                      "StatusAll asks members only: a peer the pin is still allocated to but that left the peerset does not "
                      "appear (the statement lists allocated peers with their report or cluster_error)", recs[i - 1])
    drift = [i for i in v["drift"] if i not in v["bad"] and i not in v["knowndev"] and i not in v.get("knowndev2", [])]
    if drift:
        print("SPEC-DRIFT: %d cluster-wide views satisfy the statement but differ from the transcription of "
              "globalPinInfoCid/globalPinInfoSlice (first: %s)" % (len(drift), json.dumps(recs[drift[0] - 1])), flush=True)


def replay(ctx, path):
    ctx.rule = "replay of one stored script"
    tc.replay_script(ctx, path, ["agree", "truthful", "filter"])
