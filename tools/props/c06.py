"""C06 - reported pin status is truthful and consistent between its two views."""
from props import tracker_common as tc


def run(ctx):
    ctx.rule = ("situations = stable states reached while replaying TLC-simulated behaviours of Tracker.tla on the real "
                "tracker (pinset view x daemon pins x operation table); at every quiescent one Status(c), StatusAll(all) "
                "and StatusAll(f) for each single status, the composite filters and seeded unions are recorded and "
                "judged by TLC (Agree, Truthful, FilterLaw); non-trivial = script with a replaced/failed/queue-full "
                "operation or a recover")
    ctx.assumptions = ["same daemon model as C05", "global (cluster-wide) view is checked by the c06 global driver"]
    tc.pipeline(ctx, ["agree", "truthful", "filter"])
