"""C18 - concurrent use of the API never races, panics, deadlocks or tears results.

SPEC  Concurrency.tla: lock scopes of Cluster.Alerts/alertsHandler and informer GetMetric/Shutdown at
      statement granularity, all interleavings by TLC (as-fixed configuration must satisfy NoIndexPanic,
      NoTear, NoNilUse; the as-coded-at-pinned-commit configuration is refuted and its counterexamples are
      the gated attack schedules); start-up/shutdown life cycle (both ways from ready() into Shutdown(), a user
      Shutdown() at any time: NoSelfWait, EventuallyStopped, UserShutdownReturns), the informer fan-out of
      Cluster.run() (NoLoopVarRace, EveryInformerPushed) and concurrent failure checks over Window.Distribution
      (ScratchIsPrivate, VerdictFromWindow), the metrics store's RWMutex under AllMetrics and writers (StoreNeverStuck,
      NoReentrantRLock), each with the alternative design refuted; Tracker.tla (non-eager)
      for the operation table.
R     gated: the counterexample interleavings are forced on the real code through verifGate hooks.
V     free-running executions under the Go race detector (tracker, metrics/monitor, alerts, informers,
      shutdown while in use); every recorded result is judged by TLC (ConcurrencyObs.tla); race reports whose
      racing access is in ipfs-cluster code, panics and deadlocks are violations.
"""
import json
import os
import re

import tla
import vcheck


def run(ctx):
    ctx.rule = ("lifecycle: a peer whose consensus never becomes ready (ReadyTimeout 300 ms), or whose first consensus.Peers() call "
                "after becoming ready fails, must finish shutting down (Done() and a later Shutdown() within 10 s); fan-out: a Cluster "
                "with 3 and with 2 informers publishes every informer's metric within 10 s of start-up; failure checks: windows of 8 "
                "and 30 ping metrics, 3 versions each, per version 105 FailedMetric calls (5 in a row, 4 x 25 concurrent) after a "
                "silence >= 20x the longest gap, then concurrent CheckPeers; store lock: CheckAll and AllMetrics against Add / RemovePeer / "
                "RemovePeerMetrics, 5 goroutines x 20000 calls, stuck = no call returned for 15 s; gated: 3 Alerts/alertsHandler schedules (append in the sizing gap with 0 and 3 prior alerts, reset in "
                "the gap at maxAlerts+1) and 2 informer schedules (shutdown between nil test and use), from TLC "
                "counterexamples of the as-coded model; free-running under -race: tracker (6 callers x 150 random "
                "Track/Untrack/Status/StatusAll/Recover/RecoverAll, with and without concurrent Shutdown), monitor "
                "(LogMetric/LatestMetrics/MetricNames + checker), alerts (2500 deliveries vs 3 readers), informers "
                "(GetMetric x4 vs Shutdown, 50 rounds each); evaluations = calls issued; a case is one scenario run")
    ctx.assumptions = ["data races are observed by the Go race detector on the executed interleavings only",
                       "a race report counts when one of the two racing accesses is in ipfs-cluster source, or in a Go standard "
                       "library / gonum floats routine called directly from ipfs-cluster source on memory the caller handed to it",
                       "a failure verdict on an unchanged window only moves from not-failed to failed as time passes (expiry, phi grows with the silence)",
                       "the CRDT batching queue is stressed with the C02 rig (TestStressConcurrent: 7 callers x 60 calls, Shutdown mid-burst)"]
    # SPEC
    ctx.tlc("Concurrency.tla", "Concurrency_alerts.cfg", workers=4, timeout=600)
    ctx.tlc("Concurrency.tla", "Concurrency_informer.cfg", workers=2, timeout=600)
    ctx.tlc("Concurrency.tla", "Concurrency_lifecycle.cfg", workers=2, timeout=600)
    ctx.tlc("Concurrency.tla", "Concurrency_fanout.cfg", workers=2, timeout=600)
    ctx.tlc("Concurrency.tla", "Concurrency_accrual.cfg", workers=2, timeout=600)
    ctx.tlc("Concurrency.tla", "Concurrency_rwlock.cfg", workers=2, timeout=600)
    for cfg in ("Concurrency_alerts_ascoded.cfg", "Concurrency_informer_ascoded.cfg", "Concurrency_lifecycle_ascoded.cfg",
                "Concurrency_lifecycle_peerserr_inline.cfg", "Concurrency_fanout_shared.cfg", "Concurrency_accrual_memo.cfg", "Concurrency_rwlock_nested.cfg"):
        r = ctx.tlc("Concurrency.tla", cfg, workers=1, timeout=600, expect_violation=True, count=False)
        if not r.violation:
            raise vcheck.Infra("the as-coded model %s is expected to be refuted (attack schedules come from it)" % cfg)
    ctx.tlc("Tracker.tla", "Tracker_mc_quick.cfg", workers=12, timeout=1500)
    # the alerts part without TLC's bounds (any number of readers' and writers' steps): inductive invariant by Apalache
    ctx.apalache("AlertsInd.tla", "CInitFixed", "Init", "IndInv", 0)
    ctx.apalache("AlertsInd.tla", "CInitFixed", "IndInit", "IndInv", 1)
    ctx.apalache("AlertsInd.tla", "CInitFixed", "IndInit", "Safe", 0)
    ctx.apalache("AlertsInd.tla", "CInitAsCoded", "IndInit", "IndInv", 1, expect_error=True)
    # R + V
    trace = os.path.join(ctx.work, "c18_obs.ndjson")
    dr = ctx.go_test("c18_conc", run="TestDriver", env={"VERIF_TRACE": trace}, timeout=2400, race=True,
                     count=False, panic_is_violation=False, allow_fail=True)
    races = race_reports(dr.stdout, ctx.repo)
    for key, text in races.items():
        ctx.violation("C18:race:" + key, "data race reported by the race detector in ipfs-cluster code", {"report": text[:4000]})
    if dr.rc != 0 and not races:
        if "panic:" in dr.stdout or "fatal error:" in dr.stdout:
            m = re.search(r'(panic: .*|fatal error: .*)', dr.stdout)
            # the crashing goroutine's stack is the first one printed
            first = dr.stdout.split("\n\ngoroutine ")[0:2]
            crash_stack = "\n".join(first)
            cur = ""
            try:
                cur = open(trace + ".current").read()
            except OSError:
                pass
            if "verifharness" in crash_stack.split("created by")[0]:
                print(dr.stdout[-3000:])
                raise vcheck.Infra("the driver itself crashed")
            ctx.violation("C18:crash:" + (cur or "unknown"),
                          "the process crashed (unrecoverable panic) while running scenario %s: %s" % (cur, m.group(1)),
                          {"output_head": dr.stdout[:3000]})
        elif "test timed out" in dr.stdout:
            ctx.violation("C18:deadlock:test-timeout", "the concurrent scenario did not finish (goroutine dump in case)",
                          {"output_tail": dr.stdout[-6000:]})
        else:
            print(dr.stdout[-3000:])
            raise vcheck.Infra("driver failed (rc=%d): %s" % (dr.rc, "race reported outside ipfs-cluster code "
                               "(harness or dependency)" if "DATA RACE" in dr.stdout else "see output"))
    ctx.absorb(dr, "c18_conc", "TestDriver")
    if not os.path.exists(trace):
        raise vcheck.Infra("no observations recorded")
    # the CRDT batching queue under concurrent callers and Shutdown (rig of the C02 check)
    trace2 = os.path.join(ctx.work, "c18_crdt.ndjson")
    dr2 = ctx.go_test("c02_crdt", run="TestStressConcurrent$", env={"VERIF_TRACE": trace2}, timeout=1800, race=True,
                      count=False, allow_fail=True)
    for key, text in race_reports(dr2.stdout, ctx.repo).items():
        ctx.violation("C18:race:" + key, "data race reported by the race detector in ipfs-cluster code (crdt stress)",
                      {"report": text[:4000]})
    if dr2.rc != 0 and not race_reports(dr2.stdout, ctx.repo):
        if "panic:" in dr2.stdout or "fatal error:" in dr2.stdout:
            head = dr2.stdout.split("\n\ngoroutine ")[0:2]
            if "verifharness" in "\n".join(head).split("created by")[0]:
                print(dr2.stdout[-3000:])
                raise vcheck.Infra("the crdt stress driver itself crashed")
            ctx.violation("C18:crash:crdt-stress", "the process crashed (unrecoverable panic) in the crdt batching stress",
                          {"output_head": dr2.stdout[:3000]})
        else:
            print(dr2.stdout[-3000:])
            raise vcheck.Infra("crdt stress driver failed (rc=%d)" % dr2.rc)
    ctx.absorb(dr2, "c02_crdt", "TestStressConcurrent")
    if os.path.exists(trace2):
        with open(trace, "a") as f:
            f.write(open(trace2).read())
    verdict = os.path.join(ctx.work, "c18_verdict.ndjson")
    r = tla.run_tlc(ctx.specdir(), "ConcurrencyObs.tla", "ConcurrencyObs.cfg", workers=1, timeout=1200, heap="8g",
                    env_extra={"TRACE_FILE": trace, "VERDICT_FILE": verdict})
    ctx.log("tlc ConcurrencyObs: rc=%s %.1fs" % (r.rc, r.wall))
    if not os.path.exists(verdict):
        print(r.out[-3000:])
        raise vcheck.Infra("ConcurrencyObs produced no verdict")
    v = json.loads(open(verdict).readline())
    recs = [json.loads(l) for l in open(trace)]
    ctx.extra["results_judged_by_tlc"] = v["n"]
    ctx.traces_validated += v["n"] - len(set(v["panicked"]) | set(v["torn"]) | set(v["noted"]) | set(v["stuck"]) |
                                         set(v["unpushed"]) | set(v["unstable"]))
    kinds = {}
    for rec in recs:
        kinds[rec["kind"]] = kinds.get(rec["kind"], 0) + 1
    ctx.extra["results_by_kind"] = kinds
    for need in ("lifecycle", "publish", "check"):
        if not kinds.get(need):
            raise vcheck.Infra("no %s observations recorded" % need)
    for i in v["panicked"]:
        rec = recs[i - 1]
        kind = "deadlock" if rec["panic"].startswith("deadlock") else "panic"
        ctx.violation("C18:%s:%s:%s" % (kind, rec["kind"], rec["scenario"]), "%s in %s/%s: %s" % (kind, rec["kind"], rec["scenario"], rec["panic"][:200]), slim(rec))
    for i in v["torn"]:
        rec = recs[i - 1]
        ctx.violation("C18:torn:alerts:%s" % rec["scenario"], "Alerts() returned a torn list (empty, duplicated, non-consecutive or future entries)", slim(rec))
    for i in v["noted"]:
        rec = recs[i - 1]
        ctx.violation("C18:result:%s:%s" % (rec["kind"], rec["scenario"]), "inconsistent result under concurrency: %s" % rec["notes"][:3], slim(rec))
    for i in v["stuck"]:
        rec = recs[i - 1]
        ctx.violation("C18:deadlock:lifecycle:%s" % rec["scenario"], "deadlock in lifecycle/%s: done=%s later_shutdown_returned=%s %s"
                      % (rec["scenario"], rec["done"], rec["later"], rec["result"][:200]), slim(rec))
    for i in v["unpushed"]:
        rec = recs[i - 1]
        missing = sorted(set(rec["want"]) - set(rec["seen"]))
        ctx.violation("C18:result:publish:%s" % rec["scenario"], "a Cluster started with informers %s never published %s (published: %s)"
                      % (rec["want"], missing, rec["seen"]), slim(rec))
    for i in v["unstable"][:5]:
        rec = recs[i - 1]
        ctx.violation("C18:result:check:accrual", "a failure check of an unchanged metrics window answered not-failed after an earlier "
                      "check of the same window had answered failed (run %s, window version %s)" % (rec["run"], rec["ver"]), slim(rec))
    # the operation table under free-running concurrent use, validated step by step against OpTracker.tla
    from props import optrace
    optrace.run(ctx)


def slim(rec):
    r = dict(rec)
    if len(r.get("out", [])) > 12:
        r["out"] = r["out"][:6] + ["..."] + r["out"][-6:]
    return r


def _callers_memory(fn):
    """Frames that only touch memory handed to them by their caller: the Go runtime and standard library (map, slice,
    container/ring, sort ... no dot in the first element of the import path) and gonum's float-slice routines."""
    pkg = fn.split("(")[0]
    root = pkg.split("/")[0]
    if "/" not in pkg:
        root = pkg.split(".")[0]
    stdlib = "." not in root and root not in ("verifharness", "main")
    return stdlib or fn.startswith("gonum.org/v1/gonum/floats.") or fn.startswith("gonum.org/v1/gonum/internal/asm/")


def race_reports(out, repo):
    """DATA RACE blocks whose racing access is in ipfs-cluster source: the first frame of one of the two access stacks,
    after skipping library routines that work on memory their caller handed to them (runtime map/slice operations,
    standard-library containers, gonum floats), is ipfs-cluster code."""
    found = {}
    for blk in re.findall(r'WARNING: DATA RACE\n(.*?)\n==================', out, re.S):
        tops = []
        for sec in re.split(r'\n\n', blk):
            if re.match(r'(Read|Write|Previous read|Previous write|Atomic)', sec.strip()):
                for m in re.finditer(r'\n\s+(\S+)\(\)\n\s+(\S+):(\d+)', "\n" + sec):
                    if _callers_memory(m.group(1)):
                        continue
                    tops.append((m.group(1), m.group(2)))
                    break
        mine = [t for t in tops if t[1].startswith(repo + "/") or "github.com/ipfs/ipfs-cluster" in t[0]]
        mine = [t for t in mine if "verifharness" not in t[0]]
        if mine:
            key = "|".join(sorted({t[0].split("/")[-1] for t in mine}))
            found.setdefault(key, blk)
    return found


def replay(ctx, path):
    """C18 findings come from schedules (gated) or from free-running executions: the replay re-runs the whole
    scenario set with the seed stored in the replay file."""
    j = json.load(open(path))
    ctx.seed = int(j.get("seed", ctx.seed))
    run(ctx)
