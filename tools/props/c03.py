"""C03 - allocations honour the replication factors and use only healthy peers.

SPEC  AllocatorMC: for every input and every output the transcribed code can produce,
      the property predicate Good holds (exhaustive, 3 peers quick / 4 peers thorough).
R+V   seeded (quick) or exhaustive-over-3-peers (thorough) inputs are executed on a real
      Cluster (Pin, the closed BlockAllocate RPC, PeerRemove->vacate); TLC evaluates Good
      and Conforms on every recorded (input, output) pair (AllocatorTrace).
"""
import itertools
import json
import os
import random

HEALTH = ["bad", "nonnum", "v0", "v1", "v2"]
BADKINDS = ["absent", "expired", "invalid", "nonmember"]
FACTORS = [(1, 1), (1, 2), (2, 2), (2, 3), (1, 3), (3, 3), (-1, -1)]


def nontrivial(c):
    if c["rmin"] < 0:
        return False
    nv = len([p for p in c["cur"] if c["ms"][p] != "bad" and p not in c["bl"]])
    return c["rmin"] - nv > 0 or c["rmax"] - nv < 0


def mk(rng, npeers, ms, cur, path, bl, prio, f, strat, existing=None):
    peers = ["p%d" % i for i in range(1, npeers + 1)]
    c = {"path": path, "ms": dict(zip(peers, ms)), "cur": list(cur), "bl": list(bl), "prio": list(prio),
         "rmin": f[0], "rmax": f[1], "strat": strat}
    c["existing"] = bool(cur) if existing is None else existing
    c["badkind"] = {p: rng.choice(BADKINDS) for p in peers if c["ms"][p] == "bad"}
    c["usedefault"] = (f == (2, 3) and path != "remove" and rng.random() < 0.5)
    c["nontrivial"] = nontrivial(c)
    return c


def subsets(xs, kmax=None):
    out = []
    for k in range(0, (len(xs) if kmax is None else kmax) + 1):
        out += [list(t) for t in itertools.combinations(xs, k)]
    return out


def all_cases(rng, npeers):
    peers = ["p%d" % i for i in range(1, npeers + 1)]
    for ms in itertools.product(HEALTH, repeat=npeers):
        for cur in subsets(peers):
            for f in FACTORS:
                for strat in ("asc", "desc"):
                    for path in ("pin", "blockalloc"):
                        if f[0] < 0 and path == "blockalloc":
                            continue    # BlockAllocate with -1 answers the peer list, not allocations
                        for prio in subsets(peers, 2):
                            yield mk(rng, npeers, ms, cur, path, [], prio, f, strat)
                    if f[0] > 0:
                        for b in cur:
                            yield mk(rng, npeers, ms, cur, "remove", [b], [], f, strat)


def random_case(rng, npeers):
    peers = ["p%d" % i for i in range(1, npeers + 1)]
    ms = [rng.choice(HEALTH) for _ in peers]
    cur = [p for p in peers if rng.random() < 0.4]
    f = rng.choice(FACTORS)
    strat = rng.choice(["asc", "desc"])
    path = rng.choice(["pin", "pin", "blockalloc", "remove"])
    if path == "remove" and (not cur or f[0] < 0):
        path = "pin"
    if path == "blockalloc" and f[0] < 0:
        path = "pin"
    if path == "remove":
        return mk(rng, npeers, ms, cur, path, [rng.choice(cur)], [], f, strat)
    prio = rng.sample(peers, rng.choice([0, 0, 1, 2]))
    prio.sort()
    return mk(rng, npeers, ms, cur, path, [], prio, f, strat)


def run(ctx):
    rng = random.Random(ctx.seed)
    ctx.rule = ("inputs = (per-peer metric state, current allocations, blacklist, priority list, factors, strategy, "
                "entry point); quick: seeded random over 3..5 peers, thorough: all reachable 3-peer inputs plus seeded "
                "random 4/5-peer ones; non-trivial = the allocator has to add peers (needed > 0) or drop some "
                "(wanted < 0); distinct by abstract input")
    ctx.assumptions = ["metric states absent/expired/invalid/non-member are one class ('bad') in the model and are "
                       "concretised per peer by a seeded choice in the driver",
                       "rank ties and Go map iteration order are left free by the specification"]
    # SPEC
    cfg = "AllocatorMC_quick.cfg" if ctx.quick() else "AllocatorMC_thorough.cfg"
    ctx.tlc("AllocatorMC.tla", cfg, workers=16, timeout=3000)
    ctx.exhaustive = True
    # GEN
    cases = []
    if ctx.quick():
        for _ in range(4000):
            cases.append(random_case(rng, rng.choice([3, 4, 5])))
    else:
        cases = list(all_cases(rng, 3))
        for _ in range(30000):
            cases.append(random_case(rng, rng.choice([4, 5])))
    for i, c in enumerate(cases):
        c["id"] = i + 1
    run_cases(ctx, cases)


def replay(ctx, path):
    """re-run the stored case (same abstract input; the concretisation of 'bad' is re-drawn from the stored seed)"""
    j = json.load(open(path))
    rec = j["case"]
    rng = random.Random(j.get("seed", 1))
    i = rec["in"]
    npeers = len(i["ms"])
    peers = ["p%d" % k for k in range(1, npeers + 1)]
    c = mk(rng, npeers, [i["ms"][p] for p in peers], i["cur"], rec["path"], i["bl"], i["prio"], (i["rmin"], i["rmax"]),
           i["strat"], existing=bool(i["cur"]))
    c["id"] = 1
    ctx.rule = "replay of one stored case"
    run_cases(ctx, [c] * 5)      # five concretisations of the same abstract input


def run_cases(ctx, cases):
    inp = os.path.join(ctx.work, "c03_cases.ndjson")
    with open(inp, "w") as f:
        for c in cases:
            f.write(json.dumps(c) + "\n")
    ctx.log("generated %d cases" % len(cases))
    # R on the real cluster
    trace = os.path.join(ctx.work, "c03_io.ndjson")
    ctx.go_test("c03_alloc", run="TestDriver", infile=inp, env={"VERIF_TRACE": trace}, timeout=3000)
    validate(ctx, trace)


def validate(ctx, trace):
    import vcheck
    verdict = os.path.join(ctx.work, "c03_verdict.ndjson")
    import tla
    r = tla.run_tlc(ctx.specdir(), "AllocatorTrace.tla", "AllocatorTrace.cfg", workers=1, timeout=3000,
                    heap="8g", env_extra={"TRACE_FILE": trace, "VERDICT_FILE": verdict})
    ctx.log("tlc AllocatorTrace: rc=%s %.1fs" % (r.rc, r.wall))
    if not os.path.exists(verdict):
        print(r.out[-3000:])
        raise vcheck.Infra("AllocatorTrace produced no verdict")
    v = json.loads(open(verdict).readline())
    recs = [json.loads(l) for l in open(trace)]
    if v["n"] != len(recs):
        raise vcheck.Infra("verdict covers %d of %d records" % (v["n"], len(recs)))
    ctx.traces_validated += v["n"] - len(set(v["bad"]) | set(v["changed"]) | set(v["drift"]))
    ctx.extra["io_pairs_checked_by_tlc"] = v["n"]
    ctx.extra["transcription_drift"] = len(v["drift"])
    for i in sorted(set(v["bad"]) | set(v["changed"])):
        rec = recs[i - 1]
        what = "allocation violates the statement" if i in v["bad"] else "refused request changed the pinset"
        ctx.violation("C03:%s:%s" % (rec["path"], branch(rec)), what + ": " + json.dumps(rec["out"]), rec)
    drift_only = [i for i in v["drift"] if i not in v["bad"]]
    if drift_only:
        print("SPEC-DRIFT: %d recorded outputs satisfy the property but not the transcription of allocate.go "
              "(first: %s)" % (len(drift_only), json.dumps(recs[drift_only[0] - 1])), flush=True)


def branch(rec):
    i = rec["in"]
    if i["rmin"] < 0:
        return "everywhere"
    nv = len([p for p in i["cur"] if i["ms"][p] != "bad" and p not in i["bl"]])
    if i["rmax"] - nv < 0:
        return "above-max"
    if i["rmin"] - nv <= 0:
        return "enough"
    return "ok" if rec["out"]["ok"] else "refused"
