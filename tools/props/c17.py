"""C17 - Raft membership changes are agreed by all members and never lose the pinset.

SPEC  RaftMembership: Agreement, LastPeerStays, ReadyImpliesSynced, RemovedStops, NoOpHarmless,
      PinsetKept hold for every interleaving of pin / unpin / join / add-present / remove (member,
      non-member, sole member, leader, self) / shutdown / restart on 3 (quick) or 4 (thorough) peers.
GEN   edge tours over the complete state graph of the 3-peer configuration (every transition of
      the model is on some tour); quick replays a seeded selection that covers every action kind
      and outcome, thorough many more.
R     harness/c17_member: the tours are executed on real Cluster objects with real raft.Consensus
      peers (loopback libp2p, on-disk raft folders); after every step each live member's
      Consensus.Peers() and State().List(), the call outcome, Done() and the data folder of a
      removed peer are compared with the TLC state.
V     with the verif hooks present every FSM apply / restore of every peer in those runs is judged
      by RaftPinsetTrace (pinset agreement at every applied entry, not only at the polls).
"""
import json
import os
import random

import tla
from props import c01


def write_cfg(ctx, name, npeers, ncids, ops, changes, downs, check=True, rotate=1):
    lines = ["SPECIFICATION Spec", "CONSTANT NPEERS = %d" % npeers, "CONSTANT NCIDS = %d" % ncids, "CONSTANT BackupsRotate = %d" % rotate,
             "CONSTANT MaxOps = %d" % ops, "CONSTANT MaxChanges = %d" % changes, "CONSTANT MaxDowns = %d" % downs]
    if check:
        lines += ["INVARIANT TypeOK", "INVARIANT Agreement", "INVARIANT LastPeerStays", "INVARIANT ReadyImpliesSynced",
                  "INVARIANT RemovedStops", "INVARIANT StoppedCanRestart", "INVARIANT RemovedDataGone", "PROPERTY NoOpHarmless", "PROPERTY PinsetKept",
                  "PROPERTY UnackedFaultyNotCommitted"]
    fn = "RaftMembership_x_%s.cfg" % name
    with open(os.path.join(ctx.specdir(), fn), "w") as f:
        f.write("\n".join(lines) + "\n")
    return fn


def step_of(st):
    last = st["last"]
    return {"a": last["a"], "at": last["at"], "p": last["p"], "c": last["c"], "out": last["out"],
            "members": sorted(st["members"]), "status": st["status"], "data": st["data"], "pins": sorted(st["pins"]),
            "fsm": {p: sorted(v) for p, v in st["fsm"].items()}, "view": {p: sorted(v) for p, v in st["view"].items()},
            "bk": st["cnt"]["bk"]}


def kinds(steps):
    ks = set()
    for i, s in enumerate(steps):
        k = s["a"]
        if k == "rm":
            k = "rm-" + s["out"]
            if s["out"] == "ok":
                if s["at"] == s["p"]:
                    k = "rm-self"
                elif steps[i - 1]["status"].get(s["p"]) == "down":
                    k = "rm-down-peer"
                if s["p"] == "p1" and "rm-self" != k:
                    ks.add("rm-first-leader")
        if k in ("pin", "unpin", "add", "rm") and i > 0:
            prev = steps[i - 1]
            if prev["a"] == "restart" and prev["p"] == s["at"]:
                ks.add("op-at-just-restarted-peer")
            if (prev["a"] == "shutdown" and prev["p"] == "p1" and s["at"] != "p1") or \
               (prev["a"] == "rm" and prev["out"] == "ok" and prev["p"] == "p1"):
                ks.add("op-right-after-first-leader-left")
        if k == "shutdown" and s["out"] == "nosnap":
            # the newest committed entry is a membership change: no snapshot on shutdown
            ks.add("shutdown-right-after-membership-change-" + ("first-leader" if s["p"] == "p1" else "follower"))
            if any(x["a"] == "restart" and x["p"] == s["p"] for x in steps[i + 1:]):
                ks.add("restart-after-snapshotless-shutdown")
        if k == "rm" and s["out"] == "ok" and i > 0 and steps[i - 1]["a"] in ("join", "rm", "add", "init"):
            ks.add("removed-right-after-membership-change")
        if k in ("cpin", "cunpin"):
            k += ("-at-leader" if s["at"] == s["p"] == "p1" else "-at-follower" if s["at"] == s["p"] else "-redirect") + "-" + s["out"]
        if k == "join" and s["pins"]:
            k = "join-nonempty"
        if k in ("pin", "unpin") and s["at"] != "p1":
            ks.add("write-at-non-first")
        ks.add(k)
    return ks


def scripts_from_graph(ctx, rng, cfg, n, max_len, want=None, prop="C17"):
    cache = getattr(ctx, "_member_tours", None)
    if cache is None:
        cache = ctx._member_tours = {}
    if (cfg, max_len) not in cache:
        dot = os.path.join(ctx.specdir(), cfg + ".dot")
        ctx.tlc("RaftMembership.tla", cfg, workers=4, timeout=1800, dump_dot=dot, count=False)
        g = tla.read_dot(dot)
        tours = tla.edge_tours(g, max_len=max_len, rng=rng)
        nedges = sum(len(v) for v in g.edges.values())
        ctx.log("membership graph: %d nodes, %d edges, %d tours (all transitions within %d steps)" % (len(g._raw), nedges, len(tours), max_len))
        ctx.extra["membership_graph"] = {"nodes": len(g._raw), "edges": nedges, "tours": len(tours)}
        cache[(cfg, max_len)] = (g, tours)
    g, tours = cache[(cfg, max_len)]
    cands = []
    for t in tours:
        steps = [step_of(g.state(nid)) for (_, nid) in t]
        for k, st in enumerate(steps):
            if st["out"] == "maybe":      # the real outcome decides there: the script ends
                steps = steps[:k + 1]
                break
        if len(steps) < 5:
            continue
        if want and not want(steps):
            continue
        cands.append(steps)
    rng.shuffle(cands)
    # greedy: cover every action kind / outcome first, then fill up
    chosen, covered = [], set()
    pool = list(cands)
    while pool and len(chosen) < n:
        best = max(pool[:400], key=lambda s: (len(kinds(s) - covered), len(s)))
        if not (kinds(best) - covered) and len(chosen) >= n // 2:
            best = pool[0]
        pool.remove(best)
        chosen.append(best)
        covered |= kinds(best)
    ctx.extra.setdefault("membership_kinds_covered", sorted(covered))
    out = []
    for i, steps in enumerate(chosen):
        peers = sorted(steps[0]["status"].keys())
        ncids = 2
        out.append({"id": i + 1, "src": "tour", "prop": prop, "peers": peers,
                    "cids": ["c%d" % k for k in range(1, ncids + 1)], "steps": steps})
    return out


def goal_scripts(ctx, goals, consts, prop, first_id, rotate=1):
    """TLC witnesses of (negated) reachability goals as scripts."""
    import vcheck
    out = []
    for g in goals:
        cfg = write_cfg(ctx, "goal_%s_%d" % (g, rotate), *consts, check=False, rotate=rotate)
        with open(os.path.join(ctx.specdir(), cfg), "a") as f:
            f.write("PROPERTY %s\n" % g)
        r = ctx.tlc("RaftMembership.tla", cfg, workers=4, timeout=1200, count=False, expect_violation=True)
        if not r.violation:
            raise vcheck.Infra("reachability goal %s is unreachable in RaftMembership" % g)
        states = c01.parse_error_trace(r.out)
        steps = [step_of(s) for s in states]
        out.append({"id": first_id + len(out), "src": "goal:" + g, "prop": prop, "peers": sorted(states[0]["status"].keys()),
                    "cids": ["c1", "c2"], "steps": steps})
    return out


def concretise(ctx, rng, scripts):
    """Seeded concrete options the model leaves open: raft commit_retries (0 and 1 are accepted by
    Config.Validate; removals must behave the same), and one joiner whose state arrives slowly
    (many pins, slow pinset store) so that "ready" and "synced" are far apart in time."""
    import vcheck
    def has(sc, pred):
        return any(pred(st) for st in sc["steps"])
    rm_ok = [sc for sc in scripts if has(sc, lambda st: st["a"] == "rm" and st["out"] == "ok")]
    rm_err = [sc for sc in scripts if has(sc, lambda st: st["a"] == "rm" and st["out"] == "error")]
    rng.shuffle(rm_ok)
    rng.shuffle(rm_err)
    window = [sc for sc in scripts if kinds(sc["steps"]) & {"op-at-just-restarted-peer", "op-right-after-first-leader-left"}]
    rng.shuffle(window)
    rm_ok = [sc for sc in window if sc in rm_ok] + [sc for sc in rm_ok if sc not in window]
    zero = rm_err[:1] + [sc for sc in rm_ok if sc not in rm_err[:1]][:2 if ctx.quick() else 12]
    zero += [sc for sc in window if sc not in zero][:2 if ctx.quick() else 12]
    one = [sc for sc in rm_ok if sc not in zero][:2 if ctx.quick() else 12]
    ctx.extra["leaderless_window_scripts"] = len([sc for sc in zero if sc in window])
    for sc in zero:
        sc["retries"] = 0
        sc["leaderless"] = True     # operations are issued inside leaderless windows where the script has one
    for sc in one:
        sc["retries"] = 1
    if not zero:
        raise vcheck.Infra("no script with a removal to run with commit_retries = 0")
    # a join into a cluster of >= 2 members: the AddVoter entry commits without the joiner's vote, so
    # nothing but WaitForSync makes the joiner wait for its state
    third = lambda st: st["a"] == "join" and len(st["members"]) >= 3
    slow = [sc for sc in scripts if has(sc, third) and "retries" not in sc] or [sc for sc in scripts if has(sc, third)]
    if not slow:
        raise vcheck.Infra("no script with a join into a cluster of two or more members")
    for sc in slow[:1 if ctx.quick() else 4]:
        # deterministic instead of slow: the joiner's store writes are held, then (snapshot restored) its
        # network is cut before the entries after the snapshot arrive; it must not be ready in either window
        sc["ballast"] = 40
        sc["gatejoin"] = True
    # raft data_folder left unset (BaseDir set, as after "ipfs-cluster-service init") on removal scripts
    dflt = [sc for sc in rm_ok if "gatejoin" not in sc]
    rng.shuffle(dflt)
    for sc in dflt[:max(1, len(dflt) // 2)]:
        sc["defaultfolder"] = True
    ctx.extra["default_data_folder_scripts"] = len(dflt[:max(1, len(dflt) // 2)])
    ctx.extra["commit_retries_0_scripts"] = len(zero)
    ctx.extra["commit_retries_1_scripts"] = len(one)
    ctx.extra["slow_joiner_scripts"] = len(slow[:1 if ctx.quick() else 4])


def run_member_driver(ctx, scripts, prop, label, par):
    import vcheck
    inp = os.path.join(ctx.work, "%s_scripts.ndjson" % label)
    with open(inp, "w") as f:
        for s in scripts:
            f.write(json.dumps(s) + "\n")
    trace = os.path.join(ctx.work, "%s_trace.ndjson" % label)
    hooks = c01.hooks_present(ctx)
    dr = ctx.go_test("c17_member", run="TestDriver", infile=inp, timeout=600,
                     tags="verif,verifhooks" if hooks else "verif",
                     env={"VERIF_TRACE": trace, "VERIF_PROP": prop, "VERIF_PAR": par})
    nviol = len(ctx.violations)
    if hooks and os.path.exists(trace) and os.path.getsize(trace) > 0:
        c01.validate(ctx, trace, label, 0, prop=prop)
    lag = dr.extra.get("lagging") or []
    if lag and len(ctx.violations) == nviol:
        raise vcheck.Infra("a live member did not reach the committed pinset and the recorded events show no property breach "
                           "(availability, not a verdict): %s" % lag[0])
    elif not hooks:
        ctx.log("verif hooks absent in %s: API-level observations only (no trace validation)" % ctx.repo)
        ctx.extra["trace_validation"] = "skipped (hooks absent in VERIF_REPO)"
    return dr


def run(ctx):
    rng = random.Random(ctx.seed)
    ctx.rule = ("a script is one path through the complete state graph of RaftMembership (3 peers, 2 CIDs; pin / unpin / join / "
                "add-present / remove / shutdown / restart issued at any live member), executed on real Cluster + raft.Consensus "
                "peers; evaluations = executed steps, each followed by a comparison of every live member's peerset and pinset "
                "with the TLC state; non-trivial = scripts with a removal, a restart or a join into a non-empty pinset")
    ctx.assumptions = ["hashicorp/raft's agreement on configuration entries is assumed; one cluster operation runs to quiescence "
                       "before the next (concurrent membership changes are not explored)",
                       "re-pinning on removal is disabled in the drivers (vacating is C10's subject)",
                       "peers find each other through a harness address book instead of mDNS/DHT discovery",
                       "a peer is only added while it is running (PeerAdd of an unreachable peer is not modelled)"]
    if ctx.quick():
        ctx.tlc("RaftMembership.tla", write_cfg(ctx, "quick", 3, 2, 3, 4, 1), workers=8, timeout=1800)
    else:
        ctx.tlc("RaftMembership.tla", write_cfg(ctx, "thorough", 4, 2, 3, 5, 2), workers=12, timeout=3000)
    ctx.exhaustive = True
    gen_cfg = write_cfg(ctx, "gen", 3, 2, 3, 4, 1, check=False)
    scripts = scripts_from_graph(ctx, rng, gen_cfg, 24 if ctx.quick() else 500, 8)
    concretise(ctx, rng, scripts)
    # reproduction of the listed finding C17:ready:not-synced:fsm-queue-lag (one script, always): a join
    # with log replay only (no snapshots) and the joiner's store writes held
    lagsrc = sorted((sc for sc in scripts if any(st["a"] == "join" for st in sc["steps"])
                     and not any(k in sc for k in ("gatejoin", "retries", "defaultfolder"))),
                    key=lambda sc: next(k for k, st in enumerate(sc["steps"]) if st["a"] == "join"))
    if lagsrc:
        src = lagsrc[0]
        cut = next(k for k, st in enumerate(src["steps"]) if st["a"] == "join") + 1
        scripts.append({"id": 950, "src": "tour-prefix:" + str(src["id"]), "prop": "C17", "peers": src["peers"], "cids": src["cids"],
                        "steps": src["steps"][:cut], "lagjoin": True, "ballast": 20})
    # the same node removed BackupsRotate + 1 times (re-joined in between): the clean-up has to rotate and
    # finally drop the oldest backup; a few pins first so that every cycle has a snapshot to back up
    for rot in ((1,) if ctx.quick() else (1, 2)):
        for sc in goal_scripts(ctx, ["NoRotationDropsOldest"], (3, 2, 2, 2 * (rot + 1), 1), "C17", 900 + rot, rotate=rot):
            sc["rotate"] = rot
            sc["ballast"] = 3
            sc["defaultfolder"] = rot == 2
            scripts.append(sc)
    ctx.log("selected %d scripts covering %s" % (len(scripts), ctx.extra.get("membership_kinds_covered")))
    run_member_driver(ctx, scripts, "C17", "c17", 8)


def replay(ctx, path):
    j = json.load(open(path))
    d = j.get("driver") or {}
    case = j.get("case") or {}
    if d.get("pkg"):
        hooks = c01.hooks_present(ctx)
        ctx.go_test(d["pkg"], run=d.get("run") or None, replay=os.path.abspath(path),
                    tags="verif,verifhooks" if hooks else "verif", env={"VERIF_PROP": "C17", "VERIF_PAR": 1})
    elif "trace_line" in case:
        print("trace-level violation; recorded event: %s" % json.dumps(case["trace_line"]))
        ctx.violation(j.get("key"), j.get("what"), case)
