"""C12 - the IPFS proxy intercepts exactly the pinning endpoints and relays the rest.

SPEC  ProxyMC: every request class (hijacked routes x argument styles x argument classes x options x methods,
      pass-through path/query/body classes x methods) is an initial state; TLC checks that the observation the
      transcription of ipfsproxy.go predicts satisfies the statement's predicates (HijackExact, NeverLeaks,
      ErrorMeansNoOp, Faithful, RelayIdentity) and writes the request classes as cases (GEN).
      ProxySeq: every request of a smaller alphabet from every reachable pinset, same predicates asserted per transition;
      its random walks (-simulate) are the request sequences replayed without resetting the harness cluster.
R     every case is concretised (seeded) and sent through the real ipfsproxy.Server, which sits between a recording
      IPFS daemon and a recording, pinset-consistent Cluster RPC server; the driver records
      (response, cluster ops, pinset after, daemon calls).
V     ProxyTrace: TLC evaluates the property predicates and the transcription predicate on every recorded tuple.
"""
import json
import os
import random
import re

import tla
import vcheck

DEFAULT_ADD = {"onlyhash": "-", "pin": "-", "layout": "-", "trickle": "-", "chunker": "-", "cidv": "-", "raw": "-",
               "name": "-", "repl": "-"}


def add_deviation(req):
    return sum(1 for k, v in DEFAULT_ADD.items() if req[k] != v)


def select(ctx, reqs, rng):
    """quick: everything except the full option product of add, of which a seeded sample plus all cases that
    deviate from the defaults in at most two options; thorough: everything, pass-through classes five times
    (each repetition gets a different seeded concretisation)."""
    out = []
    full = [r for r in reqs if r["route"] == "add" and r["method"] == "POST" and r["body"] == "mp"]
    rest = [r for r in reqs if not (r["route"] == "add" and r["method"] == "POST" and r["body"] == "mp")]
    if ctx.quick():
        core = [r for r in full if add_deviation(r) <= 2]
        others = [r for r in full if add_deviation(r) > 2]
        out = rest + core + rng.sample(others, min(1500, len(others)))
    else:
        out = list(full)
        for r in rest:
            out.append(r)
            if r["pathk"] != "route":
                out += [r] * 4
            elif r["route"] != "add":
                out += [r] * 2
    rng.shuffle(out)
    return out


_STATE = re.compile(r'^STATE_\d+ == *$', re.M)


def read_behaviour(path):
    """States of one `-simulate file=` behaviour (own reader: the action labels of ProxySeq contain '>')."""
    txt = "\n".join(l for l in open(path).read().split("\n") if not l.startswith("\\* <") and not l.startswith("----")
                    and not l.startswith("===="))
    parts = _STATE.split(txt)[1:]
    return [tla.parse_state(p.strip()) for p in parts]


def sequences(ctx, n, depth):
    """GEN for sequences: TLC random walks of ProxySeq -> lists of requests with the initial world."""
    d = ctx.specdir()
    pref = "c12beh%d" % ctx.seed
    ctx.tlc("ProxySeq.tla", "ProxySeq_sim.cfg", workers=1, timeout=1800, count=False,
            simulate="file=%s,num=%d" % (os.path.join(d, pref), n), depth=depth, seed=ctx.seed)
    out = []
    for f in sorted(os.listdir(d)):
        if re.match(re.escape(pref) + r'_\d+_\d+$', f):
            sts = read_behaviour(os.path.join(d, f))
            if len(sts) >= 2:
                out.append((sts[0]["init"], [st["last"] for st in sts[1:]]))
    return out


def run(ctx):
    rng = random.Random(ctx.seed)
    ctx.rule = ("case = one abstract request class produced by TLC from Proxy.tla (hijacked route x argument style x "
                "argument class x options x HTTP method, or pass-through path class x query class x body class x "
                "method), concretised by the seed and sent through the real proxy; non-trivial = every request to a "
                "pinning endpoint, and pass-through requests that are near-misses of a hijacked route, carry an "
                "escaped/non-canonical path or a weird/arg-like query; distinct by abstract request")
    ctx.assumptions = [
        "the cluster behind the proxy is the harness RPC server: pinset-consistent (PinPath/UnpinPath/Unpin/PinGet "
        "fail exactly when the real Cluster would for the same pinset), no injected faults, so errors are input determined",
        "single cases start from one of three pinsets (w0 = {cP,cQ}, w1 = {}, w2 = {cP,cQ direct, cU, cR}); sequences are "
        "TLC random walks of ProxySeq replayed without resetting the harness cluster",
        "a connection cut between the driver's client and the proxy is retried (Go's httputil.ReverseProxy alone cuts "
        "about 1e-4 of chunked responses to requests with a body); it is never a verdict",
        "byte identity of relayed requests is checked on method, request-target (escaped path + raw query), body "
        "digest and seven end-to-end headers; of responses on status, body digest and four headers",
        "add parameters (layout, chunker, cid-version, raw-leaves) are observed through the root CID, decoded with a "
        "table built by calling the cluster add operation directly with explicit parameters",
        "a pinning endpoint is recognised on the decoded path: percent-encoded spellings (letters, %2F separators) are the "
        "same request and must be hijacked like the plain spelling; encoded near-misses must be relayed with the escaped "
        "path preserved",
        "faults: one RPC of the add path (BlockAllocate, first BlockPut, BlockPut of the root, Cluster.Pin) fails without "
        "effect; other routes run without faults (pin/update and add?pin=false cannot be atomic when their second RPC fails)",
        "client hang-up: the driver closes the connection right after the headers or right after the entry carrying the "
        "root hash, then waits until no RPC arrived for 700 ms (handler pause: 100 ms) and up to 5 s for the Unpin call; "
        "the harness Unpin returns ctx.Err() under a cancelled context, as the real consensus layer does",
        "daemon availability: 'down' = the proxy's node address is a bound, never listening port (connection refused), "
        "'reset' = the harness daemon resets every accepted connection, 'slow' = it answers after 1 s through a proxy whose "
        "client-leg timeouts (read_header_timeout, idle_timeout) are 300 ms; a connection dropped on all 4 attempts while the "
        "daemon is down/reset is recorded as an observation (AnswersAlways), any other transport failure is retried / infra",
        "slow client: the request body is sent in two halves with a 1 s pause through the proxy whose read_header_timeout "
        "and idle_timeout are 300 ms (read_timeout unset)",
        "repo/stat with cluster=real3 runs against three real Cluster peers (real RPC server + authorization policy, "
        "connected libp2p hosts, harness consensus/connectors); a failing peer may show as an error or as the sum over the "
        "healthy peers (the statement does not say; the code logs and skips)",
        "repo/gc: an X-Stream-Error trailer listing per-key failures is the faithful answer, not an error answer",
        "not covered: several arg= values on pin add/rm, CONNECT/upgrade, "
        "concurrent requests",
    ]
    # SPEC + GEN
    cases_file = os.path.join(ctx.work, "c12_requests.ndjson")
    ctx.tlc("ProxyMC.tla", "ProxyMC.cfg", timeout=1800, env_extra={"CASES_FILE": cases_file})
    ctx.tlc("ProxySeq.tla", "ProxySeq.cfg" if ctx.quick() else "ProxySeq_thorough.cfg", timeout=1800)
    # addHandler step model: every position of the client disconnect; the non-coded settings must give the
    # design-level counterexamples that the hangup / fault cases realise on the real proxy
    ctx.tlc("ProxyAdd.tla", "ProxyAdd_coded.cfg", timeout=600, workers=2)
    for cfg, inv in (("ProxyAdd_reqctx.cfg", "PinFalseHonoured"), ("ProxyAdd_unpinerr.cfg", "ErrorMeansNoOp")):
        r = tla.run_tlc(ctx.specdir(), "ProxyAdd.tla", cfg, workers=1, timeout=600)
        if r.timed_out or inv not in (r.violation or ""):
            raise vcheck.Infra("ProxyAdd/%s: expected the design-level counterexample to %s" % (cfg, inv))
        ctx.log("tlc ProxyAdd.tla/%s: design-level counterexample to %s found, as expected (%d states)" % (
            cfg, inv, r.distinct))
    ctx.exhaustive = True
    reqs = [json.loads(l) for l in open(cases_file)]
    ctx.extra["request_classes_enumerated_by_tlc"] = len(reqs)
    sel = select(ctx, reqs, rng)
    seqs = sequences(ctx, 120 if ctx.quick() else 3000, 14 if ctx.quick() else 25)
    inp = os.path.join(ctx.work, "c12_cases.ndjson")
    n = 0
    with open(inp, "w") as f:
        for r in sel:
            n += 1
            f.write(json.dumps({"id": n, "grp": n, "reset": True, "world": r["world"], "req": r}) + "\n")
        for (w, steps) in seqs:
            g = n + 1
            for k, r in enumerate(steps):
                n += 1
                f.write(json.dumps({"id": n, "grp": g, "reset": k == 0, "world": w, "req": r}) + "\n")
    ctx.extra["sequences_replayed"] = len(seqs)
    ctx.log("TLC enumerated %d request classes; %d single cases + %d sequences (%d steps) selected" % (
        len(reqs), len(sel), len(seqs), n - len(sel)))
    ctx.cases = {}
    for l in open(inp):
        c = json.loads(l)
        ctx.cases[c["id"]] = c
    # R
    trace = os.path.join(ctx.work, "c12_trace.ndjson")
    ctx.go_test("c12_proxy", run="TestDriver", infile=inp, env={"VERIF_TRACE": trace}, timeout=2400,
                race=not ctx.quick())
    # V
    validate(ctx, trace)


def replay(ctx, path):
    ctx.cases = {c["id"]: c for c in json.load(open(path))["case"]["script"]}
    trace = os.path.join(ctx.work, "c12_trace.ndjson")
    ctx.go_test("c12_proxy", run="TestDriver", replay=os.path.abspath(path), env={"VERIF_TRACE": trace}, timeout=600)
    validate(ctx, trace)
    ctx.samples.append(json.load(open(path)).get("key"))


def script_of(ctx, rec):
    """The cases to run again to reach this record: the steps of its group up to and including it."""
    cases = getattr(ctx, "cases", None) or {}
    me = cases.get(rec["id"])
    if me is None:
        return [{"id": rec["id"], "grp": rec.get("grp", 1), "reset": True, "world": rec["req"]["world"], "req": rec["req"]}]
    idx = getattr(ctx, "_bygrp", None)
    if idx is None:
        idx = {}
        for i in sorted(cases):
            idx.setdefault(cases[i]["grp"], []).append(cases[i])
        ctx._bygrp = idx
    return [c for c in idx[me["grp"]] if c["id"] <= rec["id"]]


CLASSES = [("dropped", "AnswersAlways"), ("exact", "HijackExact"), ("relay", "RelayIdentity"), ("leak", "NeverLeaks"),
           ("errnoop", "ErrorMeansNoOp"), ("unfaithful", "Faithful")]


def key_of(cls, rec):
    q, o = rec["req"], rec["obs"]
    dm = "" if q.get("daemon", "up") == "up" else ":daemon=" + q["daemon"]
    if q.get("client", "-") != "-":
        dm += ":client=" + q["client"]
    if cls == "dropped":
        return "C12:dropped:%s:%s%s" % (q["route"] if q["pathk"] == "route" else q["pathk"], q["method"], dm)
    if q["pathk"] != "route":
        if dm:
            return "C12:%s:%s:%s%s" % (cls, q["pathk"], q["method"], dm)
        if cls == "exact":
            return "C12:exact:%s:answered-by-proxy-%s" % (q["pathk"], o["status"])
        return "C12:%s:%s:%s" % (cls, q["pathk"], q["method"])
    r = q["route"]
    if r == "add" and q.get("fault", "-") != "-":
        sal = "fault=%s:pin=%s" % (q["fault"], q["pin"])
    elif r == "add" and q.get("hangup", "-") != "-":
        sal = "hangup=%s:pin=%s" % (q["hangup"], q["pin"])
    elif r == "repo/gc":
        sal = "stream-errors=%s:failed=%s" % (q["streamerr"], q.get("gcerr", "-"))
    elif r == "add":
        if q["onlyhash"] == "true":
            sal = "only-hash=true"
        elif q["body"] != "mp":
            sal = "not-multipart"
        elif q["pin"] == "false":
            sal = "pin=false"
        else:
            sal = "options"
    elif r == "pin/update":
        sal = "%s:%s:unpin=%s" % (q["arg"], q["arg2"], q["unpin"])
    elif r in ("pin/add", "pin/rm", "pin/ls"):
        sal = "%s:%s:type=%s" % (q["style"], q["arg"], q["type"])
    elif r == "repo/stat" and q.get("cluster", "-") != "-":
        sal = "cluster=%s:peerfail=%s" % (q["cluster"], q["peerfail"])
    else:
        sal = q["streamerr"]
    sal += dm
    if q.get("enc", "-") != "-":
        sal += ":enc=" + q["enc"]
    if cls in ("exact", "relay"):
        sal = q["method"] + ":" + sal
    return "C12:%s:%s:%s" % (cls, r, sal)


def validate(ctx, trace):
    verdict = os.path.join(ctx.work, "c12_verdict.ndjson")
    r = tla.run_tlc(ctx.specdir(), "ProxyTrace.tla", "ProxyTrace.cfg", workers=1, timeout=3000, heap="8g",
                    env_extra={"TRACE_FILE": trace, "VERDICT_FILE": verdict})
    ctx.log("tlc ProxyTrace: rc=%s %.1fs" % (r.rc, r.wall))
    if not os.path.exists(verdict):
        print(r.out[-3000:])
        raise vcheck.Infra("ProxyTrace produced no verdict")
    v = json.loads(open(verdict).readline())
    recs = [json.loads(l) for l in open(trace)]
    if v["n"] != len(recs):
        raise vcheck.Infra("verdict covers %d of %d records" % (v["n"], len(recs)))
    bad = set()
    for cls, _ in CLASSES:
        bad |= set(v[cls])
    drift = set(v["drift"])
    ctx.traces_validated += v["n"] - len(bad | drift)
    ctx.extra["tuples_checked_by_tlc"] = ctx.extra.get("tuples_checked_by_tlc", 0) + v["n"]
    ctx.extra["transcription_drift"] = len(drift)
    known = ctx.known()
    unknown = 0
    perkey = {}
    for cls, pred in CLASSES:
        for i in sorted(v[cls]):
            rec = recs[i - 1]
            if (ctx.prop, key_of(cls, rec)) not in known:
                unknown += 1
            k = key_of(cls, rec)
            perkey[k] = perkey.get(k, 0) + 1
            if perkey[k] > 3:
                continue
            ctx.violation(k, "%s violated: %s" % (pred, rec["obs"].get("detail", "")[:300]),
                          {"script": script_of(ctx, rec), "rec": rec})
    if drift and not unknown:
        first = recs[sorted(drift)[0] - 1]
        print("SPEC-DRIFT: %d recorded tuples satisfy the property predicates but not the transcription of "
              "ipfsproxy.go (first: %s | %s)" % (len(drift), json.dumps({k: x for k, x in first["req"].items() if x != "-"}),
                                                 first["obs"].get("detail", "")[:300]), flush=True)
        raise vcheck.Infra("specification out of date: the proxy departs from the transcribed code path on %d "
                           "request classes while every property predicate holds" % len(drift))
    if drift:
        print("SPEC-DRIFT: %d further tuples depart from the transcription only" % len(drift), flush=True)
