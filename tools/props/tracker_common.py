"""Shared pipeline for C05 / C06 (spec/Tracker.tla).

SPEC  exhaustive TLC on the step-level tracker model (non-eager: every interleaving of
      instructions, worker steps and daemon call completions within the bounds).
GEN   `tlc -simulate` on the same spec with Eager=TRUE (internal steps have priority, so the
      behaviours are replayable without scheduler hooks): behaviours -> scripts of environment
      actions, each with the projection the specification predicts at the next stable state.
R     the scripts are executed on the real stateless.Tracker + optracker with a gated model
      daemon; after every action the real projection (Status of every CID, StatusAll, daemon
      pins, in-flight calls, returned error) is compared with the predicted one.
V     every recorded observation is judged by TLC with the property predicates (TrackerObs.tla).
"""
import json
import os

import tla
import vcheck

ENV = {"Track", "Untrack", "Recover", "RecoverAll", "Apply", "Fail", "Return"}
GATED_ENV = ENV | {"HandleErr", "Finish", "Clean"}     # worker steps scheduled by the script (GatedFinish)


def to_script(beh, sid, K, Q, cids, gated=False):
    """behaviour (list of {action, state}) -> script dict or None"""
    states = [b["state"] for b in beh]
    steps = []
    tags = set()
    i = 1
    n = len(states)
    while i < n:
        a = states[i]["act"]
        if a.get("name") not in (GATED_ENV if gated else ENV) or (a.get("name") in ("HandleErr", "Finish", "Clean") and a.get("w", 0) > K + 1):
            i += 1
            continue
        j = i
        while j < n and not states[j]["proj"]["stable"]:
            j += 1
        if j >= n:
            # the behaviour ends inside this action's internal steps (e.g. a witness that stops at its goal):
            # still perform the action, without a predicted state; the epilogue judges the outcome
            s0 = states[i]
            steps.append({"act": a, "res": s0["lastRes"] if a["name"] in ("Track", "Untrack", "Recover", "RecoverAll") else "",
                          "st": s0["st"], "ipfs": s0["ipfs"], "healthy": False, "noexp": True,
                          "proj": {"status": {}, "statusall": {}, "pending": [], "applied": [], "stable": False, "quiescent": False}})
            if s0["lastRes"] == "fullq":
                tags.add("queue-full")
            break
        # stable state j must be followed by an env action or be the end
        s = states[j]
        pj = s["proj"]
        prev = states[i - 1]["proj"]
        if a["name"] in ("Track", "Untrack") and any(c["cid"] == a.get("cid") for c in prev["pending"] + prev["applied"]):
            tags.add("replace-in-flight")
        if a["name"] in ("Track", "Untrack") and prev["status"].get(a.get("cid")) in ("pin_queued", "unpin_queued"):
            tags.add("replace-queued")
        if a["name"] == "Fail":
            tags.add("daemon-failure")
        if states[i]["lastRes"] == "fullq":
            tags.add("queue-full")
        if a["name"] in ("Recover", "RecoverAll"):
            tags.add("recover")
        steps.append({
            "act": a, "res": states[i]["lastRes"] if a["name"] in ("Track", "Untrack", "Recover", "RecoverAll") else "",
            "st": s["st"], "ipfs": s["ipfs"], "healthy": s["healthy"],
            "proj": {"status": pj["status"], "statusall": pj["statusall"],
                     "pending": sorted(pj["pending"], key=lambda c: (c["cid"], c["kind"])),
                     "applied": sorted(pj["applied"], key=lambda c: (c["cid"], c["kind"])),
                     "stable": pj["stable"], "quiescent": pj["quiescent"]}})
        i = j + 1 if j > i else i + 1
    if len(steps) < 2:
        return None
    if gated:
        tags.add("gated-worker-steps")
    return {"id": sid, "K": K, "Q": Q, "cids": cids, "steps": steps, "tags": sorted(tags), "gated": gated}


SIMS = [("Tracker_simg_k1q1.cfg", 1, 1, ["c1", "c2"]),
        ("Tracker_simg_k2q1.cfg", 2, 1, ["c1", "c2"]),
        ("Tracker_sim_k1q1.cfg", 1, 1, ["c1", "c2"]),
        ("Tracker_sim_k1q1c3.cfg", 1, 1, ["c1", "c2", "c3"]),
        ("Tracker_sim_k2q1.cfg", 2, 1, ["c1", "c2"]),
        ("Tracker_sim_k2q2.cfg", 2, 2, ["c1", "c2", "c3"]),
        # all instruction sequences at the tracker, including direct over a recorded recursive pin
        ("Tracker_sim_k1q1dg.cfg", 1, 1, ["c1", "c2"])]


def pipeline(ctx, want):
    """want: list of verdict classes that are violations for this property"""
    # SPEC
    ctx.tlc("Tracker.tla", "Tracker_mc_quick.cfg", workers=12, timeout=1500)
    ctx.tlc("Tracker.tla", "Tracker_mc_dg.cfg", workers=12, timeout=1500)
    # liveness under worker/daemon fairness: once the instructions stop the tracker comes to rest
    ctx.tlc("Tracker.tla", "Tracker_live.cfg", workers=8, timeout=1500)
    if not ctx.quick():
        ctx.tlc("Tracker.tla", "Tracker_mc_2cid.cfg", workers=12, timeout=3000)
        ctx.tlc("Tracker.tla", "Tracker_mc_thorough.cfg", workers=16, timeout=6000, heap="16g")
    ctx.exhaustive = False
    # GEN
    per = 60 if ctx.quick() else 700
    scripts = []
    from concurrent.futures import ThreadPoolExecutor

    def sim(k):
        cfg = SIMS[k][0]
        return ctx.tlc("Tracker.tla", cfg, count=False, workers=1, timeout=1500,
                       simulate="file=beh%d,num=%d" % (k, per), depth=60, seed=ctx.seed * 31 + k)
    with ThreadPoolExecutor(max_workers=len(SIMS)) as ex:
        list(ex.map(sim, range(len(SIMS))))
    for k, (cfg, K, Q, cids) in enumerate(SIMS):
        for n, beh in enumerate(tla.read_behaviours(ctx.specdir(), "beh%d" % k)):
            sc = to_script(beh, "s%d-%d" % (k, n), K, Q, cids, gated="simg" in cfg)
            if sc:
                scripts.append(sc)
    # witnesses of rare corners (TLC counterexamples of negated reachability goals, see tools/mkwitness.py)
    wd = os.path.join(ctx.verif, "spec", "witness")
    for fn in sorted(os.listdir(wd)):
        if fn.startswith("trackercover_") and fn.endswith(".json"):
            for w in json.load(open(os.path.join(wd, fn))):
                scripts.append(w["script"])
        if fn.startswith("tracker_") and fn.endswith(".json"):
            w = json.load(open(os.path.join(wd, fn)))
            sc = to_script(w["behaviour"], "w-" + w["goal"], w["K"], w["Q"], w["cids"])
            if sc:
                sc["tags"] = sorted(set(sc["tags"]) | {"witness:" + w["goal"]})
                scripts.append(sc)
    if not scripts:
        raise vcheck.Infra("no scripts generated")
    inp = os.path.join(ctx.work, "tracker_scripts.ndjson")
    with open(inp, "w") as f:
        for sc in scripts:
            f.write(json.dumps(sc) + "\n")
    ctx.log("generated %d scripts, %d steps" % (len(scripts), sum(len(s["steps"]) for s in scripts)))
    # R
    trace = os.path.join(ctx.work, "tracker_obs.ndjson")
    ctx.go_test("c05_tracker", run="TestDriver", infile=inp, env={"VERIF_TRACE": trace}, timeout=3000,
                race=not ctx.quick())
    return judge(ctx, trace, want, {sc["id"]: sc for sc in scripts})


def replay_script(ctx, path, want):
    """re-run the script stored in a replay file (R + V on that script only, 5 times: timing is part of the input)"""
    j = json.load(open(path))
    sc = (j.get("case") or {}).get("script_def")
    if not sc:
        raise vcheck.Infra("replay file carries no script")
    inp = os.path.join(ctx.work, "tracker_scripts.ndjson")
    with open(inp, "w") as f:
        for k in range(5):
            s2 = dict(sc)
            s2["id"] = "%s-r%d" % (sc["id"], k)
            f.write(json.dumps(s2) + "\n")
    trace = os.path.join(ctx.work, "tracker_obs.ndjson")
    ctx.go_test("c05_tracker", run="TestDriver", infile=inp, env={"VERIF_TRACE": trace}, timeout=1200)
    ctx.samples.append({"replayed_script": sc["id"]})
    return judge(ctx, trace, want, {})


def judge(ctx, trace, want, scripts=None):
    verdict = os.path.join(ctx.work, "tracker_verdict.ndjson")
    r = tla.run_tlc(ctx.specdir(), "TrackerObs.tla", "TrackerObs.cfg", workers=1, timeout=3000, heap="8g",
                    env_extra={"TRACE_FILE": trace, "VERDICT_FILE": verdict})
    ctx.log("tlc TrackerObs: rc=%s %.1fs" % (r.rc, r.wall))
    if not os.path.exists(verdict):
        print(r.out[-3000:])
        raise vcheck.Infra("TrackerObs produced no verdict")
    v = json.loads(open(verdict).readline())
    recs = [json.loads(l) for l in open(trace)]
    if v["n"] != len(recs):
        raise vcheck.Infra("verdict covers %d of %d records" % (v["n"], len(recs)))
    ctx.extra["observations_judged_by_tlc"] = v["n"]
    ctx.extra["observations_departing_from_spec"] = len(v["drift"])
    bad = set()
    for cls in want:
        for i in v[cls]:
            rec = recs[i - 1]
            bad.add(i)
            ctx.violation(key_of(ctx.prop, cls, rec), describe(cls, rec), slim(rec, scripts))
    if "recover" in want:
        for i in v["stuck"]:
            rec = recs[i - 1]
            ctx.violation("C05:recover:direct-over-recursive",
                          "after a healthy recover round the daemon still holds the CID recursively while the "
                          "pinset records a direct pin (pin direct fails: already pinned recursively)", slim(rec, scripts))
    drift_only = [i for i in v["drift"] if i not in bad]
    if drift_only:
        rec = recs[drift_only[0] - 1]
        print("SPEC-DRIFT: %d scripts left the specified behaviour without breaking a property predicate of %s "
              "(first: script %s step %d %s differs in %s)" % (len(drift_only), ctx.prop, rec["script"], rec["i"],
                                                               json.dumps(rec["act"]), rec.get("why")), flush=True)
    return v, recs


def key_of(prop, cls, rec):
    a = rec["act"]
    detail = ""
    if cls in ("agree", "truthful", "converge", "recover"):
        # classify by the CID situation that fails: recorded mode / daemon content / statuses
        sit = set()
        for c in rec["st"]:
            s, ip, st, sa = rec["st"][c], rec["ipfs"][c], rec["status"][c], rec["statusall"][c]
            ok = True
            if cls == "agree":
                ok = st == sa or (sa == "absent" and st == "unpinned") or (st == "pin_error" and sa == "unexpectedly_unpinned")
            elif cls in ("converge", "recover"):
                ok = (s not in ("rec", "dir", "none")) or (ip == (s if s != "none" else "none"))
                if cls == "converge" and st in ("pin_error", "unpin_error", "cluster_error"):
                    ok = True
            elif cls == "truthful":
                ok = not ((st == "pinned" and not (s in ("rec", "dir") and ip == s)) or
                          (st == "unpinned" and s != "none") or
                          (s in ("rec", "dir") and ip != s and st not in ("pin_error", "unpin_error", "cluster_error")) or
                          st in ("pin_queued", "pinning", "unpin_queued", "unpinning") or
                          (st == "remote" and s not in ("rrec", "rdir")) or (st == "sharded" and s != "meta"))
            if not ok:
                sit.add("state=%s,ipfs=%s,status=%s,listing=%s" % (s, ip, st, sa))
        detail = ";".join(sorted(sit))
        if cls == "truthful" and not sit and rec.get("res") == "fullq":
            detail = "rejected-%s-not-shown-as-error:status=%s" % (a.get("name"), rec["status"].get(a.get("cid")))
    elif cls == "nodrop":
        detail = a["name"]
    elif cls == "filter":
        detail = "filter"
    return "%s:%s:%s" % (prop, cls, detail)


def describe(cls, rec):
    return {
        "converge": "quiescent tracker: daemon does not match the last instruction and the status is not an error",
        "recover": "after a recover round with IPFS healthy the daemon does not match the pinset",
        "nodrop": "an instruction that found its queue full was not reported as an error",
        "agree": "Status and StatusAll disagree on a quiescent peer",
        "truthful": "reported status contradicts the facts on a quiescent peer",
        "filter": "a filtered listing is not the unfiltered listing restricted to the filter",
    }[cls] + " (script %s step %d)" % (rec["script"], rec["i"])


def slim(rec, scripts=None):
    r = dict(rec)
    r.pop("filters", None)
    sid = r.get("script", "")
    if scripts:
        base = sid.split("-r")[0] if sid not in scripts else sid
        if base in scripts:
            r["script_def"] = scripts[base]
    return r
