"""Trace validation of the pin tracker's operation table (extra stage of C05 and C18).

SPEC   OpTracker.tla: the operation table (optracker) and its users in the stateless tracker, one action per
       hook event; exhaustive TLC on small constants for the invariants that express the C05/C18 obligations at
       this level (+ liveness under fairness, + any-client configuration for the optracker API, + a control
       run that shows the invariants are refutable when the transcription guards are off).
RECORD harness/c05_optrace: the repository's OWN tests of pintracker/optracker, pintracker/stateless and
       pintracker (tag verif, VERIF_TRACE_FILE) and a randomized concurrent driver on real stateless.Tracker
       objects; one trace per tracker instance, free-running (no gates, no scripts).
V      OpTrackerTrace.tla: every recorded trace must be a behaviour of OpTracker with every invariant true on
       every state. A trace that breaks an invariant = VIOLATION; a trace that only leaves the transcription
       (re-checked with the guards off, invariants still evaluated) = SPEC-DRIFT (exit 0 by policy).

Call `optrace.run(ctx)` at the end of c05.run / c18.run. Uses the ctx API only.
"""
import json
import os
import re

import vcheck

INVARIANT_TEXT = {
    "OneLivePerCid": "two live (not cancelled, not done/error) operations exist for one CID",
    "LiveIsTracked": "a live operation is not the one the operation table holds for its CID",
    "ReplacedIsCancelled": "an operation was replaced in the table without having been cancelled first",
    "CleanOnlyOwn": "Clean removed an operation other than the one that finished (a newer instruction was lost)",
    "CleanOnlyDone": "Clean removed an operation that was not done",
    "ErrorSticky": "a table entry in phase error was left by something other than a new TrackNewOperation",
    "PhaseForward": "the phase of an operation moved backwards",
    "FullQueueIsError": "an instruction that found its queue full did not end as a cancelled operation in phase error",
    "FullQueueShowsError": "an instruction that found its queue full was cancelled without its error being recorded",
    "TableCid": "the table maps a CID to an operation on another CID",
    "TypeOK": "recorded values outside the specified domains",
    "QueueBound": "a queue holds more operations than its capacity",
    "WorkerBound": "more operations in the hands of workers than there are workers",
}
# the invariants that state the obligations; the others (TypeOK, TableCid, QueueBound, WorkerBound) only say that
# the record is well-formed / follow from the transcription guards: breaking them alone is drift, not a verdict
PROPERTY_INVARIANTS = {"OneLivePerCid", "LiveIsTracked", "ReplacedIsCancelled", "CleanOnlyOwn", "CleanOnlyDone",
                       "ErrorSticky", "PhaseForward", "FullQueueIsError", "FullQueueShowsError"}
MAX_REJECTED = 6


def spec_stage(ctx):
    ctx.tlc("OpTracker.tla", "OpTracker_quick.cfg", workers=8, timeout=900)
    ctx.tlc("OpTracker.tla", "OpTracker_quick2.cfg", workers=4, timeout=900)
    ctx.tlc("OpTracker.tla", "OpTracker_api.cfg", workers=8, timeout=900)
    ctx.tlc("OpTracker.tla", "OpTracker_live.cfg", workers=4, timeout=900)
    r = ctx.tlc("OpTracker.tla", "OpTracker_nonstrict.cfg", workers=1, timeout=600, expect_violation=True, count=False)
    if not r.violation:
        raise vcheck.Infra("control run OpTracker_nonstrict.cfg: with the transcription guards off the property "
                           "predicates of OpTracker are expected to be refutable")
    if not ctx.quick():
        ctx.tlc("OpTracker.tla", "OpTracker_thorough.cfg", workers=12, timeout=3000, heap="8g")
        ctx.tlc("OpTracker.tla", "OpTracker_thorough2.cfg", workers=12, timeout=3000, heap="8g")
        ctx.tlc("OpTracker.tla", "OpTracker_thorough3.cfg", workers=12, timeout=3000, heap="8g")
        ctx.tlc("OpTracker.tla", "OpTracker_api_thorough.cfg", workers=12, timeout=3000, heap="8g")
        ctx.tlc("OpTracker.tla", "OpTracker_live_thorough.cfg", workers=8, timeout=3000, heap="8g")


def read_traces(path):
    """-> list of traces, each a list of raw lines (first line = the reset header)"""
    traces = []
    for ln in open(path):
        if not ln.strip():
            continue
        if ln.startswith('{"') and '"ev":"reset"' in ln.replace(" ", ""):
            traces.append([])
        if not traces:
            raise vcheck.Infra("optrace: trace file does not start with a reset record")
        traces[-1].append(ln if ln.endswith("\n") else ln + "\n")
    return traces


def write_traces(path, traces):
    with open(path, "w") as f:
        for t in traces:
            f.writelines(t)


def reject_line(r):
    """line number (1-based, in the validated file) of the first record that could not be consumed / of the state
    that broke an invariant; None if unknown"""
    ls = re.findall(r'^/\\ l = (-?\d+)', r.out, re.M)
    if ls:
        n = int(ls[-1])
        if n < 0:
            return -n                   # TraceStuck marker: line -l could not be consumed
        return n - 1                    # l is the NEXT line: the state was reached by consuming line l-1
    m = re.search(r'TRACE-REJECT line=",\s*(\d+)', r.out)
    if m:
        return int(m.group(1))
    return None


def invariant_of(r):
    m = re.match(r'Invariant (\w+) is violated', r.violation or "")
    if m and m.group(1) in PROPERTY_INVARIANTS:  # TraceNotStuck: no action matches the next record (not a property)
        return m.group(1)
    return None


def locate(traces, line):
    n = 0
    for k, t in enumerate(traces):
        if line <= n + len(t):
            return k, line - n
        n += len(t)
    return len(traces) - 1, len(traces[-1])


def validate(ctx, traces, label):
    """Validate all traces; returns (accepted, violations, drifts): lists of (trace, detail)."""
    violations, drifts = [], []
    remaining = list(traces)
    accepted = 0
    rounds = 0
    while remaining:
        rounds += 1
        p = os.path.join(ctx.work, "optrace_%s_%d.ndjson" % (label, rounds))
        write_traces(p, remaining)
        ok, r = ctx.validate_trace("OpTrackerTrace.tla", "OpTrackerTrace.cfg", p, len(remaining), deque=False, timeout=1800)
        if ok:
            accepted += len(remaining)
            break
        line = reject_line(r)
        if line is None:
            print(r.out[-3000:])
            raise vcheck.Infra("optrace: trace validation failed without a reject position")
        k, pos = locate(remaining, line)
        bad = remaining[k]
        inv = invariant_of(r)
        if inv is None:
            # stuck under the transcription guards: apply the recorded outcomes as they are, invariants still evaluated
            p1 = os.path.join(ctx.work, "optrace_%s_%d_one.ndjson" % (label, rounds))
            write_traces(p1, [bad])
            ok2, r2 = ctx.validate_trace("OpTrackerTrace.tla", "OpTrackerTrace_perm.cfg", p1, 1, deque=False,
                                         timeout=900, expect_reject=True)
            inv = invariant_of(r2)
            if inv is not None:
                pos2 = reject_line(r2)
                pos = pos2 if pos2 else pos
        detail = {"invariant": inv, "position": pos, "header": json.loads(bad[0]),
                  "stuck_at": json.loads(bad[min(pos, len(bad)) - 1]) if pos >= 1 else None,
                  "lines": [json.loads(x) for x in bad[max(0, pos - 25):pos + 1]]}
        if inv is not None:
            violations.append((bad, detail))
        else:
            drifts.append((bad, detail))
        # the traces before the rejected one were consumed completely with every invariant true
        accepted += k
        ctx.traces_validated += k
        remaining = remaining[k + 1:]
        if len(violations) + len(drifts) >= MAX_REJECTED:
            ctx.log("optrace: %d traces rejected, %d traces left unvalidated" % (MAX_REJECTED, len(remaining)))
            break
    return accepted, violations, drifts


def selftest_binding(ctx, traces):
    """The binding must notice a wrong record: (1) one recorded field corrupted, (2) one event dropped (as if a hook
    were missing). Both copies must be rejected."""
    src = None
    for t in traces:
        evs = [json.loads(x) for x in t]
        if any(e["ev"] == "Clean" and e.get("pre") == e.get("op") for e in evs) and \
                any(e["ev"] == "SetPhase" and e.get("ph") == "inprogress" for e in evs) and len(evs) < 200:
            src = evs
            break
    if src is None:
        raise vcheck.Infra("optrace: no recorded trace with a worker's SetPhase and Clean to self-test the binding on")
    c1 = [dict(e) for e in src]
    j = next(i for i, e in enumerate(c1) if e["ev"] == "Clean" and e.get("pre") == e.get("op"))
    c1[j]["post"] = c1[j]["pre"]                    # Clean logged as "entry kept" while later events show it gone
    c2 = [dict(e) for i, e in enumerate(src)
          if i != next(k for k, e2 in enumerate(src) if e2["ev"] == "SetPhase" and e2.get("ph") == "inprogress")]
    out = []
    for name, c in (("field", c1), ("dropped-event", c2)):
        p = os.path.join(ctx.work, "optrace_selftest_%s.ndjson" % name)
        write_traces(p, [[json.dumps(e) + "\n" for e in c]])
        ok, r = ctx.validate_trace("OpTrackerTrace.tla", "OpTrackerTrace.cfg", p, 1, deque=False, timeout=600, expect_reject=True)
        if ok:
            raise vcheck.Infra("optrace: binding self-test failed: the trace with a %s was accepted" % name)
        out.append("%s rejected at line %s" % (name, reject_line(r)))
    ctx.extra["optrace_binding_selftest"] = "; ".join(out)


def run(ctx, rounds=None):
    ctx.assumptions.append("optrace: every hook event is emitted while the lock that protects the change is held (opt.mu / "
                           "op.mu; Cancel, Shutdown and the channel send are made one step of the event order by the hook), "
                           "so the recorded order is the order in which the changes took effect; a channel receive and its "
                           "Dequeue event are not one step (tolerated: receives of idle workers not yet logged)")
    spec_stage(ctx)
    hook = os.path.join(ctx.repo, "pintracker", "optracker", "verif_on.go")
    if not os.path.exists(hook) or "SetVerifObserver" not in open(hook).read():
        ctx.log("optrace: the operation-table hooks (branch verif-optrace) are absent in %s: recording skipped" % ctx.repo)
        ctx.extra["optrace_traces_total"] = "skipped (hooks absent in VERIF_REPO)"
        return
    trace = os.path.join(ctx.work, "optrace.ndjson")
    env = {"VERIF_TRACE": trace}
    if rounds:
        env["OPTRACE_ROUNDS"] = rounds
    # the root package's cluster tests as trace sources: 3 fast ones (quick) / the pin, recover, replication,
    # peer-removal, rebalance and add tests under crdt and raft (thorough)
    env["OPTRACE_ROOT"] = os.environ.get("OPTRACE_ROOT", ctx.tier)
    dr = ctx.go_test("c05_optrace", run="TestDriver", env=env, timeout=1800 if ctx.quick() else 5400)
    if not os.path.exists(trace) or os.path.getsize(trace) == 0:
        raise vcheck.Infra("optrace: no trace recorded")
    traces = read_traces(trace)
    ctx.log("optrace: %d traces, %d lines (tracker package tests: %s traces; root package cluster tests: %s traces from %s "
            "processes; driver: %s traces)" % (len(traces), sum(len(t) for t in traces), dr.extra.get("optrace_repo_traces"),
                                              dr.extra.get("optrace_root_traces"), dr.extra.get("optrace_root_processes"),
                                              dr.extra.get("optrace_driver_traces")))
    for n in (dr.extra.get("optrace_root_notes") or [])[:8]:
        ctx.log("optrace: note (not a verdict): %s" % str(n)[:300])
    if dr.extra.get("optrace_repo_tests_failed"):
        ctx.log("optrace: note: repository tests failed (their executions are validated all the same): %s" %
                dr.extra["optrace_repo_tests_failed"][:3])
    selftest_binding(ctx, traces)
    accepted, violations, drifts = validate(ctx, traces, "all")
    ctx.extra["optrace_traces_accepted"] = accepted
    ctx.extra["optrace_traces_total"] = len(traces)
    for bad, d in violations:
        ctx.violation("%s:optrace:%s" % (ctx.prop, d["invariant"]),
                      "recorded execution of the operation table (%s, tracker %s): %s [invariant %s of OpTracker.tla, "
                      "at event %d of the trace]" % (d["header"].get("src"), d["header"].get("tr"),
                                                     INVARIANT_TEXT.get(d["invariant"], d["invariant"]), d["invariant"], d["position"]),
                      {"invariant": d["invariant"], "header": d["header"], "at": d["stuck_at"], "events_before": d["lines"]})
    if drifts:
        d = drifts[0][1]
        msg = ("%d recorded executions of the operation table are not behaviours of the transcription OpTracker.tla while "
               "every property predicate holds on them; first: %s trace of tracker %s stuck at event %d: %s" % (
                   len(drifts), d["header"].get("src"), d["header"].get("tr"), d["position"], json.dumps(d["stuck_at"])))
        ctx.extra["optrace_drift"] = msg[:400]
        if not violations:
            raise vcheck.Infra("transcription drift (optrace): " + msg)
        print("SPEC-DRIFT: " + msg, flush=True)
