"""C16 - the IPFS connector reports success only when the daemon reached the asked state.

SPEC  IPFSConnMC: daemon process (go-ipfs-pinner semantics + one scripted behaviour per request) and the
      connector transcribed from ipfshttp.go; every predicate of the statement (SuccessSound, FailureReported,
      NoRedundantRequest, LsTruthful, UnpinIdempotent, StallGivesUp, UpdateOnlyIfRecursive, SourceKept, OriginsBestEffort, CallReturns, CancelPropagates) on every terminal
      state, exhaustively.  Two deliberate "what if" runs show the design-level findings (no trailer check,
      no watchdog on pin/update) as model counterexamples; they only count if the real code follows them.
GEN   TLC prints one script per terminal state of the model (call + prior pin table + behaviour per request).
R     the scripts run on the real ipfshttp.Connector against the scripted HTTP daemon (harness/c16_ipfsconn).
V     IPFSConnTrace: TLC evaluates the predicates on every recorded outcome (verdict) and re-runs the model on
      each script to see whether the recorded outcome is one the transcription explains (drift otherwise).
"""
import json
import os
import random
import re

import tla
import vcheck

HIST = {}      # history number -> its calls (for replay files)
BLOCKING = ("stall", "progStall", "flat", "progForever")
OBEH = ["ok", "ok", "err", "drop", "stall"]


def parse_cases(out):
    cases = []
    for m in re.finditer(r'<<\s*"CASE"', out):
        p = tla._P(out)
        p.i = m.start()
        v = p.value()
        inp, beh = v[1], v[2]
        cases.append(case_of(inp, beh))
    return cases


def case_of(inp, beh):
    return {"op": inp["op"], "mode": inp["mode"], "d": inp["d"], "upd": inp["upd"], "norig": 0, "prior": inp["prior"],
            "pheld": inp["pheld"], "intf": inp["intf"], "cancel": inp["cancel"], "beh": list(beh)}


def parse_histories(out):
    """<<"HIST", <<[inp, behs, t], ...>>>> printed by IPFSConnHist at the end of every history."""
    hs = []
    for m in re.finditer(r'<<\s*"HIST"', out):
        p = tla._P(out)
        p.i = m.start()
        v = p.value()
        calls = []
        for k in v[1]:
            c = case_of(k["inp"], k["behs"])
            c["t"] = k["t"]
            calls.append(c)
        hs.append(calls)
    return hs


def decorate(c, rng, i, origins=None):
    """Concrete choices the model abstracts from: number of origins and how the daemon treats each
    swarm/connect, the depth of a depth-limited pin, which CID version plays target and source."""
    c = dict(c)
    c["id"] = i
    c["norig"] = 0
    c["obeh"] = []
    c["swapv"] = rng.random() < 0.5
    if c["op"] == "pin":
        if origins is None:
            c["norig"] = rng.choice([0, 0, 1, 2, 2, 12]) if rng.random() < 0.6 else 0
        else:
            c["norig"] = rng.choice(origins)
        c["obeh"] = [rng.choice(OBEH) for _ in range(c["norig"])]
    # the daemon hangs on (some of) the swarm/connect requests this pin may send
    c["ohang"] = "stall" in c["obeh"][:10]
    c["nontrivial"] = any(b != "ok" for b in c["beh"]) or c["intf"] != "keep"
    return c


def key_of(pred, rec):
    if pred == "CallReturns":
        return "C16:call:never-returned"
    if pred == "CancelPropagates":
        return "C16:pin:cancel-not-propagated"
    if pred == "OriginsBestEffort":
        return "C16:pin:origins-hang:no-timeout" if rec["in"].get("ohang") else "C16:pin:hangs:no-timeout"
    reqs = rec["out"]["reqs"]
    last = reqs[-1] if reqs else {"ep": "none", "beh": "none"}
    return "C16:%s:%s:%s:%s" % (pred, rec["in"]["op"], last["ep"], last["beh"])


def run(ctx):
    rng = random.Random(ctx.seed)
    ctx.rule = ("script = (operation pin/unpin/pin-ls, mode recursive/direct/depth, update source asked or not, prior "
                "daemon pin state of target and source, external change of the target before the mutating request, one "
                "daemon behaviour per request in arrival order; origins and their swarm/connect behaviours drawn by seed); "
                "all scripts are terminal states of the TLC model; quick = seeded sample, thorough = all; non-trivial = at "
                "least one request is not answered honestly-and-successfully or the target is changed externally; distinct "
                "by abstract script")
    ctx.assumptions = [
        "the scripted daemon follows go-ipfs-pinner v0.1.1 (dspinner Pin/Unpin/Update/IsPinnedWithType) and reports errors "
        "as go-ipfs-cmds v0.6.0 does (500 + JSON body before the first emitted value, X-Stream-Error trailer after it); "
        "its Go code is compared request by request with the daemon process of the specification",
        "time: PinTimeout 250 ms, request timeout 600 ms, unpin timeout 2 s, caller deadline 6 s; a call that ends only through the "
        "caller's deadline is classified as 'hung'; one that has not returned 12 s after that deadline as 'never'; "
        "a cancelling caller cancels 120 ms into the call (after the honest exchanges, before any connector timer)",
        "progress messages of one scripted stream arrive closer together than PinTimeout",
    ]
    # SPEC
    ctx.tlc("IPFSConnMC.tla", "IPFSConnMC.cfg" if ctx.quick() else "IPFSConnMC_thorough.cfg", workers=8, timeout=1800)
    ctx.exhaustive = True
    if not ctx.quick():
        ctx.tlc("IPFSConnMC.tla", "IPFSConnMC_ideal.cfg", workers=8, timeout=1500, count=False)
    for cfg, what in (("IPFSConnMC_nocallerctx.cfg", "requests that do not run under the caller's context never end against a silent daemon"),
                      ("IPFSConnMC_waitorigins.cfg", "waiting for the swarm/connect answers lets a hanging origin hang the pin"),
                      ("IPFSConnMC_ascoded_stall.cfg", "a stalled pin/update is never given up (no watchdog on that path)"),
                      ("IPFSConnMC_notrailer.cfg", "without the X-Stream-Error check a late pin/add error reads as success")):
        r = ctx.tlc("IPFSConnMC.tla", cfg, workers=2, timeout=600, count=False, expect_violation=True)
        if not r.violation:
            raise vcheck.Infra("expected a model counterexample from %s" % cfg)
        ctx.extra.setdefault("design_level_counterexamples", []).append("%s: %s" % (cfg, what))
    # GEN
    r = ctx.tlc("IPFSConnMC.tla", "IPFSConnGen.cfg", workers=1, timeout=1500, count=False)
    allc = parse_cases(r.out)
    if len(allc) < 1000:
        raise vcheck.Infra("script generation produced only %d scripts" % len(allc))
    # a cancellation only matters when it meets a blocked request (which is then the last one)
    allc = [c for c in allc if not c["cancel"] or (c["beh"] and c["beh"][-1] in BLOCKING)]
    allc.sort(key=lambda c: json.dumps(c, sort_keys=True))
    ctx.extra["scripts_in_model"] = len(allc)
    if ctx.quick():
        small = [c for c in allc if (c["op"] != "pin" or not c["upd"]) and not c["cancel"]]
        big = [c for c in allc if c["op"] == "pin" and c["upd"] and not c["cancel"]]
        canc = [c for c in allc if c["cancel"]]
        rng.shuffle(small)
        rng.shuffle(big)
        rng.shuffle(canc)
        # a never-finishing pin/add that nobody cancels costs the whole caller deadline: a few suffice here
        slow = [c for c in small + big if "progForever" in c["beh"]]
        small = [c for c in small if "progForever" not in c["beh"]]
        big = [c for c in big if "progForever" not in c["beh"]]
        chosen = small[:1500] + big[:2600] + canc[:600] + slow[:24]
        cases = [decorate(c, rng, i + 1) for i, c in enumerate(chosen)]
    else:
        # every script of the model, pins once without and once with origins
        cases = []
        for c in allc:
            cases.append(decorate(c, rng, len(cases) + 1, origins=[0]))
            if c["op"] == "pin":
                cases.append(decorate(c, rng, len(cases) + 1, origins=[1, 2, 2, 3, 12]))
    # histories on one Connector (IPFSConnHist: also model-checked, every predicate at the end of every call)
    r = ctx.tlc("IPFSConnHist.tla", "IPFSConnHist.cfg", workers=1, timeout=1500)
    allh = parse_histories(r.out)
    if len(allh) < 100:
        raise vcheck.Infra("history generation produced only %d histories" % len(allh))
    allh.sort(key=lambda h: json.dumps(h, sort_keys=True))
    ctx.extra["histories_in_model"] = len(allh)
    if ctx.quick():
        plain = [h for h in allh if len(h) == 3 and all(b == "ok" for c in h for b in c["beh"])]   # the 24 orders
        rest = [h for h in allh if h not in plain]
        rng.shuffle(rest)
        hists = plain + rest[:120]
    else:
        plain = []
        hists = allh
    nid = len(cases)
    hlines = []
    for hn, h in enumerate(hists):
        calls = []
        for c in h:
            nid += 1
            c = dict(c, id=nid, hist=hn + 1, norig=0, obeh=[], ohang=False, swapv=False, nontrivial=True)
            calls.append(c)
        # the plain orders (and, thorough, some more) run in a process of their own: a Connector that has made
        # no other call before, as in a cluster peer
        cold = (h in plain) if ctx.quick() else (hn % 16 == 0 or len(h) == 3)
        hlines.append({"id": calls[0]["id"], "calls": calls, "cold": cold})
        HIST[hn + 1] = calls
    inp = os.path.join(ctx.work, "c16_cases.ndjson")
    with open(inp, "w") as f:
        for c in cases:
            f.write(json.dumps(c) + "\n")
        for h in hlines:
            f.write(json.dumps(h) + "\n")
    ctx.log("scripts: %d of %d, histories: %d of %d (%d calls)" % (len(cases), len(allc), len(hists), len(allh), nid - len(cases)))
    # R
    trace = os.path.join(ctx.work, "c16_obs.ndjson")
    ctx.go_test("c16_ipfsconn", run="TestDriver", infile=inp, env={"VERIF_TRACE": trace}, timeout=2400)
    validate(ctx, trace)


def validate(ctx, trace):
    verdict = os.path.join(ctx.work, "c16_verdict.ndjson")
    recs = [json.loads(l) for l in open(trace)]
    if not recs:
        raise vcheck.Infra("driver recorded nothing")
    r = tla.run_tlc(ctx.specdir(), "IPFSConnTrace.tla", "IPFSConnTrace.cfg", workers=1, timeout=2400,
                    heap="6g", env_extra={"TRACE_FILE": trace, "VERDICT_FILE": verdict})
    ctx.log("tlc IPFSConnTrace: rc=%s distinct=%d %.1fs" % (r.rc, r.distinct, r.wall))
    if r.timed_out or r.error or r.violation or not os.path.exists(verdict):
        print(r.out[-3000:])
        raise vcheck.Infra("IPFSConnTrace did not complete (%s)" % (r.error or r.violation or "no verdict"))
    v = json.loads(open(verdict).readline())
    if v["n"] != len(recs):
        raise vcheck.Infra("verdict covers %d of %d records" % (v["n"], len(recs)))
    matched = set(int(x) for x in re.findall(r'<<\s*"MATCH",\s*(\d+)\s*>>', r.out))
    bad = {b["i"]: b["broken"] for b in v["bad"]}
    drift = [i for i in range(1, len(recs) + 1) if i not in matched]
    ctx.traces_validated += len([i for i in range(1, len(recs) + 1) if i in matched and i not in bad])
    ctx.extra["outcomes_checked_by_tlc"] = v["n"]
    ctx.extra["transcription_drift"] = len(drift)
    ctx.model_runs.append({"module": "IPFSConnTrace.tla", "cfg": "IPFSConnTrace.cfg", "distinct": r.distinct,
                           "generated": r.generated, "records": len(recs), "wall_s": round(r.wall, 1)})
    for i in sorted(bad):
        rec = recs[i - 1]
        for pred in sorted(bad[i]):
            ctx.violation(key_of(pred, rec), "%s broken: %s on c1 (prior %s) with daemon behaviours %s returned %s, daemon "
                          "holds %s" % (pred, rec["in"]["op"], json.dumps(rec["in"]["prior"]), rec["in"]["beh"],
                                        rec["out"]["res"], json.dumps(rec["out"]["pins"])),
                          dict(rec, history=HIST.get(rec.get("hist"))) if rec.get("hist") else rec)
    drift_only = [i for i in drift if i not in bad]
    if len(drift_only) > max(10, len(recs) // 50):
        print("SPEC-DRIFT examples: %s" % json.dumps([recs[i - 1] for i in drift_only[:3]]), flush=True)
        raise vcheck.Infra("%d of %d recorded outcomes satisfy every property predicate but are not what the transcription "
                           "of ipfshttp.go produces: the specification is out of date with the code (not a verdict)"
                           % (len(drift_only), len(recs)))
    if drift_only:
        print("SPEC-DRIFT: %d recorded outcomes satisfy the property but are not what the transcription of ipfshttp.go "
              "produces (first: %s)" % (len(drift_only), json.dumps([recs[i - 1] for i in drift_only[:3]])), flush=True)
        ctx.extra["drift_examples"] = [recs[i - 1] for i in drift_only[:3]]


def replay(ctx, path):
    j = json.load(open(path))
    case = j.get("case")
    if not case or "in" not in case:
        raise vcheck.Infra("replay file has no recorded script")
    inp = os.path.join(ctx.work, "c16_replay.ndjson")
    if case.get("history"):
        # a call of a history: the whole history runs again on one Connector
        HIST[case.get("hist", 1)] = case["history"]
        open(inp, "w").write(json.dumps({"id": case["history"][0]["id"], "calls": case["history"]}) + "\n")
    else:
        c = dict(case["in"])
        c["id"] = case.get("id", 1)
        c["nontrivial"] = True
        open(inp, "w").write(json.dumps(c) + "\n")
    trace = os.path.join(ctx.work, "c16_obs.ndjson")
    ctx.go_test("c16_ipfsconn", run="TestDriver", infile=inp, env={"VERIF_TRACE": trace}, timeout=600)
    validate(ctx, trace)
