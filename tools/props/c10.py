"""C10 - peer failure or removal re-homes under-replicated pins once and drops none; expiry unpins once.

SPEC  ClusterAPIRepinMC: worlds of MinN..NPEERS members x follower x repinning on/off x survivors' metric states x
      closest-peer assignments x pinsets (all allocation shapes, a pin created by pin-update, sharded content) x
      {one member fails, PeerRemove(t) at p, StateSync everywhere, non-ping alert}; the alert reaches the survivors in
      every order. Invariant: RehomeEpisodeOK / ExpiryEpisodeOK (ExactlyOne, RehomeGood, Untouched, NeverRemoved,
      ExpiryOnce). A second run with RepinRedirect=TRUE (pinned commit) must FAIL; its counterexample is replayed.
GEN   episodes from TLC -simulate on ClusterAPIRepinSim (1..5 quick / 1..8 thorough members) + directed ones.
R     every member is a real Cluster over one shared pinset; the alert is delivered to every survivor (PeerRemove at one,
      StateSync at all); per event the pinset before/after and every peer's LogPin/LogUnpin calls are recorded.
V     TLC (ClusterAPIRepinTrace) evaluates the property per pin and the transcription per event.
"""
import json
import os
import random
import re

import tla
import vcheck

BLOCKS = [["d1", ["s1", "s2"]]]


def entry(c, f, allocs, upd="", exp="f1", name="n1", meta=None, mode="rec"):
    return {"cid": c, "type": "data", "mode": mode, "depth": -1 if mode == "rec" else 0, "rmin": f[0], "rmax": f[1],
            "allocs": allocs, "name": name, "exp": exp, "meta": meta if meta is not None else [["a", "x"]],
            "orig": ["o1"], "ua": [], "upd": upd, "ref": ""}


def world(n, followers=(), norepin=False, bad=(), nonnum=(), getfail=()):
    vals = ["v0", "v1", "v2", "v1", "v0", "v2", "v0", "v1"]
    peers = ["p%d" % i for i in range(1, n + 1)]
    return {"peers": peers, "followers": list(followers), "norepin": norepin, "strat": "asc",
            "ms": dict((p, "bad" if p in bad else ("nonnum" if p in nonnum else vals[i])) for i, p in enumerate(peers)),
            "blocks": BLOCKS, "getfail": list(getfail)}


def directed():
    out = []
    for n in (3, 5):
        for kind in ("fail", "remove"):
            # pin created by pin-update whose source is still pinned elsewhere / is gone
            ps = [entry("c1", (1, 1), ["p2"], name="src", meta=[["b", "x"]]),
                  entry("c4", (1, 1), ["p1"], upd="c1", name="upd", meta=[["a", "y"]]),
                  entry("c5", (1, 2), ["p1"], upd="c9", name="orphan"),
                  entry("c2", (1, 2), ["p1", "p3"]),                      # still meets its minimum
                  entry("c3", (2, 2), ["p1", "p3"], exp="none", meta=[])]  # falls below
            ep = {"kind": kind, "failed": "p1", "at": "p2" if kind == "remove" else ""}
            out.append({"src": "directed", "w": world(n, bad=("p1",) if kind == "fail" else ()), "ep": ep, "ps0": ps})
    # survivors with valid but unrankable (non-numeric) metrics: below-min pins that cannot reach their minimum with
    # rankable peers must stay untouched (never committed empty or below min); with one rankable survivor they move there
    for n, nn in ((3, ("p2", "p3")), (4, ("p2", "p3", "p4")), (4, ("p2", "p3")), (5, ("p3", "p4", "p5"))):
        for kind in ("fail", "remove"):
            ps = [entry("c1", (1, 1), ["p1"]), entry("c2", (2, 2), ["p1", "p2"]), entry("c3", (2, 3), ["p2", "p1"], exp="none"),
                  entry("c4", (1, 2), ["p1", "p3"])]
            ep = {"kind": kind, "failed": "p1", "at": "p2" if kind == "remove" else ""}
            out.append({"src": "directed", "w": world(n, bad=("p1",) if kind == "fail" else (), nonnum=nn), "ep": ep, "ps0": ps})
    # State.Get of a pin fails (read error, not "not found") while its holder fails / is removed: the pin stays exactly
    # as it was, whether it still meets its minimum (c2) or not (c1, c3); the others are handled as usual
    for n in (3, 5):
        for kind in ("fail", "remove"):
            for gf in (["c2"], ["c1"], ["c3", "c2"]):
                ps = [entry("c1", (1, 1), ["p1"]), entry("c2", (1, 2), ["p1", "p3"]), entry("c3", (2, 2), ["p1", "p2"], exp="none"),
                      entry("c4", (1, 2), ["p1"], upd="c2")]
                ep = {"kind": kind, "failed": "p1", "at": "p2" if kind == "remove" else ""}
                out.append({"src": "directed", "w": world(n, bad=("p1",) if kind == "fail" else (), getfail=gf), "ep": ep, "ps0": ps})
    # two removals in a row on rigs with the REAL pubsubmon monitor: the first removed peer has the best metric, so
    # anything that still offers it as a candidate re-homes the second peer's pins onto it
    for n in (3, 4):
        ps = [entry("c1", (1, 1), ["p2"]), entry("c2", (1, 2), ["p2", "p1"]), entry("c3", (2, 2), ["p1", "p2"], exp="none"),
              entry("c4", (1, 1), ["p3"])]
        out.append({"src": "directed", "w": world(n), "ep": {"kind": "remove2", "failed": "p1", "failed2": "p2", "at": "p3"}, "ps0": ps})
        out.append({"src": "directed", "w": world(n), "ep": {"kind": "remove2", "failed": "p2", "failed2": "p1", "at": "p3"}, "ps0": ps})
    # repinning disabled / follower closest / non-ping alert: nothing may change
    ps = [entry("c1", (1, 1), ["p1"]), entry("c2", (2, 2), ["p1", "p2"])]
    out.append({"src": "directed", "w": world(3, norepin=True, bad=("p1",)), "ep": {"kind": "fail", "failed": "p1", "at": ""}, "ps0": ps})
    out.append({"src": "directed", "w": world(3, norepin=True), "ep": {"kind": "remove", "failed": "p1", "at": "p3"}, "ps0": ps})
    out.append({"src": "directed", "w": world(2, followers=("p2",), bad=("p1",)), "ep": {"kind": "fail", "failed": "p1", "at": ""}, "ps0": ps[:1]})
    out.append({"src": "directed", "w": world(3, followers=("p2",)), "ep": {"kind": "remove", "failed": "p1", "at": "p2"}, "ps0": ps})
    out.append({"src": "directed", "w": world(4, bad=("p1",)), "ep": {"kind": "noise", "failed": "p1", "at": ""}, "ps0": ps})
    # expiry
    ps = [entry("c1", (1, 1), ["p1"], exp="past"), entry("c2", (1, 2), ["p2"], exp="f1"), entry("c3", (-1, -1), [], exp="past"),
          entry("c4", (1, 1), ["p3"], exp="none")]
    for n in (1, 3, 6):
        w = world(n)
        pp = [dict(e, allocs=[a for a in e["allocs"] if a in w["peers"]] or (["p1"] if e["rmin"] > 0 else [])) for e in ps]
        out.append({"src": "directed", "w": w, "ep": {"kind": "sync", "failed": "", "at": ""}, "ps0": pp})
    return out


def witness_episode(out):
    ms = list(re.finditer(r'State (\d+):[^\n]*\n(.*?)\n\n', out, re.S))
    if not ms:
        return None
    st = tla.parse_state(ms[-1].group(2))
    w = st["w"]
    w.pop("rank", None)
    w.setdefault("getfail", [])
    return {"src": "witness", "w": w, "ep": st["ep"], "ps0": st["ps0"]}


def generate(ctx):
    eps = []
    r = ctx.tlc("ClusterAPIRepinMC.tla", "ClusterAPIRepinMC_ascoded.cfg", count=False, expect_violation=True, workers=4,
                timeout=1200)
    if not r.violation:
        raise vcheck.Infra("the as-coded configuration (pin() redirecting repins of pin-update pins into PinUpdate) no "
                           "longer violates the invariant in the model: the model lost its sensitivity")
    wit = witness_episode(r.out)
    if not wit:
        raise vcheck.Infra("cannot parse the TLC counterexample of ClusterAPIRepinMC_ascoded")
    eps.append(wit)
    workers = 2
    num = 90 if ctx.quick() else 2000
    cfg = "ClusterAPIRepinSim.cfg" if ctx.quick() else "ClusterAPIRepinSim8.cfg"
    ctx.tlc("ClusterAPIRepinSim.tla", cfg, count=False, workers=workers, timeout=2400,
            simulate="file=c10beh,num=%d" % num, depth=3, seed=ctx.seed)
    behs = tla.read_behaviours(ctx.specdir(), "c10beh")
    for b in behs:
        st = b[-1]["state"]
        if st["stage"] != 1:
            continue
        eps.append({"src": "sim", "w": st["w"], "ep": st["ep"], "ps0": st["ps0"]})
    for f in os.listdir(ctx.specdir()):
        if f.startswith("c10beh_"):
            os.unlink(os.path.join(ctx.specdir(), f))
    ctx.log("simulation produced %d episodes" % len(behs))
    if len(behs) < num:
        raise vcheck.Infra("simulation produced too few episodes")
    eps += directed()
    for i, e in enumerate(eps):
        e["id"] = i + 1
        e["ps0"] = sorted(e["ps0"], key=lambda x: x["cid"])
    return eps


def run(ctx):
    ctx.rule = ("an episode = (peerset of 1..8 real Cluster members over one shared pinset, followers, repinning on/off, "
                "survivors' metrics, pinset, one of: a member fails and every survivor gets the ping alert / PeerRemove(t) at a "
                "member / StateSync at every member / a non-ping alert); episodes come from TLC simulation of "
                "ClusterAPIRepinSim (seeded), directed scripts and the TLC counterexample of the as-coded model; "
                "non-trivial = the failed/removed peer holds at least one pin (or, for StateSync, a pin is expired); "
                "distinct by abstract episode content")
    ctx.assumptions = [
        "all members report the same peerset; follower peers are not trusted by the others (as in a CRDT cluster)",
        "repinning is enabled or disabled cluster-wide within an episode",
        "an expired pin whose holder fails may be left alone (pin() refuses a pin whose expiry is in the past; the next "
        "StateSync removes it)",
        "the closest-peer order is the real blake2b XOR order of the concrete peer IDs and CIDs (seeded); the model check "
        "covers rotations of the peer order per CID",
        "metric states of every member: one of three numeric values, valid but non-numeric (unrankable), or none "
        "(absent / invalid / expired are one class: the real monitor filters them, the scripted one returns nothing); "
        "allocation details are C03's",
    ]
    cfg = "ClusterAPIRepinMC_quick.cfg" if ctx.quick() else "ClusterAPIRepinMC_thorough.cfg"
    if os.environ.get("VERIF_DEV_SKIP_MC"):
        ctx.log("VERIF_DEV_SKIP_MC set: skipping the exhaustive model check")
    else:
        ctx.tlc("ClusterAPIRepinMC.tla", cfg, workers=8 if ctx.quick() else 16, timeout=3000)
        ctx.exhaustive = True
    execute(ctx, generate(ctx))


def execute(ctx, eps):
    inp = os.path.join(ctx.work, "c10_episodes.ndjson")
    with open(inp, "w") as f:
        for e in eps:
            f.write(json.dumps(e) + "\n")
    ctx.log("replaying %d episodes" % len(eps))
    trace = os.path.join(ctx.work, "c10_io.ndjson")
    ctx.go_test("c10_repin", run="TestDriver", infile=inp, env={"VERIF_TRACE": trace}, timeout=3000)
    validate(ctx, trace, eps)


def feature(rec, c):
    e = [x for x in rec["ps0"] if x["cid"] == c]
    if not e:
        return "unknown"
    e = e[0]
    tags = [e["type"]]
    if e["upd"]:
        tags.append("upd-src-pinned" if any(x["cid"] == e["upd"] for x in rec["ps0"]) else "upd-src-gone")
    if e["exp"] == "past":
        tags.append("expired")
    f = rec["ep"]["failed"]
    if f:
        tags.append("held" if f in e["allocs"] else "notheld")
    return ",".join(tags)


def validate(ctx, trace, eps):
    verdict = os.path.join(ctx.work, "c10_verdict.ndjson")
    r = tla.run_tlc(ctx.specdir(), "ClusterAPIRepinTrace.tla", "ClusterAPIRepinTrace.cfg", workers=1, timeout=3000,
                    heap="8g", env_extra={"TRACE_FILE": trace, "VERDICT_FILE": verdict})
    ctx.log("tlc ClusterAPIRepinTrace: rc=%s %.1fs" % (r.rc, r.wall))
    if not os.path.exists(verdict):
        print(r.out[-3000:])
        raise vcheck.Infra("ClusterAPIRepinTrace produced no verdict")
    vs = [json.loads(l) for l in open(verdict)]
    recs = [json.loads(l) for l in open(trace)]
    if len(vs) != len(recs):
        raise vcheck.Infra("verdict covers %d of %d episodes" % (len(vs), len(recs)))
    byid = dict((e["id"], e) for e in eps)
    ndrift = 0
    first_drift = None
    nbad = 0
    ctx.extra["events_checked_by_tlc"] = sum(len(x["events"]) for x in recs)
    ctx.extra["episodes_by_kind"] = dict((k, sum(1 for x in recs if x["ep"]["kind"] == k)) for k in ("fail", "remove", "remove2", "sync", "noise"))
    ctx.extra["max_members"] = max(len(x["w"]["peers"]) for x in recs)
    ctx.extra["rehomed_pins"] = sum(1 for x in recs for a in x["acts"] if a["kind"] == "pin")
    for v, rec in zip(vs, recs):
        if v["id"] != rec["id"]:
            raise vcheck.Infra("verdict/record order mismatch")
        kind = rec["ep"]["kind"]
        bad = False
        if not v["frame"]:
            bad = True
            ctx.violation("C10:%s:frame" % kind, "a pin was removed / a foreign operation was issued during the episode: acts=%s"
                          % json.dumps(rec["acts"]), {"episode": byid.get(rec["id"]), "record": rec})
        for c in sorted(v["badcids"]):
            bad = True
            after = [x for x in rec["psF"] if x["cid"] == c]
            before = [x for x in rec["ps0"] if x["cid"] == c]
            ctx.violation("C10:%s:%s" % (kind, feature(rec, c)),
                          "pin %s: before=%s after=%s acts=%s" % (c, json.dumps(before), json.dumps(after),
                                                                  json.dumps([a for a in rec["acts"] if a["cid"] == c])),
                          {"episode": byid.get(rec["id"]), "cid": c, "record": rec})
        if bad:
            nbad += 1
        elif v["drift"]:
            ndrift += 1
            first_drift = first_drift or (rec, v["drift"])
        else:
            ctx.traces_validated += 1
    ctx.extra["transcription_drift"] = ndrift
    if ndrift:
        rec, d = first_drift
        print("SPEC-DRIFT: %d episodes satisfy the property but not the transcription of alertsHandler/vacatePeer/StateSync "
              "(first: episode %d events %s: %s)" % (ndrift, rec["id"], d, json.dumps(rec["events"][d[0] - 1])[:2500]), flush=True)
        if not nbad:
            raise vcheck.Infra("transcription drift: the specification's repin/expiry transcription is out of date w.r.t. "
                               "the code (property predicates all hold)")


def replay(ctx, path):
    j = json.load(open(path))
    e = (j.get("case") or {}).get("episode")
    if not e:
        raise vcheck.Infra("replay file has no episode")
    ctx.rule = "replay of one stored episode"
    execute(ctx, [e])
    ctx.samples = ctx.samples or [e]
