"""C01 - Raft: every replica's pinset equals the committed pin/unpin sequence.

SPEC  RaftPinsetMC (RestoreMode = "replace", the as-coded setting after the dsstate.Unmarshal fix):
      PrefixInv, CaughtUp, SnapFaithful, AckDurable, TrackerFaithful, Monotonic hold (exhaustive).
      With RestoreMode = "merge" (dsstate.Unmarshal at the pinned commit) TLC violates PrefixInv /
      SnapFaithful; those counterexamples become replay scripts (always included).
GEN   behaviours of RaftPinsetMC: TLC counterexample witnesses, edge tours over the complete state
      graph of a tiny configuration (transition coverage), -simulate random walks (3 peers).
R     seam 1 (harness/c01_fsm): the driver plays hashicorp-raft against the real FSM
      (dsstate + libp2p-raft OpLog + raft.LogOp) step by step; every state compared with TLC's.
V     the events recorded in those runs (apply / install / restart / snapshot / track) are checked
      by RaftPinsetTrace with the invariants evaluated on the real states.
R+V   seam 2/3 (harness/c01_raft): real raft.Consensus peers on loopback libp2p hosts, restarts from
      disk, snapshot installs by real raft, a SIGKILLed child process (needs the verif hooks).
"""
import json
import os
import random
import re

import tla

ASCODED = "replace"

CONSTS = {
    # name: (npeers, ncids, variants, maxlog, snaps, downs, installs)
    "quick": (2, 2, '{"a","b"}', 3, 2, 1, 2),
    "thorough": (2, 2, '{"a","b"}', 4, 2, 2, 2),
    "thorough3": (3, 1, '{"a","b"}', 3, 2, 2, 2),
    "w_install": (2, 2, '{"a","b"}', 4, 1, 0, 1),
    "w_resnap": (2, 2, '{"a"}', 3, 2, 0, 1),
    "w_restart": (2, 2, '{"a","b"}', 4, 1, 1, 0),
    "tour": (2, 1, '{"a"}', 3, 1, 1, 1),
    "tour2": (2, 2, '{"a"}', 2, 1, 1, 1),
    "gen": (3, 2, '{"a","b"}', 6, 3, 3, 3),
}

INVS = ["TypeOK", "PrefixInv", "CaughtUp", "SnapFaithful", "AckDurable", "TrackerFaithful"]


def write_cfg(ctx, name, consts, mode, spec, invariants=(), props=(), view=None, module_prefix="RaftPinsetMC"):
    n, c, v, ml, sn, dn, ins = consts
    lines = ["SPECIFICATION %s" % spec, "CONSTANT NPEERS = %d" % n, "CONSTANT NCIDS = %d" % c,
             "CONSTANT Variants = %s" % v, 'CONSTANT RestoreMode = "%s"' % mode, "CONSTANT MaxLog = %d" % ml,
             "CONSTANT MaxSnaps = %d" % sn, "CONSTANT MaxDowns = %d" % dn, "CONSTANT MaxInstalls = %d" % ins]
    if view:
        lines.append("VIEW %s" % view)
    lines += ["INVARIANT %s" % i for i in invariants]
    lines += ["PROPERTY %s" % p for p in props]
    fn = "%s_%s.cfg" % (module_prefix, name)
    with open(os.path.join(ctx.specdir(), fn), "w") as f:
        f.write("\n".join(lines) + "\n")
    return fn


# ------------------------------------------------------------------ TLC output -> scripts
_STATE = re.compile(r'^State (\d+): <([^>]*)>\n', re.M)


def parse_error_trace(out):
    """States of the counterexample TLC printed on stdout."""
    ms = list(_STATE.finditer(out))
    states = []
    for j, m in enumerate(ms):
        end = ms[j + 1].start() if j + 1 < len(ms) else len(out)
        body = out[m.end():end]
        # the last state is followed by statistics: cut at the first blank line
        body = body.split("\n\n")[0]
        states.append(tla.parse_state(body))
    return states


_SIMSTATE = re.compile(r'^STATE_(\d+) == *\n', re.M)


def read_sim_file(path):
    txt = open(path).read()
    txt = re.sub(r'\n=+\s*$', '\n', txt)
    ms = list(_SIMSTATE.finditer(txt))
    out = []
    for j, m in enumerate(ms):
        end = ms[j + 1].start() if j + 1 < len(ms) else len(txt)
        body = txt[m.end():end]
        body = body.split("\n\n")[0]
        out.append(tla.parse_state(body))
    return out


def read_sims(d, prefix):
    fs = sorted((f for f in os.listdir(d) if re.match(re.escape(prefix) + r'_\d+_\d+$', f)),
                key=lambda f: [int(x) for x in f.split("_")[-2:]])
    return [read_sim_file(os.path.join(d, f)) for f in fs]


def step_of(st):
    last = st["last"]
    s = {"a": last["a"], "p": last["p"], "q": last["q"], "i": last["i"], "call": last["call"],
         "fsm": st["fsm"], "ideal": st["ideal"]["live"], "snapideal": st["ideal"]["snap"], "snap": st["snap"],
         "applied": st["applied"], "inited": st["inited"], "up": st["up"]}
    if last["a"] in ("commit", "apply"):
        s["op"] = st["log"][last["i"] - 1]
    return s


def script_of(states, sid, src, mode):
    st0 = states[0]
    return {"id": sid, "src": src, "mode": mode, "peers": sorted(st0["up"].keys()),
            "cids": sorted(st0["fsm"][sorted(st0["up"].keys())[0]].keys()),
            "steps": [step_of(s) for s in states]}


def trim(states):
    """Cut a random walk after its last step that touches a replica (trailing commits are not replayable news)."""
    n = len(states)
    while n > 1 and states[n - 1]["last"]["a"] == "commit":
        n -= 1
    return states[:n]


# ------------------------------------------------------------------------ stages
def spec_stage(ctx):
    name = "quick" if ctx.quick() else "thorough"
    cfg = write_cfg(ctx, "x_" + name, CONSTS[name], "replace", "MCSpec", INVS, ["Monotonic"], view="View")
    ctx.tlc("RaftPinsetMC.tla", cfg, workers=8 if ctx.quick() else 12, timeout=3000)
    if not ctx.quick():
        cfg = write_cfg(ctx, "x_thorough3", CONSTS["thorough3"], "replace", "MCSpec", INVS, ["Monotonic"], view="View")
        ctx.tlc("RaftPinsetMC.tla", cfg, workers=12, timeout=3000)
    # history-dependent predicates (last/acked are hidden by the VIEW above): small run without a view
    cfg = write_cfg(ctx, "x_noview", CONSTS["tour2"], "replace", "MCSpec", INVS, ["Monotonic"])
    ctx.tlc("RaftPinsetMC.tla", cfg, workers=4, timeout=1200)
    ctx.exhaustive = True


def witness_scripts(ctx):
    """Counterexamples of the merge-style Restore (the design-level finding) as replay scripts."""
    import vcheck
    out = []
    for inv, cn in (("PrefixInv", "w_install"), ("SnapFaithful", "w_resnap")):
        cfg = write_cfg(ctx, "x_merge_" + inv, CONSTS[cn], "merge", "MCSpec", [inv], view="View")
        r = ctx.tlc("RaftPinsetMC.tla", cfg, workers=4, timeout=1200, count=False, expect_violation=True)
        if not r.violation:
            raise vcheck.Infra("TLC no longer finds the merge-style Restore counterexample for %s" % inv)
        states = parse_error_trace(r.out)
        if len(states) < 3:
            raise vcheck.Infra("could not parse the TLC counterexample for %s" % inv)
        out.append((states, "witness:" + inv, "merge"))
    # reachability goals on the as-coded model: an install that has to delete / overwrite entries
    goals = (("NoInstallOverDeleted", "w_install"), ("NoInstallOverChanged", "w_install"), ("NoRestartAfterKillBehind", "w_restart"))
    if ctx.quick():
        goals = goals[1:]      # the merge-mode PrefixInv witness already is an install over a deleted CID
    for goal, cn in goals:
        cfg = write_cfg(ctx, "x_goal_" + goal, CONSTS[cn], ASCODED, "MCSpec", [], [goal], view="View")
        r = ctx.tlc("RaftPinsetMC.tla", cfg, workers=4, timeout=1200, count=False, expect_violation=True)
        if not r.violation:
            raise vcheck.Infra("reachability goal %s is unreachable in the model" % goal)
        out.append((parse_error_trace(r.out), "goal:" + goal, ASCODED))
    return out


def tour_scripts(ctx, rng):
    out = []
    plan = (("tour2", 14, 500),) if ctx.quick() else (("tour", 16, None), ("tour2", 14, None))
    for name, maxlen, maxt in plan:
        cfg = write_cfg(ctx, "x_" + name, CONSTS[name], ASCODED, "GenSpec")
        dot = os.path.join(ctx.specdir(), name + ".dot")
        r = ctx.tlc("RaftPinsetMC.tla", cfg, workers=1, timeout=1200, dump_dot=dot, count=False)
        g = tla.read_dot(dot)
        tours = tla.edge_tours(g, max_len=maxlen, rng=rng, max_tours=maxt)
        nedges = sum(len(v) for v in g.edges.values())
        ctx.log("state graph %s: %d nodes, %d edges -> %d tours" % (name, len(g._raw), nedges, len(tours)))
        ctx.extra.setdefault("tour_graphs", []).append({"cfg": name, "nodes": len(g._raw), "edges": nedges,
                                                         "tours": len(tours), "all_edges_covered": maxt is None or len(tours) < maxt})
        for t in tours:
            out.append(([g.state(n) for (_, n) in t], "tour:" + name, ASCODED))
    return out


def sim_scripts(ctx, n, depth):
    cfg = write_cfg(ctx, "x_gen", CONSTS["gen"], ASCODED, "GenSpec")
    d = ctx.specdir()
    pref = "beh%d" % ctx.seed
    ctx.tlc("RaftPinsetMC.tla", cfg, workers=1, timeout=1800, count=False,
            simulate="file=%s,num=%d" % (os.path.join(d, pref), n), depth=depth, seed=ctx.seed)
    return [(trim(b), "sim", ASCODED) for b in read_sims(d, pref)]


def fsm_seam(ctx, rng):
    import vcheck
    scripts = witness_scripts(ctx)
    scripts += tour_scripts(ctx, rng)
    scripts += sim_scripts(ctx, 300 if ctx.quick() else 6000, 40)
    inp = os.path.join(ctx.work, "c01_scripts.ndjson")
    n = 0
    with open(inp, "w") as f:
        for (states, src, mode) in scripts:
            if len(states) < 2:
                continue
            n += 1
            f.write(json.dumps(script_of(states, n, src, mode)) + "\n")
    ctx.log("generated %d replay scripts (%d witnesses/goals)" % (n, len([s for s in scripts if not s[1].startswith(("tour", "sim"))])))
    trace = os.path.join(ctx.work, "c01_fsm_trace.ndjson")
    dr = ctx.go_test("c01_fsm", run="TestDriver", infile=inp, timeout=3000,
                     env={"VERIF_TRACE": trace, "VERIF_RESTORE_MODE": ASCODED})
    return trace, n, dr


def validate(ctx, trace, label, ntraces, prop="C01", chunk=250000):
    """RaftPinsetTrace: TLC evaluates the C01 invariants on the states the real code reached.
    Large trace files are cut at run boundaries ("reset" lines) and validated piecewise."""
    n = sum(1 for _ in open(trace))
    if n <= chunk:
        return validate_one(ctx, trace, label, ntraces, prop)
    part, k, cur = 0, 0, None
    paths = []
    for line in open(trace):
        if cur is None or (k >= chunk and line.startswith('{') and '"ev":"reset"' in line):
            if cur:
                cur.close()
            part += 1
            k = 0
            paths.append("%s.part%d" % (trace, part))
            cur = open(paths[-1], "w")
        cur.write(line)
        k += 1
    if cur:
        cur.close()
    for i, pth in enumerate(paths):
        validate_one(ctx, pth, "%s_%d" % (label, i + 1), 0, prop)
        os.remove(pth)


def validate_one(ctx, trace, label, ntraces, prop="C01"):
    import vcheck
    verdict = os.path.join(ctx.work, "c01_verdict_%s.ndjson" % label)
    r = tla.run_tlc(ctx.specdir(), "RaftPinsetTrace.tla", "RaftPinsetTrace.cfg", workers=1, timeout=3000, heap="6g",
                    env_extra={"TRACE_FILE": trace, "VERDICT_FILE": verdict})
    ctx.log("tlc RaftPinsetTrace (%s): rc=%s generated=%d %.1fs" % (label, r.rc, r.generated, r.wall))
    if not os.path.exists(verdict):
        print(r.out[-4000:])
        raise vcheck.Infra("RaftPinsetTrace produced no verdict for %s" % label)
    v = json.loads(open(verdict).readline())
    lines = [json.loads(l) for l in open(trace)]
    if v["n"] != len(lines):
        raise vcheck.Infra("verdict covers %d of %d trace lines" % (v["n"], len(lines)))
    badruns = set()
    for b in v["bad"]:
        ln = lines[b["line"] - 1]
        badruns.add(ln.get("run"))
        ctx.violation("%s:trace:%s:%s" % (prop, ln["ev"], b["why"]),
                      "recorded %s event of run %s breaks %s: %s" % (ln["ev"], ln.get("run"), b["why"], json.dumps(ln)),
                      {"trace_line": ln, "run": ln.get("run"), "why": b["why"], "seam": label})
    if v["stuck"]:
        first = v["stuck"][0]
        print("trace line not explained by the specification: %s" % json.dumps(lines[first - 1]))
        raise vcheck.Infra("%d recorded events of %s cannot be matched to any specification action (first: line %d)"
                           % (len(v["stuck"]), label, first))
    ctx.traces_validated += max(0, ntraces - len(badruns))
    ctx.extra["trace_events_checked_by_tlc_" + label] = v["n"]
    ctx.model_runs.append({"module": "RaftPinsetTrace.tla", "cfg": label, "trace_lines": v["n"], "wall_s": round(r.wall, 1)})


def hooks_present(ctx):
    return os.path.exists(os.path.join(ctx.repo, "consensus", "raft", "verif_on.go")) and \
        os.path.exists(os.path.join(ctx.repo, "state", "dsstate", "verif_on.go"))


def run(ctx):
    rng = random.Random(ctx.seed)
    ctx.rule = ("a script is one TLC behaviour of RaftPinsetMC (commit / apply / snapshot / install / shutdown / kill / "
                "restart over 2-3 peers, 1-2 CIDs, 2 pin values per CID concretised by a seeded generator over pin type, "
                "depth, allocations, factors, name, metadata, expiry, update and reference CIDs, CID version); evaluations = "
                "replayed steps; non-trivial = scripts containing a snapshot install or a restart; distinct by abstract content")
    ctx.assumptions = ["hashicorp/raft provides one committed sequence, applies it in order and only installs snapshots "
                       "ahead of a replica (its election/log-matching safety is not re-verified)",
                       "pins carry no Origins (such pins cannot be decoded from the raft log: finding of C08)",
                       "the pinset store is the in-memory datastore ipfs-cluster-service gives to raft",
                       "kill points are between FSM operations (seam 1) and between/inside commits at process level (seam 3), "
                       "not at every fsync"]
    stages = os.environ.get("VERIF_C01_STAGES", "spec,fsm,raft").split(",")   # debugging aid
    if "spec" in stages:
        spec_stage(ctx)
    if "fsm" in stages:
        trace, n, dr = fsm_seam(ctx, rng)
        validate(ctx, trace, "fsm", 0)
    if "raft" in stages:
        raft_seam(ctx)


def raft_seam(ctx):
    """Seam 2: real raft.Consensus peers inside real Clusters (driver shared with C17): writes at leaders and
    followers, peers shut down while entries are committed and restarted from disk (with SnapshotThreshold=1 and
    TrailingLogs=0 real raft then installs a snapshot on the restarted, non-empty replica)."""
    from props import c17
    rng = random.Random(ctx.seed + 17)
    gen_cfg = c17.write_cfg(ctx, "c01gen", 3, 2, 4 if ctx.quick() else 5, 2, 1 if ctx.quick() else 2, check=False)

    def want(steps):
        acts = [s["a"] for s in steps]
        return acts.count("restart") >= 1 and acts.count("pin") + acts.count("unpin") >= 3 and "rm" not in acts and "add" not in acts

    scripts = c17.scripts_from_graph(ctx, rng, gen_cfg, 8 if ctx.quick() else 60, 11, want=want, prop="C01")
    # the design-level counterexample on real raft: a peer holding a CID is down while the CID is
    # unpinned and the leader compacts its log, then comes back
    # AckDurable on the real outcome: submissions at followers while the leader is healthy, while its
    # Consensus RPC endpoint refuses every redirect attempt, and right after it was shut down
    def want_fault(steps):
        acts = [s["a"] for s in steps]
        return any(a in ("fpin", "funpin") for a in acts) and "rm" not in acts and "add" not in acts

    def want_crash(steps):
        acts = [s["a"] for s in steps]
        return any(a in ("cpin", "cunpin") for a in acts) and "rm" not in acts and "add" not in acts

    nf = 3 if ctx.quick() else 20
    for w in (want_fault, want_crash):
        extra = c17.scripts_from_graph(ctx, rng, gen_cfg, nf, 11, want=w, prop="C01")
        for e in extra:
            e["id"] = 2000 + len(scripts)
            scripts.append(e)
    scripts += c17.goal_scripts(ctx, ["NoRestartAfterUnpin", "NoRestartAfterChurn"], (3, 2, 5, 2, 2), "C01", 1000)
    ctx.extra["raft_seam_scripts"] = len(scripts)
    c17.run_member_driver(ctx, scripts, "C01", "c01raft", 8)


def replay(ctx, path):
    j = json.load(open(path))
    d = j.get("driver") or {}
    case = j.get("case") or {}
    if d.get("pkg"):
        ctx.go_test(d["pkg"], run=d.get("run") or None, replay=os.path.abspath(path),
                    env={"VERIF_RESTORE_MODE": ASCODED})
    elif "trace_line" in case:
        print("trace-level violation; recorded event: %s" % json.dumps(case["trace_line"]))
        ctx.violation(j.get("key"), j.get("what"), case)
