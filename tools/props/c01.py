"""C01 - Raft: every replica's pinset equals the committed pin/unpin sequence.

SPEC  RaftPinsetMC (RestoreMode = "replace", the as-coded setting after the dsstate.Unmarshal fix):
      PrefixInv, CaughtUp, SnapFaithful, AckDurable, TrackerFaithful, Monotonic hold (exhaustive).
      With RestoreMode = "merge" (dsstate.Unmarshal at the pinned commit) TLC violates PrefixInv /
      SnapFaithful; those counterexamples become replay scripts (always included).
GEN   behaviours of RaftPinsetMC: TLC counterexample witnesses, edge tours over the complete state
      graph of a tiny configuration (transition coverage), -simulate random walks (3 peers).
R     seam 1 (harness/c01_fsm): the driver plays hashicorp-raft against the real FSM
      (dsstate + libp2p-raft OpLog + raft.LogOp) step by step; every state compared with TLC's.
V     the events recorded in those runs (apply / install / restart / snapshot / track) are checked
      by RaftPinsetTrace with the invariants evaluated on the real states.
R+V   seam 2/3 (harness/c01_raft): real raft.Consensus peers on loopback libp2p hosts, restarts from
      disk, snapshot installs by real raft, a SIGKILLed child process (needs the verif hooks).
"""
import json
import os
import random
import re

import tla

ASCODED = "replace"

CONSTS = {
    # name: (npeers, ncids, variants, maxlog, snaps, downs, installs)
    "quick": (2, 2, '{"a","b"}', 3, 2, 1, 2),
    "thorough": (2, 2, '{"a","b"}', 4, 2, 2, 2),
    "thorough3": (3, 1, '{"a","b"}', 3, 2, 2, 2),
    "w_install": (2, 2, '{"a","b"}', 4, 1, 0, 1),
    "w_resnap": (2, 2, '{"a"}', 3, 2, 0, 1),
    "w_restart": (2, 2, '{"a","b"}', 4, 1, 1, 0),
    "tour": (2, 1, '{"a"}', 3, 1, 1, 1),
    "tour2": (2, 2, '{"a"}', 2, 1, 1, 1),
    "gen": (3, 2, '{"a","b"}', 6, 3, 3, 3),
    "fault": (2, 2, '{"a"}', 3, 1, 1, 1),
    "w_fault": (1, 2, '{"a"}', 3, 0, 0, 0),
}

INVS = ["TypeOK", "PrefixInv", "CaughtUp", "SnapFaithful", "AckDurable", "TrackerFaithful"]


def write_cfg(ctx, name, consts, mode, spec, invariants=(), props=(), view=None, module_prefix="RaftPinsetMC", faults=0):
    n, c, v, ml, sn, dn, ins = consts
    lines = ["SPECIFICATION %s" % spec, "CONSTANT NPEERS = %d" % n, "CONSTANT NCIDS = %d" % c,
             "CONSTANT Variants = %s" % v, 'CONSTANT RestoreMode = "%s"' % mode, "CONSTANT MaxLog = %d" % ml,
             "CONSTANT MaxSnaps = %d" % sn, "CONSTANT MaxDowns = %d" % dn, "CONSTANT MaxInstalls = %d" % ins,
             "CONSTANT MaxFaults = %d" % faults]
    if view:
        lines.append("VIEW %s" % view)
    lines += ["INVARIANT %s" % i for i in invariants]
    lines += ["PROPERTY %s" % p for p in props]
    fn = "%s_%s.cfg" % (module_prefix, name)
    with open(os.path.join(ctx.specdir(), fn), "w") as f:
        f.write("\n".join(lines) + "\n")
    return fn


# ------------------------------------------------------------------ TLC output -> scripts
_STATE = re.compile(r'^State (\d+): <([^>]*)>\n', re.M)


def parse_error_trace(out):
    """States of the counterexample TLC printed on stdout."""
    ms = list(_STATE.finditer(out))
    states = []
    for j, m in enumerate(ms):
        end = ms[j + 1].start() if j + 1 < len(ms) else len(out)
        body = out[m.end():end]
        # the last state is followed by statistics: cut at the first blank line
        body = body.split("\n\n")[0]
        states.append(tla.parse_state(body))
    return states


_SIMSTATE = re.compile(r'^STATE_(\d+) == *\n', re.M)


def read_sim_file(path):
    txt = open(path).read()
    txt = re.sub(r'\n=+\s*$', '\n', txt)
    ms = list(_SIMSTATE.finditer(txt))
    out = []
    for j, m in enumerate(ms):
        end = ms[j + 1].start() if j + 1 < len(ms) else len(txt)
        body = txt[m.end():end]
        body = body.split("\n\n")[0]
        out.append(tla.parse_state(body))
    return out


def read_sims(d, prefix):
    fs = sorted((f for f in os.listdir(d) if re.match(re.escape(prefix) + r'_\d+_\d+$', f)),
                key=lambda f: [int(x) for x in f.split("_")[-2:]])
    return [read_sim_file(os.path.join(d, f)) for f in fs]


def step_of(st):
    last = st["last"]
    s = {"a": last["a"], "p": last["p"], "q": last["q"], "i": last["i"], "call": last["call"],
         "fsm": st["fsm"], "ideal": st["ideal"]["live"], "snapideal": st["ideal"]["snap"], "snap": st["snap"],
         "applied": st["applied"], "inited": st["inited"], "up": st["up"], "broken": st["broken"]}
    if last["a"] in ("commit", "apply", "applyfail"):
        s["op"] = st["log"][last["i"] - 1]
    return s


def script_of(states, sid, src, mode):
    st0 = states[0]
    return {"id": sid, "src": src, "mode": mode, "peers": sorted(st0["up"].keys()),
            "cids": sorted(st0["fsm"][sorted(st0["up"].keys())[0]].keys()),
            "steps": [step_of(s) for s in states]}


def trim(states):
    """Cut a random walk after its last step that touches a replica (trailing commits are not replayable news)."""
    n = len(states)
    while n > 1 and states[n - 1]["last"]["a"] == "commit":
        n -= 1
    return states[:n]


# ------------------------------------------------------------------------ stages
def spec_stage(ctx):
    name = "quick" if ctx.quick() else "thorough"
    cfg = write_cfg(ctx, "x_" + name, CONSTS[name], "replace", "MCSpec", INVS, ["Monotonic"], view="View")
    ctx.tlc("RaftPinsetMC.tla", cfg, workers=8 if ctx.quick() else 12, timeout=3000)
    if not ctx.quick():
        cfg = write_cfg(ctx, "x_thorough3", CONSTS["thorough3"], "replace", "MCSpec", INVS, ["Monotonic"], view="View")
        ctx.tlc("RaftPinsetMC.tla", cfg, workers=12, timeout=3000)
    # apply failures (datastore write error): the served view is an error, never a pinset with a hole
    cfg = write_cfg(ctx, "x_fault", CONSTS["fault"], "replace", "MCSpec", INVS, ["Monotonic"], view="View", faults=1)
    ctx.tlc("RaftPinsetMC.tla", cfg, workers=8, timeout=3000)
    # history-dependent predicates (last/acked are hidden by the VIEW above): small run without a view
    cfg = write_cfg(ctx, "x_noview", CONSTS["tour2"], "replace", "MCSpec", INVS, ["Monotonic"])
    ctx.tlc("RaftPinsetMC.tla", cfg, workers=4, timeout=1200)
    ctx.exhaustive = True


def witness_scripts(ctx):
    """Counterexamples of the merge-style Restore (the design-level finding) as replay scripts."""
    import vcheck
    out = []
    for inv, cn in (("PrefixInv", "w_install"), ("SnapFaithful", "w_resnap")):
        cfg = write_cfg(ctx, "x_merge_" + inv, CONSTS[cn], "merge", "MCSpec", [inv], view="View")
        r = ctx.tlc("RaftPinsetMC.tla", cfg, workers=4, timeout=1200, count=False, expect_violation=True)
        if not r.violation:
            raise vcheck.Infra("TLC no longer finds the merge-style Restore counterexample for %s" % inv)
        states = parse_error_trace(r.out)
        if len(states) < 3:
            raise vcheck.Infra("could not parse the TLC counterexample for %s" % inv)
        out.append((states, "witness:" + inv, "merge"))
    # reachability goals on the as-coded model: an install that has to delete / overwrite entries
    goals = (("NoInstallOverDeleted", "w_install"), ("NoInstallOverChanged", "w_install"), ("NoRestartAfterKillBehind", "w_restart"))
    if ctx.quick():
        goals = goals[1:]      # the merge-mode PrefixInv witness already is an install over a deleted CID
    for goal, cn in goals:
        cfg = write_cfg(ctx, "x_goal_" + goal, CONSTS[cn], ASCODED, "MCSpec", [], [goal], view="View")
        r = ctx.tlc("RaftPinsetMC.tla", cfg, workers=4, timeout=1200, count=False, expect_violation=True)
        if not r.violation:
            raise vcheck.Infra("reachability goal %s is unreachable in the model" % goal)
        out.append((parse_error_trace(r.out), "goal:" + goal, ASCODED))
    return out


def tour_scripts(ctx, rng):
    out = []
    plan = (("tour2", 14, 500),) if ctx.quick() else (("tour", 16, None), ("tour2", 14, None))
    for name, maxlen, maxt in plan:
        cfg = write_cfg(ctx, "x_" + name, CONSTS[name], ASCODED, "GenSpec")
        dot = os.path.join(ctx.specdir(), name + ".dot")
        r = ctx.tlc("RaftPinsetMC.tla", cfg, workers=1, timeout=1200, dump_dot=dot, count=False)
        g = tla.read_dot(dot)
        tours = tla.edge_tours(g, max_len=maxlen, rng=rng, max_tours=maxt)
        nedges = sum(len(v) for v in g.edges.values())
        ctx.log("state graph %s: %d nodes, %d edges -> %d tours" % (name, len(g._raw), nedges, len(tours)))
        ctx.extra.setdefault("tour_graphs", []).append({"cfg": name, "nodes": len(g._raw), "edges": nedges,
                                                         "tours": len(tours), "all_edges_covered": maxt is None or len(tours) < maxt})
        for t in tours:
            out.append(([g.state(n) for (_, n) in t], "tour:" + name, ASCODED))
    return out


def sim_scripts(ctx, n, depth):
    cfg = write_cfg(ctx, "x_gen", CONSTS["gen"], ASCODED, "GenSpec", faults=1)
    d = ctx.specdir()
    pref = "beh%d" % ctx.seed
    ctx.tlc("RaftPinsetMC.tla", cfg, workers=1, timeout=1800, count=False,
            simulate="file=%s,num=%d" % (os.path.join(d, pref), n), depth=depth, seed=ctx.seed)
    return [(trim(b), "sim", ASCODED) for b in read_sims(d, pref)]


def fsm_seam(ctx, rng):
    import vcheck
    scripts = witness_scripts(ctx)
    scripts += tour_scripts(ctx, rng)
    scripts += sim_scripts(ctx, 300 if ctx.quick() else 6000, 40)
    inp = os.path.join(ctx.work, "c01_scripts.ndjson")
    n = 0
    with open(inp, "w") as f:
        for (states, src, mode) in scripts:
            if len(states) < 2:
                continue
            n += 1
            f.write(json.dumps(script_of(states, n, src, mode)) + "\n")
    ctx.log("generated %d replay scripts (%d witnesses/goals)" % (n, len([s for s in scripts if not s[1].startswith(("tour", "sim"))])))
    trace = os.path.join(ctx.work, "c01_fsm_trace.ndjson")
    dr = ctx.go_test("c01_fsm", run="TestDriver", infile=inp, timeout=3000,
                     env={"VERIF_TRACE": trace, "VERIF_RESTORE_MODE": ASCODED})
    return trace, n, dr


def validate(ctx, trace, label, ntraces, prop="C01", chunk=250000):
    """RaftPinsetTrace: TLC evaluates the C01 invariants on the states the real code reached.
    Large trace files are cut at run boundaries ("reset" lines) and validated piecewise."""
    n = sum(1 for _ in open(trace))
    if n <= chunk:
        return validate_one(ctx, trace, label, ntraces, prop)
    part, k, cur = 0, 0, None
    paths = []
    for line in open(trace):
        if cur is None or (k >= chunk and line.startswith('{') and '"ev":"reset"' in line):
            if cur:
                cur.close()
            part += 1
            k = 0
            paths.append("%s.part%d" % (trace, part))
            cur = open(paths[-1], "w")
        cur.write(line)
        k += 1
    if cur:
        cur.close()
    for i, pth in enumerate(paths):
        validate_one(ctx, pth, "%s_%d" % (label, i + 1), 0, prop)
        os.remove(pth)


def run_trace_tlc(ctx, trace, label):
    """Run RaftPinsetTrace on one NDJSON file; returns (verdict record, parsed lines, TLC result)."""
    import vcheck
    verdict = os.path.join(ctx.work, "c01_verdict_%s.ndjson" % label)
    if os.path.exists(verdict):
        os.remove(verdict)
    r = tla.run_tlc(ctx.specdir(), "RaftPinsetTrace.tla", "RaftPinsetTrace.cfg", workers=1, timeout=3000, heap="6g",
                    env_extra={"TRACE_FILE": trace, "VERDICT_FILE": verdict})
    ctx.log("tlc RaftPinsetTrace (%s): rc=%s generated=%d %.1fs" % (label, r.rc, r.generated, r.wall))
    if not os.path.exists(verdict):
        print(r.out[-4000:])
        raise vcheck.Infra("RaftPinsetTrace produced no verdict for %s" % label)
    v = json.loads(open(verdict).readline())
    lines = [json.loads(l) for l in open(trace)]
    if v["n"] != len(lines):
        raise vcheck.Infra("verdict covers %d of %d trace lines" % (v["n"], len(lines)))
    return v, lines, r


def validate_one(ctx, trace, label, ntraces, prop="C01"):
    import vcheck
    v, lines, r = run_trace_tlc(ctx, trace, label)
    badruns = set()
    for b in v["bad"]:
        ln = lines[b["line"] - 1]
        badruns.add(ln.get("run"))
        ctx.violation("%s:trace:%s:%s" % (prop, ln["ev"], b["why"]),
                      "recorded %s event of run %s breaks %s: %s" % (ln["ev"], ln.get("run"), b["why"], json.dumps(ln)),
                      {"trace_line": ln, "run": ln.get("run"), "why": b["why"], "seam": label})
    if v["stuck"]:
        first = v["stuck"][0]
        print("trace line not explained by the specification: %s" % json.dumps(lines[first - 1]))
        raise vcheck.Infra("SPEC-DRIFT: %d recorded events of %s cannot be matched to any specification action (first: line %d)"
                           % (len(v["stuck"]), label, first))
    ctx.traces_validated += max(0, ntraces - len(badruns))
    ctx.extra["trace_events_checked_by_tlc_" + label] = v["n"]
    ctx.model_runs.append({"module": "RaftPinsetTrace.tla", "cfg": label, "trace_lines": v["n"], "wall_s": round(r.wall, 1)})
    return v


# ------------------------------------------------ the repository's own tests as validated traces
RAFT_PKG = "github.com/ipfs/ipfs-cluster/consensus/raft"
RAFT_TESTS = ["TestConsensusPin", "TestConsensusUnpin", "TestConsensusUpdate", "TestConsensusAddPeer",
              "TestConsensusRmPeer", "TestConsensusLeader", "TestRaftLatestSnapshot"]
ROOT_PKG = "github.com/ipfs/ipfs-cluster"
ROOT_TESTS = ["TestClustersPin", "TestClustersPeerAdd", "TestClustersPeerJoin", "TestClustersPeerRemoveReallocsPins"]


def observer_present(ctx):
    for rel in ("consensus/raft/verif_on.go", "state/dsstate/verif_on.go"):
        fn = os.path.join(ctx.repo, rel)
        if not os.path.exists(fn) or "VERIF_TRACE_FILE" not in open(fn).read():
            return False
    return True


def build_test_binary(ctx, pkg, name):
    import subprocess
    import vcheck
    out = os.path.join(ctx.work, name + ".test")
    cmd = ["go", "test", "-c", "-modfile=" + ctx.modfile(), "-tags", "verif", "-vet=off", "-o", out, pkg]
    cp = subprocess.run(cmd, cwd=os.path.join(ctx.verif, "harness"), env=ctx.goenv(), stdout=subprocess.PIPE,
                        stderr=subprocess.STDOUT, timeout=1800)
    if cp.returncode != 0 or not os.path.exists(out):
        print(cp.stdout.decode("utf-8", "replace")[-3000:])
        raise vcheck.Infra("cannot build the test binary of %s" % pkg)
    return out


def run_repo_tests(ctx, binary, tests, label, extra_args=(), par=4, timeout=600):
    """Each test in its own process and scratch working directory (the tests create their raft folders
    relative to the cwd), with VERIF_TRACE_FILE set: returns {test: raw trace path}."""
    import subprocess
    import vcheck
    out = {}
    pending = list(tests)
    running = []
    failed = []
    while pending or running:
        while pending and len(running) < par:
            t = pending.pop(0)
            cwd = os.path.join(ctx.work, "repotest_%s_%s" % (label, t))
            os.makedirs(cwd, exist_ok=True)
            tr = os.path.join(ctx.work, "repotest_%s_%s.ndjson" % (label, t))
            env = ctx.goenv()
            env["VERIF_TRACE_FILE"] = tr
            logf = open(os.path.join(cwd, "output.log"), "w")
            pr = subprocess.Popen([binary, "-test.count=1", "-test.timeout=%ds" % timeout, "-test.run", "^%s$" % t] + list(extra_args),
                                  cwd=cwd, env=env, stdout=logf, stderr=subprocess.STDOUT)
            running.append((t, pr, tr, cwd, logf))
        for item in list(running):
            t, pr, tr, cwd, logf = item
            try:
                pr.wait(timeout=1)
            except subprocess.TimeoutExpired:
                continue
            running.remove(item)
            logf.close()
            if pr.returncode != 0:
                failed.append((t, open(os.path.join(cwd, "output.log")).read()[-1500:]))
            else:
                out[t] = tr
    if failed:
        print(failed[0][1])
        raise vcheck.Infra("the repository's own test %s failed (not a verdict of this check)" % failed[0][0])
    return out


def convert_repo_trace(raw, run_id):
    """Raw observer lines (concrete peer ids / CIDs / pin digests, per-process seq order) -> RaftPinsetTrace events."""
    if not os.path.exists(raw):
        return []
    evs = [json.loads(l) for l in open(raw)]
    evs.sort(key=lambda e: (e.get("pid", 0), e["seq"]))
    peers, cids, vals, store_peer = {}, {}, {"none": "none"}, {}

    def name(tab, key, pref):
        if key not in tab:
            tab[key] = "%s%d" % (pref, len(tab) + (0 if pref == "v" else 1))
        return tab[key]
    for e in evs:
        if e["ev"] == "Apply":
            name(peers, e["p"], "p")
            store_peer[e.get("store")] = peers[e["p"]]
        for c in (e.get("st") or {}):
            name(cids, c, "c")
        if "cid" in e:
            name(cids, e["cid"], "c")
    if not evs:
        return []

    def pinset(st):
        out = {c: "none" for c in cids.values()}
        for c, d in (st or {}).items():
            out[cids[c]] = name(vals, d, "v")
        return out
    lines = [{"ev": "reset", "run": run_id, "peers": sorted(peers.values()), "cids": sorted(cids.values()),
              "up": sorted(peers.values())}]
    nsnap = 0
    for e in evs:
        if e.get("err"):
            raise ValueError("observer could not list the state: %s" % e["err"])
        if e["ev"] == "Apply":
            st = pinset(e.get("st"))
            c = cids[e["cid"]]
            lines.append({"ev": "apply", "run": run_id, "p": peers[e["p"]], "k": e["k"], "cid": c, "v": st[c],
                          "want": name(vals, e["want"], "v") if e["k"] == "pin" else "none", "st": st, "inited": True})
        elif e["ev"] == "Unmarshal":
            p = store_peer.get(e.get("store"))
            if p:
                lines.append({"ev": "install", "run": run_id, "p": p, "st": pinset(e.get("st")), "inited": True})
            else:       # a state outside any consensus component (OfflineState / LastStateRaw readers)
                nsnap += 1
                lines.append({"ev": "snapshot", "run": run_id, "p": "reader%d" % nsnap, "st": pinset(e.get("st"))})
    return lines


def repo_tests_stage(ctx):
    """The executions of the repository's own raft tests, recorded by the default observer of the verif hooks,
    must be explainable by RaftPinsetTrace with every property predicate true."""
    import vcheck
    if not observer_present(ctx):
        ctx.log("default trace observer (VERIF_TRACE_FILE) absent in %s: repository-test traces skipped" % ctx.repo)
        ctx.extra["repo_test_traces"] = "skipped (observer absent in VERIF_REPO)"
        return
    raws = run_repo_tests(ctx, build_test_binary(ctx, RAFT_PKG, "raftpkg"), RAFT_TESTS, "raft", par=4)
    if not ctx.quick():
        raws.update(run_repo_tests(ctx, build_test_binary(ctx, ROOT_PKG, "rootpkg"), ROOT_TESTS, "root",
                                   extra_args=["-consensus", "raft", "-loglevel", "CRITICAL", "-npins", "30"], par=2, timeout=900))
    trace = os.path.join(ctx.work, "c01_repotests_trace.ndjson")
    per_test = {}
    all_lines = []
    for k, t in enumerate(sorted(raws)):
        try:
            lines = convert_repo_trace(raws[t], 5000 + k)
        except ValueError as ex:
            raise vcheck.Infra("%s: %s" % (t, ex))
        per_test[t] = len(lines)
        all_lines += lines
    with_events = [t for t, n in per_test.items() if n > 1]
    ctx.extra["repo_test_traces"] = per_test
    if not with_events:
        raise vcheck.Infra("the repository tests produced no Apply/Unmarshal event: hooks not compiled in?")
    with open(trace, "w") as f:
        for ln in all_lines:
            f.write(json.dumps(ln) + "\n")
    validate_one(ctx, trace, "repotests", len(with_events))
    # ---- self-test of the binding: a corrupted field and a dropped event must be rejected
    applies = [i for i, ln in enumerate(all_lines) if ln["ev"] == "apply" and ln["k"] == "pin"]
    multi = [i for i in applies if any(j > i and all_lines[j]["ev"] == "apply" and all_lines[j]["run"] == all_lines[i]["run"]
                                       and all_lines[j]["p"] == all_lines[i]["p"] and all_lines[j]["cid"] != all_lines[i]["cid"]
                                       for j in applies)]
    if not applies or not multi:
        raise vcheck.Infra("self-test of the trace binding impossible: no suitable recorded events")
    mutants = []
    corrupted = [dict(ln) for ln in all_lines]
    i = applies[-1]
    corrupted[i] = dict(corrupted[i], st=dict(corrupted[i]["st"], **{corrupted[i]["cid"]: "none"}))
    mutants.append(("field-corrupted", corrupted))
    mutants.append(("event-dropped", [ln for j, ln in enumerate(all_lines) if j != multi[0]]))
    for label, ls in mutants:
        pth = os.path.join(ctx.work, "c01_repotests_%s.ndjson" % label)
        with open(pth, "w") as f:
            for ln in ls:
                f.write(json.dumps(ln) + "\n")
        v, _, _ = run_trace_tlc(ctx, pth, "selftest_" + label)
        if not v["bad"]:
            raise vcheck.Infra("self-test failed: the %s trace was accepted by RaftPinsetTrace" % label)
    ctx.extra["repo_test_trace_selftest"] = "corrupted field and dropped event both rejected"
    if len(ctx.samples) < 8:
        ctx.samples.append({"repository_tests_validated": with_events, "events": len(all_lines)})


def hooks_present(ctx):
    return os.path.exists(os.path.join(ctx.repo, "consensus", "raft", "verif_on.go")) and \
        os.path.exists(os.path.join(ctx.repo, "state", "dsstate", "verif_on.go"))


def run(ctx):
    rng = random.Random(ctx.seed)
    ctx.rule = ("a script is one TLC behaviour of RaftPinsetMC (commit / apply / snapshot / install / shutdown / kill / "
                "restart over 2-3 peers, 1-2 CIDs, 2 pin values per CID concretised by a seeded generator over pin type, "
                "depth, allocations, factors, name, metadata, expiry, update and reference CIDs, CID version); evaluations = "
                "replayed steps; non-trivial = scripts containing a snapshot install or a restart; distinct by abstract content")
    ctx.assumptions = ["hashicorp/raft provides one committed sequence, applies it in order and only installs snapshots "
                       "ahead of a replica (its election/log-matching safety is not re-verified)",
                       "pins carry no Origins (such pins cannot be decoded from the raft log: finding of C08)",
                       "the pinset store is the in-memory datastore ipfs-cluster-service gives to raft",
                       "kill points are between FSM operations (seam 1) and between/inside commits at process level (seam 3), "
                       "not at every fsync"]
    stages = os.environ.get("VERIF_C01_STAGES", "spec,fsm,raft,served,gate,repotests,crash").split(",")   # debugging aid
    if "spec" in stages:
        spec_stage(ctx)
    if "fsm" in stages:
        trace, n, dr = fsm_seam(ctx, rng)
        validate(ctx, trace, "fsm", 0)
    if "raft" in stages:
        raft_seam(ctx)
    if "served" in stages:
        served_stage(ctx)
    if "gate" in stages:
        gate_stage(ctx)
    if "repotests" in stages:
        repo_tests_stage(ctx)
    if "crash" in stages:
        # seam 3: SIGKILL of a child process hosting a real single-peer raft.Consensus (RaftCrash.tla)
        from props import c01crash
        c01crash.run(ctx)


def served_cases_of(states):
    """One behaviour of RaftPinsetMC on a single peer -> the applied operations with their fail flags and
    the prefix results TLC computed (ideal.live after the step that consumed entry n)."""
    ops, prefixes = [], None
    for st in states:
        last = st["last"]
        if prefixes is None:
            prefixes = [st["ideal"]["live"]["p1"]]
        if last["a"] in ("apply", "applyfail") and last["p"] == "p1" and last["i"] == len(ops) + 1:
            e = st["log"][last["i"] - 1]
            ops.append({"k": e["k"], "cid": e["cid"], "v": e["v"], "fail": last["a"] == "applyfail"})
            prefixes.append(st["ideal"]["live"]["p1"])
    return ops, prefixes


def served_stage(ctx):
    """Every pinset a peer serves is a prefix result, also after an apply failed (datastore write error)."""
    import vcheck
    consts = (1, 2, '{"a","b"}', 4, 0, 0, 0)
    behaviours = []
    for goal in ("NoVisibleHole", "NoApplyAfterFault"):
        cfg = write_cfg(ctx, "x_goal_" + goal, CONSTS["w_fault"], ASCODED, "MCSpec", [], [goal], view="View", faults=1)
        r = ctx.tlc("RaftPinsetMC.tla", cfg, workers=2, timeout=1200, count=False, expect_violation=True)
        if not r.violation:
            raise vcheck.Infra("reachability goal %s is unreachable in the model" % goal)
        behaviours.append(parse_error_trace(r.out))
    cfg = write_cfg(ctx, "x_gen_fault", consts, ASCODED, "GenSpec", faults=1)
    pref = "fbeh%d" % ctx.seed
    ctx.tlc("RaftPinsetMC.tla", cfg, workers=1, timeout=1800, count=False,
            simulate="file=%s,num=%d" % (os.path.join(ctx.specdir(), pref), 60 if ctx.quick() else 600), depth=12, seed=ctx.seed)
    behaviours += read_sims(ctx.specdir(), pref)
    cases, seen = [], set()
    for states in behaviours:
        ops, prefixes = served_cases_of(states)
        fails = [i for i, o in enumerate(ops) if o["fail"]]
        if not fails or fails[0] == len(ops) - 1:
            continue        # interesting: something is applied after the failed entry
        key = json.dumps(ops)
        if key in seen:
            continue
        seen.add(key)
        # the hole is visible when the store TLC predicts equals no prefix result (and something was served before)
        visible = fails[0] >= 1 and states[-1]["fsm"]["p1"] not in prefixes
        cases.append({"id": len(cases) + 1, "cids": sorted(prefixes[0].keys()), "ops": ops, "prefixes": prefixes,
                      "visible": visible})
    cases.sort(key=lambda c: not c["visible"])
    cases = cases[:8 if ctx.quick() else 80]
    for k, c in enumerate(cases):
        c["id"] = k + 1
    if not any(c["visible"] for c in cases):
        raise vcheck.Infra("no behaviour in which the failed apply leaves a visible hole was generated")
    if not cases:
        raise vcheck.Infra("no behaviour with an apply after a failed apply was generated")
    inp = os.path.join(ctx.work, "c01_served_cases.ndjson")
    with open(inp, "w") as f:
        for c in cases:
            f.write(json.dumps(c) + "\n")
    ctx.go_test("c17_member", run="TestServedView", infile=inp, timeout=900,
                tags="verif,verifhooks" if hooks_present(ctx) else "verif")
    ctx.extra["served_view_cases"] = {"cases": len(cases), "hole_visible_in_model": len([c for c in cases if c["visible"]])}


def gate_present(ctx):
    fn = os.path.join(ctx.repo, "consensus", "raft", "verif_on.go")
    return os.path.exists(fn) and "VerifGate" in open(fn).read()


def gate_stage(ctx):
    """commit() on the leader against a concurrent Shutdown(): the step model RaftCommitGate is checked by TLC,
    every path through its state graph is classified by where Shutdown falls relative to the leader check and the
    lock, and each class is forced on a real peer through the gate hook; TLC's final state is the expectation."""
    import vcheck
    if not (hooks_present(ctx) and gate_present(ctx)):
        ctx.log("gate hook (consensus/raft VerifGate) absent in %s: commit-vs-shutdown schedules skipped" % ctx.repo)
        ctx.extra["commit_gate"] = "skipped (gate hook absent in VERIF_REPO)"
        return
    dot = os.path.join(ctx.specdir(), "gate.dot")
    ctx.tlc("RaftCommitGate.tla", "RaftCommitGate.cfg", workers=2, timeout=600, dump_dot=dot)
    r = ctx.tlc("RaftCommitGate.tla", "RaftCommitGate_guard.cfg", workers=1, timeout=600, count=False, expect_violation=True)
    if not r.violation:
        raise vcheck.Infra("TLC no longer refutes the break-with-nil shutdown guard in RaftCommitGate")
    g = tla.read_dot(dot)
    tours = tla.edge_tours(g, max_len=12, rng=random.Random(ctx.seed))
    classes = {}
    for t in tours:
        labs = [g.state(n)["last"] for (_, n) in t][1:]
        fin = g.state(t[-1][1])
        if fin["pcC"] != "done" or fin["pcS"] != "done":
            continue
        pos = {l: i for i, l in enumerate(labs)}
        if pos["c.check"] > pos["s.stop"]:
            cls = "S1"
        elif "c.lock" in pos and pos["c.lock"] > pos["s.lock"]:
            cls = "S2"
        else:
            cls = "S3"
        classes.setdefault(cls, (labs, fin["result"], fin["committed"]))
    if set(classes) != {"S1", "S2", "S3"}:
        raise vcheck.Infra("the tours of RaftCommitGate do not cover the three schedule classes: %s" % sorted(classes))
    cases = []
    reps = 1 if ctx.quick() else 4
    for cls in sorted(classes):
        labs, res, com = classes[cls]
        for kind in ("pin", "unpin"):
            for _ in range(reps):
                cases.append({"id": len(cases) + 1, "cls": cls, "kind": kind, "tour": labs, "result": res, "committed": com})
    inp = os.path.join(ctx.work, "c01_gate_cases.ndjson")
    with open(inp, "w") as f:
        for c in cases:
            f.write(json.dumps(c) + "\n")
    trace = os.path.join(ctx.work, "c01_gate_trace.ndjson")
    ctx.go_test("c17_member", run="TestCommitGate", infile=inp, timeout=900, tags="verif,verifhooks,verifgate",
                env={"VERIF_TRACE": trace, "VERIF_PAR": 6})
    if os.path.exists(trace) and os.path.getsize(trace) > 0:
        validate_one(ctx, trace, "gate", 0)
    ctx.extra["commit_gate"] = {c: classes[c][1] for c in sorted(classes)}


def raft_seam(ctx):
    """Seam 2: real raft.Consensus peers inside real Clusters (driver shared with C17): writes at leaders and
    followers, peers shut down while entries are committed and restarted from disk (with SnapshotThreshold=1 and
    TrailingLogs=0 real raft then installs a snapshot on the restarted, non-empty replica)."""
    import vcheck
    from props import c17
    rng = random.Random(ctx.seed + 17)
    gen_cfg = c17.write_cfg(ctx, "c01gen", 3, 2, 4 if ctx.quick() else 5, 2, 1 if ctx.quick() else 2, check=False)

    def want(steps):
        acts = [s["a"] for s in steps]
        return acts.count("restart") >= 1 and acts.count("pin") + acts.count("unpin") >= 3 and "rm" not in acts and "add" not in acts

    scripts = c17.scripts_from_graph(ctx, rng, gen_cfg, 8 if ctx.quick() else 60, 11, want=want, prop="C01")
    # the design-level counterexample on real raft: a peer holding a CID is down while the CID is
    # unpinned and the leader compacts its log, then comes back
    # AckDurable on the real outcome: submissions at followers while the leader is healthy, while its
    # Consensus RPC endpoint refuses every redirect attempt, and right after it was shut down
    def want_fault(steps):
        acts = [s["a"] for s in steps]
        return any(a in ("fpin", "funpin") for a in acts) and "rm" not in acts and "add" not in acts

    def want_crash(steps):
        acts = [s["a"] for s in steps]
        return any(a in ("cpin", "cunpin") for a in acts) and "rm" not in acts and "add" not in acts

    for w, nf in ((want_fault, 3 if ctx.quick() else 20), (want_crash, 8 if ctx.quick() else 40)):
        extra = c17.scripts_from_graph(ctx, rng, gen_cfg, nf, 11, want=w, prop="C01")
        for e in extra:
            e["id"] = 2000 + len(scripts)
            scripts.append(e)
    # commit_retries = 0 / 1 (accepted by Config.Validate) at every peer of some scripts that write at the
    # leader and at a follower: the retry loops must still run once
    both = [sc for sc in scripts if any(st["a"] in ("pin", "unpin") and st["at"] == "p1" for st in sc["steps"])
            and any(st["a"] in ("pin", "unpin") and st["at"] != "p1" for st in sc["steps"])]
    if not both:
        raise vcheck.Infra("no seam-2 script writes at both the leader and a follower")
    rng.shuffle(both)
    for k, sc in enumerate(both[:2 if ctx.quick() else 12]):
        sc["retries"] = 0 if k % 2 == 0 else 1
        sc["leaderless"] = k % 2 == 0
    ctx.extra["raft_seam_commit_retries_0_scripts"] = len(both[:2 if ctx.quick() else 12][0::2])
    scripts += c17.goal_scripts(ctx, ["NoRestartAfterUnpin", "NoRestartAfterChurn"], (3, 2, 5, 2, 2), "C01", 1000)
    ctx.extra["raft_seam_scripts"] = len(scripts)
    c17.run_member_driver(ctx, scripts, "C01", "c01raft", 8)


def replay(ctx, path):
    j = json.load(open(path))
    d = j.get("driver") or {}
    case = j.get("case") or {}
    if d.get("pkg"):
        tags = "verif"
        if d["pkg"] == "c17_member":
            tags += ",verifhooks" if hooks_present(ctx) else ""
            tags += ",verifgate" if gate_present(ctx) and d.get("run") == "TestCommitGate" else ""
        ctx.go_test(d["pkg"], run=d.get("run") or None, replay=os.path.abspath(path), tags=tags,
                    env={"VERIF_RESTORE_MODE": ASCODED, "VERIF_PROP": "C01", "VERIF_PAR": 1})
    elif "trace_line" in case:
        print("trace-level violation; recorded event: %s" % json.dumps(case["trace_line"]))
        ctx.violation(j.get("key"), j.get("what"), case)
