"""C05 - each peer's IPFS pinset converges to what the shared pinset assigns to it."""
from props import tracker_common as tc


def run(ctx):
    ctx.rule = ("scripts = TLC-simulated behaviours of Tracker.tla (Eager) over 2-3 CIDs, K in {1,2} pin workers, "
                "queue size in {1,2}: track (local recursive/direct, remote, meta) / untrack / recover / recover-all "
                "interleaved with apply / fail / return of in-flight daemon calls; evaluations = replayed actions; "
                "non-trivial = script contains a cancel-and-replace of a queued or in-flight operation, a daemon "
                "failure, a full queue or a recover; distinct by action sequence")
    ctx.assumptions = ["daemon model: a call takes effect atomically between start and return and never after its "
                       "context was cancelled (spec/Tracker.tla header)",
                       "pin/unpin semantics at the IPFSConnector boundary as in go-ipfs-pinner v0.1.1 + the connector "
                       "(checked separately by C16)",
                       "which worker runs an operation is not observable: comparison is on the projection "
                       "(daemon pins, Status, StatusAll, in-flight calls, returned error)"]
    tc.pipeline(ctx, ["converge", "recover", "nodrop"])
    e2e(ctx)
    # free-running executions (the repository's own tracker tests + a random concurrent driver) recorded through
    # the operation-table hooks and validated against the step-level spec OpTracker.tla
    from props import optrace
    optrace.run(ctx)


def e2e(ctx):
    """Composition (spec/Cluster.tla): TLC-simulated operation sequences on 3 real Cluster peers (real allocator,
    real tracker, real ipfshttp connector, mock IPFS daemon over HTTP), final states judged by TLC."""
    import json, os
    import tla, vcheck
    from props import tracker_common as tc2
    ctx.tlc("Cluster.tla", "Cluster_mc_quick.cfg", workers=12, timeout=2400)
    ctx.tlc("Cluster.tla", "Cluster_live.cfg", workers=8, timeout=2400)
    # named deviation (DESIGN.md 9.5): raft hands each applied entry to the tracker on its own goroutine; with
    # unordered hand-off the composition's promise is refuted by TLC (pin c; unpin c delivered as untrack, track)
    r = ctx.tlc("Cluster.tla", "Cluster_unordered.cfg", workers=2, timeout=600, expect_violation=True, count=False)
    if not r.violation:
        raise vcheck.Infra("Cluster_unordered.cfg is expected to refute E2EInv")
    if not ctx.quick():
        # three operations with one daemon outage (10.9 M distinct states, ~5 min)
        ctx.tlc("Cluster.tla", "Cluster_mc.cfg", workers=12, timeout=3600)
        # two CIDs: PinUpdate and cross-CID repinning are reachable (11.5 M distinct states, ~10 min)
        ctx.tlc("Cluster.tla", "Cluster_mc2.cfg", workers=12, timeout=3600)
    n = 18 if ctx.quick() else 150
    ctx.tlc("Cluster.tla", "Cluster_sim.cfg", count=False, workers=1, timeout=1200,
            simulate="file=e2e,num=%d" % n, depth=40, seed=ctx.seed * 17 + 5)
    scripts = []
    for k, beh in enumerate(tla.read_behaviours(ctx.specdir(), "e2e")):
        acts = []
        for st in beh[1:]:
            a = st["state"]["act"]
            if a["name"] in ("Pin", "Unpin", "PeerFail", "PinUpdate", "PinExpiring", "StateSyncAll", "IpfsDown", "IpfsHeal", "RecoverAll"):
                acts.append(a)
        if acts:
            # every third script runs against daemons that hold each pin/add for 150 ms (in-flight calls are then
            # overtaken by later instructions and must be abandoned when their operation is cancelled)
            scripts.append({"id": "e%d" % k, "peers": ["p1", "p2", "p3"], "cids": ["c1", "c2", "c3"], "acts": acts,
                            "slow": 150 if k % 3 == 1 else 0, "reset": k % 2 == 0})
    # directed behaviours of Cluster.tla for the overtaking cases (every API-level sequence is a behaviour of the
    # module): an instruction arrives while the previous pin/add of the same CID is still in flight at slow daemons
    def P(at, c, rmin, rmax, mode="rec"):
        return {"name": "Pin", "at": at, "cid": c, "mode": mode, "rmin": rmin, "rmax": rmax}
    def U(at, c):
        return {"name": "Unpin", "at": at, "cid": c}
    directed = [
        [P("p1", "c1", -1, -1), U("p2", "c1")],
        [P("p1", "c1", -1, -1), U("p2", "c1"), P("p3", "c1", -1, -1)],
        [P("p1", "c1", -1, -1), U("p1", "c1"), P("p1", "c2", 2, 3), U("p2", "c2")],
        [P("p1", "c1", 2, 3), P("p2", "c1", 1, 1), U("p3", "c1")],
        [P("p2", "c3", -1, -1), U("p2", "c3"), P("p2", "c3", 1, 2), U("p1", "c3"), P("p1", "c3", -1, -1)],
    ]
    S = {"name": "Settle"}
    def D(p):
        return {"name": "IpfsDown", "p": p}
    def H(p):
        return {"name": "IpfsHeal", "p": p}
    # instructions carried out while a daemon is down: every kind of instruction (pin, unpin, move away) meets an outage
    outage = [
        [P("p1", "c1", -1, -1), S, D("p2"), U("p1", "c1"), S, H("p2")],
        [D("p2"), P("p1", "c1", -1, -1), S, H("p2")],
        [P("p1", "c1", -1, -1), P("p1", "c2", -1, -1), S, D("p3"), U("p2", "c1"), P("p2", "c3", -1, -1), S, H("p3"), S, U("p1", "c2")],
        [P("p1", "c1", 2, 3), S, D("p1"), D("p2"), U("p3", "c1"), S, H("p1"), H("p2")],
    ]
    for k, acts in enumerate(outage):
        for reset in (False, True):     # the outage answers IPFS-style 500s / drops the connections
            scripts.append({"id": "o%d%s" % (k, "r" if reset else ""), "peers": ["p1", "p2", "p3"], "cids": ["c1", "c2", "c3"],
                            "acts": acts, "slow": 0, "reset": reset})
    for k, acts in enumerate(directed):
        for slow in (120, 400):
            scripts.append({"id": "d%d-%d" % (k, slow), "peers": ["p1", "p2", "p3"], "cids": ["c1", "c2", "c3"],
                            "acts": acts, "slow": slow})
    inp = os.path.join(ctx.work, "e2e_scripts.ndjson")
    with open(inp, "w") as f:
        for sc in scripts:
            f.write(json.dumps(sc) + "\n")
    trace = os.path.join(ctx.work, "e2e_obs.ndjson")
    ctx.go_test("c05_e2e", run="TestDriver", infile=inp, env={"VERIF_TRACE": trace}, timeout=3000)
    verdict = os.path.join(ctx.work, "e2e_verdict.ndjson")
    r = tla.run_tlc(ctx.specdir(), "ClusterObs.tla", "ClusterObs.cfg", workers=1, timeout=1200,
                    env_extra={"TRACE_FILE": trace, "VERDICT_FILE": verdict})
    ctx.log("tlc ClusterObs: rc=%s %.1fs" % (r.rc, r.wall))
    if not os.path.exists(verdict):
        print(r.out[-3000:])
        raise vcheck.Infra("ClusterObs produced no verdict")
    v = json.loads(open(verdict).readline())
    recs = [json.loads(l) for l in open(trace)]
    ctx.extra["e2e_final_states_judged_by_tlc"] = v["n"]
    ctx.traces_validated += v["n"] - len(set(v["e2e"]) | set(v["alloc"]) | set(v.get("expiry", [])))
    for i in v["e2e"]:
        ctx.violation("C05:e2e:daemon-differs-from-assignment", "end-to-end: after everything settled a live peer's daemon does "
                      "not hold exactly the pins the shared pinset assigns to it", recs[i - 1])
    for i in v.get("expiry", []):
        ctx.violation("C05:e2e:expiry", "end-to-end: after a StateSync round an expired pin is still in the pinset, or it was "
                      "unpinned by more than one peer / by none", recs[i - 1])
    for i in v["alloc"]:
        ctx.violation("C05:e2e:stored-allocation", "end-to-end: a stored pin has an empty or over-max allocation list", recs[i - 1])
    for i in v["stuck"][:1]:
        ctx.violation("C05:recover:direct-over-recursive", "end-to-end run reached the tolerated direct-over-recursive class", recs[i - 1])


def replay(ctx, path):
    ctx.rule = "replay of one stored script"
    tc.replay_script(ctx, path, ["converge", "recover", "nodrop"])
