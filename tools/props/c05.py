"""C05 - each peer's IPFS pinset converges to what the shared pinset assigns to it."""
from props import tracker_common as tc


def run(ctx):
    ctx.rule = ("scripts = TLC-simulated behaviours of Tracker.tla (Eager) over 2-3 CIDs, K in {1,2} pin workers, "
                "queue size in {1,2}: track (local recursive/direct, remote, meta) / untrack / recover / recover-all "
                "interleaved with apply / fail / return of in-flight daemon calls; evaluations = replayed actions; "
                "non-trivial = script contains a cancel-and-replace of a queued or in-flight operation, a daemon "
                "failure, a full queue or a recover; distinct by action sequence")
    ctx.assumptions = ["daemon model: a call takes effect atomically between start and return and never after its "
                       "context was cancelled (spec/Tracker.tla header)",
                       "pin/unpin semantics at the IPFSConnector boundary as in go-ipfs-pinner v0.1.1 + the connector "
                       "(checked separately by C16)",
                       "which worker runs an operation is not observable: comparison is on the projection "
                       "(daemon pins, Status, StatusAll, in-flight calls, returned error)"]
    tc.pipeline(ctx, ["converge", "recover", "nodrop"])
